#!/usr/bin/env python3
"""Run /repo's pinned baseline and compare with /root/.vp/BASELINE.json stable_pass.
usage: baseline.py [repo_dir]   exit 0 iff every stable_pass test passes."""
import json, subprocess, sys, tempfile, os, xml.etree.ElementTree as ET
repo = sys.argv[1] if len(sys.argv) > 1 else "/repo"
base = json.load(open("/root/.vp/BASELINE.json"))
with tempfile.TemporaryDirectory() as td:
    xmlf = os.path.join(td, "j.xml")
    env = dict(os.environ); env.pop("PYAUTOARRAY_VERIF", None)
    subprocess.run(["/venv/bin/python", "-m", "pytest", "-q", "-p", "no:cacheprovider", "--timeout=900",
                    "--continue-on-collection-errors", "--junitxml=" + xmlf], cwd=repo, env=env,
                   stdout=subprocess.DEVNULL, stderr=subprocess.DEVNULL)
    root = ET.parse(xmlf).getroot()
passed = set()
for tc in root.iter("testcase"):
    bad = any(ch.tag in ("failure", "error", "skipped") for ch in tc)
    if not bad:
        passed.add(tc.get("classname") + "::" + tc.get("name"))
missing = [t for t in base["stable_pass"] if t not in passed]
print("stable_pass:", len(base["stable_pass"]), "passed now:", len(passed), "missing:", len(missing))
for m in missing: print("  NOT PASSING:", m)
sys.exit(1 if missing else 0)
