(* C06 -- mapping matrices conserve flux and encode the claimed interpolation.
   Executable model of
     over_sample_util.slim_index_for_sub_slim_index_via_mask_2d_from        [slim_for_sub]
     OverSamplerUniform.sub_fraction                                        [sub_fractions]
     mapper_util.mapping_matrix_from                                        [mapping_matrix]
     mapper_util.data_slim_to_pixelization_unique_from                      [unique_from]
     Mesh2DRectangular.overlay_grid (extent, pixel scales, origin)          [overlay]
     geometry_util.central_scaled_coordinate_2d_from,
       grid_pixel_centres_2d_slim_from, grid_pixel_indexes_2d_slim_from     [pixel_index]
     MapperRectangular.pix_sub_weights                                      [rect_psw]
     mapper_util.pix_indexes_for_sub_slim_index_delaunay_from               [del_mappings]
     mesh_util.delaunay_triangle_area_from, mapper_util.pixel_weights_delaunay_from [tri_area, del_weights]
     mesh_util.rectangular_neighbors_from (its six helper loops)            [rect_neighbors]
     Mesh2DDelaunay.neighbors (CSR -> padded array)                         [del_neighbors]
   and of the independent specification (cell containment by comparisons, signed barycentric
   coordinates, block partition of the sub-pixels, 4-adjacency, edge sets of the simplices).
   scipy.spatial.Delaunay (simplices, find_simplex, vertex_neighbor_vertices) is an ORACLE: its
   outputs are inputs of the model, and [spec_ok] checks its contract on every case.
   Points are (y, x) pairs.  Index arrays are over Z (the code pads with -1).  No proofs here. *)
From Coq Require Import ZArith List Bool QArith Qabs.
From PAV Require Import Base.Res Base.Check Base.NumOps Base.Sum.
Import ListNotations.
Local Open Scope Z_scope.

Definition mask := list (list bool).          (* true = masked *)
Definition count_unmasked (m : mask) : nat := length (filter negb (concat m)).
Definition nthZ (l : list Z) (k : nat) : Z := nth k l (-1).
Definition rangeZ (a b : Z) : list Z := map (fun i => a + Z.of_nat i) (seq 0 (Z.to_nat (b - a))).
Definition maxN (l : list nat) : nat := fold_left Nat.max l 0%nat.
Definition maxZ0 (l : list Z) : Z := fold_left Z.max l 0.

(* numpy integer indexing of an axis of length n: negative indices wrap once, anything else raises *)
Definition np_index (i : Z) (n : nat) : option nat :=
  if (0 <=? i) && (i <? Z.of_nat n) then Some (Z.to_nat i)
  else if (- Z.of_nat n <=? i) && (i <? 0) then Some (Z.to_nat (i + Z.of_nat n))
  else None.

(* ---------------- slim_index_for_sub_slim_index_via_mask_2d_from ----------------
   double loop over the mask with the running counters slim_index / sub_slim_index; every unmasked
   pixel emits its slim index sub x sub times (the two inner loops) *)
Fixpoint sfs_row (r : list bool) (subs : list nat) (slim : nat) : list nat * nat :=
  match r with
  | [] => ([], slim)
  | b :: t =>
      if b then sfs_row t subs slim
      else let sub := nth slim subs 0%nat in
           let '(l, s') := sfs_row t subs (S slim) in
           (concat (repeat (repeat slim sub) sub) ++ l, s')
  end.
Fixpoint sfs_rows (m : mask) (subs : list nat) (slim : nat) : list nat :=
  match m with
  | [] => []
  | r :: t => let '(l, s') := sfs_row r subs slim in l ++ sfs_rows t subs s'
  end.
Definition slim_for_sub (m : mask) (subs : list nat) : list nat := sfs_rows m subs 0%nat.

(* specification side: the sub-pixels of data pixel i are the block [offset i, offset i + sub_i^2) *)
Definition sq_n (s : nat) : nat := (s * s)%nat.
Fixpoint offset (subs : list nat) (i : nat) : nat :=
  match i, subs with
  | S j, s :: t => (sq_n s + offset t j)%nat
  | _, _ => 0%nat
  end.
Definition block (subs : list nat) (i : nat) : list nat := seq (offset subs i) (sq_n (nth i subs 0%nat)).
Definition total_sub (subs : list nat) : nat := offset subs (length subs).

Fixpoint upd_row {A} (M : list A) (i : nat) (f : A -> A) : list A :=
  match M, i with
  | [], _ => []
  | r :: t, O => f r :: t
  | r :: t, S j => r :: upd_row t j f
  end.

Section Model.
  Context {O : NumOps}.
  Notation T := (T O).
  Definition pt := (T * T)%type.
  Definition mat := list (list T).
  Definition mget (M : mat) (i j : nat) : T := nth j (nth i M []) zero.
  Definition mzeros (n p : nat) : mat := repeat (zeros p) n.

  (* OverSamplerUniform.sub_fraction = 1.0 / sub_size ** 2 *)
  Definition sub_fractions (subs : list nat) : list T := map (fun s => div O one (ofNat (sq_n s))) subs.

  (* ---------------- mapping_matrix_from ----------------
     for sub_slim_index: slim = slim_for_sub[sub]; for pix_count in range(size[sub]):
        M[slim][mappings[sub, pix_count]] += sub_fraction[slim] * weights[sub, pix_count] *)
  Definition mm_entries (mappings : list (list Z)) (sizes : list nat) (weights : list (list T))
             (sfs : list nat) (sub_fraction : list T) : list (nat * Z * T) :=
    flat_map (fun s =>
        let slim := nth s sfs 0%nat in
        map (fun k => (slim, nthZ (nth s mappings []) k,
                       mul O (nth slim sub_fraction zero) (nth k (nth s weights []) zero)))
            (seq 0 (nth s sizes 0%nat)))
      (seq 0 (length sfs)).
  Definition mat_add (M : mat) (i j : nat) (v : T) : mat := upd_row M i (fun r => upd_add r j v).
  Fixpoint mm_apply (es : list (nat * Z * T)) (N P : nat) (M : mat) : res mat :=
    match es with
    | [] => Ok M
    | (i, p, v) :: t =>
        if (i <? N)%nat then
          match np_index p P with
          | Some j => mm_apply t N P (mat_add M i j v)
          | None => Raise IndexError
          end
        else Raise IndexError
    end.
  Definition mapping_matrix (mappings : list (list Z)) (sizes : list nat) (weights : list (list T))
             (pixels total_mask_pixels : nat) (sfs : list nat) (sub_fraction : list T) : res mat :=
    mm_apply (mm_entries mappings sizes weights sfs sub_fraction) total_mask_pixels pixels
             (mzeros total_mask_pixels pixels).

  (* ---------------- data_slim_to_pixelization_unique_from ----------------
     per data pixel: pix_check (slot of each source pixel seen so far, -1 = not seen), the row of
     distinct source pixels, the row of summed weights, the running pix_size *)
  Record ustate := { pix_check : list Z; urow : list Z; wrow : list T; psize : nat }.
  Definition ustep (frac : T) (P : nat) (st : res ustate) (pw : Z * T) : res ustate :=
    match st with
    | Raise e => Raise e
    | Ok st =>
        match np_index (fst pw) P with
        | None => Raise IndexError
        | Some j =>
            let c := nth j (pix_check st) (-1) in
            if c >? -1                                   (* pix_check[pix] > -0.5 *)
            then Ok {| pix_check := pix_check st; urow := urow st;
                       wrow := upd_add (wrow st) (Z.to_nat c) (mul O frac (snd pw)); psize := psize st |}
            else Ok {| pix_check := upd_set (pix_check st) j (Z.of_nat (psize st));
                       urow := upd_set (urow st) (psize st) (fst pw);
                       wrow := upd_add (wrow st) (psize st) (mul O frac (snd pw));
                       psize := S (psize st) |}
        end
    end.
  (* the (pix, weight) pairs visited for one data pixel: for ip_sub in range(start, start + sub^2):
     for k in range(sizes[ip_sub]) *)
  Definition sub_entries (mappings : list (list Z)) (sizes : list nat) (weights : list (list T))
             (start n : nat) : list (Z * T) :=
    flat_map (fun s => map (fun k => (nthZ (nth s mappings []) k, nth k (nth s weights []) zero))
                           (seq 0 (nth s sizes 0%nat))) (seq start n).
  Fixpoint uq_rows (mappings : list (list Z)) (sizes : list nat) (weights : list (list T))
           (P width : nat) (subs : list nat) (start : nat) : res (list (list Z * list T * nat)) :=
    match subs with
    | [] => Ok []
    | sub :: t =>
        let frac := div O one (ofNat (sq_n sub)) in        (* 1.0 / sub_size ** 2.0 *)
        let init := Ok {| pix_check := repeat (-1) P; urow := repeat (-1) width; wrow := zeros width;
                          psize := 0%nat |} in
        match fold_left (ustep frac P) (sub_entries mappings sizes weights start (sq_n sub)) init with
        | Raise e => Raise e
        | Ok st =>
            match uq_rows mappings sizes weights P width t (start + sq_n sub)%nat with
            | Raise e => Raise e
            | Ok rest => Ok ((urow st, wrow st, psize st) :: rest)
            end
        end
    end.
  Definition unique_from (mappings : list (list Z)) (sizes : list nat) (weights : list (list T))
             (pix_pixels : nat) (subs : list nat) : res (list (list Z * list T * nat)) :=
    let width := (maxN sizes * sq_n (maxN subs))%nat in    (* max_pix_mappings * np.max(sub_size) ** 2 *)
    uq_rows mappings sizes weights pix_pixels width subs 0%nat.

  (* ---------------- Mesh2DRectangular.overlay_grid ---------------- *)
  Definition minL (l : list T) : T := match l with [] => zero | x :: t => fold_left minT t x end.
  Definition maxL (l : list T) : T := match l with [] => zero | x :: t => fold_left maxT t x end.
  Record rmesh := { shape0 : Z; shape1 : Z; ps0 : T; ps1 : T; origin0 : T; origin1 : T }.
  Definition overlay (shape : Z * Z) (grid : list pt) (buffer : T) : rmesh :=
    let y_min := sub O (minL (map fst grid)) buffer in
    let y_max := add O (maxL (map fst grid)) buffer in
    let x_min := sub O (minL (map snd grid)) buffer in
    let x_max := add O (maxL (map snd grid)) buffer in
    {| shape0 := fst shape; shape1 := snd shape;
       ps0 := div O (sub O y_max y_min) (ofZ O (fst shape));
       ps1 := div O (sub O x_max x_min) (ofZ O (snd shape));
       origin0 := div O (add O y_max y_min) two;
       origin1 := div O (add O x_max x_min) two |}.

  (* ---------------- grid_pixel_indexes_2d_slim_from (via grid_pixel_centres_2d_slim_from and
     central_scaled_coordinate_2d_from); python int() = trunc ---------------- *)
  Definition centres_scaled (g : rmesh) : T * T :=
    (add O (div O (ofZ O (shape0 g - 1)) two) (div O (origin0 g) (ps0 g)),
     sub O (div O (ofZ O (shape1 g - 1)) two) (div O (origin1 g) (ps1 g))).
  Definition pixel_rc (g : rmesh) (p : pt) : Z * Z :=
    let c := centres_scaled g in
    (trunc (add O (add O (div O (opp O (fst p)) (ps0 g)) (fst c)) half),
     trunc (add O (add O (div O (snd p) (ps1 g)) (snd c)) half)).
  Definition pixel_index (g : rmesh) (p : pt) : Z :=
    let rc := pixel_rc g p in fst rc * shape1 g + snd rc.

  (* MapperRectangular.pix_sub_weights: one mapping of weight 1 per sub-pixel *)
  Definition rect_psw (g : rmesh) (grid : list pt) : list (list Z) * list nat * list (list T) :=
    (map (fun p => [pixel_index g p]) grid, map (fun _ => 1%nat) grid, map (fun _ => [one]) grid).

  (* ---------------- Delaunay ---------------- *)
  (* mesh_util.delaunay_triangle_area_from *)
  Definition tri_area (c0 c1 c2 : pt) : T :=
    let x1 := fst c0 in let y1 := snd c0 in
    let x2 := fst c1 in let y2 := snd c1 in
    let x3 := fst c2 in let y3 := snd c2 in
    mul O half (absT (sub O (sub O (sub O (add O (add O (mul O x1 y2) (mul O x2 y3)) (mul O x3 y1))
                                              (mul O x2 y1)) (mul O x3 y2)) (mul O x1 y3))).
  Definition sqdist (a b : pt) : T := add O (sq (sub O (fst a) (fst b))) (sq (sub O (snd a) (snd b))).
  (* np.argmin: first index of the minimum *)
  Fixpoint argmin_from (l : list T) (i best : nat) (bv : T) : nat :=
    match l with
    | [] => best
    | v :: t => if ltb O v bv then argmin_from t (S i) i v else argmin_from t (S i) best bv
    end.
  Definition argmin (l : list T) : nat := match l with [] => 0%nat | v :: t => argmin_from t 1%nat 0%nat v end.

  (* pix_indexes_for_sub_slim_index_delaunay_from: rows of 3, padded with -1; sizes = entries >= 0 *)
  Definition del_mappings (grid : list pt) (simplex_for : list Z) (simplices : list (list Z))
             (points : list pt) : list (list Z) * list nat :=
    let rows := map (fun ps : pt * Z =>
        if snd ps =? -1
        then [Z.of_nat (argmin (map (fun v => sqdist v (fst ps)) points)); -1; -1]
        else nth (Z.to_nat (snd ps)) simplices [-1; -1; -1]) (combine grid simplex_for) in
    (rows, map (fun r => length (filter (fun v => 0 <=? v) r)) rows).

  (* pixel_weights_delaunay_from *)
  Definition vertex (mesh : list pt) (row : list Z) (k : nat) : pt := nth (Z.to_nat (nthZ row k)) mesh (zero, zero).
  Definition del_weight_row (mesh : list pt) (p : pt) (row : list Z) : list T :=
    if negb (nthZ row 1 =? -1) then
      let a0 := tri_area (vertex mesh row 1) (vertex mesh row 2) p in
      let a1 := tri_area (vertex mesh row 0) (vertex mesh row 2) p in
      let a2 := tri_area (vertex mesh row 0) (vertex mesh row 1) p in
      let norm := add O (add O a0 a1) a2 in
      [div O a0 norm; div O a1 norm; div O a2 norm]
    else [one; zero; zero].
  Definition del_weights (grid : list pt) (mesh : list pt) (mappings : list (list Z)) : list (list T) :=
    map (fun pr => del_weight_row mesh (fst pr) (snd pr)) (combine grid mappings).

  (* ---------------- specification: weights ---------------- *)
  (* rectangular: half-open cell (r, c) of a mesh given by its top edge, left edge, cell height and width,
     by comparisons only:  top - (r+1) h < y <= top - r h   and   left + c w <= x < left + (c+1) w *)
  Record cellgeom := { g_top : T; g_left : T; g_h : T; g_w : T; g_n1 : Z }.
  Definition cell_contains (cg : cellgeom) (r c : Z) (p : pt) : bool :=
    ltb O (sub O (g_top cg) (mul O (ofZ O (r + 1)) (g_h cg))) (fst p)
    && leb O (fst p) (sub O (g_top cg) (mul O (ofZ O r) (g_h cg)))
    && leb O (add O (g_left cg) (mul O (ofZ O c) (g_w cg))) (snd p)
    && ltb O (snd p) (add O (g_left cg) (mul O (ofZ O (c + 1)) (g_w cg))).
  Definition rect_weight (cg : cellgeom) (p : pt) (pix : nat) : T :=
    let r := Z.of_nat pix / g_n1 cg in let c := Z.of_nat pix mod g_n1 cg in
    if cell_contains cg r c p then one else zero.
  (* the mesh the property speaks of: shape[0] x shape[1] equal cells covering the extent of the grid widened by
     the buffer on every side *)
  Definition geom_of_extent (shape : Z * Z) (grid : list pt) (buffer : T) : cellgeom :=
    let top := add O (maxL (map fst grid)) buffer in let bottom := sub O (minL (map fst grid)) buffer in
    let left := sub O (minL (map snd grid)) buffer in let right := add O (maxL (map snd grid)) buffer in
    {| g_top := top; g_left := left; g_h := div O (sub O top bottom) (ofZ O (fst shape));
       g_w := div O (sub O right left) (ofZ O (snd shape)); g_n1 := snd shape |}.
  (* the same from a mesh's (shape, pixel scales, origin) *)
  Definition geom_of_mesh (g : rmesh) : cellgeom :=
    {| g_top := add O (origin0 g) (div O (mul O (ofZ O (shape0 g)) (ps0 g)) two);
       g_left := sub O (origin1 g) (div O (mul O (ofZ O (shape1 g)) (ps1 g)) two);
       g_h := ps0 g; g_w := ps1 g; g_n1 := shape1 g |}.

  (* Delaunay: signed doubled areas (no absolute value) and the barycentric coordinates they give *)
  Definition cross (a b c : pt) : T :=      (* 2 * signed area of (a, b, c) *)
    sub O (mul O (sub O (fst b) (fst a)) (sub O (snd c) (snd a))) (mul O (sub O (snd b) (snd a)) (sub O (fst c) (fst a))).
  Definition bary (v0 v1 v2 p : pt) : T * T * T :=
    let d := cross v0 v1 v2 in
    (div O (cross p v1 v2) d, div O (cross v0 p v2) d, div O (cross v0 v1 p) d).
  Definition in_triangle (v0 v1 v2 p : pt) : bool :=
    let s0 := cross p v1 v2 in let s1 := cross v0 p v2 in let s2 := cross v0 v1 p in
    (leb O zero s0 && leb O zero s1 && leb O zero s2) || (leb O s0 zero && leb O s1 zero && leb O s2 zero).
End Model.

(* ---------------- rectangular_neighbors_from: the six helpers as sequences of row writes ----------------
   a write (i, vals) is `neighbors[i, 0:len vals] = vals; neighbors_sizes[i] = len vals` *)
Definition nb_write := (Z * list Z)%type.
Definition corner_writes (H W : Z) : list nb_write :=
  let pixels := H * W in
  [ (0, [1; W]); (W - 1, [W - 2; W + W - 1]);
    (pixels - W, [pixels - W * 2; pixels - W + 1]); (pixels - 1, [pixels - W - 1; pixels - 2]) ].
Definition top_writes (H W : Z) : list nb_write :=
  map (fun pix => (pix, [pix - 1; pix + 1; pix + W])) (rangeZ 1 (W - 1)).
Definition left_writes (H W : Z) : list nb_write :=
  map (fun pix => let i := pix * W in (i, [i - W; i + 1; i + W])) (rangeZ 1 (H - 1)).
Definition right_writes (H W : Z) : list nb_write :=
  map (fun pix => let i := pix * W + W - 1 in (i, [i - W; i - 1; i + W])) (rangeZ 1 (H - 1)).
Definition bottom_writes (H W : Z) : list nb_write :=
  let pixels := H * W in
  map (fun pix => let i := pixels - pix - 1 in (i, [i - W; i - 1; i + 1])) (rangeZ 1 (W - 1)).
Definition central_writes (H W : Z) : list nb_write :=
  flat_map (fun x => map (fun y => let i := x * W + y in (i, [i - W; i - 1; i + 1; i + W])) (rangeZ 1 (W - 1)))
           (rangeZ 1 (H - 1)).
Definition all_writes (H W : Z) : list nb_write :=
  corner_writes H W ++ top_writes H W ++ left_writes H W ++ right_writes H W ++ bottom_writes H W
  ++ central_writes H W.
Definition apply_write (st : list (list Z * Z)) (w : nb_write) : list (list Z * Z) :=
  upd_row st (Z.to_nat (fst w))
          (fun r => (snd w ++ skipn (length (snd w)) (fst r), Z.of_nat (length (snd w)))).
Definition rect_neighbors (H W : Z) : list (list Z * Z) :=
  fold_left apply_write (all_writes H W) (repeat ([-1; -1; -1; -1], 0) (Z.to_nat (H * W))).

(* specification: 4-adjacency of pixel (r, c) of an H x W grid, in increasing index order *)
Definition adj4 (H W : Z) (i : Z) : list Z :=
  let r := i / W in let c := i mod W in
  (if 0 <? r then [i - W] else []) ++ (if 0 <? c then [i - 1] else [])
  ++ (if c <? W - 1 then [i + 1] else []) ++ (if r <? H - 1 then [i + W] else []).

(* ---------------- Mesh2DDelaunay.neighbors: CSR (indptr, indices) -> rows padded with -1 ---------------- *)
Definition del_neighbors (indptr indices : list Z) (P : nat) : list (list Z) * list Z :=
  let sizes := map (fun k => nth (S k) indptr 0 - nth k indptr 0) (seq 0 (length indptr - 1)) in
  let width := Z.to_nat (maxZ0 sizes) in
  (map (fun k =>
      let a := Z.to_nat (nth k indptr 0) in let b := Z.to_nat (nth (S k) indptr 0) in
      let row := firstn (b - a) (skipn a indices) in
      row ++ repeat (-1) (width - length row)) (seq 0 P),
   sizes).

(* the edges of a list of simplices (triangles), as neighbour sets *)
Definition tri_neighbors (simplices : list (list Z)) (k : Z) : list Z :=
  nodup Z.eq_dec (flat_map (fun s => if existsb (Z.eqb k) s then filter (fun v => negb (v =? k)) s else []) simplices).
Definition subsetZ (a b : list Z) : bool := forallb (fun x => existsb (Z.eqb x) b) a.
Definition same_set (a b : list Z) : bool := subsetZ a b && subsetZ b a.
Fixpoint nodupb (l : list Z) : bool :=
  match l with [] => true | x :: t => negb (existsb (Z.eqb x) t) && nodupb t end.

(* ---------------- hypothesis predicates (boolean, so that examples discharge them by computation) ---------------- *)
Definition subs_okb (m : mask) (subs : list nat) : bool :=
  Nat.eqb (length subs) (count_unmasked m) && forallb (Nat.leb 1) subs.
(* the index arrays list, for each of the total_sub sub-pixels, source pixels in [0, P) *)
Definition mapper_okb (m : mask) (subs : list nat) (P : nat) (mp : list (list Z)) (sz : list nat) : bool :=
  subs_okb m subs
  && forallb (fun s => forallb (fun k => (0 <=? nthZ (nth s mp []) k) && (nthZ (nth s mp []) k <? Z.of_nat P))
                               (seq 0 (nth s sz 0%nat))) (seq 0 (total_sub subs)).

(* ================= correspondence cases (values are exact rationals) ================= *)
Definition qv := list Q.
Definition qm := list (list Q).
Definition qpt := (Q * Q)%type.
Definition zv_eqb := list_eqb Z.eqb.
Definition zm_eqb := list_eqb zv_eqb.
Definition nv_eqb := list_eqb Nat.eqb.
Definition qv_close (tol : Q) := list_eqb (Qabs_le_tol tol).
Definition qm_close (tol : Q) := list_eqb (qv_close tol).
Definition uq_out := (list (list Z) * qm * list nat)%type.    (* data_to_pix_unique, data_weights, pix_lengths *)
Definition uq_close (tol : Q) (a b : uq_out) : bool :=
  zm_eqb (fst (fst a)) (fst (fst b)) && qm_close tol (snd (fst a)) (snd (fst b)) && nv_eqb (snd a) (snd b).
Definition uq_pack (rows : list (list Z * qv * nat)) : uq_out :=
  (map (fun r => fst (fst r)) rows, map (fun r => snd (fst r)) rows, map snd rows).
Definition psw_out := (list (list Z) * list nat * qm)%type.   (* mappings, sizes, weights *)
Definition psw_close (tol : Q) (a b : psw_out) : bool :=
  zm_eqb (fst (fst a)) (fst (fst b)) && nv_eqb (snd (fst a)) (snd (fst b)) && qm_close tol (snd a) (snd b).
Definition nb_out := (list (list Z) * list Z)%type.

Inductive case :=
| KSlimForSub (m : mask) (subs : list nat) (out : list nat)
| KMatrix (mappings : list (list Z)) (sizes : list nat) (weights : qm) (pixels total : nat)
          (sfs : list nat) (sub_fraction : qv) (out : res qm)
| KUnique (mappings : list (list Z)) (sizes : list nat) (weights : qm) (pixels : nat) (subs : list nat)
          (out : res uq_out)
| KRectNb (H W : Z) (out : nb_out)
| KRect (tol : Q) (m : mask) (subs : list nat) (grid : list qpt) (shape : Z * Z) (buffer : Q)
        (mesh : Q * Q * Q * Q)                   (* implementation's pixel_scales, origin *)
        (psw : psw_out) (M : qm) (uq : uq_out) (nb : nb_out)
| KDel (tol : Q) (m : mask) (subs : list nat) (grid : list qpt) (points : list qpt)
       (simplices : list (list Z)) (simplex_for : list Z) (indptr indices : list Z)     (* oracle outputs *)
       (psw : psw_out) (M : qm) (uq : uq_out) (nb : nb_out).

Definition nb_pack (l : list (list Z * Z)) : nb_out := (map fst l, map snd l).
Definition res_uq (r : res (list (list Z * qv * nat))) : res uq_out :=
  match r with Ok rows => Ok (uq_pack rows) | Raise e => Raise e end.

Definition rect_model (m : mask) (subs : list nat) (grid : list qpt) (shape : Z * Z) (buffer : Q) :=
  let g := @overlay QOps shape grid buffer in
  let '(mp, sz, wt) := @rect_psw QOps g grid in
  let P := Z.to_nat (fst shape * snd shape) in
  (g, (mp, sz, wt),
   @mapping_matrix QOps mp sz wt P (count_unmasked m) (slim_for_sub m subs) (@sub_fractions QOps subs),
   res_uq (@unique_from QOps mp sz wt P subs),
   nb_pack (rect_neighbors (fst shape) (snd shape))).

Definition del_model (m : mask) (subs : list nat) (grid points : list qpt) (simplices : list (list Z))
           (simplex_for indptr indices : list Z) :=
  let '(mp, sz) := @del_mappings QOps grid simplex_for simplices points in
  let wt := @del_weights QOps grid points mp in
  let P := length points in
  ((mp, sz, wt),
   @mapping_matrix QOps mp sz wt P (count_unmasked m) (slim_for_sub m subs) (@sub_fractions QOps subs),
   res_uq (@unique_from QOps mp sz wt P subs),
   del_neighbors indptr indices P).

Definition agree (k : case) : bool :=
  match k with
  | KSlimForSub m subs out => nv_eqb (slim_for_sub m subs) out
  | KMatrix mp sz wt P N sfs fr out => res_eqb (qm_close 0%Q) (@mapping_matrix QOps mp sz wt P N sfs fr) out
  | KUnique mp sz wt P subs out => res_eqb (uq_close 0%Q) (res_uq (@unique_from QOps mp sz wt P subs)) out
  | KRectNb H W out => let r := nb_pack (rect_neighbors H W) in zm_eqb (fst r) (fst out) && zv_eqb (snd r) (snd out)
  | KRect tol m subs grid shape buffer mesh psw M uq nb =>
      let '(g, psw', M', uq', nb') := rect_model m subs grid shape buffer in
      let '(a, b, c, d) := mesh in
      qv_close tol [ps0 g; ps1 g; origin0 g; origin1 g] [a; b; c; d]
      && psw_close tol psw' psw && res_eqb (qm_close tol) M' (Ok M) && res_eqb (uq_close tol) uq' (Ok uq)
      && zm_eqb (fst nb') (fst nb) && zv_eqb (snd nb') (snd nb)
  | KDel tol m subs grid points simplices simplex_for indptr indices psw M uq nb =>
      let '(psw', M', uq', nb') := del_model m subs grid points simplices simplex_for indptr indices in
      psw_close tol psw' psw && res_eqb (qm_close tol) M' (Ok M) && res_eqb (uq_close tol) uq' (Ok uq)
      && zm_eqb (fst nb') (fst nb) && zv_eqb (snd nb') (snd nb)
  end.

(* ================= specification side: evaluated on the IMPLEMENTATION's outputs, never calls the model's
   loops (only the weight specifications cell_contains / bary / in_triangle, block, adj4, tri_neighbors) ======== *)
Definition Qsum (l : list Q) : Q := Qred (fold_right Qplus 0%Q l).
Definition qclose (tol a b : Q) : bool := Qabs_le_tol tol a b.

(* matrix M is N x P, non-negative (up to tol), rows sum to one, entry (i,p) = sum over the block of sub-pixels
   of i of (1/sub_i^2) * w s p *)
Definition matrix_spec (tol : Q) (subs : list nat) (P : nat) (w : nat -> nat -> Q) (M : qm) : bool :=
  Nat.eqb (length M) (length subs)
  && forallb (fun i =>
       let row := nth i M [] in
       let sub := nth i subs 0%nat in
       Nat.eqb (length row) P
       && forallb (fun x => Qle_bool (- tol) x) row
       && qclose tol (Qsum row) 1%Q
       && forallb (fun p =>
            qclose tol (nth p row 0%Q)
                   (Qsum (map (fun s => Qred (w s p / inject_Z (Z.of_nat (sq_n sub)))) (block subs i))))
          (seq 0 P))
     (seq 0 (length subs)).

(* the sparse triple encodes exactly the dense matrix: distinct in-range source pixels in the first
   pix_lengths slots, -1 / 0 padding after them, weights summing (per source pixel) to the dense entry *)
Definition unique_spec (tol : Q) (P : nat) (M : qm) (uq : uq_out) : bool :=
  let '(U, Wt, L) := uq in
  Nat.eqb (length U) (length M) && Nat.eqb (length Wt) (length M) && Nat.eqb (length L) (length M)
  && forallb (fun i =>
       let u := nth i U [] in let wt := nth i Wt [] in let n := nth i L 0%nat in
       let used := firstn n u in
       (n <=? length u)%nat && Nat.eqb (length wt) (length u)
       && nodupb used && forallb (fun p => (0 <=? p) && (p <? Z.of_nat P)) used
       && forallb (Z.eqb (-1)) (skipn n u) && forallb (fun x => Qeq_bool x 0%Q) (skipn n wt)
       && forallb (fun p =>
            qclose tol (nth p (nth i M []) 0%Q)
                   (Qsum (map (fun k => if nthZ u k =? Z.of_nat p then nth k wt 0%Q else 0%Q) (seq 0 n))))
          (seq 0 P))
     (seq 0 (length M)).

Definition neighbors_spec (P : nat) (want : Z -> list Z) (nb : nb_out) : bool :=
  let '(arr, sizes) := nb in
  Nat.eqb (length arr) P && Nat.eqb (length sizes) P
  && forallb (fun k =>
       let row := nth k arr [] in let n := Z.to_nat (nth k sizes 0) in
       let used := firstn n row in
       (0 <=? nth k sizes 0) && (n <=? length row)%nat && forallb (Z.eqb (-1)) (skipn n row)
       && nodupb used && same_set used (want (Z.of_nat k))
       (* symmetry: k is listed among the neighbours of each of its neighbours *)
       && forallb (fun j => existsb (Z.eqb (Z.of_nat k))
                              (firstn (Z.to_nat (nth (Z.to_nat j) sizes 0)) (nth (Z.to_nat j) arr []))) used)
     (seq 0 P).

(* a second execution device for the specification's sign tests and distances (cell containment, closed-triangle test,
   barycentric ratios, nearest vertex): the same generic definitions run on rationals from which only common factors of
   TWO are stripped after every operation.  The coordinates come from doubles, so every denominator is a power of two and
   stripping keeps the numbers as small as full reduction would, without taking a gcd; the values are equal as rationals
   to the QOps values. *)
Fixpoint strip2_pos (n d : positive) : positive * positive :=
  match n, d with
  | xO n', xO d' => strip2_pos n' d'
  | _, _ => (n, d)
  end.
Definition strip2 (q : Q) : Q :=
  match Qnum q with
  | Z0 => 0%Q
  | Zpos n => let '(n', d') := strip2_pos n (Qden q) in Qmake (Zpos n') d'
  | Zneg n => let '(n', d') := strip2_pos n (Qden q) in Qmake (Zneg n') d'
  end.
Definition QRaw : NumOps := {|
  T := Q; add := fun a b => strip2 (Qplus a b); sub := fun a b => strip2 (Qminus a b);
  mul := fun a b => strip2 (Qmult a b); div := fun a b => strip2 (Qdiv a b); opp := Qopp; ofZ := inject_Z;
  leb := Qle_bool; ltb := Qltb; eqb := Qeq_bool; floorZ := floorZ QOps;
  sqrtT := sqrtT QOps; cos2pi := cos2pi QOps; sin2pi := sin2pi QOps; lnT := lnT QOps |}.
Definition raw_geom (cg : @cellgeom QOps) : @cellgeom QRaw :=
  @Build_cellgeom QRaw (g_top cg) (g_left cg) (g_h cg) (g_w cg) (g_n1 cg).

Definition rect_spec_weight (cg : @cellgeom QOps) (grid : list qpt) (s p : nat) : Q :=
  @rect_weight QRaw (raw_geom cg) (nth s grid (0%Q, 0%Q)) p.
(* the same indicator for all cells at once: cell (r, c) contains the point iff row band r contains y and column band c
   contains x (cell_contains is the conjunction of the two band tests), so the bands are tested once per point *)
Definition row_in (cg : @cellgeom QRaw) (r : Z) (y : Q) : bool :=
  ltb QRaw (sub QRaw (g_top cg) (mul QRaw (ofZ QRaw (r + 1)) (g_h cg))) y
  && leb QRaw y (sub QRaw (g_top cg) (mul QRaw (ofZ QRaw r) (g_h cg))).
Definition col_in (cg : @cellgeom QRaw) (c : Z) (x : Q) : bool :=
  leb QRaw (add QRaw (g_left cg) (mul QRaw (ofZ QRaw c) (g_w cg))) x
  && ltb QRaw x (add QRaw (g_left cg) (mul QRaw (ofZ QRaw (c + 1)) (g_w cg))).
Definition rect_spec_row (cg : @cellgeom QOps) (P : nat) (q : qpt) : list Q :=
  let rg := raw_geom cg in
  let n1 := g_n1 cg in
  let rows := filter (fun r => row_in rg r (fst q)) (rangeZ 0 (Z.of_nat P / n1)) in
  let cols := filter (fun c => col_in rg c (snd q)) (rangeZ 0 n1) in
  map (fun p => if existsb (Z.eqb (Z.of_nat p / n1)) rows && existsb (Z.eqb (Z.of_nat p mod n1)) cols then 1%Q else 0%Q)
      (seq 0 P).

(* the Delaunay weight specification on the oracle's triangulation: a point inside (closed) some simplex gets
   the signed barycentric coordinates in ANY simplex containing it (they agree on shared edges); a point in no
   simplex gets the indicator of the first nearest vertex.  [del_spec_row] = the weights of sub-pixel s towards every
   vertex (the containing simplex is looked up once per sub-pixel) *)
Definition del_spec_row (points : list qpt) (simplices : list (list Z)) (grid : list qpt) (s : nat) : list Q :=
  let q := nth s grid (0%Q, 0%Q) in
  let vtx (row : list Z) k := nth (Z.to_nat (nthZ row k)) points (0%Q, 0%Q) in
  match find (fun row => @in_triangle QRaw (vtx row 0%nat) (vtx row 1%nat) (vtx row 2%nat) q) simplices with
  | Some row =>
      let '(b0, b1, b2) := @bary QRaw (vtx row 0%nat) (vtx row 1%nat) (vtx row 2%nat) q in
      map (fun p =>
        Qred ((if nthZ row 0 =? Z.of_nat p then b0 else 0%Q) + (if nthZ row 1 =? Z.of_nat p then b1 else 0%Q)
              + (if nthZ row 2 =? Z.of_nat p then b2 else 0%Q))) (seq 0 (length points))
  | None =>
      (* the FIRST vertex at the smallest squared distance *)
      let ds := map (fun v => @sqdist QRaw v q) points in
      let d k := nth k ds 0%Q in
      let dmin := fold_right (fun a b => if Qle_bool a b then a else b) (hd 0%Q ds) ds in
      map (fun p =>
        if Qle_bool (d p) dmin && forallb (fun k => negb (Qle_bool (d k) dmin)) (seq 0 p)
        then 1%Q else 0%Q) (seq 0 (length points))
  end.
Definition del_spec_weight (points : list qpt) (simplices : list (list Z)) (grid : list qpt) (s p : nat) : Q :=
  nth p (del_spec_row points simplices grid s) 0%Q.

(* weight specifications tabulated once per case (every clause is judged against the same table) *)
Definition table_fn (tab : list (list Q)) (s p : nat) : Q := nth p (nth s tab []) 0%Q.
Definition rect_spec_table (cg : @cellgeom QOps) (grid : list qpt) (P : nat) : list (list Q) :=
  map (rect_spec_row cg P) grid.
Definition del_spec_table (points : list qpt) (simplices : list (list Z)) (grid : list qpt) : list (list Q) :=
  map (del_spec_row points simplices grid) (seq 0 (length grid)).

(* what pix_sub_weights must look like for a weight specification w: per sub-pixel, the listed source pixels are
   distinct, in range, carry weight w s p, and every source pixel with non-zero w is listed *)
Definition psw_spec (tol : Q) (P S : nat) (w : nat -> nat -> Q) (psw : psw_out) : bool :=
  let '(mp, sz, wt) := psw in
  Nat.eqb (length mp) S && Nat.eqb (length sz) S && Nat.eqb (length wt) S
  && forallb (fun s =>
       let row := nth s mp [] in let n := nth s sz 0%nat in let used := firstn n row in
       (n <=? length row)%nat && (1 <=? n)%nat && nodupb used
       && forallb (fun p => (0 <=? p) && (p <? Z.of_nat P)) used
       && forallb (Z.eqb (-1)) (skipn n row)
       && forallb (fun k => qclose tol (nth k (nth s wt []) 0%Q) (w s (Z.to_nat (nthZ row k)))) (seq 0 n)
       && forallb (fun p => existsb (Z.eqb (Z.of_nat p)) used || qclose tol (w s p) 0%Q) (seq 0 P))
     (seq 0 S).

(* the oracle's contract (qhull): the simplex reported for a point contains it (closed), -1 is reported only for
   points in no simplex, simplices are non-degenerate triples of valid distinct vertices *)
Definition oracle_ok (points : list qpt) (simplices : list (list Z)) (grid : list qpt) (simplex_for : list Z) : bool :=
  let vtx (row : list Z) k := nth (Z.to_nat (nthZ row k)) points (0%Q, 0%Q) in
  let inside row q := @in_triangle QRaw (vtx row 0%nat) (vtx row 1%nat) (vtx row 2%nat) q in
  forallb (fun row => Nat.eqb (length row) 3 && nodupb row
                      && forallb (fun v => (0 <=? v) && (v <? Z.of_nat (length points))) row
                      && negb (Qeq_bool (@cross QOps (vtx row 0%nat) (vtx row 1%nat) (vtx row 2%nat)) 0%Q)) simplices
  && Nat.eqb (length simplex_for) (length grid)
  && forallb (fun qs : qpt * Z =>
       if snd qs =? -1 then negb (existsb (fun row => inside row (fst qs)) simplices)
       else (0 <=? snd qs) && (snd qs <? Z.of_nat (length simplices))
            && inside (nth (Z.to_nat (snd qs)) simplices []) (fst qs)) (combine grid simplex_for).

Definition spec_ok (k : case) : bool :=
  match k with
  | KSlimForSub m subs out =>
      (* sub-pixel s belongs to data pixel i iff s lies in block i *)
      negb (Nat.eqb (length subs) (count_unmasked m)) ||
      Nat.eqb (length out) (total_sub subs)
      && forallb (fun i => forallb (fun s => Nat.eqb (nth s out (length subs)) i) (block subs i)) (seq 0 (length subs))
  | KMatrix mp sz wt P N sfs fr out =>
      (* entry formula over arbitrary (well-shaped, in-range) arrays *)
      match out with
      | Raise _ => true          (* malformed stream: only model = implementation is claimed *)
      | Ok M =>
          Nat.eqb (length M) N
          && forallb (fun i => forallb (fun p =>
               Qeq_bool (nth p (nth i M []) 0%Q)
                 (Qsum (map (fun s =>
                    if Nat.eqb (nth s sfs 0%nat) i then
                      Qsum (map (fun kk => if nthZ (nth s mp []) kk =? Z.of_nat p
                                           then Qred (nth i fr 0%Q * nth kk (nth s wt []) 0%Q) else 0%Q)
                                (seq 0 (nth s sz 0%nat)))
                    else 0%Q) (seq 0 (length sfs))))) (seq 0 P)) (seq 0 N)
          || existsb (fun s => existsb (fun kk => nthZ (nth s mp []) kk <? 0) (seq 0 (nth s sz 0%nat))) (seq 0 (length sfs))
      end
  | KUnique mp sz wt P subs out =>
      match out with
      | Raise _ => true
      | Ok uq =>
          (* the triple encodes the dense matrix of the same arrays, computed by the entry formula *)
          let S := total_sub subs in
          let dense := map (fun i => map (fun p =>
                 Qsum (map (fun s => Qsum (map (fun kk =>
                     if nthZ (nth s mp []) kk =? Z.of_nat p
                     then Qred (nth kk (nth s wt []) 0%Q / inject_Z (Z.of_nat (sq_n (nth i subs 0%nat)))) else 0%Q)
                   (seq 0 (nth s sz 0%nat)))) (block subs i))) (seq 0 P)) (seq 0 (length subs)) in
          unique_spec 0%Q P dense uq
          || existsb (fun s => existsb (fun kk => nthZ (nth s mp []) kk <? 0) (seq 0 (nth s sz 0%nat))) (seq 0 S)
      end
  | KRectNb H W out => neighbors_spec (Z.to_nat (H * W)) (adj4 H W) out
  | KRect tol m subs grid shape buffer mesh psw M uq nb =>
      let '(a, b, c, d) := mesh in
      let cg := @geom_of_extent QOps shape grid buffer in
      let gi := @geom_of_mesh QOps (@Build_rmesh QOps (fst shape) (snd shape) a b c d) in
      let P := Z.to_nat (fst shape * snd shape) in
      let tab := rect_spec_table cg grid P in
      let w := table_fn tab in
      Nat.eqb (length grid) (total_sub subs)
      (* the implementation's mesh (pixel scales, origin) is the mesh of the extent *)
      && qclose tol (g_top gi) (g_top cg) && qclose tol (g_left gi) (g_left cg)
      && qclose tol (g_h gi) (g_h cg) && qclose tol (g_w gi) (g_w cg)
      && psw_spec tol P (length grid) w psw
      && matrix_spec tol subs P w M
      && unique_spec tol P M uq
      && neighbors_spec P (adj4 (fst shape) (snd shape)) nb
  | KDel tol m subs grid points simplices simplex_for indptr indices psw M uq nb =>
      let P := length points in
      let tab := del_spec_table points simplices grid in
      let w := table_fn tab in
      Nat.eqb (length grid) (total_sub subs)
      && oracle_ok points simplices grid simplex_for
      && psw_spec tol P (length grid) w psw
      && matrix_spec tol subs P w M
      && unique_spec tol P M uq
      && neighbors_spec P (tri_neighbors simplices) nb
  end.

Definition check (k : case) : nat := verdict (agree k) (spec_ok k).
