"""C18 -- border relocation only pulls outliers radially inward to the border.

Coordinates in the JSON inputs are integers k meaning k/16 (so that every double operation of the implementation
except sqrt, the division by the number of border points and the final move is exact)."""
import itertools, math
from fractions import Fraction
import numpy as np
from harness.common import cz, cq, cnat, cbool, clist, ctup, copt, cres, call_res, import_aa, frac

ID = "C18"
GEN = []
PROPS = "Props/C18.v"
COQ_CHECK = ("Model.C18", "check")
COQ_FALLBACK = ("Model.C18", "spec_ok")
COQ_IMPORTS = ""
SHARD = 250
DEN = 16
RULE = ("(a) util relocated_grid_via_jit_from: exhaustive small lattice borders x all lattice points, plus random borders "
        "(convex, non-convex, off-centre, duplicated points) with grids of far outliers, interior points, points exactly "
        "at border points / at the centroid; (b) BorderRelocator.relocated_grid_from / relocated_mesh_grid_from and "
        "Delaunay/Voronoi/Rectangular mapper_grids_from on random and structured masks (<= 7x7), sub-size maps from {1,2,4} given as "
        "int / ndarray / Array2D, grids = distorted (affine + jitter) over-sampled grids with outliers; (c) sub_border_slim "
        "(util + class), sub_border_grid, border_slim_indexes_from on ALL masks with H*W <= 9 (quick) / 11 (thorough) and "
        "random larger ones; (d) furthest_grid_2d_slim_index_from on lattice grids with ties. sqrt results compared to "
        "1e-9; a case with a decision (radius vs smallest border radius, nearest-border radius vs own radius) inside a "
        "1e-6 band between non-identical coordinates is skipped and counted (kind skipped_band). distinct = distinct JSON "
        "input; non-trivial = not skipped, not an empty grid.")
EXHAUSTIVE = {
    "quick": "all boolean masks of all shapes with H*W <= 9 (sub_border_slim with sub-size 1, 2 and one random {1,2,4} map; "
             "border_slim_indexes_from); util relocation: all 3-point borders on the {-1,0,1}^2 lattice against all 25 points of "
             "{-2..2}^2",
    "thorough": "as quick with H*W <= 11 and all 3- and 4-point borders on the {-1,0,1}^2 lattice",
}
TRUSTED = ["correspondence harness harness/c18.py (generators, Fraction(float) conversion, decision-band filter computed "
           "exactly in Fractions)",
           "QOps.sqrtT = Qsqrt_approx (rational sqrt, 2^-64 relative accuracy): execution device of the correspondence run "
           "only, no theorem mentions it",
           "numpy element-wise arithmetic, np.mean / np.min / np.argmin (first minimiser), fancy indexing grid[idx], "
           "Grid2DIrregular / Mask2D / Array2D containers (exercised by the correspondence run)"]
ASSUMPTIONS = ["theorems are over the real numbers (no rounding): in floating point a coordinate whose radius equals the "
               "smallest border radius up to rounding, without being numerically identical to that border point, may be "
               "moved by one ulp; such inputs are inside the excluded 1e-6 band",
               "numba absent: the jit functions run as plain Python/numpy"]

STATS = {"skipped_band": 0, "points": 0, "moved": 0, "interior": 0, "outside_kept": 0, "at_border": 0}
def extra_evidence():
    return {"skipped_in_band": STATS["skipped_band"], "relocation_points": STATS["points"],
            "points_moved": STATS["moved"], "points_interior_untouched": STATS["interior"],
            "points_outside_min_radius_kept": STATS["outside_kept"], "points_identical_to_a_border_point": STATS["at_border"]}

# ----------------------------------------------------------------------------- printing
def q16(k): return cq(Fraction(int(k), DEN))
def cpt16(p): return ctup([q16(p[0]), q16(p[1])])
def cpts16(l): return clist([cpt16(p) for p in l])
def cptf(p): return ctup([cq(frac(p[0])), cq(frac(p[1]))])
def cptsf(l): return clist([cptf(p) for p in l])
def cmask(m): return clist([clist([cbool(v) for v in row]) for row in m])
def cnats(l): return clist([cnat(v) for v in l])
def arr16(l): return np.array([[p[0] / DEN, p[1] / DEN] for p in l], dtype=float).reshape(-1, 2)
def pts_out(a): return [[float(v[0]), float(v[1])] for v in np.asarray(a).reshape(-1, 2)]

# ----------------------------------------------------------------------------- decision band (exact)
def in_band(grid16, border16):
    """True if some decision of the relocation of grid against border is closer than 1e-6 between coordinates that are
    not numerically identical.  Also tallies the kinds of point."""
    n = len(border16)
    if n == 0: return False
    B = [(Fraction(b[0], DEN), Fraction(b[1], DEN)) for b in border16]
    cy = sum(b[0] for b in B) / n; cx = sum(b[1] for b in B) / n
    r2 = lambda p: (p[0] - cy) ** 2 + (p[1] - cx) ** 2
    br2 = [r2(b) for b in B]
    bmin2 = min(br2); bmin = math.sqrt(bmin2)
    minimal = {tuple(border16[i]) for i in range(n) if br2[i] == bmin2}
    bset = {tuple(b) for b in border16}
    tal = {"points": 0, "moved": 0, "interior": 0, "outside_kept": 0, "at_border": 0}
    for p16 in grid16:
        p = (Fraction(p16[0], DEN), Fraction(p16[1], DEN))
        rp2 = r2(p); rp = math.sqrt(rp2)
        tal["points"] += 1
        if tuple(p16) in bset: tal["at_border"] += 1
        if tuple(p16) in minimal:
            tal["interior"] += 1; continue
        if abs(rp - bmin) < 2e-6: return True
        if rp2 <= bmin2:
            tal["interior"] += 1; continue
        d2 = [(p[0] - b[0]) ** 2 + (p[1] - b[1]) ** 2 for b in B]
        k = d2.index(min(d2))
        if tuple(border16[k]) == tuple(p16):
            tal["outside_kept"] += 1; continue
        rb = math.sqrt(br2[k])
        if abs(rb - rp) < 2e-6: return True
        tal["moved" if rb < rp else "outside_kept"] += 1
    for k, v in tal.items(): STATS[k] += v
    return False

# ----------------------------------------------------------------------------- generators
def all_masks(h, w):
    for bits in itertools.product((0, 1), repeat=h * w):
        yield [list(bits[r * w:(r + 1) * w]) for r in range(h)]

def npix(m): return sum(1 for row in m for v in row if not v)

def rand_mask(rng):
    kind = rng.choice(["random", "disc", "ring", "ell", "blob", "full", "comb"])
    h, w = rng.randint(3, 7), rng.randint(3, 7)
    m = [[1] * w for _ in range(h)]
    if kind == "random":
        p = rng.choice([0.3, 0.5, 0.7])
        m = [[1 if rng.random() < p else 0 for _ in range(w)] for _ in range(h)]
    elif kind in ("disc", "ring"):
        cy, cx = rng.uniform(0, h - 1), rng.uniform(0, w - 1)      # off-centre on purpose
        ro = rng.uniform(1.0, max(h, w) / 2 + 0.5); ri = ro * rng.uniform(0.3, 0.6) if kind == "ring" else -1
        for y in range(h):
            for x in range(w):
                d = math.hypot(y - cy, x - cx)
                if ri < d <= ro: m[y][x] = 0
    elif kind == "ell":
        a, b = rng.randint(1, h - 1), rng.randint(1, w - 1)
        for y in range(h):
            for x in range(w):
                if y >= a or x < b: m[y][x] = 0
        if rng.random() < 0.5: m = [row[::-1] for row in m]
    elif kind == "blob":
        y, x = rng.randrange(h), rng.randrange(w)
        for _ in range(rng.randint(3, 14)):
            m[y][x] = 0
            dy, dx = rng.choice([(0, 1), (1, 0), (0, -1), (-1, 0)])
            y = min(h - 1, max(0, y + dy)); x = min(w - 1, max(0, x + dx))
    elif kind == "full":
        m = [[0] * w for _ in range(h)]
        if rng.random() < 0.5:
            for y in range(h): m[y][0] = m[y][w - 1] = 1
            for x in range(w): m[0][x] = m[h - 1][x] = 1
    elif kind == "comb":
        for y in range(h):
            for x in range(w):
                if y == h - 1 or x % 2 == 0: m[y][x] = 0
    if npix(m) == 0: m[rng.randrange(h)][rng.randrange(w)] = 0
    return m

def rand_sub(rng, n):
    k = rng.random()
    if k < 0.25: return {"kind": "int", "v": rng.choice([1, 1, 2, 4] if n <= 12 else [1, 2])}
    vals = [1, 2, 4] if n <= 8 else [1, 1, 2]
    return {"kind": rng.choice(["ndarray", "array2d"]), "v": [rng.choice(vals) for _ in range(n)]}
def sub_list(sub, n): return [sub["v"]] * n if sub["kind"] == "int" else list(sub["v"])

def unit_sub_grid16(m, subs):
    """the over-sampled grid in pixel units (pure python, exact, times 16)"""
    h, w = len(m), len(m[0]); out = []; i = 0
    for y in range(h):
        for x in range(w):
            if not m[y][x]:
                s = subs[i]; i += 1
                for a in range(s):
                    for b in range(s):
                        out.append((Fraction(h - 1, 2) - y + Fraction(1, 2) - Fraction(2 * a + 1, 2 * s),
                                    x - Fraction(w - 1, 2) - Fraction(1, 2) + Fraction(2 * b + 1, 2 * s)))
    return out

def distort(rng, pts):
    """source-plane coordinates: affine map with dyadic coefficients + lattice jitter, a few far outliers"""
    mode = rng.choice(["affine", "affine", "random", "shear"])
    A = [[rng.choice([-2, -1, -0.5, 0.5, 1, 1, 2]), rng.choice([0, 0, 0.25, -0.5, 1])],
         [rng.choice([0, 0, -0.25, 0.5, -1]), rng.choice([-2, -1, 0.5, 1, 1, 2])]]
    t = [rng.randint(-40, 40), rng.randint(-40, 40)]
    out = []
    for (y, x) in pts:
        if mode == "random":
            out.append([rng.randint(-64, 64), rng.randint(-64, 64)]); continue
        yy = A[0][0] * float(y) + A[0][1] * float(x); xx = A[1][0] * float(y) + A[1][1] * float(x)
        out.append([int(round(yy * DEN)) + t[0] + rng.randint(-2, 2), int(round(xx * DEN)) + t[1] + rng.randint(-2, 2)])
    for _ in range(rng.randint(0, 3)):
        if out: out[rng.randrange(len(out))] = [rng.randint(-1024, 1024), rng.randint(-1024, 1024)]   # far outside
    for _ in range(rng.randint(0, 2)):
        if len(out) > 1: out[rng.randrange(len(out))] = list(out[rng.randrange(len(out))])              # coincident points
    return out

def rand_border(rng):
    kind = rng.choice(["circle", "nonconvex", "offcentre", "random", "dup", "line", "single"])
    n = rng.randint(3, 10)
    if kind == "single": return [[rng.randint(-32, 32), rng.randint(-32, 32)]]
    if kind == "line": return [[rng.randint(-32, 32), 5] for _ in range(n)]
    R = rng.choice([16, 32, 48]); oy, ox = (rng.randint(-64, 64), rng.randint(-64, 64)) if kind != "circle" else (0, 0)
    pts = []
    for i in range(n):
        a = 2 * math.pi * (i + rng.random() * 0.5) / n
        rr = R * (rng.choice([0.3, 1.0]) if kind == "nonconvex" else 1.0)
        pts.append([oy + int(round(rr * math.sin(a))), ox + int(round(rr * math.cos(a)))])
    if kind == "random": pts = [[rng.randint(-48, 48), rng.randint(-48, 48)] for _ in range(n)]
    if kind == "dup": pts += [list(pts[0]), list(pts[1])]
    if kind == "offcentre": pts += [[oy + 200, ox + 8]]        # drags the centroid off the hull's centre
    return pts

def rand_points(rng, border, k):
    pts = []
    for _ in range(k):
        c = rng.random()
        if c < 0.2 and border: pts.append(list(rng.choice(border)))                         # exactly at a border point
        elif c < 0.45: pts.append([rng.randint(-2048, 2048), rng.randint(-2048, 2048)])     # far outside
        elif c < 0.55 and border:
            b = rng.choice(border); pts.append([b[0] + rng.randint(-1, 1), b[1] + rng.randint(-1, 1)])   # next to the border
        else: pts.append([rng.randint(-64, 64), rng.randint(-64, 64)])
    return pts

def gen_inputs(tier, rng):
    """deterministically shuffled, so that the (expensive) relocation cases are spread evenly over the Coq shards"""
    items = list(_gen_inputs(tier, rng))
    rng.shuffle(items)
    return items

def _gen_inputs(tier, rng):
    big = tier == "thorough"
    # ---- (a) util, exhaustive small
    lat = [(y, x) for y in (-1, 0, 1) for x in (-1, 0, 1)]
    allp = [[y * DEN, x * DEN] for y in range(-2, 3) for x in range(-2, 3)]
    for k in ((3, 4) if big else (3,)):
        for comb in itertools.combinations(lat, k):
            yield {"op": "util", "grid": allp, "border": [[y * DEN, x * DEN] for (y, x) in comb]}
    yield {"op": "util", "grid": allp[:3], "border": []}
    yield {"op": "util", "grid": [], "border": [[0, 0], [16, 0]]}
    # ---- (a) util, random
    for _ in range(1000 if big else 150):
        b = rand_border(rng)
        yield {"op": "util", "grid": rand_points(rng, b, rng.randint(1, 10)), "border": b}
    # ---- (c) exhaustive masks
    lim = 11 if big else 9
    for h in range(1, lim + 1):
        for w in range(1, lim // h + 1):
            for m in all_masks(h, w):
                n = npix(m)
                yield {"op": "borderidx", "mask": m}
                if n == 0:
                    yield {"op": "subborder", "mask": m, "sub": {"kind": "int", "v": 1}, "via": "class"}
                    continue
                yield {"op": "subborder", "mask": m, "sub": {"kind": "int", "v": 1 + (n + h) % 2}, "via": "class" if (n + w) % 2 else "util"}
                yield {"op": "subborder", "mask": m, "sub": {"kind": "ndarray", "v": [rng.choice([1, 2, 4]) for _ in range(n)]},
                       "via": "util" if (n + w) % 2 else "class"}
    # ---- (b), (c) random masks through the public classes
    for i in range(1200 if big else 180):
        while True:
            m = rand_mask(rng); n = npix(m); sub = rand_sub(rng, n); subs = sub_list(sub, n)
            if sum(v * v for v in subs) <= (64 if big else 40): break
        grid = distort(rng, unit_sub_grid16(m, subs))
        mesh = rand_points(rng, grid, rng.randint(1, 6))
        op = ("reloc", "mesh", "mapper")[i % 3]
        yield {"op": op, "mask": m, "sub": sub, "grid": grid, "mesh": mesh,
               "mesh_kind": rng.choice(["Delaunay", "Voronoi", "Rectangular"] if op == "mapper" else ["Delaunay", "Voronoi"]),
               "container": rng.choice(["irregular", "grid2d"]) if all(s == 1 for s in subs) else "irregular"}
        if i % 3 == 0:
            yield {"op": "subborder", "mask": m, "sub": sub, "via": rng.choice(["class", "util"])}
            yield {"op": "subbordergrid", "mask": m, "sub": sub, "ps": rng.choice([[16, 16], [8, 8], [32, 16], [4, 32]]),
                   "origin": [rng.randint(-8, 8) * 4, rng.randint(-8, 8) * 4]}
            yield {"op": "borderidx", "mask": m}
    yield {"op": "mapper", "mask": None, "sub": None, "grid": [[1, 2], [300, 4]], "mesh": [[5, 6]], "mesh_kind": "Delaunay",
           "container": "irregular"}
    # ---- (d) furthest
    for _ in range(1500 if big else 200):
        n = rng.randint(1, 9); span = rng.choice([1, 2, 8])
        g = [[rng.randint(-span, span) * 8, rng.randint(-span, span) * 8] for _ in range(n)]
        idx = [rng.randrange(n) for _ in range(rng.randint(0, 6))]
        yield {"op": "furthest", "grid": g, "idx": idx, "c": [rng.randint(-span, span) * 4, rng.randint(-span, span) * 4]}

# ----------------------------------------------------------------------------- implementation calls
def make_relocator(aa, inp):
    m = np.array(inp["mask"], dtype=bool)
    ps = tuple(v / DEN for v in inp.get("ps", [16, 16])); org = tuple(v / DEN for v in inp.get("origin", [0, 0]))
    mask = aa.Mask2D(mask=m, pixel_scales=ps, origin=org)
    sub = inp["sub"]
    if sub["kind"] == "int": ss = int(sub["v"])
    elif sub["kind"] == "ndarray": ss = np.array(sub["v"], dtype=int)
    else: ss = aa.Array2D(values=np.array(sub["v"], dtype=int), mask=mask)
    return mask, aa.BorderRelocator(mask=mask, sub_size=ss)

def cres_pts(x): return cres(x, cptsf)

def run_case(inp):
    aa = import_aa()
    from autoarray.structures.grids import grid_2d_util
    from autoarray.inversion.pixelization import border_relocator as br
    from autoarray.mask import mask_2d_util
    op = inp["op"]
    R = dict(py_ok=None, nontrivial=True, kind=op)
    def skipped():
        STATS["skipped_band"] += 1
        return dict(coq=None, out=None, py_ok=None, nontrivial=False, kind="skipped_band")
    if op == "util":
        if in_band(inp["grid"], inp["border"]): return skipped()
        g = arr16(inp["grid"]); g0 = g.copy()
        out = call_res(lambda: pts_out(grid_2d_util.relocated_grid_via_jit_from(grid=g, border_grid=arr16(inp["border"]))))
        R["py_ok"] = bool((g == g0).all())          # the caller's grid is not written
        R.update(coq=f"(KUtil {cpts16(inp['grid'])} {cpts16(inp['border'])} {cres_pts(out)})", out=out,
                 nontrivial=bool(inp["grid"]) and bool(inp["border"]))
        return R
    if op in ("reloc", "mesh", "mapper"):
        grid16, mesh16 = inp["grid"], inp["mesh"]
        if inp["mask"] is None:
            M = getattr(aa.mesh, inp["mesh_kind"])()
            def f():
                mg = M.mapper_grids_from(mask=None, border_relocator=None,
                                         source_plane_data_grid=aa.Grid2DIrregular(values=arr16(grid16)),
                                         source_plane_mesh_grid=aa.Grid2DIrregular(values=arr16(mesh16)))
                return [pts_out(mg.source_plane_data_grid), pts_out(mg.source_plane_mesh_grid)]
            out = call_res(f)
            R.update(coq=f"(KMapper None [] {cpts16(grid16)} {cpts16(mesh16)} "
                         f"{cres(out, lambda v: ctup([cptsf(v[0]), cptsf(v[1])]))})", out=out)
            return R
        mask, rel = make_relocator(aa, inp)
        n = npix(inp["mask"]); subs = sub_list(inp["sub"], n)
        sbs = [int(v) for v in rel.sub_border_slim]
        border16 = [grid16[k] for k in sbs if 0 <= k < len(grid16)]
        if in_band(grid16, border16) or (op != "reloc" and in_band(mesh16, border16)): return skipped()
        if inp["container"] == "grid2d": grid = aa.Grid2D(values=arr16(grid16), mask=mask)
        else: grid = aa.Grid2DIrregular(values=arr16(grid16))
        mesh = aa.Grid2DIrregular(values=arr16(mesh16))
        head = f"{cmask(inp['mask'])} {cnats(subs)}"
        if op == "reloc":
            out = call_res(lambda: pts_out(rel.relocated_grid_from(grid=grid)))
            coq = f"(KReloc {head} {cnats(sbs)} {cpts16(grid16)} {cres_pts(out)})"
        elif op == "mesh":
            out = call_res(lambda: pts_out(rel.relocated_mesh_grid_from(grid=grid, mesh_grid=mesh)))
            coq = f"(KMesh {head} {cnats(sbs)} {cpts16(grid16)} {cpts16(mesh16)} {cres_pts(out)})"
        elif inp["mesh_kind"] == "Rectangular":
            # mesh/rectangular.py: only the data grid is relocated (the mesh is overlaid on the relocated grid)
            M = aa.mesh.Rectangular(shape=(3, 3))
            out = call_res(lambda: pts_out(M.mapper_grids_from(mask=mask, border_relocator=rel,
                                                               source_plane_data_grid=grid).source_plane_data_grid))
            if out[0] != "ok":            # degenerate overlay (zero extent): not a relocation matter
                return dict(coq=None, out=out, py_ok=None, nontrivial=False, kind="rectangular_overlay_failed")
            coq = f"(KReloc {head} {cnats(sbs)} {cpts16(grid16)} {cres_pts(out)})"
            R["kind"] = "mapper_rectangular"
        else:
            M = getattr(aa.mesh, inp["mesh_kind"])()
            def f():
                mg = M.mapper_grids_from(mask=mask, border_relocator=rel, source_plane_data_grid=grid,
                                         source_plane_mesh_grid=mesh)
                return [pts_out(mg.source_plane_data_grid), pts_out(mg.source_plane_mesh_grid)]
            out = call_res(f)
            coq = (f"(KMapper (Some ({cmask(inp['mask'])}, {cnats(subs)})) {cnats(sbs)} {cpts16(grid16)} {cpts16(mesh16)} "
                   f"{cres(out, lambda v: ctup([cptsf(v[0]), cptsf(v[1])]))})")
        R.update(coq=coq, out=out)
        return R
    if op == "subborder":
        m = inp["mask"]; n = npix(m); subs = sub_list(inp["sub"], n)
        if inp["via"] == "util":
            out = call_res(lambda: [int(v) for v in br.sub_border_pixel_slim_indexes_from(
                mask_2d=np.array(m, dtype=bool), sub_size=np.array(subs, dtype=int))])
        else:
            out = call_res(lambda: [int(v) for v in make_relocator(aa, inp)[1].sub_border_slim])
        R.update(coq=f"(KSubBorder {cmask(m)} {cnats(subs)} {cres(out, cnats)})", out=out, nontrivial=n > 0)
        return R
    if op == "subbordergrid":
        m = inp["mask"]; n = npix(m); subs = sub_list(inp["sub"], n)
        mask, rel = make_relocator(aa, inp)
        sbs = [int(v) for v in rel.sub_border_slim]
        out = call_res(lambda: pts_out(rel.sub_border_grid))
        R.update(coq=f"(KSubBorderGrid {cmask(m)} {cpt16(inp['ps'])} {cpt16(inp['origin'])} {cnats(subs)} {cnats(sbs)} "
                     f"{cres_pts(out)})", out=out)
        return R
    if op == "furthest":
        g = arr16(inp["grid"]); c = (inp["c"][0] / DEN, inp["c"][1] / DEN)
        out = call_res(lambda: int(grid_2d_util.furthest_grid_2d_slim_index_from(
            grid_2d_slim=g, slim_indexes=np.array(inp["idx"], dtype=int), coordinate=c)))
        R.update(coq=f"(KFurthest {cpts16(inp['grid'])} {cnats(inp['idx'])} {cpt16(inp['c'])} {cres(out, cnat)})", out=out,
                 nontrivial=len(inp["idx"]) > 1)
        return R
    if op == "borderidx":
        m = inp["mask"]
        out = [int(v) for v in mask_2d_util.border_slim_indexes_from(mask_2d=np.array(m, dtype=bool))]
        R.update(coq=f"(KBorderIdx {cmask(m)} {cnats(out)})", out=out, nontrivial=npix(m) > 0)
        return R
    raise ValueError(op)
