"""C08 -- fit statistics and evidence follow their definitions on unmasked pixels only."""
import copy, itertools, math
from fractions import Fraction
import numpy as np
from harness.common import cz, cnat, cbool, clist, ctup, copt, cres, call_res, import_aa, frac

ID = "C08"
GEN = ["fit"]
GEN_FILES = ["Gen/Gen_fit.v"]
PROPS = "Props/C08.v"
COQ_CHECK = ("Model.C08x", "check")
COQ_FALLBACK = ("Model.C08x", "spec_okx")
SHARD = 150
RULE = ("every mask of every shape with H*W <= 4 (quick) / <= 6 (thorough) x {masked-native with use_mask_in_fit, slim without} x "
        "{no sky, sky offset} x {no inversion, all objects regularized, partially regularized, none regularized} (the largest "
        "shapes of a tier: no inversion / partially regularized only), values "
        "random dyadic (noise in {1/4..8} on fitted pixels, garbage incl. 1e30 / 0 / negative noise in masked pixels), run "
        "through FitImaging / FitDataset subclasses on aa.Imaging datasets and a real AbstractInversion subclass; plus random "
        "larger shapes (anisotropic pixel scales, shifted origins), every linear-object structure with <= 3 objects of 1-2 "
        "parameters (inversion terms; real AbstractMapper and plain LinearObj objects in every order), direct calls of "
        "every fit_util function on ndarrays / Array2D, and the three composition formulas on dyadic scalars.  HISTORIES on one "
        "dataset / one fit object: read, re-read, in-place edits by the user (data, noise map, model data, mask pixels) and "
        "re-read, a second fit object on the same dataset (other model, other sky), a second dataset on the same mask object, "
        "with the caller's arrays fingerprinted after every read; inversion histories (the same linear objects, settings and "
        "preloads objects reused by several inversions, re-reads, fingerprints).  DERIVED inputs: datasets from apply_mask / "
        "trimmed_after_convolution_from, arrays from arithmetic, views, copies, .native / .slim round trips.  EXTREMES: common "
        "power-of-two scales 2^-40..2^40 of data / noise / regularization, exact zero residuals, zero data, constant images.  "
        "NOISE COVARIANCE: slim fits on datasets with a dyadic positive definite covariance matrix (given directly or reduced by "
        "apply_mask; diagonal = noise^2 now and then), two fits per dataset, and direct calls of "
        "chi_squared_with_noise_covariance_from.  INTERFEROMETER: FitInterferometer on real Interferometer datasets of 1-6 "
        "visibilities (both use_mask_in_fit settings, with / without inversion), read, in-place edits, re-read, second fit object; "
        "the complex fit_util functions on ndarrays.  Inversions with a Preloads object carrying the true regularization matrix / "
        "log-determinant.  PHASE 4: input KINDS (int64 / int32 / int8 / bool / float32 / list-built data, noise, model arrays; plain "
        "ndarray model data; Visibilities from float pairs / lists / complex64); subclasses three / four levels deep; every DEFAULT "
        "ARGUMENT object of the constructors and the caller's settings / preloads / DatasetModel objects fingerprinted around each "
        "case; DatasetModel histories (the fit's own default object edited, a DatasetModel shared by two fits); inversions built with "
        "the constructor's own default settings / preloads; a direct AbstractFit subclass; constructed rare states (negative pivots in "
        "the sparse LU factorisation, objects with 0 / 3 parameters); util functions called a second time on the same arguments after "
        "in-place edits; production inversions (aa.Inversion -> InversionImagingMapping / InversionImagingWTilde, mapping-matrix "
        "mappers or a real MapperRectangular, PSF, two inversions on one Preloads object with / without a preloaded curvature matrix, "
        "the fit on top) compared within 1e-9 on snapshots of F and s; a persistent canary fit / inversion re-evaluated after every "
        "case with in-place edits toggled (state remembered across evaluations or left behind in shared objects). "
        "A case is non-trivial unless it is a bare composition call; distinct = distinct JSON input.")
EXHAUSTIVE = {
    "quick": "all masks of all shapes with H*W <= 4 x 2 modes x 2 sky settings x inversion kinds (4 kinds for H*W <= 3; none / "
             "partially regularized for H*W = 4); all object structures (params in {1,2}, regularized or not) of length <= 3",
    "thorough": "all masks of all shapes with H*W <= 6 x 2 modes x 2 sky settings x inversion kinds (4 kinds for H*W <= 4; "
                "none / partially regularized for H*W in {5, 6}); all object structures (params in {1,2}, regularized or not) "
                "of length <= 4",
}
TRUSTED = ["Gallina models coq/Model/C08.v, C08x.v of fit_util.py / fit_dataset.py / fit_imaging.py / fit_interferometer.py / the "
           "evidence terms of inversion/abstract.py, hand-written and tied to /repo by this correspondence run; only the three composition formulas "
           "(log_likelihood_from, log_likelihood_with_regularization_from, log_evidence_from) are regenerated from fit_util.py by "
           "py2v/gen_fit.py (fail-closed) into coq/Gen/Gen_fit.v on every run",
           "correspondence harness harness/c08.py; native 2-D arrays are passed to the model flattened row-major; the model's "
           "inputs are snapshots of the live arrays taken immediately before a read",
           "QOps execution device: finite ln table supplied per case (ln of 2*pi*noise^2 and of the two determinants, "
           "computed with math.log); ln-dependent outputs are compared under 1e-9 relative tolerance inside Coq and again in "
           "Python against math.log; never used in a theorem",
           "oracles: numpy.linalg.cholesky / scipy splu log-determinants = ln det (model: lnT (det M)); np.linalg.inv returns an "
           "inverse (the returned matrix is part of the case; C_inv . C = I is checked within 1e-9 inside Coq, chi-squared again in "
           "Python against the exact rational solution of C x = r); numpy element-wise arithmetic, np.sum, boolean-mask selection, "
           "np.delete, scipy block_diag, @ on 1-D / 2-D arrays",
           "IEEE signed zeros are not modelled: a pixel with a -0.0 noise value (derived arrays only) is unobserved for the sign of "
           "an infinite signal-to-noise value"]
ASSUMPTIONS = ["theorems are over the reals (any function in the ln slot); floating-point rounding is not modelled: inputs are "
               "dyadic so that every compared double operation except ln, x/3-style divisions is exact",
               "noise is positive on fitted pixels (the property's quantifier); masked pixels carry arbitrary finite values",
               "noise covariance: slim storage, at least one fitted pixel, symmetric positive definite dyadic matrices; the "
               "covariance matrix and an inversion's inputs are not edited after a read (cached_property by design)"]

# ----------------------------------------------------------------------------- numbers
TWO_PI = 2 * np.pi
NOISE = [0.25, 0.5, 1.0, 2.0, 4.0, 8.0]
G_DATA = [1e30, -4096.0, 0.0, 99.0]
G_NOISE = [0.0, -4.0, 2.0 ** 40, 0.25, -0.5]
G_MODEL = [1e30, -3.0, 0.0, 1048576.0]
SKIES = [0.5, -1.25, 2.0]
BIG = Fraction(10) ** 40
# (pixel_scales, origin) of the mask: the fit never looks at them
GEOMS = [(1.0, (0.0, 0.0)), ((2.0, 0.5), (1.0, -3.0)), (0.05, (0.0, 0.0)), ((0.25, 3.0), (-7.5, 2.0))]
ROUTES = {"slim": ["fresh", "arith", "view", "copy", "native_slim", "from_native2d", "apply_mask", "trimmed"],
          "native": ["fresh", "arith", "view", "copy", "native_of_slim", "native_of_native", "trimmed"],
          "native_nomask": ["fresh", "arith", "view", "copy"]}
READS = ["data", "residual", "normres", "chimap", "chi2", "redchi2", "nn", "ll", "llreg", "evidence", "fom", "rff", "snr"]

def hz(n):
    """Coq integer literal; hexadecimal for large values (decimal number notations are quadratic in the digits)"""
    n = int(n)
    t = hex(abs(n)) if abs(n) >= 4096 else str(abs(n))
    return f"(-{t})" if n < 0 else t
def cq(x):
    f = Fraction(x)
    return f"(Qmake {hz(f.numerator)} {hz(f.denominator)})"
def fq(x):
    x = float(x)
    if math.isnan(x): return BIG * 7
    if math.isinf(x): return BIG if x > 0 else -BIG
    return Fraction(x)
def fopt(x):
    x = float(x)
    return None if not math.isfinite(x) else Fraction(x)
def cx(x):
    """a double as an [xval]: finite / +inf / -inf / nan"""
    x = float(x)
    if math.isnan(x): return "XNaN"
    if math.isinf(x): return "XPInf" if x > 0 else "XNInf"
    return f"(XFin {cq(Fraction(x))})"
def xl(xs): return clist([cx(x) for x in xs])
def cpair(z): return ctup([cq(fq(z.real)), cq(fq(z.imag))])
def cpl(zs): return clist([cpair(complex(z)) for z in zs])
def ql(xs): return clist([cq(fq(x)) for x in xs])
def qm(m): return clist([ql(r) for r in m])
def qol(xs): return clist([copt(x, cq) for x in xs])
def jl(xs): return [float(x) for x in xs]

def rel_close(a, b): return abs(a - b) <= 1e-9 * max(1.0, abs(b))

def ln_table(noises, dets=()):
    keys = set()
    for n in noises:
        n = Fraction(n)
        if n > 0: keys.add(Fraction(TWO_PI) * n * n)
    for d in dets:
        if d > 0: keys.add(Fraction(d))
    out = []
    for k in sorted(keys):
        out.append((k, Fraction(flog(k))))
    return out
def flog(k):
    """math.log of a positive Fraction of any magnitude"""
    k = Fraction(k)
    try:
        return math.log(k)
    except (OverflowError, ValueError):
        return math.log(k.numerator) - math.log(k.denominator)
def ctbl(t): return clist([ctup([cq(a), cq(b)]) for a, b in t])
NOISE_SCALES = [-30, -27, -8, 0, 11, 30]

def fdet(m):
    """exact determinant (Fractions), Gaussian elimination"""
    m = [[Fraction(x) for x in r] for r in m]; n = len(m); d = Fraction(1)
    for c in range(n):
        p = next((r for r in range(c, n) if m[r][c] != 0), None)
        if p is None: return Fraction(0)
        if p != c: m[c], m[p] = m[p], m[c]; d = -d
        d *= m[c][c]
        for r in range(c + 1, n):
            f = m[r][c] / m[c][c]
            for k in range(c, n): m[r][k] -= f * m[c][k]
    return d

# shared by every case of a generated case file: 2*pi as a double
COQ_IMPORTS = f"Definition TP : Q := {cq(Fraction(TWO_PI))}."

# ----------------------------------------------------------------------------- generators
def rnd_val(rng): return rng.randint(-20, 20) / 4.0
def rnd_nonzero(rng):
    v = 0.0
    while v == 0.0: v = rnd_val(rng)
    return v

def spd(rng, n):
    g = [[rng.randint(-2, 2) for _ in range(n)] for _ in range(n)]
    return [[float(sum(g[k][i] * g[k][j] for k in range(n)) + (rng.randint(1, 2) if i == j else 0)) for j in range(n)] for i in range(n)]

def gen_inv(rng, kind, structure=None, scales=(0, 0, 0), mappers=None):
    """kind: 'all' | 'partial' | 'none' regularized; scales = binary exponents of (H blocks, F, s);
    mappers: per object, whether it is a real AbstractMapper (else a plain LinearObj)"""
    if structure is None:
        k = rng.randint(1, 3)
        ps = [rng.randint(1, 2) for _ in range(k)]
        if kind == "all": rs = [1] * k
        elif kind == "none": rs = [0] * k
        else:
            if k == 1: ps.append(rng.randint(1, 2)); k = 2
            while True:
                rs = [rng.randint(0, 1) for _ in range(k)]
                if 0 < sum(rs) < k: break
        structure = list(zip(ps, rs))
    tot = sum(p for p, _ in structure)
    eh, ef, es = scales
    sc = lambda M, e: [[x * 2.0 ** e for x in r] for r in M]
    blocks = [sc(spd(rng, p), eh) if r else [] for p, r in structure]
    iv = {"objs": [[int(p), int(r)] for p, r in structure], "blocks": blocks, "F": sc(spd(rng, tot), ef),
          "s": [float(rng.randint(-3, 3)) * 2.0 ** es for _ in range(tot)]}
    if mappers is None and rng.random() < 0.5: mappers = [rng.randint(0, 1) for _ in structure]
    if mappers is not None: iv["mappers"] = [int(b) for b in mappers]
    if rng.random() < 0.3: iv["deep"] = True       # linear objects / regularizations that are subclasses of subclasses
    return iv

def gen_fit(rng, h, w, maskbits, mode, sky, invkind, via, route="fresh", geom=0, scale=(0, 0), special=None):
    """scale = binary exponents (data / model / sky, noise) common to the whole image, so that every double
    operation stays exact; special: None | 'zero_residual' | 'zero_data' | 'constant'"""
    n = h * w
    ed, en = scale
    zero_masked = route in ("native_of_slim", "native_of_native", "trimmed", "apply_mask")
    d, nz, m = [], [], []
    cd, cn, cm = rnd_val(rng), rng.choice(NOISE), rnd_val(rng)
    for i in range(n):
        if maskbits[i]:
            d.append(rng.choice(G_DATA) * (2.0 ** ed if sky != 0.0 else 1.0))   # data - sky stays exact
            nz.append(rng.choice([g for g in G_NOISE if g >= 0.0] if zero_masked else G_NOISE))
            m.append(rng.choice(G_MODEL))
        else:
            # data - sky == 0 now and then (zero denominator of the residual flux fraction)
            dv = sky if rng.random() < 0.08 else rnd_val(rng)
            nv = rng.choice(NOISE); mv = rnd_val(rng)
            if special == "constant": dv, nv, mv = cd, cn, cm
            if special == "zero_data": dv = sky
            if special == "zero_residual": mv = dv - sky
            d.append(dv * 2.0 ** ed); nz.append(nv * 2.0 ** en); m.append(mv * 2.0 ** ed)
    sky = sky * 2.0 ** ed
    if sky != 0.0:   # keep the subtraction exact on garbage values
        d = [(-4096.0 * 2.0 ** ed if (maskbits[i] and abs(x) > 1e20 * 2.0 ** ed) else x) for i, x in enumerate(d)]
    inv = None if invkind == "noinv" else gen_inv(rng, invkind)
    out = {"op": "fit", "shape": [h, w], "mask": [int(b) for b in maskbits], "mode": mode, "sky": sky,
           "data": d, "noise": nz, "model": m, "inv": inv, "via": via}
    if route != "fresh": out["route"] = route
    if geom: out["geom"] = geom
    return out

def shapes_upto(nmax):
    return [(h, w) for h in range(1, nmax + 1) for w in range(1, nmax + 1) if h * w <= nmax]

def structures(maxlen):
    for k in range(0, maxlen + 1):
        for st in itertools.product([(1, 0), (1, 1), (2, 0), (2, 1)], repeat=k): yield list(st)

def rnd_fit(rng, vias, **kw):
    h, w = rng.randint(1, 5), rng.randint(1, 5)
    p = rng.choice([0.0, 0.2, 0.5, 0.8])
    mode = kw.pop("mode", None) or rng.choice(["native", "native", "slim", "slim", "native_nomask"])
    bits = [1 if (rng.random() < p and mode != "native_nomask") else 0 for _ in range(h * w)]
    sky = kw.pop("sky", None)
    if sky is None: sky = rng.choice([0.0] + SKIES)
    invkind = kw.pop("invkind", None) or rng.choice(["noinv", "noinv", "all", "partial", "none"])
    via = "imaging" if sky != 0.0 else rng.choice(vias)
    return gen_fit(rng, h, w, bits, mode, sky, invkind, via, **kw)

def gen_hist(rng):
    """a history on ONE dataset / ONE fit object (see run_hist)"""
    base = rnd_fit(rng, ["imaging", "imaging", "fitdataset"], route=rng.choice(["fresh", "fresh", "view", "arith"]),
                   geom=rng.randint(0, 3))
    if base["mode"] == "native_nomask": base["route"] = "fresh" if base.get("route") == "view" else base.get("route", "fresh")
    h, w = base["shape"]; n = h * w
    bits = base["mask"]
    native = base["mode"] != "slim"
    ed = 0
    edits = []
    unm = [i for i in range(n) if not bits[i]]
    msk = [i for i in range(n) if bits[i]]
    # user edits of stored values (positions are flat native indices; in slim mode: positions among the unmasked)
    for _ in range(rng.randint(1, 3)):
        which = rng.choice(["data", "noise", "model"])
        pool = list(range(n)) if native else list(range(len(unm)))
        if not pool: break
        pos = rng.choice(pool)
        masked_pos = native and bits[pos]
        if which == "noise": val = rng.choice(G_NOISE) if masked_pos else rng.choice(NOISE)
        else: val = rnd_val(rng)
        edits.append([which, pos, val])
    maskflip = None
    if base["mode"] == "native" and rng.random() < 0.6:
        pos = rng.randrange(n)
        maskflip = pos
        if bits[pos]:    # unmasking a pixel: give it in-scope values first
            edits += [["data", pos, rnd_val(rng)], ["noise", pos, rng.choice(NOISE)], ["model", pos, rnd_val(rng)]]
    bits = list(bits)
    if maskflip is not None: bits[maskflip] = 1 - bits[maskflip]      # the mask after the edit
    model2 = [(rng.choice(G_MODEL) if (bits[i] and native) else rnd_val(rng)) for i in range(n)]
    sky2 = rng.choice([0.0] + SKIES) if base["via"] == "imaging" else 0.0
    if sky2 != 0.0: base["data"] = [(-4096.0 if abs(x) > 1e20 else x) for x in base["data"]]   # data - sky2 stays exact
    twin = {"data": [(rng.choice(G_DATA[1:]) if (bits[i] and native) else rnd_val(rng)) for i in range(n)],
            "noise": [(rng.choice(G_NOISE) if (bits[i] and native) else rng.choice(NOISE)) for i in range(n)]}
    order = READS[:]; rng.shuffle(order)
    # the user also changes the background sky level of the (shared) DatasetModel object between two reads
    sky_edit = rng.choice([None, None] + SKIES + [0.0]) if base["via"] == "imaging" else None
    if sky_edit: base["data"] = [(-4096.0 if abs(x) > 1e20 else x) for x in base["data"]]
    return {"op": "hist", "base": base, "edits": edits, "maskflip": maskflip, "model2": model2, "sky2": sky2,
            "twin": twin, "order": order, "sky_edit": sky_edit}

def gen_kinds(rng, f32fine=False):
    """input KINDS: integer- / bool- / float32-typed and list-built data, noise and model arrays (the model also as a plain
    ndarray), where float64 Array2D objects are usual.  The model data is float-typed (or the data is), so that the residual
    is a float array: np.divide(..., out=np.zeros_like(residual)) refuses integer residuals in the current code."""
    mode = rng.choice(["slim", "slim", "native_nomask", "native"])
    h, w = rng.randint(1, 4), rng.randint(1, 4); n = h * w
    p = rng.choice([0.0, 0.3, 0.6])
    bits = [1 if (rng.random() < p and mode != "native_nomask") else 0 for _ in range(n)]
    dk = rng.choice(["int64", "int64", "int32", "int8", "bool", "float32", "list", "list", "float64"])
    nk = rng.choice(["float64", "float64", "int64", "int32", "list"])
    mk = rng.choice(["float64", "float64", "float32"] + (["int64"] if dk.startswith("float") else []))
    if f32fine:
        dk, nk, mk = "float32", "float64", "float64"
        if mode == "native": mode = "slim"; bits = [1 if rng.random() < p else 0 for _ in range(n)]
    model_nd = rng.random() < 0.35
    if dk == "float64" and nk == "float64" and mk == "float64": model_nd = True
    sky = rng.choice([0.0, 0.0] + SKIES)
    quarters = dk in ("float32", "float64") or (dk == "list" and rng.random() < 0.4)
    d, nz, m = [], [], []
    for i in range(n):
        masked = bits[i] and mode == "native"
        if dk == "bool": dv = float(rng.randint(0, 1))
        elif masked: dv = float(rng.choice([-100, 0, 99]))
        elif "float32" in (dk, mk):
            # a float32 residual / data array makes the code divide in float32: data - sky is a power of two (or zero), so
            # that the residual flux fraction is exact in either precision
            dv = sky + rng.choice([0.0, 0.25, 0.5, 1.0, 2.0, 4.0, 8.0, -0.25, -0.5, -1.0, -2.0, -4.0])
        else: dv = rnd_val(rng) if quarters else float(rng.randint(-20, 20))
        if masked: nv = float(rng.choice([0, -4, 2]))
        else: nv = float(rng.choice([1, 2, 4, 8])) if nk != "float64" else rng.choice(NOISE)
        mv = float(rng.randint(-20, 20)) if mk == "int64" else rnd_val(rng)
        if masked and mk != "int64": mv = rng.choice([-3.0, 0.0, 1048576.0])
        d.append(dv); nz.append(nv); m.append(mv)
    if mk != "int64" and all(x == round(x) for x in m): m[rng.randrange(n)] += 0.25     # a float-valued model
    tolerant = False
    if dk == "float32" and mk == "float64" and nk == "float64" and mode != "native":
        # the residual needs more than the 24 bits of the data's type: a buffer that inherits float32 shows at 6e-8; double
        # rounding (squares, sums) is visible too, so these cases are compared within 1e-9 (KFitR).  Not on the masked-native
        # path, which writes into np.zeros_like(data) in the current code (float32 results there)
        m = [x + rng.randint(1, 2 ** 20 - 1) * 2.0 ** -30 for x in m]; tolerant = True
    invkind = rng.choice(["noinv", "noinv", "noinv", "partial"])
    via = "imaging" if sky != 0.0 else rng.choice(["imaging", "fitdataset"] + (["abstract"] if (mode != "native" and invkind == "noinv") else []))
    return {"op": "fit", "shape": [h, w], "mask": bits, "mode": mode, "sky": sky, "data": d, "noise": nz, "model": m,
            "inv": None if invkind == "noinv" else gen_inv(rng, invkind), "via": via,
            "dtypes": {"data": dk, "noise": nk, "model": mk}, "model_nd": model_nd, "geom": rng.randint(0, 3), "tolerant": tolerant}

def gen_dmhist(rng):
    """histories on DatasetModel objects: the fit's OWN default object (none passed), edited by the user, must not leak into
    the next fit built with the default; one DatasetModel object shared by two fits, edited between the reads"""
    base = rnd_fit(rng, ["imaging"], sky=0.0, geom=rng.randint(0, 3))
    base["data"] = [(-4096.0 if abs(x) > 1e20 else x) for x in base["data"]]       # data - sky stays exact
    h, w = base["shape"]; n = h * w
    native = base["mode"] != "slim"
    model2 = [(rng.choice(G_MODEL) if (base["mask"][i] and native) else rnd_val(rng)) for i in range(n)]
    return {"op": "dmhist", "base": base, "model2": model2, "s1": rng.choice(SKIES), "s2": rng.choice(SKIES + [0.0]),
            "s3": rng.choice(SKIES), "sub": bool(rng.randint(0, 1))}

def neg_pivot_spd(rng, n):
    """RARE STATE, constructed: a positive definite matrix whose sparse LU factorisation (scipy splu, as used by
    log_det_regularization_matrix_term) has NEGATIVE entries on the diagonal of U (row permutations of odd sign): the
    log-determinant is then the real part of a sum of complex logarithms"""
    from scipy.sparse import csc_matrix
    from scipy.sparse.linalg import splu
    for _ in range(4000):
        M = spd(rng, n)
        lu = splu(csc_matrix(np.array(M)))
        if (lu.U.diagonal() < 0).any() or (lu.L.diagonal() < 0).any(): return M
    return spd(rng, n)

def gen_inv_negpivot(rng):
    k = rng.randint(1, 2)
    st = [(rng.choice([2, 3]), 1)] + [(rng.randint(1, 2), rng.randint(0, 1)) for _ in range(k - 1)]
    rng.shuffle(st)
    iv = gen_inv(rng, None, st)
    iv["blocks"] = [(neg_pivot_spd(rng, p) if (r and p >= 2) else b) for (p, r), b in zip(st, iv["blocks"])]
    return iv

PSFS = [[[0.0, 0.0, 0.0], [0.0, 1.0, 0.0], [0.0, 0.0, 0.0]], [[0.0, 0.125, 0.0], [0.125, 0.5, 0.125], [0.0, 0.125, 0.0]],
        [[0.0625, 0.0, 0.125], [0.25, 0.5, 0.0], [0.0, 0.0625, 0.0]]]
def gen_prod(rng):
    """PRODUCTION inversion classes (aa.Inversion factory -> InversionImagingMapping, and the class itself) on a real masked
    Imaging dataset with a PSF: the curvature matrix, the data vector and the reconstruction are computed by the code from
    mapping matrices; the anchored terms and the fit on top are then compared with the model on SNAPSHOTS of F and s.
    Two inversions share the linear objects, the settings object and the Preloads object (optionally carrying a curvature matrix)"""
    while True:
        h, w = rng.choice([(2, 2), (2, 3), (3, 2), (1, 4), (3, 3), (4, 1)])
        bits = [1 if rng.random() < 0.2 else 0 for _ in range(h * w)]
        if bits.count(0) >= 3: break
    npix = bits.count(0)
    while True:
        k = rng.randint(1, 3)
        st = [(rng.randint(1, 2), rng.randint(0, 1)) for _ in range(k)]
        tot = sum(p for p, _ in st)
        if tot > min(npix, 5) or not any(r for _, r in st) and rng.random() < 0.7: continue
        maps = [[[rng.randint(0, 4) / 4.0 for _ in range(p)] for _ in range(npix)] for p, _ in st]
        if np.linalg.matrix_rank(np.hstack([np.array(m) for m in maps])) == tot: break
    kinds = [("mapper" if r else rng.choice(["func", "func", "mapper"])) for _, r in st]
    wt = [False, False]
    if rng.random() < 0.45:
        # a REAL MapperRectangular (its mapping matrix comes from the grids) and both production classes: the factory returns
        # InversionImagingWTilde for use_w_tilde=True and InversionImagingMapping otherwise
        h, w = rng.choice([(3, 3), (3, 4), (4, 3)])
        bits = [1 if rng.random() < 0.15 else 0 for _ in range(h * w)]
        npix = bits.count(0)
        mesh = rng.choice([(2, 2), (1, 2), (2, 1), (1, 3), (2, 2)])
        pm = mesh[0] * mesh[1]
        wt = [bool(rng.randint(0, 1)), bool(rng.randint(0, 1))]
        st = [(pm, 1)]; kinds = ["real"]; maps = [[]]
        if not any(wt) and rng.random() < 0.5:
            fm = [[rng.randint(0, 4) / 4.0] for _ in range(npix)]; fm[rng.randrange(npix)] = [1.0]
            pos = rng.randint(0, 1)
            st.insert(pos, (1, 0)); kinds.insert(pos, "func"); maps.insert(pos, fm)
        tot = sum(p for p, _ in st)
        real = list(mesh)
    else: real = None
    blocks = [spd(rng, p) if r else [] for p, r in st]
    blocks2 = [spd(rng, p) if r else [] for p, r in st]
    return {"op": "prod", "shape": [h, w], "mask": bits, "data": [rnd_val(rng) + 4.0 for _ in range(npix)],
            "noise": [rng.choice(NOISE) for _ in range(npix)], "psf": rng.randrange(len(PSFS)), "objs": [[p, r] for p, r in st],
            "kinds": kinds, "maps": maps, "blocks": blocks, "blocks2": blocks2, "sky": rng.choice([0.0, 0.0] + SKIES),
            "preF": spd(rng, tot) if rng.random() < 0.5 else None, "factory2": bool(rng.randint(0, 1)),
            "edge_zero": bool(rng.randint(0, 1)) and real is None, "deep": rng.random() < 0.3, "real": real, "wtilde": wt}

def gen_invhist(rng):
    k = rng.randint(1, 3)
    st = [(rng.randint(1, 2), rng.randint(0, 1)) for _ in range(k)]
    mappers = [rng.randint(0, 1) for _ in st]
    a = gen_inv(rng, None, st, mappers=mappers)
    b = gen_inv(rng, None, st, mappers=mappers)
    st2 = [(p, rng.randint(0, 1)) for p, _ in st]
    c = gen_inv(rng, None, st2, mappers=mappers)
    # shared: one SettingsInversion and one Preloads object handed to the three inversions; otherwise none is passed and the
    # constructor's own DEFAULT ARGUMENTS are in force for all three
    return {"op": "invhist", "a": a, "F2": b["F"], "s2": b["s"], "c": c, "shared": rng.random() < 0.5}

def unit_lower(rng, n):
    L = [[0.0] * n for _ in range(n)]
    for i in range(n):
        L[i][i] = 1.0
        for j in range(i): L[i][j] = rng.choice([-1.0, -0.5, 0.0, 0.0, 0.5, 1.0])
    return L
def gen_cov_matrix(rng, n, noise=None):
    """symmetric positive definite, dyadic, with a dyadic inverse: L D L^T (L unit lower triangular);
    with probability 1/4 the diagonal matrix of the squared noise values (no correlation)"""
    if noise is not None and rng.random() < 0.25:
        return [[(noise[i] ** 2 if i == j else 0.0) for j in range(n)] for i in range(n)]
    L = unit_lower(rng, n); D = [rng.choice([0.25, 0.5, 1.0, 2.0, 4.0]) for _ in range(n)]
    return [[sum(L[i][k] * D[k] * L[j][k] for k in range(n)) for j in range(n)] for i in range(n)]

def gen_cov(rng):
    """a slim fit on a dataset with a noise covariance matrix, given directly or through apply_mask of a full dataset"""
    h, w = rng.randint(1, 4), rng.randint(1, 3)
    p = rng.choice([0.0, 0.3, 0.6])
    bits = [1 if rng.random() < p else 0 for _ in range(h * w)]
    bits[rng.randrange(h * w)] = 0      # at least one fitted pixel (an empty covariance matrix cannot be inverted)
    route = rng.choice(["direct", "direct", "apply_mask"])
    sky = rng.choice([0.0] + SKIES)
    base = gen_fit(rng, h, w, bits, "slim", sky, rng.choice(["noinv", "noinv", "all", "partial"]), "imaging",
                   route="apply_mask" if route == "apply_mask" else "fresh", geom=rng.randint(0, 3))
    n = h * w if route == "apply_mask" else bits.count(0)
    noise = base["noise"] if route == "apply_mask" else [x for x, b in zip(base["noise"], bits) if not b]
    return {"op": "cov", "base": base, "C": gen_cov_matrix(rng, n, noise), "model2": [rnd_val(rng) for _ in range(h * w)]}

def cval(rng): return complex(rnd_val(rng), rnd_val(rng))
def gen_vis(rng):
    n = rng.randint(1, 6)
    e = rng.choice([0, 0, 0, -40, 40]); en = rng.choice([0, 0, 0] + NOISE_SCALES)
    z = lambda c: [c.real * 2.0 ** e, c.imag * 2.0 ** e]
    special = rng.choice([None, None, None, "zero_residual", "zero_data"])
    d = [cval(rng) for _ in range(n)]
    if special == "zero_data": d = [0j] * n
    m = [cval(rng) for _ in range(n)] if special != "zero_residual" else list(d)
    edits = []
    for _ in range(rng.randint(1, 2)):
        which = rng.choice(["data", "noise", "model"]); k = rng.randrange(n)
        v = [rng.choice(NOISE) * 2.0 ** en, rng.choice(NOISE) * 2.0 ** en] if which == "noise" else z(cval(rng))
        edits.append([which, k, v])
    order = ["residual", "normres", "chimap", "chi2", "redchi2", "nn", "ll", "llreg", "evidence", "fom", "snr"]
    rng.shuffle(order)
    kinds = None
    if rng.random() < 0.4:     # how the Visibilities objects are built: (n, 2) float pairs, a Python list, complex64
        kinds = {"data": rng.choice(["pairs", "list", "listpairs", "c64", None]), "noise": rng.choice(["pairs", "list", "listpairs", None]),
                 "model": rng.choice(["pairs", "list", "c64", None])}
    return {"op": "vis", "kinds": kinds, "use_mask": bool(rng.randint(0, 1)), "data": [z(c) for c in d], "model": [z(c) for c in m],
            "noise": [[rng.choice(NOISE) * 2.0 ** en, rng.choice(NOISE) * 2.0 ** en] for _ in range(n)],
            "inv": None if rng.random() < 0.5 else gen_inv(rng, rng.choice(["all", "partial", "none"])),
            "edits": edits, "model2": [z(cval(rng)) for _ in range(n)], "order": order}

def gen_inputs(tier, rng):
    big = tier == "thorough"
    vias = ["imaging", "imaging", "fitdataset"]
    # The streams whose cases check for remembered state WITHIN the case come first: state leaked through a module-level or
    # default object would also break later single-evaluation cases, whose replay alone does not reproduce the failure; the
    # first failing case (the one written as the replay) is then a self-contained history.
    # ---- inversion histories (shared / default settings and preloads objects), DatasetModel histories (default object, shared
    # object), histories on one dataset / one fit object, production inversion classes
    for _ in range(200 if big else 30): yield gen_invhist(rng)
    for _ in range(80 if big else 20): yield gen_dmhist(rng)
    for _ in range(600 if big else 80): yield gen_hist(rng)
    for _ in range(100 if big else 25): yield gen_prod(rng)
    i = 0
    for (h, w) in shapes_upto(6 if big else 4):
        for bits in itertools.product([0, 1], repeat=h * w):
            for mode in ("native", "slim"):
                for sky in (0.0, None):
                    for invkind in (("noinv", "all", "partial", "none") if h * w <= (4 if big else 3) else ("noinv", "partial")):
                        i += 1
                        via = vias[i % 3] if sky == 0.0 else "imaging"
                        s = 0.0 if sky == 0.0 else rng.choice(SKIES)
                        yield gen_fit(rng, h, w, bits, mode, s, invkind, via)
    for _ in range(1200 if big else 100):
        yield rnd_fit(rng, vias, geom=rng.randint(0, 3))
    # ---- input KINDS; the AbstractFit sibling
    for _ in range(300 if big else 70): yield gen_kinds(rng)
    for _ in range(60 if big else 12): yield gen_kinds(rng, f32fine=True)
    for _ in range(100 if big else 25):
        yield rnd_fit(rng, ["abstract"], mode=rng.choice(["slim", "native_nomask"]), sky=0.0, invkind="noinv", geom=rng.randint(0, 3),
                      route=rng.choice(["fresh", "fresh", "arith", "copy"]))
    # ---- derived datasets / arrays
    for _ in range(800 if big else 100):
        mode = rng.choice(["native", "slim", "slim", "native_nomask"])
        yield rnd_fit(rng, vias, mode=mode, route=rng.choice(ROUTES[mode][1:]), geom=rng.randint(0, 3))
    # ---- extremes: common power-of-two scales, exact zeros / ties / constant images
    for _ in range(600 if big else 80):
        yield rnd_fit(rng, vias, scale=(rng.choice([-40, -27, -9, 0, 13, 40]), rng.choice(NOISE_SCALES)),
                      special=rng.choice([None, None, "zero_residual", "zero_data", "constant"]), geom=rng.randint(0, 3))
    for st in structures(4 if big else 3):
        for _ in range(3 if big else 2):
            yield {"op": "inv", "inv": gen_inv(rng, None, st), "junk": bool(rng.randint(0, 1))}
    for _ in range(1000 if big else 80):
        yield {"op": "inv", "inv": gen_inv(rng, rng.choice(["all", "partial", "partial", "none"])), "junk": bool(rng.randint(0, 1)),
               "preload": rng.random() < 0.3}
    for _ in range(300 if big else 40):
        e = rng.choice([-40, -20, 0, 20, 40])
        yield {"op": "inv", "inv": gen_inv(rng, rng.choice(["all", "partial", "partial"]),
                                           scales=(e + rng.choice([-30, -8, 0]), e, rng.choice([-40, -7, 0, 9, 40]))), "junk": False}
    # ---- rare states, constructed: negative pivots in the sparse LU factorisation; objects with 0 / 3 parameters
    for _ in range(100 if big else 12):
        yield {"op": "inv", "inv": gen_inv_negpivot(rng), "junk": False, "preload": False}
    for _ in range(100 if big else 12):
        k = rng.randint(1, 3)
        st = [(rng.choice([0, 3, 3, 1]), rng.randint(0, 1)) for _ in range(k)]
        st = [((p, 0) if p == 0 else (p, r)) for p, r in st]       # an object without parameters is never regularized
        yield {"op": "inv", "inv": gen_inv(rng, None, st), "junk": False}
    for _ in range(1000 if big else 120):
        two_d = rng.random() < 0.5
        h, w = (rng.randint(1, 4), rng.randint(1, 4)) if two_d else (1, rng.randint(1, 9))
        n = h * w
        bits = [1 if rng.random() < rng.choice([0.0, 0.3, 0.7]) else 0 for _ in range(n)]
        e = rng.choice([0, 0, 0, -40, 40])
        edits = None
        if rng.random() < 0.4:
            edits = []
            for _ in range(rng.randint(1, 2)):
                which = rng.choice(["data", "noise", "model"])
                edits.append([which, rng.randrange(n), rng.choice(NOISE) if which == "noise" else rnd_val(rng) * 2.0 ** e])
        yield {"op": "util", "shape": [h, w] if two_d else [n], "mask": bits,
               "data": [(0.0 if rng.random() < 0.1 else rnd_val(rng) * 2.0 ** e) for _ in range(n)],
               "noise": [rng.choice(NOISE) for _ in range(n)], "model": [rnd_val(rng) * 2.0 ** e for _ in range(n)],
               "wrap": bool(two_d and rng.random() < 0.4),
               "edits": edits}
    # ---- arbitrary preloaded regularization matrices / log-determinants
    for _ in range(300 if big else 40):
        iv = gen_inv(rng, rng.choice(["all", "partial", "partial", "none"]))
        tot = len(iv["s"])
        yield {"op": "invp", "inv": iv, "pre": {"H": spd(rng, tot) if rng.random() < 0.8 else None,
                                                 "ldr": rng.randint(-40, 40) / 8.0 if rng.random() < 0.5 else None}}
    # ---- noise covariance, interferometer (complex) fits, the complex / covariance fit_util functions on ndarrays
    for _ in range(300 if big else 50): yield gen_cov(rng)
    for _ in range(300 if big else 50): yield gen_vis(rng)
    for _ in range(200 if big else 40):
        n = rng.randint(0, 6); e = rng.choice([0, 0, -40, 40])
        yield {"op": "utilc", "r": [[rnd_val(rng) * 2.0 ** e, rnd_val(rng) * 2.0 ** e] for _ in range(n)],
               "n": [[rng.choice(NOISE), rng.choice(NOISE)] for _ in range(n)]}
    for _ in range(200 if big else 40):
        n = rng.randint(1, 5); e = rng.choice([0, 0, -40, 40])
        yield {"op": "utilcov", "r": [rnd_val(rng) * 2.0 ** e for _ in range(n)],
               "Ci": [[rng.randint(-8, 8) / 4.0 for _ in range(n)] for _ in range(n)]}
    for _ in range(200 if big else 40):
        yield {"op": "compose", "a": [rng.randint(-4000, 4000) / 16.0 for _ in range(5)]}

# ----------------------------------------------------------------------------- implementation side
_CLS = {}
def classes():
    if _CLS: return _CLS
    aa = import_aa()
    from autoconf import cached_property
    from autoarray.fit.fit_imaging import FitImaging
    from autoarray.fit.fit_dataset import FitDataset
    from autoarray.inversion.inversion.abstract import AbstractInversion
    from autoarray.inversion.inversion.dataset_interface import DatasetInterface
    from autoarray.inversion.inversion.settings import SettingsInversion
    from autoarray.inversion.linear_obj.linear_obj import LinearObj
    from autoarray.inversion.regularization.abstract import AbstractRegularization
    from autoarray.inversion.mock.mock_mapper import MockMapper
    from autoarray.preloads import Preloads

    class HFitImaging(FitImaging):
        def __init__(self, dataset, model_data, inversion=None, **kw):
            super().__init__(dataset=dataset, **kw); self._m = model_data; self._i = inversion
        @property
        def model_data(self): return self._m
        @property
        def inversion(self): return self._i
    class HFitDataset(FitDataset):
        def __init__(self, dataset, model_data, inversion=None, **kw):
            super().__init__(dataset=dataset, **kw); self._m = model_data; self._i = inversion
        @property
        def model_data(self): return self._m
        @property
        def inversion(self): return self._i
    class HReg(AbstractRegularization):
        """hands out the caller's matrix itself (fingerprinted after the reads)"""
        def __init__(self, matrix, params=None):
            super().__init__(); self._matrix = np.array(matrix, dtype=float)
            if params is not None: self._matrix = self._matrix.reshape((params, params))
        def regularization_matrix_from(self, linear_obj): return self._matrix
    class HReg1(HReg):
        pass
    class HReg2(HReg1):
        """a subclass of a subclass of a subclass (isinstance, not type(x) / __bases__ / a bounded __mro__, must decide)"""
    class HMapper2(MockMapper):
        """a subclass of a mapper class: LinearObj is four levels up"""
    class HDatasetModel(aa.DatasetModel):
        """a subclass instance where a DatasetModel is accepted"""
    class HObj(LinearObj):
        def __init__(self, params, regularization):
            super().__init__(regularization=regularization); self._p = params
        @property
        def params(self): return self._p
    class HObj1(HObj):
        pass
    class HObj2(HObj1):
        """LinearObj is three levels up"""
    class HInv(AbstractInversion):
        """the real AbstractInversion; only F (curvature_matrix) and s (reconstruction) are supplied.  Like the production
        subclasses, curvature_matrix hands out a freshly computed array (curvature_reg_matrix may add to it in place)."""
        def __init__(self, linear_obj_list, F, s, settings=None, preloads=None):
            # nothing passed -> the class's OWN default arguments are in force (AbstractInversion shares one default
            # SettingsInversion object between all inversions; fingerprinted around every case, see default_objects)
            kw = {}
            if settings is not None: kw["settings"] = settings
            if preloads is not None: kw["preloads"] = preloads
            super().__init__(dataset=DatasetInterface(data=None, noise_map=None), linear_obj_list=linear_obj_list, **kw)
            self._F = F; self._s = np.array(s, dtype=float)
        @cached_property
        def curvature_matrix(self): return np.array(self._F, dtype=float).reshape((len(self._s), len(self._s)))
        @cached_property
        def reconstruction(self): return self._s
    from autoarray.fit.fit_dataset import AbstractFit
    class HAbstractFit(AbstractFit):
        """a direct subclass of AbstractFit (the base the unmasked branches of FitDataset delegate to)"""
        def __init__(self, dataset, model_data): self.dataset = dataset; self._m = model_data
        @property
        def data(self): return self.dataset.data
        @property
        def noise_map(self): return self.dataset.noise_map
        @property
        def model_data(self): return self._m
    _CLS.update(aa=aa, HFitImaging=HFitImaging, HFitDataset=HFitDataset, HReg=HReg, HObj=HObj, HInv=HInv,
                MockMapper=MockMapper, SettingsInversion=SettingsInversion, Preloads=Preloads, HReg2=HReg2, HObj2=HObj2,
                HDatasetModel=HDatasetModel, HAbstractFit=HAbstractFit, HMapper2=HMapper2, AbstractInversion=AbstractInversion,
                FitDataset=FitDataset, FitImaging=FitImaging)
    return _CLS

def make_objs(iv):
    c = classes()
    objs = []
    mappers = iv.get("mappers") or [0] * len(iv["objs"])
    deep = bool(iv.get("deep"))
    for (p, r), b, mp in zip(iv["objs"], iv["blocks"], mappers):
        reg = c["HReg2" if deep else "HReg"](b, p) if r else None
        objs.append(c["HMapper2" if deep else "MockMapper"](parameters=p, regularization=reg) if mp else c["HObj2" if deep else "HObj"](p, reg))
    return objs

def make_inv(iv, junk=False, objs=None, settings=None, preloads=None):
    c = classes()
    return c["HInv"](objs if objs is not None else make_objs(iv), iv["F"], iv["s"], settings=settings, preloads=preloads)

def obj_fp(x, depth=0):
    """a comparable fingerprint of an argument object (its attributes, recursively; arrays by content)"""
    if x is None or isinstance(x, (bool, int, float, complex, str)): return repr(x)
    if isinstance(x, np.ndarray): return ("ndarray", x.shape, str(x.dtype), x.tobytes())
    if isinstance(x, (list, tuple)): return (type(x).__name__, [obj_fp(v, depth + 1) for v in x])
    if isinstance(x, dict): return ("dict", sorted((repr(k), obj_fp(v, depth + 1)) for k, v in x.items()))
    if hasattr(x, "__dict__") and depth < 3:
        return (type(x).__name__, sorted((k, obj_fp(v, depth + 1)) for k, v in vars(x).items()))
    return type(x).__name__

def default_objects():
    """every object held as a DEFAULT ARGUMENT by the constructors on the observed path (looked up at call time, so
    that a default object introduced by a change of the code is found as well)"""
    c = classes()
    out = []
    klasses = [c["AbstractInversion"], c["FitDataset"], c["FitImaging"], c["aa"].DatasetModel, c["Preloads"], c["SettingsInversion"]]
    if "FitInterferometer" in c: klasses.append(c["FitInterferometer"])
    for k in klasses:
        f = k.__init__
        for d in tuple(getattr(f, "__defaults__", None) or ()) + tuple((getattr(f, "__kwdefaults__", None) or {}).values()):
            if not (d is None or isinstance(d, (bool, int, float, complex, str))): out.append((k.__name__, d))
    return out
def defaults_fp(): return [(n, obj_fp(d)) for n, d in default_objects()]

def inv_fingerprint(inv):
    fp = [np.array(inv._s, copy=True)]
    for o in inv.linear_obj_list:
        if o.regularization is not None: fp.append(np.array(o.regularization._matrix, copy=True))
    return fp, obj_fp(inv.settings), obj_fp(inv.preloads)
def inv_fingerprint_changed(inv, fp):
    now = inv_fingerprint(inv)
    return (not all(a.shape == b.shape and np.array_equal(a, b, equal_nan=True) for a, b in zip(fp[0], now[0]))
            or fp[1] != now[1] or fp[2] != now[2])

def inv_tables(iv):
    """exact principal sub-determinants on the regularized indices (keys of the ln table)"""
    ps = [p for p, _ in iv["objs"]]; tot = sum(ps)
    H = [[Fraction(0)] * tot for _ in range(tot)]
    off = 0; reg = []
    for (p, r), b in zip(iv["objs"], iv["blocks"]):
        if r:
            for i in range(p):
                for j in range(p): H[off + i][off + j] = Fraction(b[i][j])
            reg += list(range(off, off + p))
        off += p
    FH = [[Fraction(iv["F"][i][j]) + H[i][j] for j in range(tot)] for i in range(tot)]
    sub = lambda M: [[M[i][j] for j in reg] for i in reg]
    return reg, fdet(sub(FH)), fdet(sub(H)), H, FH

def cinv(iv):
    objs = clist([ctup([cnat(p), cbool(r)]) for p, r in iv["objs"]])
    blocks = clist([qm(b) for b in iv["blocks"]])
    return f"(Build_inv Q {objs} {blocks} {qm(iv['F'])} {ql(iv['s'])})"

def flat(x): return [float(v) for v in np.asarray(x, dtype=float).ravel()]

# ---- building the dataset / the model array of a fit input, fresh or DERIVED from other structures
def make_mask(aa, maskarr, geom):
    ps, origin = GEOMS[geom]
    return aa.Mask2D(mask=maskarr, pixel_scales=ps, origin=origin)

DTYPES = {"float64": np.float64, "float32": np.float32, "int64": np.int64, "int32": np.int32, "int8": np.int8, "bool": np.bool_}
def make_array(aa, mask, maskarr, v, mode, route, dtype=None):
    """v: full (h, w) values, garbage in masked pixels; dtype: the KIND of the stored array ('list' = built from a nested
    Python list of Python numbers, which numpy types as int64 when every value is integral)"""
    if dtype == "list":
        ints = bool(np.all(v == np.round(v)))
        conv = (lambda x: int(x)) if ints else (lambda x: float(x))
        if mode == "slim": return aa.Array2D(values=[conv(x) for x in v[~maskarr]], mask=mask)
        return aa.Array2D(values=[[conv(x) for x in r] for r in np.where(maskarr, 0.0, v)], mask=mask,
                          store_native=True).with_new_array(np.array([[conv(x) for x in r] for r in v]))
    if dtype is not None: v = v.astype(DTYPES[dtype])
    if mode == "slim":
        fresh = lambda: aa.Array2D(values=v[~maskarr], mask=mask)
        if route == "arith":
            x = aa.Array2D(values=0.5 * v[~maskarr], mask=mask); return x + x
        if route == "view": return fresh()[:]
        if route == "copy": return copy.deepcopy(fresh())
        if route == "native_slim": return fresh().native.slim
        if route == "from_native2d": return aa.Array2D(values=v.copy(), mask=mask)
        return fresh()
    fresh = lambda: aa.Array2D(values=np.where(maskarr, v.dtype.type(0), v), mask=mask, store_native=True).with_new_array(v.copy())
    if route == "arith":
        g = fresh(); return 0.5 * g + 0.5 * g          # masked pixels keep their garbage
    if route == "view": return fresh()[:]
    if route == "copy": return copy.copy(fresh())
    if route == "native_of_slim": return aa.Array2D(values=v[~maskarr], mask=mask).native   # zeros in masked pixels
    if route == "native_of_native": return fresh().native          # .native of a natively stored array: masked pixels zeroed
    return fresh()

def build_env(inp):
    """-> dict(dataset, model, mask, use_mask, native): live objects of one fit input"""
    c = classes(); aa = c["aa"]
    h, w = inp["shape"]; mode = inp["mode"]; route = inp.get("route", "fresh"); geom = inp.get("geom", 0)
    maskarr = np.array(inp["mask"], dtype=bool).reshape((h, w))
    V = {k: np.array(inp[k], dtype=float).reshape((h, w)) for k in ("data", "noise", "model")}
    if route == "trimmed":
        # the dataset is cut out of a larger one whose one-pixel border is masked
        pm = np.ones((h + 2, w + 2), dtype=bool); pm[1:-1, 1:-1] = maskarr
        pmask = make_mask(aa, pm, geom)
        def padded(v, fill):
            p = np.full((h + 2, w + 2), fill); p[1:-1, 1:-1] = v; return p
        arrs = {k: make_array(aa, pmask, pm, padded(V[k], {"data": 99.0, "noise": 2.0, "model": -3.0}[k]), mode, "fresh") for k in V}
        big = aa.Imaging(data=arrs["data"], noise_map=arrs["noise"])
        dataset = big.trimmed_after_convolution_from(kernel_shape=(3, 3))
        model = arrs["model"].trimmed_after_convolution_from(kernel_shape=(3, 3))
        mask = dataset.mask
    elif route == "apply_mask":
        ps, origin = GEOMS[geom]
        full = aa.Imaging(data=aa.Array2D.no_mask(V["data"].copy(), pixel_scales=ps, origin=origin),
                          noise_map=aa.Array2D.no_mask(V["noise"].copy(), pixel_scales=ps, origin=origin), check_noise_map=False)
        mask = make_mask(aa, maskarr, geom)
        dataset = full.apply_mask(mask=mask)
        model = make_array(aa, mask, maskarr, V["model"], mode, "fresh")
    else:
        mask = make_mask(aa, maskarr, geom)
        dt = inp.get("dtypes") or {}
        dataset = aa.Imaging(data=make_array(aa, mask, maskarr, V["data"], mode, route, dt.get("data")),
                             noise_map=make_array(aa, mask, maskarr, V["noise"], mode, route, dt.get("noise")),
                             check_noise_map=not dt)
        model = make_array(aa, mask, maskarr, V["model"], mode, route, dt.get("model"))
        if inp.get("model_nd"): model = np.array(np.asarray(model), copy=True)     # a plain ndarray as the model data
    return {"dataset": dataset, "model": model, "use_mask": mode == "native", "native": mode != "slim"}

class Both:
    """the properties a direct AbstractFit subclass has are read from it, the others (reduced chi-squared, figure of
    merit, residual flux fraction, ...) from a FitDataset on the same arrays"""
    def __init__(self, a, b): self._a, self._b = a, b
    def __getattr__(self, k): return getattr(self._a if hasattr(type(self._a), k) else self._b, k)

def make_fit(env, inp_via, sky, inv, model=None, dataset_model="fresh"):
    """dataset_model: 'fresh' (a new DatasetModel carrying sky) | 'default' (none passed) | a DatasetModel object"""
    c = classes(); aa = c["aa"]
    model = env["model"] if model is None else model
    if inp_via == "fitdataset":
        return c["HFitDataset"](env["dataset"], model, inversion=inv, use_mask_in_fit=env["use_mask"])
    if inp_via == "abstract":     # slim / unmasked native, no inversion, no sky
        return Both(c["HAbstractFit"](env["dataset"], model),
                    c["HFitDataset"](env["dataset"], model, inversion=None, use_mask_in_fit=False))
    if dataset_model == "default":
        return c["HFitImaging"](env["dataset"], model, inversion=inv, use_mask_in_fit=env["use_mask"])
    if dataset_model == "fresh": dataset_model = aa.DatasetModel(background_sky_level=sky)
    return c["HFitImaging"](env["dataset"], model, inversion=inv, use_mask_in_fit=env["use_mask"], dataset_model=dataset_model)

def snapshot(dataset, model):
    return {"mask": np.array(np.asarray(dataset.mask), dtype=bool, copy=True), "data": np.array(np.asarray(dataset.data), dtype=float, copy=True),
            "noise": np.array(np.asarray(dataset.noise_map), dtype=float, copy=True), "model": np.array(np.asarray(model), dtype=float, copy=True)}
def snapshot_changed(a, b):
    return [k for k in a if a[k].shape != b[k].shape or not np.array_equal(a[k], b[k], equal_nan=(k != "mask"))]

def observe(fit, order=None):
    """reads every observed property of a fit object (in the given order)"""
    o = {}
    def rd(k):
        if k == "data": o["data"] = flat(fit.data)
        elif k == "residual": o["residual"] = flat(fit.residual_map)
        elif k == "normres": o["normres"] = flat(fit.normalized_residual_map)
        elif k == "chimap": o["chimap"] = flat(fit.chi_squared_map)
        elif k == "chi2": o["chi2"] = float(fit.chi_squared)
        elif k == "redchi2": o["redchi2"] = list(call_res(lambda: float(fit.reduced_chi_squared)))
        elif k == "nn": o["nn"] = float(fit.noise_normalization)
        elif k == "ll": o["ll"] = float(fit.log_likelihood)
        elif k == "llreg":
            v = fit.log_likelihood_with_regularization; o["llreg"] = None if v is None else float(v)
        elif k == "evidence":
            v = fit.log_evidence; o["evidence"] = None if v is None else float(v)
        elif k == "fom":
            v = fit.figure_of_merit; o["fom"] = None if v is None else float(v)
        elif k == "rff":
            with np.errstate(all="ignore"): o["rff"] = flat(fit.residual_flux_fraction_map)
        elif k == "snr":
            with np.errstate(all="ignore"): o["snr"] = flat(fit.signal_to_noise_map)
    for k in (order or READS): rd(k)
    return o

def same_out(a, b):
    def eq(x, y):
        if isinstance(x, list): return len(x) == len(y) and all(eq(p, q) for p, q in zip(x, y))
        if isinstance(x, float) and isinstance(y, float): return x == y or (math.isnan(x) and math.isnan(y))
        return x == y
    return [k for k in a if not eq(a[k], b.get(k))]

def fit_case(snap, use_mask, sky, ivd, o, tolerant=False):
    """the Coq case of one read of a fit (inputs = snapshot of the live arrays) and the Python-side cross-check of
    the ln-dependent scalars against math.log -> (coq, py_ok, [detail])"""
    bits = [int(b) for b in snap["mask"].ravel()]
    d, nz, m = flat(snap["data"]), flat(snap["noise"]), flat(snap["model"])
    native = len(d) == len(bits) and snap["data"].ndim == 2
    o = dict(o)
    # a negative zero in the noise map flips the sign of an infinite signal-to-noise value, which the rational model cannot
    # see: such a pixel is made unobserved (the value IEEE gives for +0.0 is substituted)
    fd = [x - sky for x in d] if sky != 0.0 else d
    for i, x in enumerate(nz):
        if x == 0.0 and math.copysign(1.0, x) < 0 and i < len(o["snr"]):
            with np.errstate(all="ignore"):
                v = float(np.float64(fd[i]) / np.float64(0.0)); o["snr"][i] = 0.0 if v < 0 else v
    rc = tuple(o["redchi2"])
    dets = ()
    if ivd is not None:
        _, dfh, dh, _, _ = inv_tables(ivd); dets = (dfh, dh)
    full = lambda xs: xs if native else None
    if native: fitted = [i for i in range(len(bits)) if not (bits[i] and use_mask)]
    else: fitted = list(range(len(d)))
    fitted_noise = [nz[i] for i in fitted]
    tbl = ln_table(fitted_noise, dets)
    f = (f"(Build_fit Q {clist([cbool(b) for b in bits])} {cbool(use_mask)} {cq(frac(sky))} {ql(d)} {ql(nz)} {ql(m)} "
         f"{'None' if ivd is None else '(Some ' + cinv(ivd) + ')'})")
    out = (f"(Build_fitout {ql(o['data'])} {ql(o['residual'])} {ql(o['normres'])} {ql(o['chimap'])} {cq(fq(o['chi2']))} "
           f"{cres(rc, lambda v: cq(fq(v)))} {cq(fq(o['nn']))} {cq(fq(o['ll']))} {copt(o['llreg'], lambda v: cq(fq(v)))} "
           f"{copt(o['evidence'], lambda v: cq(fq(v)))} {copt(o['fom'], lambda v: cq(fq(v)))} "
           f"{qol([fopt(x) for x in o['rff']])} {qol([fopt(x) for x in o['snr']])})")
    # the same for a negative zero in a denominator of the residual flux fraction (never generated; derived arrays only)
    xrff = list(o["rff"])
    for i, x in enumerate(fd):
        if x == 0.0 and math.copysign(1.0, x) < 0 and i < len(xrff) and math.isinf(xrff[i]): xrff[i] = -xrff[i]
    coq = f"({'KFitR' if tolerant else 'KFitX'} {ctbl(tbl)} TP {f} {out} {xl(xrff)} {xl(o['snr'])})"
    py_ok = True; detail = []
    if all(x > 0 for x in fitted_noise):
        S = Fraction(sky)
        D, N, M = ([Fraction(x) for x in xs] for xs in (d, nz, m))
        chi = sum((((D[i] - S) - M[i]) / N[i]) ** 2 for i in fitted)
        nn = sum(flog(Fraction(TWO_PI) * N[i] ** 2) for i in fitted)
        want = {"chi2": float(chi), "nn": nn, "ll": -0.5 * (float(chi) + nn)}
        if ivd is not None:
            reg, dfh, dh, H, FH = inv_tables(ivd)
            s = [Fraction(x) for x in ivd["s"]]
            q = float(sum(s[i] * H[i][j] * s[j] for i in reg for j in reg))
            if reg and dfh > 0 and dh > 0:
                want["evidence"] = -0.5 * (float(chi) + q + flog(dfh) - flog(dh) + nn)
            elif not reg:
                want["evidence"] = want["ll"]
            want["llreg"] = -0.5 * (float(chi) + q + nn)
            if "evidence" in want: want["fom"] = want["evidence"]
        else:
            want["fom"] = want["ll"]; want["evidence"] = None; want["llreg"] = None
        for k, v in want.items():
            got = o[k]
            ok = (got is None and v is None) or (got is not None and v is not None and math.isfinite(got) and rel_close(got, v))
            if not ok: py_ok = False; detail.append(f"{k}: implementation {got}, definition {v}")
    return coq, py_ok, detail

def structure_defects(fit, dataset):
    """the maps are STRUCTURES of the kind of the data (same class, an equal mask with the same geometry, the same storage
    mode), and the structures DERIVED from them (.native / .slim) carry the same values on the unmasked pixels"""
    out = []
    data = dataset.data
    if not hasattr(data, "store_native"): return out
    mk = np.array(np.asarray(dataset.mask), dtype=bool)
    with np.errstate(all="ignore"):
        for name in ("data", "residual_map", "normalized_residual_map", "chi_squared_map", "signal_to_noise_map"):
            v = getattr(fit, name)
            if type(v) is not type(data): out.append(f"{name} is a {type(v).__name__}, the data is a {type(data).__name__}"); continue
            if v.store_native != data.store_native: out.append(f"{name}: store_native = {v.store_native}, the data has {data.store_native}")
            vm = np.array(np.asarray(v.mask), dtype=bool)
            if vm.shape != mk.shape or not np.array_equal(vm, mk) or v.mask.pixel_scales != dataset.mask.pixel_scales or v.mask.origin != dataset.mask.origin:
                out.append(f"{name} does not carry the dataset's mask / geometry")
                continue
            if name in ("residual_map", "chi_squared_map"):
                a = np.asarray(v.native, dtype=float)[~mk]; b = np.asarray(v.slim, dtype=float)
                if a.shape != b.shape or not np.array_equal(a, b, equal_nan=True): out.append(f"{name}.native and {name}.slim differ on the unmasked pixels")
    return out

def read_fit(fit, env, model, use_mask, sky, ivd, order=None, inv=None, tolerant=False):
    """snapshot the caller's arrays, read everything, check that the reads did not modify the caller's arrays
    -> (coq, py_ok, [detail], o)"""
    before = snapshot(env["dataset"], model)
    ifp = inv_fingerprint(inv) if inv is not None else None
    o = observe(fit, order)
    after = snapshot(env["dataset"], model)
    coq, py_ok, detail = fit_case(before, use_mask, sky, ivd, o, tolerant=tolerant)
    ch = snapshot_changed(before, after)
    if ch:
        py_ok = False; detail.append("reading the fit modified the caller's " + ", ".join(ch) + " in place")
    st = structure_defects(fit, env["dataset"])
    if st: py_ok = False; detail.extend(st)
    if inv is not None and inv_fingerprint_changed(inv, ifp):
        py_ok = False; detail.append("reading the fit modified the inversion's reconstruction / regularization matrices / settings / preloads object in place")
    return coq, py_ok, detail, o

def fit_kind(inp):
    return (f"fit/{inp['mode']}/{'sky' if inp['sky'] else 'nosky'}/{'noinv' if inp['inv'] is None else 'inv'}/{inp['via']}"
            + ("" if inp.get("route", "fresh") == "fresh" else "/" + inp["route"])
            + ("/kinds" if inp.get("dtypes") or inp.get("model_nd") else "") + ("/tolerant" if inp.get("tolerant") else ""))

def may_refuse(inp):
    """computed from the INPUT: the masked-native path writes into np.zeros_like(data); with integer / bool typed data
    and no sky subtraction numpy refuses the float result loudly (UFuncTypeError: same-kind casting).  Such a case may
    either be refused that way or return the values of the model; anything else (a silently truncated value) is reported."""
    dt = (inp.get("dtypes") or {}).get("data")
    if dt == "list": dt = "int64" if all(float(x) == round(float(x)) for x in inp["data"]) else "float64"
    return inp["mode"] == "native" and inp["sky"] == 0.0 and dt is not None and not dt.startswith("float")

def run_fit(inp):
    env = build_env(inp)
    inv = None if inp["inv"] is None else make_inv(inp["inv"])
    fit = make_fit(env, inp["via"], inp["sky"], inv)
    try:
        coq, py_ok, detail, o = read_fit(fit, env, env["model"], env["use_mask"], inp["sky"], inp["inv"], inv=inv,
                                         tolerant=bool(inp.get("tolerant")))
    except TypeError as e:
        if may_refuse(inp) and "Cannot cast ufunc" in str(e):
            _COUNTS["loud_refusals"] += 1
            return {"coq": None, "out": "refused: " + str(e)[:120], "py_ok": True, "nontrivial": True, "kind": fit_kind(inp) + "/refused"}
        raise
    return {"coq": coq, "out": o, "py_ok": py_ok, "nontrivial": True, "detail": "; ".join(detail) or None, "kind": fit_kind(inp)}

def set_px(arr, native, shape, pos, val):
    """the user's in-place edit arr[...] = val"""
    if native: arr[pos // shape[1], pos % shape[1]] = val
    else: arr[pos] = val

def run_hist(inp):
    """one dataset, one fit object: read; re-read; the user edits stored values / mask pixels in place; re-read; a second
    fit object on the same dataset (other model, other sky); the first fit again; a second dataset on the same mask object"""
    base = inp["base"]; shape = base["shape"]
    env = build_env(base); ds = env["dataset"]; native = env["native"]; um = env["use_mask"]
    inv = None if base["inv"] is None else make_inv(base["inv"])
    fit1 = make_fit(env, base["via"], base["sky"], inv)
    coqs, outs, detail = [], [], []
    py_ok = True
    def step(tag, fit, model, sky, order=None):
        nonlocal py_ok
        coq, ok, det, o = read_fit(fit, env, model, um, sky, base["inv"], order=order, inv=inv)
        coqs.append(coq); outs.append(o)
        if not ok: py_ok = False; detail.extend(f"[{tag}] {x}" for x in det)
        return o
    o1 = step("first read", fit1, env["model"], base["sky"])
    o1b = observe(fit1, inp["order"])
    bad = same_out(o1, o1b)
    if bad: py_ok = False; detail.append("[re-read] a second read of the same fit object (other order) differs in " + ", ".join(bad))
    # ---- the user edits the dataset / the model array / the mask in place
    for which, pos, val in inp["edits"]:
        set_px({"data": ds.data, "noise": ds.noise_map, "model": env["model"]}[which], native, shape, pos, val)
    if inp["maskflip"] is not None:
        y, x = inp["maskflip"] // shape[1], inp["maskflip"] % shape[1]
        ds.mask[y, x] = not bool(ds.mask[y, x])
    sky1 = base["sky"]
    if inp.get("sky_edit") is not None:
        fit1.dataset_model.background_sky_level = inp["sky_edit"]; sky1 = inp["sky_edit"]
    o2 = step("read after in-place edits", fit1, env["model"], sky1, inp["order"])
    # ---- a second fit object on the same dataset
    c = classes(); aa = c["aa"]
    maskarr = np.array(np.asarray(ds.mask), dtype=bool)
    v2 = np.array(inp["model2"], dtype=float).reshape(shape)
    model2 = make_array(aa, ds.mask, maskarr, v2, "slim" if not native else "native", "fresh")
    env2 = dict(env, model=model2)
    fit2 = make_fit(env2, base["via"], inp["sky2"], inv)
    step("second fit object on the same dataset", fit2, model2, inp["sky2"])
    o2b = observe(fit1)
    bad = same_out(o2, o2b)
    if bad: py_ok = False; detail.append("[first fit after the second] reading another fit object changed " + ", ".join(bad))
    # ---- a second dataset on the same mask object
    tw = {k: np.array(inp["twin"][k], dtype=float).reshape(shape) for k in ("data", "noise")}
    # pixels that are unmasked now carry in-scope noise in the twin as well
    tn = np.where(maskarr, tw["noise"], np.where(np.isin(tw["noise"], NOISE), tw["noise"], 2.0))
    mode = "slim" if not native else "native"
    ds3 = aa.Imaging(data=make_array(aa, ds.mask, maskarr, tw["data"], mode, "fresh"),
                     noise_map=make_array(aa, ds.mask, maskarr, tn, mode, "fresh"))
    env3 = dict(env, dataset=ds3, model=model2)
    fit3 = make_fit(env3, base["via"], inp["sky2"], inv)
    coq, ok, det, o = read_fit(fit3, env3, model2, um, inp["sky2"], base["inv"], inv=inv)
    coqs.append(coq); outs.append(o)
    if not ok: py_ok = False; detail.extend(f"[second dataset on the same mask object] {x}" for x in det)
    return {"coq": coqs[0], "extra_coq": coqs[1:], "out": outs, "py_ok": py_ok, "nontrivial": True,
            "detail": "; ".join(detail) or None, "kind": "hist/" + base["mode"] + ("/inv" if inv is not None else "")}

def run_dmhist(inp):
    base = inp["base"]; shape = base["shape"]
    env = build_env(base); ds = env["dataset"]; native = env["native"]; um = env["use_mask"]
    c = classes(); aa = c["aa"]
    inv = None if base["inv"] is None else make_inv(base["inv"])
    coqs, outs, detail = [], [], []; py_ok = True
    def step(tag, fit, model, sky):
        nonlocal py_ok
        coq, ok, det, o = read_fit(fit, env, model, um, sky, base["inv"], inv=inv)
        coqs.append(coq); outs.append(o)
        if not ok: py_ok = False; detail.extend(f"[{tag}] {x}" for x in det)
    maskarr = np.array(np.asarray(ds.mask), dtype=bool)
    model2 = make_array(aa, ds.mask, maskarr, np.array(inp["model2"], dtype=float).reshape(shape), "native" if native else "slim", "fresh")
    m1 = env["model"]
    fitA = make_fit(env, "imaging", 0.0, inv, dataset_model="default")
    step("fit built without a DatasetModel", fitA, m1, 0.0)
    fitA.dataset_model.background_sky_level = inp["s1"]
    step("the same fit after the user set the sky level on the fit's own DatasetModel", fitA, m1, inp["s1"])
    fitB = make_fit(env, "imaging", 0.0, inv, model=model2, dataset_model="default")
    step("a second fit built without a DatasetModel", fitB, model2, 0.0)
    shared = (c["HDatasetModel"] if inp["sub"] else aa.DatasetModel)(background_sky_level=inp["s2"])
    fitC = make_fit(env, "imaging", None, inv, dataset_model=shared)
    fitD = make_fit(env, "imaging", None, inv, model=model2, dataset_model=shared)
    fp = obj_fp(shared)
    step("first fit on a shared DatasetModel object", fitC, m1, inp["s2"])
    step("second fit on the shared DatasetModel object", fitD, model2, inp["s2"])
    if obj_fp(shared) != fp: py_ok = False; detail.append("reading the fits modified the caller's DatasetModel object")
    shared.background_sky_level = inp["s3"]
    step("first fit after the user edited the shared DatasetModel", fitC, m1, inp["s3"])
    step("second fit after the user edited the shared DatasetModel", fitD, model2, inp["s3"])
    fitE = make_fit(env, "fitdataset", 0.0, inv)
    step("FitDataset built without a DatasetModel", fitE, m1, 0.0)
    return {"coq": coqs[0], "extra_coq": coqs[1:], "out": outs, "py_ok": py_ok, "nontrivial": True,
            "detail": "; ".join(detail) or None, "kind": "dmhist/" + base["mode"] + ("/inv" if inv is not None else "")}

def run_prod(inp):
    c = classes(); aa = c["aa"]
    from autoarray.inversion.inversion.imaging.mapping import InversionImagingMapping
    h, w = inp["shape"]
    inner = np.array(inp["mask"], dtype=bool).reshape((h, w))
    mk = np.ones((h + 2, w + 2), dtype=bool); mk[1:-1, 1:-1] = inner        # room for the blurring region of the PSF
    mask = aa.Mask2D(mask=mk, pixel_scales=1.0)
    full = lambda vals, fill: np.where(mk, fill, 0.0) + np.array(aa.Array2D(values=vals, mask=mask).native)
    psf = aa.Kernel2D.no_mask(values=PSFS[inp["psf"]], pixel_scales=1.0)
    ds = aa.Imaging(data=aa.Array2D.no_mask(full(inp["data"], 99.0), pixel_scales=1.0),
                    noise_map=aa.Array2D.no_mask(full(inp["noise"], 2.0), pixel_scales=1.0), psf=psf).apply_mask(mask=mask)
    grid = aa.Grid2D.from_mask(mask=mask)
    def objs_from(blocks):
        out = []
        for (p, r), kind, mp, b in zip(inp["objs"], inp["kinds"], inp["maps"], blocks):
            reg = c["HReg2" if inp["deep"] else "HReg"](b, p) if r else None
            if kind == "real":
                osamp = aa.OverSamplerUniform(mask=mask, sub_size=1)
                g = osamp.over_sampled_grid
                mg = aa.MapperGrids(mask=mask, source_plane_data_grid=g, image_plane_mesh_grid=None, adapt_data=None,
                                    source_plane_mesh_grid=aa.Mesh2DRectangular.overlay_grid(grid=g, shape_native=tuple(inp["real"])))
                out.append(aa.MapperRectangular(mapper_grids=mg, over_sampler=osamp, border_relocator=None, regularization=reg))
                continue
            M = np.array(mp, dtype=float).reshape((len(inp["data"]), p))
            if kind == "func": out.append(aa.m.MockLinearObjFuncList(parameters=p, grid=grid, mapping_matrix=M))
            else: out.append((c["HMapper2"] if inp["deep"] else aa.m.MockMapper)(parameters=p, mapping_matrix=M, regularization=reg, edge_pixel_list=[]))
        return out
    from autoarray.inversion.inversion.imaging.w_tilde import InversionImagingWTilde
    wts = inp.get("wtilde") or [False, False]
    settings = aa.SettingsInversion(use_w_tilde=wts[0], force_edge_pixels_to_zeros=inp["edge_zero"])
    settings_b = settings if wts[1] == wts[0] else aa.SettingsInversion(use_w_tilde=wts[1], force_edge_pixels_to_zeros=inp["edge_zero"])
    preF = None if inp["preF"] is None else np.array(inp["preF"], dtype=float)
    preloads = c["Preloads"](curvature_matrix=preF) if preF is not None else c["Preloads"]()
    coqs, outs, detail = [], [], []; py_ok = True
    invs = []
    for tag, blocks, factory, wt, settings in (("first inversion", inp["blocks"], True, wts[0], settings),
                                               ("second inversion (same preloads object)", inp["blocks2"], inp["factory2"] or wts[1], wts[1], settings_b)):
        objs = objs_from(blocks)
        mkinv = aa.Inversion if factory else InversionImagingMapping
        inv = mkinv(dataset=ds, linear_obj_list=objs, settings=settings, preloads=preloads)
        if not isinstance(inv, InversionImagingWTilde if wt else InversionImagingMapping): raise RuntimeError("factory returned " + type(inv).__name__)
        sfp, pfp = obj_fp(settings), obj_fp(preloads)
        F = np.array(inv.curvature_matrix, dtype=float, copy=True)        # snapshot BEFORE the terms are read
        iv = {"objs": inp["objs"], "blocks": blocks, "F": F.tolist(), "s": [float(x) for x in np.asarray(inv.reconstruction, dtype=float)]}
        o = observe_inv(inv, iv)
        coq, ok, det = inv_case(iv, o, tolerant=True)
        coqs.append(coq); outs.append(o)
        F2 = np.array(inv.curvature_matrix, dtype=float)
        if not np.array_equal(F, F2): ok = False; det.append("curvature_matrix differs after the terms were read (F + H handed out as F)")
        if preF is not None and not np.array_equal(F, preF): ok = False; det.append("curvature_matrix is not the preloaded matrix")
        if obj_fp(settings) != sfp or obj_fp(preloads) != pfp:
            ok = False; det.append("reading the inversion modified the caller's settings / preloads object")
        # the fit on top of it
        model = inv.mapped_reconstructed_image
        env = {"dataset": ds, "model": model, "use_mask": False, "native": False}
        fit = make_fit(env, "imaging", inp["sky"], inv)
        fcoq, fok, fdet, fo = read_fit(fit, env, model, False, inp["sky"], iv, tolerant=True)
        coqs.append(fcoq); outs.append(fo)
        if obj_fp(settings) != sfp or obj_fp(preloads) != pfp:
            fok = False; fdet.append("reading the fit modified the caller's settings / preloads object")
        if not (ok and fok): py_ok = False; detail.extend(f"[{tag}] {x}" for x in det + fdet)
        invs.append((inv, iv, o))
    for inv, iv, o in invs:
        bad = same_out(o, observe_inv(inv, iv))
        if bad: py_ok = False; detail.append("[re-read] a second read of the same inversion differs in " + ", ".join(bad))
    return {"coq": coqs[0], "extra_coq": coqs[1:], "out": outs, "py_ok": py_ok, "nontrivial": True, "detail": "; ".join(detail) or None,
            "kind": "prod/" + inv_kind({"objs": inp["objs"]}) + ("/preF" if preF is not None else "")
                    + ("/real-mapper/" + "+".join("wtilde" if x else "mapping" for x in wts) if inp.get("real") else "")}

def observe_inv(inv, iv):
    o = {}
    o["noreg"] = [int(x) for x in inv.no_regularization_index_list]
    o["H"] = [flat(r) for r in np.asarray(inv.regularization_matrix, dtype=float).reshape((len(iv["s"]), -1))] if iv["s"] else []
    o["FH"] = [flat(r) for r in np.asarray(inv.curvature_reg_matrix, dtype=float)]
    o["Hred"] = [flat(r) for r in np.asarray(inv.regularization_matrix_reduced, dtype=float)] if iv["s"] else []
    o["FHred"] = [flat(r) for r in np.asarray(inv.curvature_reg_matrix_reduced, dtype=float)]
    o["sred"] = flat(inv.reconstruction_reduced)
    o["regterm"] = float(inv.regularization_term)
    with np.errstate(all="ignore"):
        o["ldc"] = float(inv.log_det_curvature_reg_matrix_term)
        o["ldr"] = float(np.real(inv.log_det_regularization_matrix_term))
    return o

def inv_case(iv, o, tolerant=False):
    reg, dfh, dh, H, FH = inv_tables(iv)
    tbl = ln_table([], (dfh, dh))
    out = (f"(Build_invout {clist([cnat(x) for x in o['noreg']])} {qm(o['H'])} {qm(o['FH'])} {qm(o['Hred'])} {qm(o['FHred'])} "
           f"{ql(o['sred'])} {cq(fq(o['regterm']))} {cq(fq(o['ldc']))} {cq(fq(o['ldr']))})")
    coq = f"(KInvR {ctbl(tbl)} {cinv(iv)} {out})" if tolerant else f"(K0 (KInv {ctbl(tbl)} {cinv(iv)} {out}))"
    py_ok = True; detail = []
    if reg:
        for k, d in (("ldc", dfh), ("ldr", dh)):
            if d > 0 and not (math.isfinite(o[k]) and rel_close(o[k], flog(d))):
                py_ok = False; detail.append(f"{k}: implementation {o[k]}, ln det over regularized parameters {flog(d)}")
    return coq, py_ok, detail

def inv_kind(iv):
    nreg = sum(1 for _, r in iv["objs"] if r)
    return ("empty" if not iv["objs"] else "all" if nreg == len(iv["objs"]) else "none" if nreg == 0 else "partial") + \
           ("/mappers" if any(iv.get("mappers") or []) else "")

def read_inv(inv, iv):
    fp = inv_fingerprint(inv)
    o = observe_inv(inv, iv)
    coq, py_ok, detail = inv_case(iv, o)
    if inv_fingerprint_changed(inv, fp):
        py_ok = False; detail.append("reading the inversion modified the caller's reconstruction / regularization matrices / settings / preloads object in place")
    return coq, py_ok, detail, o

def consistent_preloads(iv):
    """a Preloads object carrying the TRUE regularization matrix and the true log-determinant of its restriction:
    the inversion must then return what it returns without preloads"""
    c = classes()
    reg, dfh, dh, H, FH = inv_tables(iv)
    kw = {"regularization_matrix": np.array([[float(x) for x in r] for r in H], dtype=float).reshape((len(H), len(H)))}
    if reg and dh > 0: kw["log_det_regularization_matrix_term"] = flog(dh)
    return c["Preloads"](**kw)

def run_inv(inp):
    iv = inp["inv"]
    pre = consistent_preloads(iv) if inp.get("preload") and iv["s"] else None
    coq, py_ok, detail, o = read_inv(make_inv(iv, preloads=pre), iv)
    return {"coq": coq, "out": o, "py_ok": py_ok, "nontrivial": True, "detail": "; ".join(detail) or None,
            "kind": "inv/" + inv_kind(iv) + ("/preloads" if pre is not None else "")}

def cpre(pre):
    H = "None" if pre["H"] is None else f"(Some {qm(pre['H'])})"
    l = "None" if pre["ldr"] is None else f"(Some {cq(frac(pre['ldr']))})"
    return f"(Build_pre Q {H} {l})"

def run_invp(inp):
    """the inversion terms with a Preloads object that carries ANY regularization matrix of the right size (not the
    assembled one) and / or any log-determinant: the preload branches of abstract.py"""
    c = classes()
    iv = inp["inv"]; pre = inp["pre"]
    kw = {}
    if pre["H"] is not None: kw["regularization_matrix"] = np.array(pre["H"], dtype=float)
    if pre["ldr"] is not None: kw["log_det_regularization_matrix_term"] = float(pre["ldr"])
    inv = make_inv(iv, preloads=c["Preloads"](**kw))
    fp = inv_fingerprint(inv); Hb = None if pre["H"] is None else np.array(kw["regularization_matrix"], copy=True)
    o = observe_inv(inv, iv)
    # ln table: determinants of the matrices in force, restricted to the regularized parameters
    reg, _, _, H, _ = inv_tables(iv)
    if pre["H"] is not None: H = [[Fraction(x) for x in r] for r in pre["H"]]
    FH = [[Fraction(iv["F"][i][j]) + H[i][j] for j in range(len(H))] for i in range(len(H))]
    sub = lambda M: [[M[i][j] for j in reg] for i in reg]
    dfh, dh = fdet(sub(FH)), fdet(sub(H))
    tbl = ln_table([], (dfh, dh))
    out = (f"(Build_invout {clist([cnat(x) for x in o['noreg']])} {qm(o['H'])} {qm(o['FH'])} {qm(o['Hred'])} {qm(o['FHred'])} "
           f"{ql(o['sred'])} {cq(fq(o['regterm']))} {cq(fq(o['ldc']))} {cq(fq(o['ldr']))})")
    coq = f"(KInvP {ctbl(tbl)} {cpre(pre)} {cinv(iv)} {out})"
    py_ok = True; detail = []
    if reg:
        want = {"ldc": flog(dfh) if dfh > 0 else None, "ldr": pre["ldr"] if pre["ldr"] is not None else (flog(dh) if dh > 0 else None)}
        for k, w in want.items():
            if w is not None and not (math.isfinite(o[k]) and rel_close(o[k], w)):
                py_ok = False; detail.append(f"{k}: implementation {o[k]}, expected {w}")
    if inv_fingerprint_changed(inv, fp) or (Hb is not None and not np.array_equal(Hb, kw["regularization_matrix"])):
        py_ok = False; detail.append("reading the inversion modified the caller's reconstruction / regularization / preloaded matrices in place")
    return {"coq": coq, "out": o, "py_ok": py_ok, "nontrivial": True, "detail": "; ".join(detail) or None,
            "kind": "invp/" + inv_kind(iv) + ("/H" if pre["H"] is not None else "") + ("/ldr" if pre["ldr"] is not None else "")}

def run_invhist(inp):
    """several inversions that share the linear objects (and their regularization objects), the settings and the preloads
    object: read, re-read, another (F, s) on the same objects, other regularization flags with the same sizes"""
    c = classes()
    a = inp["a"]; b = dict(a, F=inp["F2"], s=inp["s2"]); cc = inp["c"]
    settings, preloads = (c["SettingsInversion"](), c["Preloads"]()) if inp.get("shared", True) else (None, None)
    objs = make_objs(a)
    coqs, outs, detail = [], [], []; py_ok = True
    invs = []
    for tag, iv, ob in (("first inversion", a, objs), ("second inversion on the same linear objects", b, objs),
                        ("third inversion, same sizes, other regularization flags", cc, None)):
        inv = make_inv(iv, objs=ob, settings=settings, preloads=preloads); invs.append((inv, iv))
        coq, ok, det, o = read_inv(inv, iv)
        coqs.append(coq); outs.append(o)
        if not ok: py_ok = False; detail.extend(f"[{tag}] {x}" for x in det)
    for (inv, iv), o in zip(invs, outs):     # re-reads after the other inversions were evaluated
        bad = same_out(o, observe_inv(inv, iv))
        if bad: py_ok = False; detail.append("[re-read] a second read of the same inversion differs in " + ", ".join(bad))
    return {"coq": coqs[0], "extra_coq": coqs[1:], "out": outs, "py_ok": py_ok, "nontrivial": True,
            "detail": "; ".join(detail) or None, "kind": "invhist/" + inv_kind(a) + ("" if inp.get("shared", True) else "/defaults")}

def run_util(inp):
    c = classes(); aa = c["aa"]
    from autoarray.fit import fit_util as fu
    shape = tuple(inp["shape"])
    mk = np.array(inp["mask"], dtype=bool).reshape(shape)
    d, n, m = (np.array(inp[k], dtype=float).reshape(shape) for k in ("data", "noise", "model"))
    mask = mk
    if inp.get("wrap"):
        mask = aa.Mask2D(mask=mk, pixel_scales=1.0)
        wrap = lambda v: aa.Array2D(values=np.where(mk, 0.0, v), mask=mask, store_native=True).with_new_array(v.copy())
        d, n, m = wrap(d), wrap(n), wrap(m)
    coqs, outs, details = [], [], []; py_all = True
    # the same argument objects are used for a SECOND round of calls after the user edited them in place (a function that
    # remembers something about its arguments -- by identity, shape, ... -- returns stale values then)
    for rnd in range(2 if inp.get("edits") else 1):
        if rnd == 1:
            for which, pos, val in inp["edits"]:
                arr = {"data": d, "noise": n, "model": m}[which]
                if len(shape) == 2: arr[pos // shape[1], pos % shape[1]] = val
                else: arr[pos] = val
        D, N, M = flat(d), flat(n), flat(m)
        coq, extra, o, py_ok, detail = util_round(fu, d, n, m, mask, inp["mask"], D, N, M)
        coqs += [coq] + extra; outs.append(o)
        if not py_ok: py_all = False; details.append(("[second round, after in-place edits] " if rnd else "") + detail)
    return {"coq": coqs[0], "extra_coq": coqs[1:], "out": outs[0] if len(outs) == 1 else outs, "py_ok": py_all, "nontrivial": True,
            "kind": "util/" + ("array2d" if inp.get("wrap") else f"{len(shape)}d") + ("/edits" if inp.get("edits") else ""),
            "detail": "; ".join(details) or None}

def util_round(fu, d, n, m, mask, bits, D, N, M):
    before = [np.array(np.asarray(x), copy=True) for x in (d, n, m, mask)]
    o = {}
    with np.errstate(all="ignore"):
        r = fu.residual_map_from(data=d, model_data=m)
        o["res"] = flat(r); o["nres"] = flat(fu.normalized_residual_map_from(residual_map=r, noise_map=n))
        cm = fu.chi_squared_map_from(residual_map=r, noise_map=n)
        o["cmap"] = flat(cm); o["chi2"] = float(fu.chi_squared_from(chi_squared_map=cm))
        o["nn"] = float(fu.noise_normalization_from(noise_map=n))
        rw = fu.residual_map_with_mask_from(data=d, mask=mask, model_data=m)
        o["resw"] = flat(rw)
        o["nresw"] = flat(fu.normalized_residual_map_with_mask_from(residual_map=rw, noise_map=n, mask=mask))
        cmw = fu.chi_squared_map_with_mask_from(residual_map=rw, noise_map=n, mask=mask)
        o["cmapw"] = flat(cmw); o["chi2w"] = float(fu.chi_squared_with_mask_from(chi_squared_map=cmw, mask=mask))
        # the masked sum of a map that CARRIES values at masked entries (the unmasked map): only unmasked entries count
        o["chi2wx"] = float(fu.chi_squared_with_mask_from(chi_squared_map=cm, mask=mask))
        o["fast"] = float(fu.chi_squared_with_mask_fast_from(data=d, mask=mask, model_data=m, noise_map=n))
        o["nnw"] = float(fu.noise_normalization_with_mask_from(noise_map=n, mask=mask))
        o["rff"] = flat(fu.residual_flux_fraction_map_from(residual_map=np.asarray(r), data=np.asarray(d)))
        o["rffw"] = flat(fu.residual_flux_fraction_map_with_mask_from(residual_map=np.asarray(rw), data=np.asarray(d), mask=mask))
        o["rffx"] = flat(fu.residual_flux_fraction_map_with_mask_from(residual_map=np.asarray(r), data=np.asarray(d), mask=mask))
        # the intermediate maps are inputs of later calls: they must not have been modified by them
        kept = flat(r) == o["res"] and flat(rw) == o["resw"] and flat(cm) == o["cmap"] and flat(cmw) == o["cmapw"]
    after = [np.asarray(x) for x in (d, n, m, mask)]
    unchanged = all(np.array_equal(a, b) for a, b in zip(before, after)) and kept
    tbl = ln_table(N)
    out = (f"(Build_utilout {ql(o['res'])} {ql(o['nres'])} {ql(o['cmap'])} {cq(fq(o['chi2']))} {cq(fq(o['nn']))} "
           f"{ql(o['resw'])} {ql(o['nresw'])} {ql(o['cmapw'])} {cq(fq(o['chi2w']))} {cq(fq(o['fast']))} {cq(fq(o['nnw']))} "
           f"{qol([fopt(x) for x in o['rff']])} {qol([fopt(x) for x in o['rffw']])})")
    coq = (f"(K0 (KUtil {ctbl(tbl)} TP {clist([cbool(b) for b in bits])} {ql(D)} "
           f"{ql(N)} {ql(M)} {out}))")
    extra = [f"(KUtilX {ql(o['res'])} {ql(D)} {clist([cbool(b) for b in bits])} {xl(o['rff'])} {xl(o['rffx'])})"]
    nn = sum(math.log(2 * math.pi * x * x) for x in N)
    nnw = sum(math.log(2 * math.pi * x * x) for x, b in zip(N, bits) if not b)
    chi2wx = math.fsum(v for v, b in zip(o["cmap"], bits) if not b)
    wx_ok = rel_close(o["chi2wx"], chi2wx) if math.isfinite(chi2wx) else not math.isfinite(o["chi2wx"])
    py_ok = rel_close(o["nn"], nn) and rel_close(o["nnw"], nnw) and unchanged and wx_ok
    detail = None if py_ok else ("a fit_util function modified one of its arguments in place" if not unchanged
                                 else f"chi_squared_with_mask_from of the unmasked chi-squared-map: {o['chi2wx']} vs the sum over unmasked entries {chi2wx}"
                                 if not wx_ok else f"noise normalization {o['nn']} / {o['nnw']} vs {nn} / {nnw}")
    return coq, extra, o, py_ok, detail

def run_compose(inp):
    from autoarray.fit import fit_util as fu
    chi, reg, ldc, ldr, nn = inp["a"]
    ll = fu.log_likelihood_from(chi_squared=chi, noise_normalization=nn)
    llr = fu.log_likelihood_with_regularization_from(chi_squared=chi, regularization_term=reg, noise_normalization=nn)
    ev = fu.log_evidence_from(chi_squared=chi, regularization_term=reg, log_curvature_regularization_term=ldc,
                              log_regularization_term=ldr, noise_normalization=nn)
    o = [float(ll), float(llr), float(ev)]
    coq = f"(K0 (KCompose {' '.join(cq(frac(x)) for x in inp['a'])} ({cq(fq(o[0]))}, {cq(fq(o[1]))}, {cq(fq(o[2]))})))"
    return {"coq": coq, "out": o, "py_ok": None, "nontrivial": False, "kind": "compose"}

# ---- noise covariance
def fsolve(C, r):
    """exact solution x of C x = r (Fractions)"""
    n = len(r)
    A = [[Fraction(x) for x in row] + [Fraction(b)] for row, b in zip(C, r)]
    for c in range(n):
        p = next(i for i in range(c, n) if A[i][c] != 0)
        A[c], A[p] = A[p], A[c]
        for i in range(n):
            if i != c and A[i][c] != 0:
                f = A[i][c] / A[c][c]
                A[i] = [a - f * b for a, b in zip(A[i], A[c])]
    return [A[i][n] / A[i][i] for i in range(n)]

def run_cov(inp):
    c = classes(); aa = c["aa"]
    base = inp["base"]; h, w = base["shape"]; geom = base.get("geom", 0)
    maskarr = np.array(base["mask"], dtype=bool).reshape((h, w))
    V = {k: np.array(base[k], dtype=float).reshape((h, w)) for k in ("data", "noise", "model")}
    C = np.array(inp["C"], dtype=float)
    mask = make_mask(aa, maskarr, geom)
    if base.get("route") == "apply_mask":
        ps, origin = GEOMS[geom]
        full = aa.Imaging(data=aa.Array2D.no_mask(V["data"].copy(), pixel_scales=ps, origin=origin),
                          noise_map=aa.Array2D.no_mask(V["noise"].copy(), pixel_scales=ps, origin=origin),
                          noise_covariance_matrix=C, check_noise_map=False)
        dataset = full.apply_mask(mask=mask)
    else:
        dataset = aa.Imaging(data=make_array(aa, mask, maskarr, V["data"], "slim", "fresh"),
                             noise_map=make_array(aa, mask, maskarr, V["noise"], "slim", "fresh"), noise_covariance_matrix=C)
    inv = None if base["inv"] is None else make_inv(base["inv"])
    coqs, outs, detail = [], [], []; py_ok = True
    models = [make_array(aa, mask, maskarr, V["model"], "slim", "fresh"),
              make_array(aa, mask, maskarr, np.array(inp["model2"], dtype=float).reshape((h, w)), "slim", "fresh")]
    for tag, model in (("first fit", models[0]), ("second fit on the same dataset", models[1])):
        env = {"dataset": dataset, "model": model, "use_mask": False, "native": False}
        fit = make_fit(env, "imaging", base["sky"], inv)
        before = snapshot(dataset, model); Cb = np.array(dataset.noise_covariance_matrix, copy=True)
        o = {"chi2": float(fit.chi_squared), "redchi2": list(call_res(lambda: float(fit.reduced_chi_squared))),
             "ll": float(fit.log_likelihood)}
        for k, a in (("llreg", "log_likelihood_with_regularization"), ("evidence", "log_evidence"), ("fom", "figure_of_merit")):
            v = getattr(fit, a); o[k] = None if v is None else float(v)
        o["residual"] = flat(fit.residual_map)
        Ci = np.array(dataset.noise_covariance_matrix_inv, dtype=float)
        o["cinv"] = [flat(r) for r in Ci]
        after = snapshot(dataset, model)
        ch = snapshot_changed(before, after) + ([] if np.array_equal(Cb, dataset.noise_covariance_matrix) else ["noise_covariance_matrix"])
        if ch: py_ok = False; detail.append(f"[{tag}] reading the fit modified the caller's " + ", ".join(ch) + " in place")
        d, nz, m = flat(before["data"]), flat(before["noise"]), flat(before["model"])
        bits = [int(b) for b in before["mask"].ravel()]
        dets = ()
        if base["inv"] is not None:
            _, dfh, dh, _, _ = inv_tables(base["inv"]); dets = (dfh, dh)
        tbl = ln_table(nz, dets)
        f = (f"(Build_fit Q {clist([cbool(b) for b in bits])} false {cq(frac(base['sky']))} {ql(d)} {ql(nz)} {ql(m)} "
             f"{'None' if base['inv'] is None else '(Some ' + cinv(base['inv']) + ')'})")
        out = (f"(Build_covout {qm(o['cinv'])} {cq(fq(o['chi2']))} {cres(tuple(o['redchi2']), lambda v: cq(fq(v)))} {cq(fq(o['ll']))} "
               f"{copt(o['llreg'], lambda v: cq(fq(v)))} {copt(o['evidence'], lambda v: cq(fq(v)))} {copt(o['fom'], lambda v: cq(fq(v)))})")
        coqs.append(f"(KCov {ctbl(tbl)} TP {f} {qm(Cb)} {out})"); outs.append(o)
        # Python side: chi-squared against the EXACT solution of C x = r (no inverse involved)
        S = Fraction(base["sky"])
        r = [(Fraction(a) - S) - Fraction(b) for a, b in zip(d, m)]
        want = float(sum(a * b for a, b in zip(r, fsolve(Cb.tolist(), r)))) if r else 0.0
        if not (math.isfinite(o["chi2"]) and abs(o["chi2"] - want) <= 1e-9 * abs(want)):
            py_ok = False; detail.append(f"[{tag}] chi2: implementation {o['chi2']}, r^T C^-1 r = {want}")
    return {"coq": coqs[0], "extra_coq": coqs[1:], "out": outs, "py_ok": py_ok, "nontrivial": True,
            "detail": "; ".join(detail) or None, "kind": "cov/" + base.get("route", "direct") + ("/inv" if inv is not None else "")}

# ---- interferometer
def vis_classes():
    c = classes()
    if "HFitInterferometer" not in c:
        from autoarray.fit.fit_interferometer import FitInterferometer
        class HFitInterferometer(FitInterferometer):
            def __init__(self, dataset, model_data, inversion=None, **kw):
                super().__init__(dataset=dataset, **kw); self._m = model_data; self._i = inversion
            @property
            def model_data(self): return self._m
            @property
            def inversion(self): return self._i
        class NoTransformer:
            """the fit statistics never use the transformer (pylops is not installed: the production classes cannot be built)"""
            def __init__(self, uv_wavelengths, real_space_mask): pass
        c.update(HFitInterferometer=HFitInterferometer, NoTransformer=NoTransformer, FitInterferometer=FitInterferometer)
    return c

def zc(p): return complex(p[0], p[1])
def observe_vis(fit, order=None):
    o = {}
    z = lambda a: [[float(x.real), float(x.imag)] for x in np.asarray(a, dtype=complex).ravel()]
    for k in (order or ["residual", "normres", "chimap", "chi2", "redchi2", "nn", "ll", "llreg", "evidence", "fom", "snr"]):
        if k == "residual": o[k] = z(fit.residual_map)
        elif k == "normres": o[k] = z(fit.normalized_residual_map)
        elif k == "chimap": o[k] = z(fit.chi_squared_map)
        elif k == "chi2": o[k] = float(fit.chi_squared)
        elif k == "redchi2": o[k] = list(call_res(lambda: float(fit.reduced_chi_squared)))
        elif k == "nn": o[k] = float(fit.noise_normalization)
        elif k == "ll": o[k] = float(fit.log_likelihood)
        elif k in ("llreg", "evidence", "fom"):
            v = getattr(fit, {"llreg": "log_likelihood_with_regularization", "evidence": "log_evidence", "fom": "figure_of_merit"}[k])
            o[k] = None if v is None else float(v)
        elif k == "snr":
            with np.errstate(all="ignore"): o[k] = z(fit.signal_to_noise_map)
    return o

def vis_case(use_mask, d, nz, m, ivd, o):
    dets = ()
    if ivd is not None:
        _, dfh, dh, _, _ = inv_tables(ivd); dets = (dfh, dh)
    tbl = ln_table([x.real for x in nz] + [x.imag for x in nz], dets)
    v = f"(Build_vfit Q {cbool(use_mask)} {cpl(d)} {cpl(nz)} {cpl(m)} {'None' if ivd is None else '(Some ' + cinv(ivd) + ')'})"
    pl = lambda zs: clist([ctup([cq(fq(a)), cq(fq(b))]) for a, b in zs])
    out = (f"(Build_visout {pl(o['residual'])} {pl(o['normres'])} {pl(o['chimap'])} {cq(fq(o['chi2']))} "
           f"{cres(tuple(o['redchi2']), lambda x: cq(fq(x)))} {cq(fq(o['nn']))} {cq(fq(o['ll']))} {copt(o['llreg'], lambda x: cq(fq(x)))} "
           f"{copt(o['evidence'], lambda x: cq(fq(x)))} {copt(o['fom'], lambda x: cq(fq(x)))} "
           f"{clist([ctup([cx(a), cx(b)]) for a, b in o['snr']])})")
    coq = f"(KVis {ctbl(tbl)} TP {v} {out})"
    # Python side: the definitions over the 2 n real components, ln by math.log
    comp = lambda zs: [Fraction(x.real) for x in zs] + [Fraction(x.imag) for x in zs]
    D, N, M = comp(d), comp(nz), comp(m)
    chi = sum(((a - b) / c) ** 2 for a, b, c in zip(D, M, N))
    nn = sum(flog(Fraction(TWO_PI) * c * c) for c in N)
    want = {"chi2": float(chi), "nn": nn, "ll": -0.5 * (float(chi) + nn)}
    detail = []
    for k, w in want.items():
        if not (math.isfinite(o[k]) and rel_close(o[k], w)): detail.append(f"{k}: implementation {o[k]}, definition {w}")
    return coq, not detail, detail

def run_vis(inp):
    """FitInterferometer on a real Interferometer dataset: read; the user edits visibilities in place; re-read (other order);
    a second fit object (other model) on the same dataset"""
    c = vis_classes(); aa = c["aa"]
    n = len(inp["data"])
    kinds = inp.get("kinds") or {}
    def mk(cls, pairs, kind):
        if kind == "pairs": return cls(visibilities=np.array([[float(p[0]), float(p[1])] for p in pairs], dtype=float).reshape((len(pairs), 2)))
        if kind == "listpairs": return cls(visibilities=[[float(p[0]), float(p[1])] for p in pairs])
        if kind == "list": return cls(visibilities=[zc(p) for p in pairs])
        if kind == "c64": return cls(visibilities=np.array([zc(p) for p in pairs], dtype=np.complex64))
        return cls(visibilities=np.array([zc(p) for p in pairs], dtype=complex))
    data = mk(aa.Visibilities, inp["data"], kinds.get("data"))
    noise = mk(aa.VisibilitiesNoiseMap, inp["noise"], kinds.get("noise"))
    model = mk(aa.Visibilities, inp["model"], kinds.get("model"))
    ds = aa.Interferometer(data=data, noise_map=noise, uv_wavelengths=np.array([[float(k), 1.0] for k in range(n)]),
                           real_space_mask=aa.Mask2D.all_false(shape_native=(2, 2), pixel_scales=1.0), transformer_class=c["NoTransformer"])
    inv = None if inp["inv"] is None else make_inv(inp["inv"])
    fit = c["HFitInterferometer"](ds, model, inversion=inv, use_mask_in_fit=inp["use_mask"])
    coqs, outs, detail = [], [], []; py_ok = True
    snap = lambda mo: [np.array(np.asarray(x), dtype=complex, copy=True) for x in (ds.data, ds.noise_map, mo)]
    def step(tag, ft, mo, order=None):
        nonlocal py_ok
        b = snap(mo); o = observe_vis(ft, order); a = snap(mo)
        coq, ok, det = vis_case(inp["use_mask"], b[0], b[1], b[2], inp["inv"], o)
        coqs.append(coq); outs.append(o)
        if not all(np.array_equal(x, y) for x, y in zip(a, b)):
            ok = False; det.append("reading the fit modified the caller's visibilities in place")
        if not ok: py_ok = False; detail.extend(f"[{tag}] {x}" for x in det)
        return o
    o1 = step("first read", fit, model)
    bad = same_out(o1, observe_vis(fit, inp["order"]))
    if bad: py_ok = False; detail.append("[re-read] a second read of the same fit object (other order) differs in " + ", ".join(bad))
    for which, k, v in inp["edits"]:
        {"data": ds.data, "noise": ds.noise_map, "model": model}[which][k] = zc(v)
    step("read after in-place edits", fit, model, inp["order"])
    model2 = aa.Visibilities(visibilities=np.array([zc(p) for p in inp["model2"]], dtype=complex))
    fit2 = c["HFitInterferometer"](ds, model2, inversion=inv, use_mask_in_fit=not inp["use_mask"])
    b = snap(model2); o = observe_vis(fit2)
    coq, ok, det = vis_case(not inp["use_mask"], b[0], b[1], b[2], inp["inv"], o)
    coqs.append(coq); outs.append(o)
    if not ok: py_ok = False; detail.extend(f"[second fit object on the same dataset] {x}" for x in det)
    return {"coq": coqs[0], "extra_coq": coqs[1:], "out": outs, "py_ok": py_ok, "nontrivial": True,
            "detail": "; ".join(detail) or None, "kind": "vis/" + ("mask" if inp["use_mask"] else "nomask") + ("/inv" if inv is not None else "") + ("/kinds" if kinds else "")}

def run_utilc(inp):
    from autoarray.fit import fit_util as fu
    r = np.array([zc(p) for p in inp["r"]], dtype=complex); n = np.array([zc(p) for p in inp["n"]], dtype=complex)
    rb, nb = r.copy(), n.copy()
    z = lambda a: [[float(x.real), float(x.imag)] for x in np.asarray(a, dtype=complex).ravel()]
    o = {}
    o["nres"] = z(fu.normalized_residual_map_complex_from(residual_map=r, noise_map=n))
    cm = fu.chi_squared_map_complex_from(residual_map=r, noise_map=n)
    o["cmap"] = z(cm); o["chi2"] = float(fu.chi_squared_complex_from(chi_squared_map=cm))
    o["nn"] = float(fu.noise_normalization_complex_from(noise_map=n))
    unchanged = np.array_equal(r, rb) and np.array_equal(n, nb) and z(cm) == o["cmap"]
    tbl = ln_table([x.real for x in n] + [x.imag for x in n])
    pl = lambda zs: clist([ctup([cq(fq(a)), cq(fq(b))]) for a, b in zs])
    coq = f"(KUtilC {ctbl(tbl)} TP {cpl(r)} {cpl(n)} (Build_cutilout {pl(o['nres'])} {pl(o['cmap'])} {cq(fq(o['chi2']))} {cq(fq(o['nn']))}))"
    nn = sum(math.log(2 * math.pi * x * x) for p in inp["n"] for x in p)
    py_ok = rel_close(o["nn"], nn) and unchanged
    return {"coq": coq, "out": o, "py_ok": py_ok, "nontrivial": True, "kind": "utilc",
            "detail": None if py_ok else ("a fit_util function modified one of its arguments in place" if not unchanged
                                          else f"noise normalization {o['nn']} vs {nn}")}

def run_utilcov(inp):
    from autoarray.fit import fit_util as fu
    r = np.array(inp["r"], dtype=float); Ci = np.array(inp["Ci"], dtype=float)
    rb, Cb = r.copy(), Ci.copy()
    chi = float(fu.chi_squared_with_noise_covariance_from(residual_map=r, noise_covariance_matrix_inv=Ci))
    unchanged = np.array_equal(r, rb) and np.array_equal(Ci, Cb)
    coq = f"(KUtilCov {ql(inp['r'])} {qm(inp['Ci'])} {cq(fq(chi))})"
    return {"coq": coq, "out": chi, "py_ok": unchanged, "nontrivial": True, "kind": "utilcov",
            "detail": None if unchanged else "a fit_util function modified one of its arguments in place"}

# ---- the canary: ONE persistent tiny fit (same dataset, arrays, fit object for the whole run) and one persistent pair of linear
# objects, evaluated before and after every case with the user's in-place edits toggled in between.  Whatever a case (or the code)
# leaves behind in a module-level / default-argument / class-level object, or remembers about an argument by identity or shape,
# makes the canary deviate from its closed-form values; because the toggle happens inside run_case, the replay of ANY single case
# reproduces such a failure on its own.
_CANARY = {}
CANARY_STATES = [{"data": [3.0, 1.0], "noise": [1.0, 2.0], "model": [1.0, 1.5], "H": 2.0, "s": 3.0},
                 {"data": [5.0, -1.0], "noise": [4.0, 0.25], "model": [0.5, 1.0], "H": 8.0, "s": -1.0}]
def canary_check():
    c = classes(); aa = c["aa"]
    K = _CANARY
    if not K:
        mask = aa.Mask2D(mask=np.array([[False, False]]), pixel_scales=1.0)
        K["data"], K["noise"], K["model"] = (aa.Array2D(values=np.array(CANARY_STATES[0][k]), mask=mask) for k in ("data", "noise", "model"))
        K["ds"] = aa.Imaging(data=K["data"], noise_map=K["noise"])
        K["fit"] = c["HFitImaging"](K["ds"], K["model"])                   # built WITHOUT a DatasetModel
        K["reg"] = c["HReg"]([[CANARY_STATES[0]["H"]]], 1); K["obj"] = c["HObj"](1, K["reg"]); K["free"] = c["HObj"](1, None)
        K["k"] = 0
    K["k"] = 1 - K["k"]; st = CANARY_STATES[K["k"]]
    for k in ("data", "noise", "model"):
        for i, v in enumerate(st[k]): K[k][i] = v                          # the user's in-place edits
    K["reg"]._matrix[0, 0] = st["H"]
    inv = c["HInv"]([K["free"], K["obj"]], [[1.0, 0.0], [0.0, 1.0]], [7.0, st["s"]])    # the constructor's own defaults
    fit2 = c["HFitImaging"](K["ds"], K["model"], inversion=inv)
    r = [(d - m) / n for d, m, n in zip(st["data"], st["model"], st["noise"])]
    chi = sum(x * x for x in r); nn = sum(math.log(2 * math.pi * n * n) for n in st["noise"])
    reg = st["s"] * st["H"] * st["s"]; ldc = math.log(1.0 + st["H"]); ldr = math.log(st["H"])
    want = {"chi_squared": chi, "noise_normalization": nn, "log_likelihood": -0.5 * (chi + nn), "figure_of_merit": -0.5 * (chi + nn)}
    bad = [f"{k} = {float(getattr(K['fit'], k))!r}, definition {w!r}" for k, w in want.items() if not rel_close(float(getattr(K["fit"], k)), w)]
    want2 = {"log_evidence": -0.5 * (chi + reg + ldc - ldr + nn), "figure_of_merit": -0.5 * (chi + reg + ldc - ldr + nn),
             "log_likelihood_with_regularization": -0.5 * (chi + reg + nn)}
    bad += [f"{k} = {float(getattr(fit2, k))!r}, definition {w!r}" for k, w in want2.items() if not rel_close(float(getattr(fit2, k)), w)]
    return bad

_COUNTS = {"impl_exceptions": 0, "loud_refusals": 0, "canary_evaluations": 0}
def run_case(inp):
    op = inp["op"]
    f = {"fit": run_fit, "inv": run_inv, "util": run_util, "compose": run_compose, "hist": run_hist, "invhist": run_invhist,
         "invp": run_invp, "cov": run_cov, "vis": run_vis, "utilc": run_utilc, "utilcov": run_utilcov, "dmhist": run_dmhist,
         "prod": run_prod}[op]
    try:
        if op == "vis": vis_classes()
        d0 = defaults_fp()
        c0 = canary_check() if not _CANARY else []          # the first case of a process evaluates both states
        r = f(inp)
        c1 = canary_check(); _COUNTS["canary_evaluations"] += 1
        d1 = defaults_fp()
        # only the FIRST deviation of a process is attributed (to the case that caused it, or, for state remembered by
        # identity / shape, to the first case of the process): later cases would fail only because of what that case left behind,
        # and their replay alone would not reproduce it
        if (c0 or c1) and not _CANARY.get("reported"):
            _CANARY["reported"] = True
            r["py_ok"] = False
            r["detail"] = ((r.get("detail") or "") + "; the persistent canary fit (a fixed two-pixel fit and inversion, edited in place and "
                           "re-evaluated " + ("before" if c0 else "after") + " this case) no longer follows its definition -- state remembered "
                           "across evaluations or left behind in a shared object: " + "; ".join(c0 or c1)).lstrip("; ")
        if d0 != d1:
            names = sorted({n for n, f in d0 if (n, f) not in d1} | {n for n, f in d1 if (n, f) not in d0})
            r["py_ok"] = False
            r["detail"] = ((r.get("detail") or "") + "; a shared DEFAULT ARGUMENT object was modified (or created) during the case: "
                           "default of " + ", ".join(names) + ".__init__").lstrip("; ")
        return r
    except Exception as e:   # the implementation refused an in-scope input: reported as a failing case
        _COUNTS["impl_exceptions"] += 1
        import traceback
        return {"coq": None, "out": None, "py_ok": False, "nontrivial": True, "kind": op + "/exception",
                "detail": f"{type(e).__name__}: {e} :: {traceback.format_exc()[-600:]}"}

def extra_evidence():
    return dict(_COUNTS)
