(* C11g -- PART D of C11: memoised evaluation of a dependency graph of quantities.

   The object graphs of the library (fit -> dataset -> inversion -> mappers -> mesh -> grids -> mask) are graphs of
   QUANTITIES: every public quantity is computed from the caller's inputs and from other quantities, some of which are
   `cached_property`s (stored in an instance __dict__ at the first read and returned BY REFERENCE ever after), some plain
   properties (recomputed at every read).  A node of the graph says how the code computes the quantity:

     g_kind   GInput   an array / object handed over by the caller (never recomputed)
              GCached  a cached_property
              GPlain   a property or query method
     g_deps   the quantities its body reads, in the order it reads them (each read goes through the same mechanism)
     g_mode   MFresh          the body builds its result in a new array
              MAlias k        the body returns the very array it received from its k-th dependency
                              (`return self.curvature_matrix`, `return self.preloads.operated_mapping_matrix`,
                               `return self.reconstruction` when nothing has to be removed)
              MEdit k copy    the body assigns INTO the array it received from its k-th dependency (after copying it iff
                              [copy]) and returns that array (`areas = self.voronoi_pixel_areas; areas[areas == -1] = max_area;
                              return areas`, `noise_map = self.noise_map.native; noise_map[mask == False] = noise_value`)
     g_drops  cache entries the body deletes (`del self.__dict__["curvature_matrix"]`)

   [ev] is the machine: a heap of cells, a cache (node -> cell); a read evaluates the dependencies left to right, then the
   body; cached results are stored.  The specification [pv] is the pure value: no heap, no cache.  What a body computes
   from the values it read is the parameter [vf] of everything (node -> values read -> value). *)
From Coq Require Import ZArith List Bool Lia.
From PAV Require Import Base.Res Base.Check Model.C11.
Import ListNotations.

Inductive gkind := GInput | GCached | GPlain.
Inductive gmode := MFresh | MAlias (k : nat) | MEdit (k : nat) (copy : bool).
Record gdef := mkG { g_kind : gkind; g_deps : list nat; g_mode : gmode; g_drops : list nat }.
Definition graph := list gdef.
Definition vfn := nat -> list arr -> arr.

Record gstate := mkGS { gs_heap : heap; gs_cache : list (nat * cell) }.
Definition gres := (gstate * cell * list cell)%type.     (* new state, the cell returned, cells written IN PLACE *)

Definition is_plain (d : gdef) : bool := match g_kind d with GPlain => true | _ => false end.
Definition is_input (d : gdef) : bool := match g_kind d with GInput => true | _ => false end.
Definition key_in (ks : list nat) (n : nat) : bool := existsb (Nat.eqb n) ks.
Definition remove_keys (ks : list nat) (l : list (nat * cell)) : list (nat * cell) :=
  filter (fun qc => negb (key_in ks (fst qc))) l.

(* evaluate a list of dependencies left to right with the evaluator [E], gathering the cells they return *)
Fixpoint evs_with (E : gstate -> nat -> gres) (ks : list nat) (st : gstate) : gstate * list cell * list cell :=
  match ks with
  | [] => (st, [], [])
  | k :: t =>
      let '(s1, c, w) := E st k in
      let '(s2, cs, w') := evs_with E t s1 in
      (s2, c :: cs, w ++ w')
  end.

(* the body of node n, run after its dependencies returned the cells [cs] *)
Definition run_body (vf : vfn) (n : nat) (d : gdef) (st1 : gstate) (cs : list cell) : gres :=
  let h := gs_heap st1 in
  let vs := map (hget h) cs in
  let '(h2, c, w2) :=
    match g_mode d with
    | MFresh => let (h', c) := halloc h (vf n vs) in (h', c, [])
    | MAlias k => (h, nth k cs O, [])
    | MEdit k copy =>
        let c0 := nth k cs O in
        let '(h1, c1) := if copy then halloc h (hget h c0) else (h, c0) in
        (hset h1 c1 (vf n vs), c1, [c1])
    end in
  let cache1 := if is_plain d then gs_cache st1 else (n, c) :: gs_cache st1 in
  (mkGS h2 (remove_keys (g_drops d) cache1), c, w2).

Fixpoint ev (fuel : nat) (g : graph) (vf : vfn) (st : gstate) (n : nat) {struct fuel} : gres :=
  match fuel with
  | O => (st, O, [])
  | S f =>
      match nth_error g n with
      | None => (st, O, [])
      | Some d =>
          match (if is_plain d then None else assoc n (gs_cache st)) with
          | Some c => (st, c, [])                                         (* cached_property.__get__: already in __dict__ *)
          | None =>
              let '(st1, cs, w) := evs_with (ev f g vf) (g_deps d) st in
              let '(st2, c, w2) := run_body vf n d st1 cs in
              (st2, c, w ++ w2)
          end
      end
  end.

(* a read by the user: the value the returned array holds at that moment *)
Definition gread (g : graph) (vf : vfn) (st : gstate) (n : nat) : gstate * arr * list cell :=
  if Nat.ltb n (length g)
  then let '(st1, c, w) := ev (S n) g vf st n in (st1, hget (gs_heap st1) c, w)
  else (st, [], []).
Fixpoint gruns (g : graph) (vf : vfn) (st : gstate) (reads : list nat) : list arr * gstate :=
  match reads with
  | [] => ([], st)
  | n :: t => let '(st1, v, _) := gread g vf st n in let '(l, st2) := gruns g vf st1 t in (v :: l, st2)
  end.

(* the caller's inputs: one cell each, allocated before anything is read, registered under their node *)
Fixpoint ginit_aux (g : graph) (vf : vfn) (n : nat) (st : gstate) : gstate :=
  match g with
  | [] => st
  | d :: t =>
      let st1 := if is_input d
                 then mkGS (gs_heap st ++ [vf n []]) ((n, length (gs_heap st)) :: gs_cache st)
                 else st in
      ginit_aux t vf (S n) st1
  end.
Definition ginit (g : graph) (vf : vfn) : gstate := ginit_aux g vf 0 (mkGS [] []).
Definition gobservations (g : graph) (vf : vfn) (reads : list nat) : list arr := fst (gruns g vf (ginit g vf) reads).
Definition gfinal (g : graph) (vf : vfn) (reads : list nat) : gstate := snd (gruns g vf (ginit g vf) reads).

(* ------------------------------------------------------------------ specification: the pure value of a node *)
Fixpoint pv (fuel : nat) (g : graph) (vf : vfn) (n : nat) {struct fuel} : arr :=
  match fuel with
  | O => []
  | S f =>
      match nth_error g n with
      | None => []
      | Some d =>
          let vs := map (pv f g vf) (g_deps d) in
          match g_mode d with
          | MAlias k => nth k vs []
          | _ => vf n vs
          end
      end
  end.
Definition pval (g : graph) (vf : vfn) (n : nat) : arr := pv (S n) g vf n.
Definition gspec (g : graph) (vf : vfn) (n : nat) : arr := if Nat.ltb n (length g) then pval g vf n else [].

(* ------------------------------------------------------------------ the discipline, read off the graph *)
(* a node whose result is an array nobody else holds: a plain property that builds a new array, or edits / returns the
   private array of another such property *)
Fixpoint priv (fuel : nat) (g : graph) (n : nat) {struct fuel} : bool :=
  match fuel with
  | O => false
  | S f =>
      match nth_error g n with
      | None => false
      | Some d =>
          is_plain d &&
          match g_mode d with
          | MFresh => true
          | MEdit _ true => true
          | MAlias k | MEdit k false => priv f g (nth k (g_deps d) n)
          end
      end
  end.
Definition privn (g : graph) (n : nat) : bool := priv (S n) g n.

Definition node_is_input (g : graph) (k : nat) : bool :=
  match nth_error g k with Some d => is_input d | None => false end.
Definition mode_fresh (m : gmode) : bool := match m with MFresh => true | _ => false end.
Definition node_ok (g : graph) (n : nat) (d : gdef) : bool :=
  forallb (fun k => Nat.ltb k n) (g_deps d)
  && (negb (is_input d) || (is_nil (g_deps d) && mode_fresh (g_mode d)))
  && match g_mode d with
     | MFresh => true
     | MAlias k => Nat.ltb k (length (g_deps d))
     | MEdit k copy => Nat.ltb k (length (g_deps d)) && (copy || privn g (nth k (g_deps d) O))
     end
  && forallb (fun k => negb (Nat.eqb k n) && negb (node_is_input g k)) (g_drops d).
Definition gdisc (g : graph) : bool := forallb (fun nd => node_ok g (fst nd) (snd nd)) (indexed 0 g).

(* ------------------------------------------------------------------ the graphs of the library *)
Definition inp : gdef := mkG GInput [] MFresh [].
Definition cached (deps : list nat) : gdef := mkG GCached deps MFresh [].
Definition plain (deps : list nat) : gdef := mkG GPlain deps MFresh [].

(* Abstract2DMeshTriangulation (structures/mesh/triangulation_2d.py), Mesh2DDelaunay / Mesh2DVoronoi
   (structures/mesh/delaunay_2d.py, voronoi_2d.py).  [areas_cached]: the defect class in which `voronoi_pixel_areas` is turned into a
   cached_property while its two consumers go on editing the array they receive *)
Definition g_mesh (voronoi areas_cached : bool) : graph :=
  let tri := if voronoi then [2] else [1] in
  [ (* 0 *) inp;                                          (* the mesh points (values=...) *)
    (* 1 *) cached [0];                                   (* delaunay *)
    (* 2 *) cached [0];                                   (* voronoi *)
    (* 3 *) cached [2];                                   (* edge_pixel_list *)
    (* 4 *) mkG (if areas_cached then GCached else GPlain) [2] MFresh [];    (* voronoi_pixel_areas *)
    (* 5 *) mkG GCached [4] (MEdit 0 false) [];           (* voronoi_pixel_areas_for_split: areas[areas == -1] = max_area; areas[areas > max_area] = max_area *)
    (* 6 *) cached [5; 0];                                (* split_cross *)
    (* 7 *) mkG GPlain [4] (MEdit 0 false) [];            (* areas_for_magnification (Voronoi): areas[areas == -1] = 0.0 *)
    (* 8 *) cached tri;                                   (* neighbors *)
    (* 9 *) plain tri;                                    (* interpolated_array_from(values, shape_native) *)
    (* MapperDelaunay / MapperVoronoi on that mesh (pixelization/mappers/delaunay.py, voronoi.py), regularization ConstantSplit
       (regularization/constant_split.py), MapperValued (inversion/mapper_valued.py) *)
    (* 10 *) inp;                                         (* the image-plane data grid of the mapper *)
    (* 11 *) cached (if voronoi then [10; 0] else [1; 10]);          (* mapper.pix_sub_weights *)
    (* 12 *) plain (if voronoi then [6; 0] else [1; 6; 0]);          (* mapper.pix_sub_weights_split_cross *)
    (* 13 *) cached [11];                                 (* mapper.mapping_matrix *)
    (* 14 *) plain [12];                                  (* mapper.regularization_matrix (ConstantSplit) *)
    (* 15 *) plain (if voronoi then [13; 7] else [])      (* MapperValued.magnification_via_mesh_from (raises at once on a Delaunay mesh) *)
  ].

(* FitImaging -> Imaging -> inversion (mapping formalism, one regularized rectangular mapper): dataset/imaging/dataset.py,
   inversion/inversion/abstract.py, imaging/abstract.py, imaging/mapping.py, pixelization/mappers/abstract.py, fit/fit_dataset.py *)
Definition g_fit : graph :=
  [ (* 0 *) inp;                                          (* dataset.data *)
    (* 1 *) inp;                                          (* dataset.noise_map *)
    (* 2 *) inp;                                          (* dataset.psf *)
    (* 3 *) inp;                                          (* the mapper's grids and mesh *)
    (* 4 *) cached [0; 2];                                (* dataset.grids *)
    (* 5 *) cached [0; 2];                                (* dataset.convolver *)
    (* 6 *) cached [3];                                   (* mapper.pix_sub_weights *)
    (* 7 *) cached [6];                                   (* mapper.unique_mappings *)
    (* 8 *) cached [6];                                   (* mapper.mapping_matrix *)
    (* 9 *) cached [8];                                   (* inversion.mapping_matrix = hstack *)
    (* 10 *) cached [5; 8];                               (* inversion.operated_mapping_matrix *)
    (* 11 *) cached [10; 0; 1];                           (* inversion.data_vector *)
    (* 12 *) cached [10; 1];                              (* inversion.curvature_matrix *)
    (* 13 *) cached [3];                                  (* inversion.regularization_matrix *)
    (* 14 *) mkG GCached [13] (MAlias 0) [];              (* regularization_matrix_reduced: the same array *)
    (* 15 *) mkG GCached [12; 13] MFresh [12];            (* curvature_reg_matrix: single regularization, `+=` then del (PART B) *)
    (* 16 *) mkG GCached [15] (MAlias 0) [];              (* curvature_reg_matrix_reduced: the same array *)
    (* 17 *) cached [11; 15];                             (* reconstruction *)
    (* 18 *) mkG GCached [17] (MAlias 0) [];              (* reconstruction_reduced: the same array *)
    (* 19 *) plain [17; 5; 8];                            (* mapped_reconstructed_data_dict (re-convolves the mapper's matrix) *)
    (* 20 *) cached [19];                                 (* mapped_reconstructed_data *)
    (* 21 *) cached [18; 14];                             (* regularization_term *)
    (* 22 *) cached [16];                                 (* log_det_curvature_reg_matrix_term *)
    (* 23 *) cached [14];                                 (* log_det_regularization_matrix_term *)
    (* 24 *) plain [0; 20];                               (* fit.residual_map *)
    (* 25 *) plain [24; 1];                               (* fit.chi_squared_map *)
    (* 26 *) plain [25];                                  (* fit.chi_squared *)
    (* 27 *) plain [1];                                   (* fit.noise_normalization *)
    (* 28 *) plain [26; 21; 22; 23; 27]                   (* fit.log_evidence *)
  ].

(* chains of dataset derivations (dataset/imaging/dataset.py): ds2 = ds.apply_over_sampling(osd) keeps the source's arrays;
   ds3 = ds2.apply_noise_scaling(mask) edits `ds2.noise_map.native` -- a new Array2D -- in place.  A derived dataset bound to a
   variable by the user is a cached node.  [native_aliases]: the seeded defect C11_1 (Array2D.native returning the object itself
   when it is stored natively) *)
Definition g_chain (native_aliases : bool) : graph :=
  [ (* 0 *) inp;                                          (* ds.data *)
    (* 1 *) inp;                                          (* ds.noise_map *)
    (* 2 *) inp;                                          (* ds.psf *)
    (* 3 *) inp;                                          (* the OverSamplingDataset passed to apply_over_sampling *)
    (* 4 *) inp;                                          (* the mask passed to apply_noise_scaling *)
    (* 5 *) cached [0; 2];                                (* ds.grids *)
    (* 6 *) cached [0; 2];                                (* ds.convolver *)
    (* 7 *) cached [1; 2];                                (* ds.w_tilde *)
    (* 8 *) plain [0; 1];                                 (* ds.signal_to_noise_map *)
    (* 9 *) cached [0; 1; 2; 3];                          (* ds2 = ds.apply_over_sampling(osd) *)
    (* 10 *) cached [9];                                  (* ds2.grids *)
    (* 11 *) cached [9];                                  (* ds2.convolver *)
    (* 12 *) mkG GPlain [9; 0] (MAlias 1) [];             (* ds2.data: the source's Array2D *)
    (* 13 *) mkG GPlain [9; 1] (if native_aliases then MAlias 1 else MFresh) [];   (* ds2.noise_map.native *)
    (* 14 *) mkG GPlain [13; 4] (MEdit 0 false) [];       (* noise_map[mask == False] = noise_value *)
    (* 15 *) cached [14; 9; 4];                           (* ds3 = ds2.apply_noise_scaling(mask) *)
    (* 16 *) plain [15];                                  (* ds3.noise_map *)
    (* 17 *) plain [15];                                  (* ds3.data *)
    (* 18 *) cached [15];                                 (* ds3.grids *)
    (* 19 *) plain [15];                                  (* ds3.signal_to_noise_map *)
    (* 20 *) plain [9; 1];                                (* ds2.signal_to_noise_map *)
    (* 21 *) cached [0; 1; 2; 4];                         (* ds4 = ds.apply_mask(mask): new arrays from `unmasked.data.native` *)
    (* 22 *) cached [21];                                 (* ds4.grids *)
    (* 23 *) plain [21];                                  (* ds4.data *)
    (* 24 *) plain [21]                                   (* ds4.signal_to_noise_map *)
  ].

(* Interferometer -> inversion through the factory (mapping formalism): inversion/inversion/interferometer/abstract.py, mapping.py *)
Definition g_interf : graph :=
  [ (* 0 *) inp;                                          (* dataset.data (visibilities) *)
    (* 1 *) inp;                                          (* dataset.noise_map *)
    (* 2 *) inp;                                          (* uv_wavelengths / the transformer built from them *)
    (* 3 *) inp;                                          (* real-space mask, the mapper's grids and mesh *)
    (* 4 *) cached [3];                                   (* dataset.grids *)
    (* 5 *) cached [3];                                   (* mapper.pix_sub_weights *)
    (* 6 *) cached [5];                                   (* mapper.mapping_matrix *)
    (* 7 *) cached [6];                                   (* inversion.mapping_matrix *)
    (* 8 *) cached [2; 6];                                (* inversion.operated_mapping_matrix (transformed) *)
    (* 9 *) cached [8; 0; 1];                             (* data_vector *)
    (* 10 *) cached [8; 1];                               (* curvature_matrix *)
    (* 11 *) cached [3];                                  (* regularization_matrix *)
    (* 12 *) mkG GCached [11] (MAlias 0) [];              (* regularization_matrix_reduced *)
    (* 13 *) mkG GCached [10; 11] MFresh [10];            (* curvature_reg_matrix *)
    (* 14 *) mkG GCached [13] (MAlias 0) [];              (* curvature_reg_matrix_reduced *)
    (* 15 *) cached [9; 13];                              (* reconstruction *)
    (* 16 *) mkG GCached [15] (MAlias 0) [];              (* reconstruction_reduced *)
    (* 17 *) plain [15; 2; 6];                            (* mapped_reconstructed_data_dict *)
    (* 18 *) cached [17];                                 (* mapped_reconstructed_data *)
    (* 19 *) plain [15; 6];                               (* mapped_reconstructed_image_dict *)
    (* 20 *) cached [19];                                 (* mapped_reconstructed_image *)
    (* 21 *) cached [16; 12];                             (* regularization_term *)
    (* 22 *) cached [14];                                 (* log_det_curvature_reg_matrix_term *)
    (* 23 *) cached [12];                                 (* log_det_regularization_matrix_term *)
    (* 24 *) plain [0; 1];                                (* dataset.signal_to_noise_map *)
    (* the Interferometer dataset itself (dataset/interferometer/dataset.py, structures/visibilities.py) *)
    (* 25 *) cached [0];                                  (* dataset.data.amplitudes (cached on the Visibilities object) *)
    (* 26 *) mkG GPlain [25] (MAlias 0) [];               (* dataset.amplitudes: `return self.data.amplitudes` *)
    (* 27 *) plain [2; 0];                                (* dataset.dirty_image *)
    (* 28 *) plain [2; 1];                                (* dataset.dirty_noise_map *)
    (* 29 *) plain [2];                                   (* dataset.uv_distances *)
    (* 30 *) plain [1; 2; 0];                             (* dataset.w_tilde: needs an optional module that is absent here and raises ImportError;
                                                             a cached_property that raises stores nothing *)
    (* 31 *) cached [0; 1; 2; 3];                         (* ds2 = dataset.apply_over_sampling(osd): keeps the source's arrays *)
    (* 32 *) cached [31];                                 (* ds2.grids *)
    (* 33 *) mkG GPlain [31; 25] (MAlias 1) []            (* ds2.amplitudes: the source's Visibilities object, hence its cached array *)
  ].

(* Imaging -> inversion, w-tilde formalism, one regularized mapper (inversion/inversion/imaging/w_tilde.py).  The factory reads
   `dataset.w_tilde` when it builds the inversion: for the reads that follow it is an input *)
Definition g_wtilde : graph :=
  [ (* 0 *) inp;                                          (* dataset.data *)
    (* 1 *) inp;                                          (* dataset.noise_map *)
    (* 2 *) inp;                                          (* dataset.psf *)
    (* 3 *) inp;                                          (* the mapper's grids and mesh *)
    (* 4 *) cached [0; 2];                                (* dataset.convolver *)
    (* 5 *) inp;                                          (* dataset.w_tilde (computed when the inversion was built) *)
    (* 6 *) cached [3];                                   (* mapper.pix_sub_weights *)
    (* 7 *) cached [6];                                   (* mapper.unique_mappings *)
    (* 8 *) cached [6];                                   (* mapper.mapping_matrix *)
    (* 9 *) cached [0; 1; 4];                             (* inversion.w_tilde_data *)
    (* 10 *) cached [9; 7];                               (* data_vector *)
    (* 11 *) cached [5; 7];                               (* curvature_matrix *)
    (* 12 *) cached [3];                                  (* regularization_matrix *)
    (* 13 *) mkG GCached [12] (MAlias 0) [];              (* regularization_matrix_reduced *)
    (* 14 *) mkG GCached [11; 12] MFresh [11];            (* curvature_reg_matrix *)
    (* 15 *) mkG GCached [14] (MAlias 0) [];              (* curvature_reg_matrix_reduced *)
    (* 16 *) cached [10; 14];                             (* reconstruction *)
    (* 17 *) mkG GCached [16] (MAlias 0) [];              (* reconstruction_reduced *)
    (* 18 *) plain [16; 7; 4];                            (* mapped_reconstructed_data_dict *)
    (* 19 *) cached [18];                                 (* mapped_reconstructed_data *)
    (* 20 *) cached [8];                                  (* inversion.mapping_matrix *)
    (* 21 *) cached [4; 8];                               (* inversion.operated_mapping_matrix *)
    (* 22 *) cached [17; 13];                             (* regularization_term *)
    (* 23 *) cached [15];                                 (* log_det_curvature_reg_matrix_term *)
    (* 24 *) cached [13]                                  (* log_det_regularization_matrix_term *)
  ].

Definition ginstance (k : nat) : graph :=
  match k with
  | 0 => g_mesh false false
  | 1 => g_mesh true false
  | 2 => g_fit
  | 3 => g_chain false
  | 4 => g_interf
  | 5 => g_wtilde
  | _ => []
  end%nat.
