(* C14 -- part 6: explicit origins of resized_array_2d_from, trimming for kernels larger than the array,
   zoomed_around_mask for every buffer (negative ones included), Mask2D.trimmed_array_from for every parity. *)
From Coq Require Import ZArith List Bool Lia.
From PAV Require Import Base.Res Base.Check Model.C14 Model.C14g Proofs.C14 Proofs.C14b Proofs.C14c Proofs.C14d.
Import ListNotations.
Local Open Scope Z_scope.

(* ------------------------------------------------------------------ resized_array_2d_from with an explicit origin *)
Definition resized_fun_o {B} (H W r0 r1 oy ox : Z) (pad : B) (f : Z -> Z -> B) : Z -> Z -> B :=
  fun i j => if inr (i + (oy - r0 / 2)) H && inr (j + (ox - r1 / 2)) W
             then f (i + (oy - r0 / 2)) (j + (ox - r1 / 2)) else pad.

Lemma resized_entries_origin {B} (zero pad : B) (a : list (list B)) H W f r0 r1 oy ox :
  Entries a H W f -> 0 < H -> 0 <= r0 -> 0 <= r1 -> (oy =? -1) && (ox =? -1) = false ->
  exists m', resized_array_2d_from zero a (r0, r1) (oy, ox) pad = Ok m' /\
             Entries m' r0 r1 (resized_fun_o H W r0 r1 oy ox pad f).
Proof.
  intros HE HP Hr0 Hr1 HO. destruct (Entries_shape _ _ _ _ HE HP) as [HnR HnC].
  destruct HE as (HH & HW & HR & HE).
  unfold resized_array_2d_from. rewrite HnR, HnC. cbn [fst snd]. rewrite HO. rewrite !if_same. cbn [fst snd].
  assert (E0 : (r0 <? 0) || (r1 <? 0) = false) by (apply orb_false_iff; split; apply Z.ltb_ge; lia).
  rewrite E0. rewrite !int_half_div by lia.
  eexists. split; [reflexivity|].
  match goal with |- Entries (loop2 ?n0 ?n1 ?w ?o) _ _ _ =>
    assert (G : forall yr xr v, w yr xr = Some v -> (yr < Z.to_nat r0)%nat /\ (xr < Z.to_nat r1)%nat);
    [| destruct (loop2_spec (Z.to_nat r0) (Z.to_nat r1) w G n0 n1 o (Rect_zeros zero _ _)) as [LR LG]] end.
  { intros yr xr v. cbv beta zeta.
    destruct ((0 <=? Z.of_nat yr) && (Z.of_nat yr <? r0) && (0 <=? Z.of_nat xr) && (Z.of_nat xr <? r1)) eqn:D.
    - intros _. boolp. lia.
    - rewrite !if_same. discriminate. }
  split; [lia|]. split; [lia|]. split; [exact LR|].
  intros i j d Hi Hj. unfold zget2. rewrite LG. cbv beta zeta.
  assert (X1 : Nat.ltb (Z.to_nat i) (Z.to_nat (oy + r0 / 2 + 1 - (oy - r0 / 2))) = true) by (apply Nat.ltb_lt; zdiv).
  assert (X2 : Nat.ltb (Z.to_nat j) (Z.to_nat (ox + r1 / 2 + 1 - (ox - r1 / 2))) = true) by (apply Nat.ltb_lt; zdiv).
  rewrite X1, X2. cbn [andb]. rewrite !Z2Nat.id by lia.
  assert (D : (0 <=? i) && (i <? r0) && (0 <=? j) && (j <? r1) = true).
  { rewrite !andb_true_iff. repeat split; try (apply Z.leb_le; lia); apply Z.ltb_lt; lia. }
  rewrite D. unfold resized_fun_o, inr.
  replace (oy - r0 / 2 + i) with (i + (oy - r0 / 2)) by lia.
  replace (ox - r1 / 2 + j) with (j + (ox - r1 / 2)) by lia.
  set (y := i + (oy - r0 / 2)). set (x := j + (ox - r1 / 2)).
  destruct (Z.leb_spec 0 y), (Z.ltb_spec y H), (Z.leb_spec 0 x), (Z.ltb_spec x W); cbn [andb]; try reflexivity.
  apply HE; lia.
Qed.

Lemma ext_get_inr {B} (pad : B) (a : list (list B)) H W y x :
  rectb H W a = true -> 0 < H ->
  ext_get pad a y x = if inr y H && inr x W then zget2 pad a y x else pad.
Proof.
  intros HB HP. pose proof (Entries_self pad _ _ _ HB HP) as HE. destruct (Entries_shape _ _ _ _ HE HP) as [S0 S1].
  unfold ext_get, inr. rewrite S0, S1. destruct (0 <=? y), (y <? H), (0 <=? x), (x <? W); reflexivity.
Qed.

Lemma window_spec_entries {B} (pad : B) (a : list (list B)) H W y0 x0 r0 r1 :
  rectb H W a = true -> 0 < H -> 0 <= r0 -> 0 <= r1 ->
  Entries (window_spec pad a y0 x0 r0 r1) r0 r1
          (fun i j => if inr (y0 + i) H && inr (x0 + j) W then zget2 pad a (y0 + i) (x0 + j) else pad).
Proof.
  intros HB HP N0 N1. unfold window_spec.
  apply (Entries_fext _ _ _ _ _ (Entries_tab2 _ _ _ N0 N1)). intros i j Hi Hj. rewrite !Z2Nat.id by lia.
  now apply ext_get_inr.
Qed.

(* MAIN: with an explicit origin (oy, ox) the result is the r0 x r1 window of the pad-extended array whose pixel
   (int(r0/2), int(r1/2)) is the origin pixel *)
Lemma resized_origin_is_window {B} (zero pad : B) (a : list (list B)) H W r0 r1 oy ox :
  rectb H W a = true -> 0 < H -> 0 <= r0 -> 0 <= r1 -> (oy, ox) <> (-1, -1) ->
  resized_array_2d_from zero a (r0, r1) (oy, ox) pad = Ok (window_spec pad a (oy - r0 / 2) (ox - r1 / 2) r0 r1).
Proof.
  intros HB HP Hr0 Hr1 HO. pose proof (Entries_self zero _ _ _ HB HP) as HE.
  assert (HO' : (oy =? -1) && (ox =? -1) = false).
  { destruct (Z.eqb_spec oy (-1)), (Z.eqb_spec ox (-1)); cbn [andb]; try reflexivity. exfalso. apply HO. congruence. }
  destruct (resized_entries_origin zero pad a H W _ r0 r1 oy ox HE HP Hr0 Hr1 HO') as (m' & -> & HM). f_equal.
  apply (Entries_ext pad _ _ _ _ _ _ HM (window_spec_entries pad a H W _ _ r0 r1 HB HP Hr0 Hr1)).
  intros i j Hi Hj. unfold resized_fun_o.
  replace (oy - r0 / 2 + i) with (i + (oy - r0 / 2)) by lia. replace (ox - r1 / 2 + j) with (j + (ox - r1 / 2)) by lia.
  destruct (inr _ H && inr _ W) eqn:E; [|reflexivity].
  apply andb_prop in E. destruct E as [E1 E2]. unfold inr in E1, E2. boolp.
  unfold zget2, get2. apply nth_indep. destruct HE as (_ & _ & [_ XC] & _). rewrite XC; lia.
Qed.

(* the default origin (-1, -1) stands for the explicit origin (int(H/2), int(W/2)) *)
Lemma resized_default_origin {B} (zero pad : B) (a : list (list B)) rs :
  resized_array_2d_from zero a rs (-1, -1) pad
  = resized_array_2d_from zero a rs (int_half (nrows a), int_half (ncols a)) pad.
Proof.
  unfold resized_array_2d_from. cbn [fst snd]. change ((-1 =? -1) && (-1 =? -1)) with true. cbv iota.
  rewrite !if_same. destruct ((int_half (nrows a) =? -1) && (int_half (ncols a) =? -1)); reflexivity.
Qed.

(* the origin pixel lands on pixel (int(r0/2), int(r1/2)) of the result *)
Lemma resized_origin_pixel {B} (zero pad : B) (a : list (list B)) H W r0 r1 oy ox :
  rectb H W a = true -> 0 < H -> 0 < r0 -> 0 < r1 -> (oy, ox) <> (-1, -1) -> 0 <= oy < H -> 0 <= ox < W ->
  exists m', resized_array_2d_from zero a (r0, r1) (oy, ox) pad = Ok m' /\
             forall d, zget2 d m' (r0 / 2) (r1 / 2) = zget2 d a oy ox.
Proof.
  intros HB HP Hr0 Hr1 HO Hy Hx. pose proof (Entries_self zero _ _ _ HB HP) as HE.
  assert (HO' : (oy =? -1) && (ox =? -1) = false).
  { destruct (Z.eqb_spec oy (-1)), (Z.eqb_spec ox (-1)); cbn [andb]; try reflexivity. exfalso. apply HO. congruence. }
  destruct (resized_entries_origin zero pad a H W _ r0 r1 oy ox HE HP ltac:(lia) ltac:(lia) HO') as (m' & E & HM).
  exists m'. split; [exact E|]. intros d. destruct HM as (_ & _ & _ & HG).
  rewrite (HG (r0 / 2) (r1 / 2) d) by zdiv. unfold resized_fun_o, inr.
  replace (r0 / 2 + (oy - r0 / 2)) with oy by lia. replace (r1 / 2 + (ox - r1 / 2)) with ox by lia.
  destruct (Z.leb_spec 0 oy), (Z.ltb_spec oy H), (Z.leb_spec 0 ox), (Z.ltb_spec ox W); try lia. cbn [andb].
  unfold zget2, get2. apply nth_indep. destruct HE as (_ & _ & [_ XC] & _). rewrite XC; lia.
Qed.

(* ------------------------------------------------------------------ python slices that come out empty *)
Lemma pyslice_empty {B} (l : list B) c : 0 <= c -> Z.of_nat (length l) <= 2 * c -> pyslice l c (Z.of_nat (length l) - c) = [].
Proof.
  intros Hc Hn. unfold pyslice. set (n := Z.of_nat (length l)) in *. assert (0 <= n) by lia.
  replace (Z.to_nat (py_norm n (n - c) - py_norm n c)) with 0%nat; [reflexivity|].
  unfold py_norm. destruct (Z.ltb_spec (n - c) 0), (Z.ltb_spec c 0); lia.
Qed.

Lemma pyslice2_entries_emptycols {B} (a : list (list B)) R0 R1 f g y0 y1 x0 :
  Entries a R0 R1 f -> 0 <= y0 <= y1 -> y1 <= R0 -> 0 <= x0 -> R1 <= 2 * x0 ->
  Entries (pyslice2 a y0 y1 x0 (R1 - x0)) (y1 - y0) 0 g.
Proof.
  intros (H0 & H1 & [HL HC] & HE) Hy Hy1 Hx Hx1. unfold pyslice2.
  assert (ROW : forall i, 0 <= i < y1 - y0 ->
     nth (Z.to_nat i) (map (fun row => pyslice row x0 (R1 - x0)) (pyslice a y0 y1)) [] = []).
  { intros i Hi. rewrite (nth_indep _ [] (pyslice [] x0 (R1 - x0))) by (rewrite map_length, pyslice_length; lia).
    rewrite (map_nth (fun row => pyslice row x0 (R1 - x0))). rewrite pyslice_nth by lia.
    set (row := nth (Z.to_nat (i + y0)) a []). assert (LR : Z.of_nat (length row) = R1) by (unfold row; rewrite HC; lia).
    rewrite <- LR. apply pyslice_empty; lia. }
  split; [lia|]. split; [lia|]. split.
  - split; [rewrite map_length, pyslice_length; lia|]. intros i Hi. rewrite <- (Nat2Z.id i). rewrite ROW by lia. reflexivity.
  - intros i j d Hi Hj. lia.
Qed.

Lemma resize1_nonpos {B} (pad : B) l r : r <= 0 -> resize1 pad l r = [].
Proof.
  intros Hr. unfold resize1. destruct (Z.leb_spec r (Z.of_nat (length l))); [|lia].
  replace (Z.to_nat r) with 0%nat by lia. reflexivity.
Qed.
Lemma resize_spec_nonpos_rows {B} (pad : B) (m : list (list B)) r0 r1 : r0 <= 0 -> resize_spec pad m r0 r1 = [].
Proof. intros. unfold resize_spec. now apply resize1_nonpos. Qed.
Lemma resize_spec_neg_cols {B} (pad : B) (m : list (list B)) r0 r1 : r1 <= 0 -> resize_spec pad m r0 r1 = resize_spec pad m r0 0.
Proof.
  intros Hr. unfold resize_spec. replace (Z.to_nat r1) with (Z.to_nat 0) by lia. f_equal.
  apply map_ext. intros row. rewrite !resize1_nonpos by lia. reflexivity.
Qed.

Section Trim.
  Context {B : Type} (zero : B).

  (* kernel at least as tall as the array + 1: no row survives; the code returns the empty array and the empty mask *)
  Lemma trimmed_no_rows (arr : arr2d B) H W k0 k1 :
    properA H W arr -> Z.odd k0 = true -> 1 <= k0 -> H <= k0 - 1 ->
    trimmed_after_convolution_from zero arr (k0, k1) = Ok ([], []).
  Proof.
    intros HA O0 Hk0 HH. pose proof (properA_entries zero _ _ _ HA) as [HF HG]. destruct HA as (HB & HB' & HP).
    destruct (Entries_shape _ _ _ _ HG HP) as [E1 E2].
    unfold trimmed_after_convolution_from. cbn [fst snd]. rewrite E1, E2, ceil_half_odd by assumption.
    set (c0 := (k0 - 1) / 2).
    assert (C0 : k0 - 1 = 2 * c0) by (unfold c0; rewrite Z.odd_spec in O0; destruct O0 as [q ->]; zdiv).
    assert (LA : Z.of_nat (length (fst arr)) = H) by (destruct HF as (_ & _ & [HL _] & _); lia).
    assert (PS : pyslice (fst arr) c0 (H - c0) = []) by (rewrite <- LA; apply pyslice_empty; lia).
    unfold pyslice2. rewrite PS. cbn [map]. unfold nrows, ncols. cbn [length hd].
    change (Z.of_nat 0) with 0.
    rewrite (mask_resized_is_spec (snd arr) H W 0 0 0 HB' HP ltac:(lia) ltac:(lia)). cbn [bind].
    rewrite resize_spec_nonpos_rows by lia. reflexivity.
  Qed.

  (* kernel wider than the array + 1 (but not taller): every surviving row is empty *)
  Lemma trimmed_no_cols (arr : arr2d B) H W k0 k1 :
    properA H W arr -> Z.odd k0 = true -> Z.odd k1 = true -> 1 <= k0 -> 1 <= k1 -> k0 - 1 < H -> W <= k1 - 1 ->
    trimmed_after_convolution_from zero arr (k0, k1) = Ok (resized_arr_spec zero arr (H - (k0 - 1)) 0 0).
  Proof.
    intros HA O0 O1 Hk0 Hk1 HH HW. pose proof (properA_entries zero _ _ _ HA) as HE. pose proof HE as [HF HG].
    destruct HA as (HB & HB' & HP). pose proof HG as (_ & HWn & _).
    destruct (Entries_shape _ _ _ _ HG HP) as [E1 E2].
    unfold trimmed_after_convolution_from. cbn [fst snd]. rewrite E1, E2, !ceil_half_odd by assumption.
    set (c0 := (k0 - 1) / 2). set (c1 := (k1 - 1) / 2).
    assert (C0 : k0 - 1 = 2 * c0) by (unfold c0; rewrite Z.odd_spec in O0; destruct O0 as [q ->]; zdiv).
    assert (C1 : k1 - 1 = 2 * c1) by (unfold c1; rewrite Z.odd_spec in O1; destruct O1 as [q ->]; zdiv).
    assert (HT : Entries (pyslice2 (fst arr) c0 (H - c0) c1 (W - c1)) (H - c0 - c0) 0
                         (masked_fun zero (resized_fun H W (H - c0 - c0) 0 (negb (0 =? 0)) (zget2 true (snd arr)))
                                          (resized_fun H W (H - c0 - c0) 0 zero (zget2 zero (fst arr)))))
      by (apply (pyslice2_entries_emptycols _ H W (zget2 zero (fst arr))); try assumption; lia).
    destruct (Entries_shape _ _ _ _ HT ltac:(lia)) as [T1 T2]. rewrite T1, T2.
    destruct (mask_resized_entries (snd arr) H W _ (H - c0 - c0) 0 0 HG HP ltac:(lia) ltac:(lia)) as (rm & -> & HM).
    cbn [bind].
    destruct (mask_apply_entries zero _ rm _ _ _ _ HT HM) as (x & -> & HX). cbn [bind]. f_equal.
    replace (H - (k0 - 1)) with (H - c0 - c0) by lia.
    assert (N0 : 0 <= H - c0 - c0) by lia. assert (N1 : 0 <= 0) by lia.
    apply (EntriesA_ext zero (x, rm) _ _ _ _ _ _ _ (conj HX HM) (resized_arr_spec_entries zero arr H W _ _ _ _ 0 HE N0 N1)); intros; lia.
  Qed.

  (* MAIN: trimming for ANY odd kernel is the centred crop to shape - (kernel - 1); when that is not positive along an
     axis nothing survives along it (resize_spec with a non-positive target is empty along that axis) *)
  Lemma trimmed_is_spec_all (arr : arr2d B) H W k0 k1 :
    properA H W arr -> Z.odd k0 = true -> Z.odd k1 = true -> 1 <= k0 -> 1 <= k1 ->
    trimmed_after_convolution_from zero arr (k0, k1) = Ok (resized_arr_spec zero arr (H - (k0 - 1)) (W - (k1 - 1)) 0).
  Proof.
    intros HA O0 O1 Hk0 Hk1.
    destruct (Z.lt_ge_cases (k0 - 1) H) as [L0|L0].
    - destruct (Z.le_gt_cases (k1 - 1) W) as [L1|L1].
      + now apply trimmed_is_spec.
      + rewrite (trimmed_no_cols arr H W k0 k1) by (try assumption; lia).
        unfold resized_arr_spec. rewrite !(resize_spec_neg_cols _ _ _ (W - (k1 - 1))) by lia. reflexivity.
    - rewrite (trimmed_no_rows arr H W k0 k1) by assumption.
      unfold resized_arr_spec. rewrite !resize_spec_nonpos_rows by lia. reflexivity.
  Qed.

  (* Mask2D.trimmed_array_from, any parity: floor division cuts (H - s0) // 2 rows at each side, so one row / column
     more than requested survives when the difference is odd; the result is the centred crop to that shape *)
  Lemma trimmed_array_any_parity (p : list (list B)) H W s0 s1 :
    rectb H W p = true -> 0 < H -> 0 <= s0 <= H -> 0 <= s1 <= W ->
    trimmed_array_from (H, W) p (s0, s1) = resize_spec zero p (s0 + (H - s0) mod 2) (s1 + (W - s1) mod 2).
  Proof.
    intros HB HP Hs0 Hs1.
    set (t0 := s0 + (H - s0) mod 2). set (t1 := s1 + (W - s1) mod 2).
    assert (A0 : (H - t0) / 2 = (H - s0) / 2) by (unfold t0; zdiv).
    assert (A1 : (W - t1) / 2 = (W - s1) / 2) by (unfold t1; zdiv).
    rewrite <- (trimmed_array_is_spec zero p H W t0 t1); try assumption.
    - unfold trimmed_array_from. cbn [fst snd]. rewrite A0, A1. reflexivity.
    - unfold t0. zdiv.
    - unfold t1. zdiv.
    - unfold t0. rewrite Z.even_spec. exists ((H - s0) / 2). zdiv.
    - unfold t1. rewrite Z.even_spec. exists ((W - s1) / 2). zdiv.
  Qed.
End Trim.

(* ------------------------------------------------------------------ zoomed_around_mask, every buffer *)
Lemma zoom_is_window {B} (zero : B) (arr : arr2d B) H W b y0 y1 x0 x1 :
  rectb H W (fst arr) = true -> 0 < H -> zoom_region (snd arr) = Ok (y0, y1, x0, x1) ->
  0 <= (y1 - y0) + 2 * b -> 0 <= (x1 - x0) + 2 * b ->
  zoomed_around_mask zero arr b = Ok (window_spec zero (fst arr) (y0 - b) (x0 - b) ((y1 - y0) + 2 * b) ((x1 - x0) + 2 * b)).
Proof.
  intros HA HP EZ N0 N1. unfold zoomed_around_mask. rewrite EZ. cbn [bind].
  rewrite (extracted_is_spec zero (fst arr) H W) by (try assumption; lia). unfold window_spec.
  replace (y1 + b - (y0 - b)) with (y1 - y0 + 2 * b) by lia. replace (x1 + b - (x0 - b)) with (x1 - x0 + 2 * b) by lia.
  reflexivity.
Qed.
Lemma zoom_negative_window_raises {B} (zero : B) (arr : arr2d B) b y0 y1 x0 x1 :
  zoom_region (snd arr) = Ok (y0, y1, x0, x1) -> (y1 - y0) + 2 * b < 0 \/ (x1 - x0) + 2 * b < 0 ->
  zoomed_around_mask zero arr b = Raise OtherException.
Proof.
  intros EZ HN. unfold zoomed_around_mask. rewrite EZ. cbn [bind]. apply extracted_negative_shape. lia.
Qed.
