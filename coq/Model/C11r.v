(* C11r -- PART F of C11: re-masking chains on a dataset that carries a noise covariance matrix.

   autoarray/dataset/imaging/dataset.py, Imaging.apply_mask(self, mask):
       unmasked_dataset = self if self.data.mask.is_all_false else self.unmasked          (None on a dataset that was built masked)
       data      = Array2D(values=unmasked_dataset.data.native, mask=mask)
       noise_map = Array2D(values=unmasked_dataset.noise_map.native, mask=mask)
       cov = unmasked_dataset.noise_covariance_matrix
       cov = np.delete(cov, mask.derive_indexes.masked_slim, 0); cov = np.delete(cov, mask.derive_indexes.masked_slim, 1)
       dataset = Imaging(data, noise_map, ..., noise_covariance_matrix=cov); dataset.unmasked = unmasked_dataset

   A dataset object: its mask, the native data array (zeros at masked pixels), the covariance matrix it holds (reduced to its unmasked
   pixels) and a reference to the dataset it goes back to.  Values are opaque integers (nothing is computed with them: selection only).
   The policy flag [from_self] says whether apply_mask reduces the matrix of `self` (the ALREADY REDUCED matrix of a masked dataset:
   the change found by the independent campaign) or that of the unmasked dataset (the code).  np.delete raises IndexError on an index
   beyond the axis.  The specification is the value semantics: a dataset IS (the caller's arrays, its own mask).
   Executable definitions only. *)
From Coq Require Import ZArith List Bool Lia.
From PAV Require Import Base.Res Base.Check Model.C11.
Import ListNotations.
Local Open Scope Z_scope.

Definition allfalse (m : list bool) : bool := forallb negb m.
Fixpoint filteri_from {A} (k : nat) (f : nat -> bool) (l : list A) : list A :=
  match l with
  | [] => []
  | x :: t => if f k then x :: filteri_from (S k) f t else filteri_from (S k) f t
  end.
Fixpoint mapi_from (k : nat) (f : nat -> Z -> Z) (l : arr) : arr :=
  match l with
  | [] => []
  | x :: t => f k x :: mapi_from (S k) f t
  end.
(* the entries at the unmasked positions of b (a slim array from a native one; rows / columns of a matrix) *)
Definition keep {A} (b : list bool) (l : list A) : list A := filteri_from 0%nat (fun i => negb (nth i b false)) l.
(* Array2D(values=native, mask=b).native: zeros at the masked pixels *)
Definition mask_native (d : arr) (b : list bool) : arr := mapi_from 0%nat (fun i v => if nth i b false then 0 else v) d.
(* mask.derive_indexes.masked_slim *)
Definition masked_idx (b : list bool) : list nat := filter (fun i => nth i b false) (seq 0 (length b)).
(* np.delete(l, masked_slim(b), axis): IndexError (None) when an index is beyond the axis *)
Definition np_delete {A} (l : list A) (b : list bool) : option (list A) :=
  if existsb (fun i => Nat.leb (length l) i) (masked_idx b) then None else Some (keep b l).
Fixpoint all_some {A} (l : list (option A)) : option (list A) :=
  match l with
  | [] => Some []
  | None :: _ => None
  | Some x :: t => match all_some t with Some r => Some (x :: r) | None => None end
  end.
Definition reduce_cov (c : list arr) (b : list bool) : option (list arr) :=
  match np_delete c b with
  | None => None
  | Some rows => all_some (map (fun r => np_delete r b) rows)
  end.

Record rds := mkR { r_mask : list bool; r_native : arr; r_cov : option (list arr); r_unm : option nat }.

Inductive rop :=
| RMask (d : nat) (b : list bool)        (* datasets[d].apply_mask(Mask2D(b)) *)
| RPeek (d : nat).                       (* the caller looks at datasets[d]: data (slim), noise_covariance_matrix *)
Inductive robs :=
| ROk (data : arr) (cov : option (list arr))
| RRaise                                 (* AttributeError (no `unmasked`) / IndexError (np.delete) *)
| RBad.                                  (* ill-formed step: no such dataset, a mask of another shape *)

Definition rinit (data0 : arr) (cov0 : option (list arr)) : list rds :=
  [mkR (repeat false (length data0)) data0 cov0 None].

Definition rstep (from_self : bool) (n : nat) (st : list rds) (o : rop) : list rds * robs :=
  match o with
  | RMask d b =>
      if negb (Nat.eqb (length b) n) then (st, RBad) else
      match nth_error st d with
      | None => (st, RBad)
      | Some self =>
          match (if allfalse (r_mask self) then Some d else r_unm self) with
          | None => (st, RRaise)
          | Some u =>
              match nth_error st u with
              | None => (st, RBad)
              | Some du =>
                  let nat' := mask_native (r_native du) b in
                  match (match (if from_self then r_cov self else r_cov du) with
                         | None => Some None
                         | Some c => match reduce_cov c b with None => None | Some c' => Some (Some c') end
                         end) with
                  | None => (st, RRaise)
                  | Some cov' => (st ++ [mkR b nat' cov' (Some u)], ROk (keep b nat') cov')
                  end
              end
          end
      end
  | RPeek d =>
      match nth_error st d with
      | Some ds => (st, ROk (keep (r_mask ds) (r_native ds)) (r_cov ds))
      | None => (st, RBad)
      end
  end.
Fixpoint rtrace (from_self : bool) (n : nat) (st : list rds) (ops : list rop) : list robs :=
  match ops with
  | [] => []
  | o :: t => let '(st1, ob) := rstep from_self n st o in ob :: rtrace from_self n st1 t
  end.
Definition robservations (from_self : bool) (data0 : arr) (cov0 : option (list arr)) (ops : list rop) : list robs :=
  rtrace from_self (length data0) (rinit data0 cov0) ops.

(* ---- specification: a dataset is (the caller's arrays, its own mask); no objects, no `unmasked`, no deletion that can fail *)
Definition restrict (b : list bool) (c : list arr) : list arr := map (keep b) (keep b c).
Definition view (data0 : arr) (cov0 : option (list arr)) (m : list bool) : robs :=
  ROk (keep m (mask_native data0 m)) (option_map (restrict m) cov0).
Definition sstep (data0 : arr) (cov0 : option (list arr)) (masks : list (list bool)) (o : rop) : list (list bool) * robs :=
  match o with
  | RMask d b =>
      if negb (Nat.eqb (length b) (length data0)) then (masks, RBad) else
      match nth_error masks d with
      | None => (masks, RBad)
      | Some _ => (masks ++ [b], view data0 cov0 b)
      end
  | RPeek d => match nth_error masks d with Some m => (masks, view data0 cov0 m) | None => (masks, RBad) end
  end.
Fixpoint strace (data0 : arr) (cov0 : option (list arr)) (masks : list (list bool)) (ops : list rop) : list robs :=
  match ops with
  | [] => []
  | o :: t => let '(m1, ob) := sstep data0 cov0 masks o in ob :: strace data0 cov0 m1 t
  end.
Definition sobservations (data0 : arr) (cov0 : option (list arr)) (ops : list rop) : list robs :=
  strace data0 cov0 [repeat false (length data0)] ops.

(* the caller's matrix is square, one row / column per pixel *)
Definition wf_cov (n : nat) (cov0 : option (list arr)) : bool :=
  match cov0 with
  | None => true
  | Some c => Nat.eqb (length c) n && forallb (fun r => Nat.eqb (length r) n) c
  end.

(* ---- correspondence: a run on a real Imaging dataset.  [out]: per step what the derived dataset (or the one looked at) reports *)
Definition robs_eqb (x y : robs) : bool :=
  match x, y with
  | ROk d c, ROk d' c' => arr_eqb d d' && option_eqb (list_eqb arr_eqb) c c'
  | RRaise, RRaise => true
  | RBad, RBad => true
  | _, _ => false
  end.
Definition remask_agree (data0 : arr) (cov0 : option (list arr)) (ops : list rop) (out : list robs) : bool :=
  wf_cov (length data0) cov0 && list_eqb robs_eqb (robservations false data0 cov0 ops) out.
Definition remask_spec_ok (data0 : arr) (cov0 : option (list arr)) (ops : list rop) (out : list robs) : bool :=
  wf_cov (length data0) cov0 && list_eqb robs_eqb (sobservations data0 cov0 ops) out.
