(* C18 -- proofs about the border-relocation model (Model/C18.v) at the real numbers [ROps].
   Part 1: relocated_grid_via_jit_from (point-wise rule), Part 2: the BorderRelocator / mapper glue,
   Part 3: furthest sub-pixel selection. *)
From Coq Require Import ZArith QArith Reals Lra Lia List Bool Arith Psatz.
From PAV Require Import Base.NumOps Base.Res Base.Check Base.Sum Model.C18.
Import ListNotations.
Local Open Scope R_scope.

(* ================================================================= vocabulary of the statements *)
Notation Rpt := (R * R)%type (only parsing).
(* Euclidean distance *)
Definition dist (a b : Rpt) : R :=
  sqrt ((fst a - fst b) * (fst a - fst b) + (snd a - snd b) * (snd a - snd b)).
(* centroid (mean) of a list of points *)
Definition centroid (l : list Rpt) : Rpt :=
  (sumR (map fst l) / INR (length l), sumR (map snd l) / INR (length l)).
(* b is a border point nearest to p *)
Definition nearest (border : list Rpt) (p b : Rpt) : Prop :=
  In b border /\ forall b', In b' border -> dist p b <= dist p b'.
(* the model's point-wise relocation function for a given (non-empty) border *)
Definition border_min_radius (border : list Rpt) : R :=
  match border with
  | [] => 0
  | b0 :: bt => @min_list ROps (@radius ROps (@border_origin ROps border) b0)
                               (map (@radius ROps (@border_origin ROps border)) bt)
  end.
Definition reloc1 (border : list Rpt) (p : Rpt) : Rpt :=
  @relocate_point ROps (@border_origin ROps border) border
     (map (@radius ROps (@border_origin ROps border)) border) (border_min_radius border) p.

(* ================================================================= basic facts *)
Lemma radius_dist c p : @radius ROps c p = dist p c.
Proof. reflexivity. Qed.
Lemma dist2_sqrt p b : dist p b = sqrt (@dist2 ROps p b).
Proof. reflexivity. Qed.
Lemma dist2_nonneg p b : 0 <= @dist2 ROps p b.
Proof. unfold dist2, sq. cbn [add sub mul ROps]. apply Rplus_le_le_0_compat; apply Rle_0_sqr. Qed.
Lemma dist_nonneg a b : 0 <= dist a b.
Proof. apply sqrt_pos. Qed.
Lemma dist_le_iff p a b : dist p a <= dist p b <-> @dist2 ROps p a <= @dist2 ROps p b.
Proof.
  rewrite !dist2_sqrt. split; intros H.
  - destruct (Rle_or_lt (@dist2 ROps p a) (@dist2 ROps p b)) as [|Hlt]; auto.
    assert (sqrt (@dist2 ROps p b) < sqrt (@dist2 ROps p a))
      by (apply sqrt_lt_1_alt; split; [apply dist2_nonneg|assumption]). lra.
  - apply sqrt_le_1_alt. assumption.
Qed.
Lemma dist_lt_iff p a b : dist p a < dist p b <-> @dist2 ROps p a < @dist2 ROps p b.
Proof.
  pose proof (dist_le_iff p b a). split; intros H1.
  - destruct (Rle_or_lt (@dist2 ROps p b) (@dist2 ROps p a)); [|assumption]. lra.
  - destruct (Rle_or_lt (dist p b) (dist p a)); [|assumption]. lra.
Qed.

Lemma mean_R (l : list R) : @mean ROps l = sumR l / INR (length l).
Proof. unfold mean, ofNat. cbn [div ROps ofZ]. rewrite sumT_sumR, INR_IZR_INZ. reflexivity. Qed.
Lemma border_origin_centroid border : @border_origin ROps border = centroid border.
Proof. unfold border_origin, centroid. rewrite !mean_R, !map_length. reflexivity. Qed.

(* ---- np.min / np.max *)
Lemma min_list_cons (h a : R) t : @min_list ROps h (a :: t) = @min_list ROps (if Rltb a h then a else h) t.
Proof. reflexivity. Qed.
Lemma max_list_cons (h a : R) t : @max_list ROps h (a :: t) = @max_list ROps (if Rltb h a then a else h) t.
Proof. reflexivity. Qed.
Lemma min_list_spec (t : list R) : forall h : R,
  @min_list ROps h t <= h /\ (forall x, In x t -> @min_list ROps h t <= x) /\ In (@min_list ROps h t) (h :: t).
Proof.
  induction t as [|a t IH]; intros h.
  - change (@min_list ROps h []) with h. split; [lra|]. split; [intros x []|left; auto].
  - rewrite min_list_cons. destruct (Rltb a h) eqn:E; rbool.
    + destruct (IH a) as (H1 & H2 & H3). split; [lra|]. split.
      * intros x [<-|Hx]; auto.
      * destruct H3 as [H3|H3]; [right; left; auto | right; right; auto].
    + destruct (IH h) as (H1 & H2 & H3). split; [lra|]. split.
      * intros x [<-|Hx]; [lra | auto].
      * destruct H3 as [H3|H3]; [left; auto | right; right; auto].
Qed.
Lemma max_list_spec (t : list R) : forall h : R,
  h <= @max_list ROps h t /\ (forall x, In x t -> x <= @max_list ROps h t) /\ In (@max_list ROps h t) (h :: t).
Proof.
  induction t as [|a t IH]; intros h.
  - change (@max_list ROps h []) with h. split; [lra|]. split; [intros x []|left; auto].
  - rewrite max_list_cons. destruct (Rltb h a) eqn:E; rbool.
    + destruct (IH a) as (H1 & H2 & H3). split; [lra|]. split.
      * intros x [<-|Hx]; auto.
      * destruct H3 as [H3|H3]; [right; left; auto | right; right; auto].
    + destruct (IH h) as (H1 & H2 & H3). split; [lra|]. split.
      * intros x [<-|Hx]; [lra | auto].
      * destruct H3 as [H3|H3]; [left; auto | right; right; auto].
Qed.

(* ---- np.argmin: first index of the minimum *)
Lemma argmin_from_spec (l : list R) : forall i bi (bv : R),
  (@argmin_from ROps l i bi bv = bi /\ forall j, (j < length l)%nat -> bv <= nth j l 0) \/
  (exists j, @argmin_from ROps l i bi bv = (i + j)%nat /\ (j < length l)%nat /\ nth j l 0 < bv /\
             (forall j', (j' < length l)%nat -> nth j l 0 <= nth j' l 0) /\
             (forall j', (j' < j)%nat -> nth j l 0 < nth j' l 0)).
Proof.
  induction l as [|v t IH]; intros i bi bv.
  - left. split; [reflexivity|]. cbn. intros j Hj. lia.
  - cbn [argmin_from ltb ROps]. destruct (Rltb v bv) eqn:E; rbool.
    + right. destruct (IH (S i) i v) as [[Hk Hall]|(j & Hk & Hj & Hlt & Hmin & Hfirst)].
      * exists 0%nat. rewrite Hk. split; [lia|]. split; [cbn; lia|]. split; [exact E|]. split.
        -- intros [|j'] Hj'; cbn; [lra|]. apply Hall. cbn in Hj'. lia.
        -- intros j' Hj'. lia.
      * exists (S j). rewrite Hk. split; [lia|]. split; [cbn; lia|]. cbn [nth]. split; [lra|]. split.
        -- intros [|j'] Hj'; [lra|]. apply Hmin. cbn in Hj'. lia.
        -- intros [|j'] Hj'; [lra|]. apply Hfirst. lia.
    + destruct (IH (S i) bi bv) as [[Hk Hall]|(j & Hk & Hj & Hlt & Hmin & Hfirst)].
      * left. split; [exact Hk|]. intros [|j] Hj; cbn; [lra|]. apply Hall. cbn in Hj. lia.
      * right. exists (S j). rewrite Hk. split; [lia|]. split; [cbn; lia|]. cbn [nth]. split; [lra|]. split.
        -- intros [|j'] Hj'; [lra|]. apply Hmin. cbn in Hj'. lia.
        -- intros [|j'] Hj'; [lra|]. apply Hfirst. lia.
Qed.
Lemma argmin_spec (l : list R) : l <> [] ->
  (@argmin ROps l < length l)%nat /\
  (forall j, (j < length l)%nat -> nth (@argmin ROps l) l 0 <= nth j l 0) /\
  (forall j, (j < @argmin ROps l)%nat -> nth (@argmin ROps l) l 0 < nth j l 0).
Proof.
  destruct l as [|v t]; [congruence|]. intros _. unfold argmin.
  destruct (argmin_from_spec t 1 0 v) as [[Hk Hall]|(j & Hk & Hj & Hlt & Hmin & Hfirst)]; rewrite Hk.
  - split; [cbn; lia|]. split.
    + intros [|j] Hj; cbn; [lra|]. apply Hall. cbn in Hj. lia.
    + intros j Hj. lia.
  - cbn [plus nth length]. split; [lia|]. split.
    + intros [|j'] Hj'; [lra|]. apply Hmin. cbn in Hj'. lia.
    + intros [|j'] Hj'; [lra|]. apply Hfirst. lia.
Qed.

Lemma bmin_spec_gen (border : list Rpt) : border <> [] ->
  (forall b, In b border -> border_min_radius border <= dist b (centroid border)) /\
  (exists b, In b border /\ border_min_radius border = dist b (centroid border)).
Proof.
  intros Hne. destruct border as [|b0 bt]; [congruence|].
  unfold border_min_radius. rewrite border_origin_centroid. set (c := centroid (b0 :: bt)).
  destruct (min_list_spec (map (@radius ROps c) bt) (@radius ROps c b0)) as (H1 & H2 & H3).
  split.
  - intros b [<-|Hb]; [exact H1|].
    apply H2. apply in_map_iff. exists b. split; auto.
  - destruct H3 as [H3|H3].
    + exists b0. split; [left; auto|]. rewrite <- H3. reflexivity.
    + apply in_map_iff in H3. destruct H3 as (b & Hb & Hin). exists b. split; [right; auto|].
      rewrite <- Hb. reflexivity.
Qed.

(* ================================================================= Part 1: the point-wise rule *)
Section Rule.
  Variable border : list Rpt.
  Hypothesis border_ne : border <> [].
  Let c : Rpt := centroid border.

  Lemma bmin_spec :
    (forall b, In b border -> border_min_radius border <= dist b c) /\
    (exists b, In b border /\ border_min_radius border = dist b c).
  Proof. exact (bmin_spec_gen border border_ne). Qed.
  Lemma bmin_nonneg : 0 <= border_min_radius border.
  Proof. destruct bmin_spec as (_ & b & _ & ->). apply dist_nonneg. Qed.

  (* index of the border point the model pairs with p, and that point *)
  Definition closest_index (p : Rpt) : nat := @argmin ROps (map (@dist2 ROps p) border).
  Definition closest (p : Rpt) : Rpt := nth (closest_index p) border (0, 0).

  Lemma closest_spec p :
    (closest_index p < length border)%nat /\
    nearest border p (closest p) /\
    (forall j, (j < closest_index p)%nat -> dist p (closest p) < dist p (nth j border (0, 0))).
  Proof.
    unfold closest, closest_index.
    assert (Hne : map (@dist2 ROps p) border <> []) by (destruct border; [congruence|discriminate]).
    destruct (argmin_spec _ Hne) as (Hk & Hmin & Hfirst). rewrite map_length in Hk, Hmin.
    set (k := @argmin ROps (map (@dist2 ROps p) border)) in *.
    assert (Hn : forall j, (j < length border)%nat ->
                 nth j (map (@dist2 ROps p) border) 0 = @dist2 ROps p (nth j border (0, 0))).
    { intros j Hj. rewrite (nth_indep _ 0 (@dist2 ROps p (0, 0))) by (rewrite map_length; exact Hj).
      apply map_nth. }
    split; [exact Hk|]. split; [split|].
    - apply nth_In. exact Hk.
    - intros b' Hb'. destruct (In_nth _ _ (0, 0) Hb') as (j & Hj & <-).
      apply dist_le_iff. rewrite <- (Hn k) by assumption. rewrite <- (Hn j) by assumption. apply Hmin. exact Hj.
    - intros j Hj. apply dist_lt_iff. rewrite <- (Hn k) by assumption. rewrite <- (Hn j) by (apply Nat.lt_trans with k; assumption). apply Hfirst. exact Hj.
  Qed.

  (* the model's function, case by case *)
  Lemma reloc1_cases p :
    let r := dist p c in let rb := dist (closest p) c in
    (r <= border_min_radius border /\ reloc1 border p = p) \/
    (border_min_radius border < r /\ r <= rb /\ reloc1 border p = p) \/
    (border_min_radius border < r /\ rb < r /\
     reloc1 border p = (rb / r * (fst p - fst c) + fst c, rb / r * (snd p - snd c) + snd c)).
  Proof.
    intros r rb. unfold reloc1, relocate_point. rewrite border_origin_centroid. fold c.
    cbn [ltb ROps div add mul sub]. rewrite radius_dist. fold r.
    destruct (Rltb (border_min_radius border) r) eqn:E; rbool; [|left; split; [exact E|reflexivity]].
    right. pose proof bmin_nonneg as Hb0.
    destruct (closest_spec p) as (Hk & _ & _). fold (closest_index p).
    assert (Hrb : nth (closest_index p) (map (@radius ROps c) border) (@zero ROps) = rb).
    { rewrite (nth_indep _ _ (@radius ROps c (0, 0))) by (rewrite map_length; exact Hk).
      rewrite map_nth. reflexivity. }
    rewrite Hrb. assert (Hrb0 : 0 <= rb) by apply dist_nonneg.
    change (@one ROps) with 1.
    destruct (Rltb (rb / r) 1) eqn:E2; rbool.
    - right. split; [exact E|]. split; [|reflexivity].
      apply (Rmult_lt_compat_r r) in E2; [|lra]. unfold Rdiv in E2. rewrite Rmult_assoc, Rinv_l in E2; lra.
    - left. split; [exact E|]. split; [|reflexivity].
      apply (Rmult_le_compat_r r) in E2; [|lra]. unfold Rdiv in E2. rewrite Rmult_assoc, Rinv_l in E2; lra.
  Qed.

  (* radius of a point scaled about c *)
  Lemma dist_scaled (p : Rpt) k : 0 <= k ->
    dist (k * (fst p - fst c) + fst c, k * (snd p - snd c) + snd c) c = k * dist p c.
  Proof.
    intros Hk. unfold dist. cbn [fst snd].
    replace ((k * (fst p - fst c) + fst c - fst c) * (k * (fst p - fst c) + fst c - fst c) +
             (k * (snd p - snd c) + snd c - snd c) * (k * (snd p - snd c) + snd c - snd c))
      with ((k * k) * ((fst p - fst c) * (fst p - fst c) + (snd p - snd c) * (snd p - snd c))) by ring.
    rewrite sqrt_mult_alt by nra. rewrite sqrt_square by exact Hk. reflexivity.
  Qed.

  (* 1. interior points: the very same term is returned *)
  Lemma interior_untouched p :
    (forall b, In b border -> dist p c <= dist b c) -> reloc1 border p = p.
  Proof.
    intros H. destruct bmin_spec as (_ & b & Hb & Hmin).
    destruct (reloc1_cases p) as [[_ E]|[(Hlt & _)|(Hlt & _)]]; auto; specialize (H b Hb); lra.
  Qed.

  (* 2. on the ray from the centroid, never beyond the input *)
  Lemma moved_on_ray_inward p :
    reloc1 border p = p \/
    exists k, 0 <= k < 1 /\
      reloc1 border p = (fst c + k * (fst p - fst c), snd c + k * (snd p - snd c)).
  Proof.
    destruct (reloc1_cases p) as [[_ E]|[(_ & _ & E)|(Hlt & Hrb & E)]]; auto.
    right. pose proof bmin_nonneg. pose proof (dist_nonneg (closest p) c).
    exists (dist (closest p) c / dist p c). split.
    - split.
      + apply Rmult_le_pos; [assumption|]. left. apply Rinv_0_lt_compat. lra.
      + apply (Rmult_lt_reg_r (dist p c)); [lra|]. unfold Rdiv. rewrite Rmult_assoc, Rinv_l; lra.
    - rewrite E. f_equal; ring.
  Qed.
  (* the scale factor is strictly positive unless the paired border point sits at the centroid *)
  Lemma moved_factor p :
    reloc1 border p <> p ->
    border_min_radius border < dist p c /\ dist (closest p) c < dist p c /\
    reloc1 border p = (fst c + dist (closest p) c / dist p c * (fst p - fst c),
                       snd c + dist (closest p) c / dist p c * (snd p - snd c)).
  Proof.
    intros Hne. destruct (reloc1_cases p) as [[_ E]|[(_ & _ & E)|(Hlt & Hrb & E)]]; try contradiction.
    split; [assumption|]. split; [assumption|]. rewrite E. f_equal; ring.
  Qed.

  (* 3. beyond the smallest border radius: the first nearest border point decides *)
  Lemma moved_to_nearest_border_radius p :
    border_min_radius border < dist p c ->
    nearest border p (closest p) /\
    (forall j, (j < closest_index p)%nat -> dist p (closest p) < dist p (nth j border (0, 0))) /\
    (dist (closest p) c < dist p c -> dist (reloc1 border p) c = dist (closest p) c) /\
    (dist p c <= dist (closest p) c -> reloc1 border p = p).
  Proof.
    intros Hout. destruct (closest_spec p) as (_ & Hnear & Hfirst).
    split; [exact Hnear|]. split; [exact Hfirst|].
    pose proof bmin_nonneg. pose proof (dist_nonneg (closest p) c) as Hrb0.
    destruct (reloc1_cases p) as [[Hle E]|[(_ & Hle & E)|(_ & Hrb & E)]].
    - lra.
    - split; [lra | auto].
    - split; [|lra]. intros _. rewrite E. rewrite dist_scaled.
      + field. lra.
      + apply Rmult_le_pos; [assumption|]. left. apply Rinv_0_lt_compat. lra.
  Qed.
  Lemma moved_to_unique_nearest p b :
    border_min_radius border < dist p c -> nearest border p b ->
    (forall b', nearest border p b' -> dist b' c = dist b c) ->
    (dist b c < dist p c -> dist (reloc1 border p) c = dist b c) /\
    (dist p c <= dist b c -> reloc1 border p = p).
  Proof.
    intros Hout Hb Huniq. destruct (moved_to_nearest_border_radius p Hout) as (Hn & _ & H1 & H2).
    rewrite <- (Huniq _ Hn). auto.
  Qed.

  (* 4. never outward *)
  Lemma never_outward p : dist (reloc1 border p) c <= dist p c.
  Proof.
    pose proof bmin_nonneg. pose proof (dist_nonneg (closest p) c) as Hrb0.
    destruct (reloc1_cases p) as [[_ E]|[(_ & _ & E)|(Hlt & Hrb & E)]]; try (rewrite E; lra).
    rewrite E, dist_scaled.
    - unfold Rdiv. rewrite Rmult_assoc, Rinv_l; lra.
    - apply Rmult_le_pos; [assumption|]. left. apply Rinv_0_lt_compat. lra.
  Qed.

  (* 5. bounded by the farthest border point *)
  Lemma bounded_by_max_border_radius p : exists b, In b border /\ dist (reloc1 border p) c <= dist b c.
  Proof.
    pose proof bmin_nonneg. pose proof (dist_nonneg (closest p) c) as Hrb0.
    destruct (closest_spec p) as (_ & (Hin & _) & _).
    destruct (reloc1_cases p) as [[Hle E]|[(_ & Hle & E)|(Hlt & Hrb & E)]].
    - destruct bmin_spec as (_ & b & Hb & Hmin). exists b. split; [exact Hb|]. rewrite E. lra.
    - exists (closest p). split; [exact Hin|]. rewrite E. exact Hle.
    - exists (closest p). split; [exact Hin|]. rewrite E, dist_scaled.
      + unfold Rdiv. rewrite Rmult_assoc, Rinv_l; lra.
      + apply Rmult_le_pos; [assumption|]. left. apply Rinv_0_lt_compat. lra.
  Qed.

  (* border points are fixed points of the rule *)
  Lemma border_point_fixed p : In p border -> reloc1 border p = p.
  Proof.
    intros Hp. destruct (closest_spec p) as (_ & (Hin & Hmin) & _).
    assert (Hd : dist p (closest p) = 0).
    { specialize (Hmin p Hp). pose proof (dist_nonneg p (closest p)).
      assert (dist p p = 0) by (unfold dist; rewrite !Rminus_diag_eq by reflexivity; rewrite Rmult_0_l, Rplus_0_l; apply sqrt_0).
      lra. }
    assert (Heq : closest p = p).
    { unfold dist in Hd. apply sqrt_eq_0 in Hd; [|apply Rplus_le_le_0_compat; apply Rle_0_sqr].
      change (Rsqr (fst p - fst (closest p)) + Rsqr (snd p - snd (closest p)) = 0) in Hd.
      apply Rplus_sqr_eq_0 in Hd. destruct Hd as [Hy Hx].
      destruct (closest p) as [qy qx]. destruct p as [py px]. cbn [fst snd] in Hy, Hx. f_equal; lra. }
    destruct (reloc1_cases p) as [[_ E]|[(_ & _ & E)|(_ & Hrb & _)]]; auto. rewrite Heq in Hrb. lra.
  Qed.
End Rule.

(* ================================================================= the whole array *)
Lemma relocated_grid_R grid border :
  @relocated_grid_via_jit_from ROps grid border =
  match border with [] => Raise OtherException | _ => Ok (map (reloc1 border) grid) end.
Proof. destruct border as [|b0 bt]; reflexivity. Qed.

Lemma length_and_order_preserved grid border out :
  @relocated_grid_via_jit_from ROps grid border = Ok out ->
  border <> [] /\ out = map (reloc1 border) grid /\ length out = length grid /\
  forall i d, (i < length grid)%nat -> nth i out d = reloc1 border (nth i grid d).
Proof.
  rewrite relocated_grid_R. destruct border as [|b0 bt]; [discriminate|]. intros H. injection H as <-.
  split; [discriminate|]. split; [reflexivity|]. split; [apply map_length|].
  intros i d Hi. rewrite (nth_indep _ d (reloc1 (b0 :: bt) d)) by (rewrite map_length; exact Hi). apply map_nth.
Qed.
Lemma relocation_total grid border : border <> [] ->
  @relocated_grid_via_jit_from ROps grid border = Ok (map (reloc1 border) grid).
Proof. rewrite relocated_grid_R. destruct border; [congruence|reflexivity]. Qed.
Lemma relocation_empty_border grid : @relocated_grid_via_jit_from ROps grid [] = Raise OtherException.
Proof. reflexivity. Qed.
