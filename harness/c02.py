"""C02 -- pixel indices and scaled (y,x) coordinates are consistent inverse maps; shape-based mask constructors."""
import math
import numpy as np
from fractions import Fraction
from harness.common import cz, cq, cbool, clist, ctup, import_aa, frac

ID = "C02"
GEN = ["geometry"]
GEN_FILES = ["Gen/Gen_geometry.v"]
PROPS = "Props/C02.v"
COQ_CHECK = ("Model.C02x", "check")
COQ_FALLBACK = ("Model.C02", "spec_ok")
COQ_IMPORTS = "From PAV Require Import Model.C02."
SHARD = 150
RULE = ("all-shapes sweep (see exhaustive_subspace), then geometries: shapes H,W in 1..9 (all parity combinations, 1xN and Nx1 included), anisotropic pixel scales, unequal origin "
        "components, random masks. EXACT stream: dyadic scales (also 3/2, 3, 3/4, 5/4), origins that are dyadic multiples of the scale and "
        "query coordinates on a 1/16-pixel lattice over the whole extent plus a one-pixel rim outside it -- every double operation of the "
        "implementation is exact, so pixel-boundary and radius TIES are included and compared exactly. TOLERANCE stream: arbitrary "
        "two-decimal doubles for scales / origins / coordinates / radii / angles; real-valued outputs compared to 1e-9, every decision "
        "(pixel boundary, mask radius) kept at an exact-rational margin >= 1e-6 (cases inside the band are skipped and counted). "
        "Mask constructors: radii on a 1/4 lattice (ties with pixel centres are frequent), centres k/4 pixels off, axis ratios in "
        "{1/4..1}, arbitrary angles (cos/sin handed to the model as the rational value of the doubles math.cos/math.sin). Every "
        "case goes through the public entry point (Mask2D.geometry.*, Grid2D.from_mask / uniform, derive_grid.all_false / unmasked, "
        "Mask2D.circular / circular_annular / circular_anti_annular / elliptical / elliptical_annular, Mask1D.geometry, "
        "Grid1D.from_mask / uniform) AND the util function; both outputs are checked. Non-trivial = non-square shape or "
        "unequal scales or non-zero origin/centre; distinct = distinct JSON input.")
EXHAUSTIVE = {
    "quick": "every shape H x W with H, W <= 6 and every pixel of it: pixel-centre grid, centre -> (row, column) -> flat index "
             "(one sampled anisotropic geometry with unequal non-zero origin per shape; scales / origins are sampled, not enumerated)",
    "thorough": "as quick with H, W <= 9",
}
TRUSTED = ["py2v plug-in py2v/gen_geometry.py (fail-closed ast -> Gallina over NumOps; coq/Gen/Gen_geometry.v regenerated from /repo on "
           "every run): scalar conversions, Geometry1D/2D extent properties, the slim-grid conversion loops, the pixel-centre gathers, "
           "the circular / annular / anti-annular constructor loops and (over R only) elliptical_radius_from and the two elliptical "
           "constructor loops; pinned glue: Geometry*.__init__, convert_pixel_scales_2d, total_pixels_{1,2}d_from",
           "NumPy oracle contract written in the header of Gen_geometry.v: arctan2 = angle of (x, y) in (-pi, pi], radians = d pi/180, "
           "sin / cos / sqrt = the mathematical functions, element-wise double arithmetic = real arithmetic on the exact stream",
           "executable (cos, sin)-pair form of the elliptical constructors (Model/C02x.v): PROVED equal to the generated trigonometric "
           "code for every angle; the harness hands it Fraction(math.cos(radians(angle))) (or the exact Pythagorean pair), i.e. trusts "
           "libm's cos/sin to 1e-9 (checked per case), decisions kept 1e-6 away",
           "QOps execution: sqrtT is a 2^-64 rational approximation (exact on squares of rationals); generated radii keep it away "
           "from every decision unless the tie is exact",
           "correspondence harness harness/c02.py (Fraction(float) conversion, exact margins)"]
ASSUMPTIONS = ["real arithmetic (no rounding): theorems over R; the exact stream makes double arithmetic exact, the tolerance stream "
               "stays 1e-6 away from every decision, which is the exclusion band of the property text (1e-9) with room to spare",
               "pixel scales > 0; Python int() = truncation toward zero",
               "class glue (Grid2D / Array2D / Mask2D construction, .astype('int')) is covered by correspondence only"]

TOL = Fraction(1, 10 ** 9)
MARGIN = Fraction(1, 10 ** 6)
SKIPPED = {"inband": 0, "redrawn": 0}

def extra_evidence():
    return {"skipped_in_band": SKIPPED["inband"], "redrawn_in_band_by_generator": SKIPPED["redrawn"]}

# ----------------------------------------------------------------------------- helpers
def F(x): return Fraction(x)
def S(x): return str(Fraction(x))
def fl(x): return float(Fraction(x))
def q2(p): return ctup([cq(p[0]), cq(p[1])])
def z2(p): return ctup([cz(p[0]), cz(p[1])])
def qlist(v): return clist([cq(x) for x in v])
def q2list(g): return clist([q2(p) for p in g])
def cmask(m): return clist([clist([cbool(bool(b)) for b in r]) for r in m])
def fr2(a): return [[frac(a[i][0]), frac(a[i][1])] for i in range(len(a))]

EXACT_SCALES = [Fraction(1, 4), Fraction(1, 2), Fraction(1), Fraction(2), Fraction(4), Fraction(3, 2), Fraction(3),
                Fraction(3, 4), Fraction(5, 4)]

def rand_geom(rng, exact, dims=2):
    """shape, scales, origin (as Fractions); exact: o/s and every later operation is exact in doubles"""
    shape = [rng.randint(1, 9) for _ in range(dims)]
    if rng.random() < 0.15: shape[rng.randrange(dims)] = 1
    if exact:
        s = [rng.choice(EXACT_SCALES) for _ in range(dims)]
        if dims == 2 and rng.random() < 0.2: s[1] = s[0]
        o = [si * Fraction(rng.randint(-12, 12), 4) if rng.random() < 0.85 else Fraction(0) for si in s]
    else:
        s = [Fraction(float(rng.choice([0.05, 0.1, 0.3, 0.7, 1.0, 1.3, 2.5]) if rng.random() < 0.6 else round(rng.uniform(0.02, 3.0), 2)))
             for _ in range(dims)]
        o = [Fraction(float(round(rng.uniform(-3.0, 3.0), 2))) if rng.random() < 0.85 else Fraction(0) for _ in range(dims)]
    return shape, s, o

def pixel_pos(n, s, o, v, flip):
    """exact continuous pixel coordinate (the argument of int()) of scaled value v on an axis"""
    cp = Fraction(n - 1, 2)
    return ((o - v) if flip else (v - o)) / s + cp + Fraction(1, 2)

def rand_coord(rng, n, s, o, exact, flip):
    """a scaled coordinate: mostly inside the extent, sometimes on a pixel boundary (exact stream), sometimes outside"""
    if exact:
        k = rng.randint(-16, 16 * n + 16) if rng.random() < 0.85 else rng.choice([0, 16 * n, 8, 16 * n - 8])
        if rng.random() < 0.25: k = 16 * rng.randint(0, n)            # a pixel boundary / the border of the extent
        p = Fraction(k, 16)                                             # continuous pixel coordinate in [-1, n+1]
        cp = Fraction(n - 1, 2)
        t = p - cp - Fraction(1, 2)
        return (o - t * s) if flip else (o + t * s)
    lo, hi = float(o - n * s / 2), float(o + n * s / 2)
    if rng.random() < 0.12: lo, hi = lo - float(s), hi + float(s)
    for _ in range(50):
        v = Fraction(float(round(rng.uniform(lo, hi), 3)))
        if in_margin(pixel_pos(n, s, o, v, flip)):
            SKIPPED["redrawn"] += 1; continue
        return v
    return Fraction(float(o))

def in_margin(p):
    """continuous pixel coordinate within MARGIN of an integer (a pixel boundary)"""
    d = abs(p - round(p))
    return d < MARGIN

def rand_mask(rng, H, W):
    st = rng.random()
    if st < 0.25: return [[False] * W for _ in range(H)]
    p = rng.choice([0.2, 0.5, 0.8])
    m = [[rng.random() < p for _ in range(W)] for _ in range(H)]
    if all(all(r) for r in m): m[rng.randrange(H)][rng.randrange(W)] = False
    return m

# ----------------------------------------------------------------------------- generators
GEOM_OPS = ["central2", "extent2", "pix2", "scaled2", "gridpixels", "gridcentres", "gridindexes", "gridscaled", "gridmask"]
GEOM1_OPS = ["central1", "extent1", "pix1", "scaled1", "grid1mask"]

def gen_geometry_cases(rng, exact):
    (H, W), (sy, sx), (oy, ox) = rand_geom(rng, exact)
    base = {"exact": exact, "shape": [H, W], "s": [S(sy), S(sx)], "o": [S(oy), S(ox)]}
    pts = [[S(rand_coord(rng, H, sy, oy, exact, True)), S(rand_coord(rng, W, sx, ox, exact, False))] for _ in range(rng.randint(3, 8))]
    # pixel centres themselves (index -> centre -> index round trip is then visible in the outputs)
    for _ in range(2):
        i, j = rng.randrange(H), rng.randrange(W)
        pts.append([S(oy + (Fraction(H - 1, 2) - i) * sy), S(ox + (j - Fraction(W - 1, 2)) * sx)])
    if exact:
        pix = [[S(Fraction(rng.randint(-16, 16 * H + 16), 16)), S(Fraction(rng.randint(-16, 16 * W + 16), 16))] for _ in range(4)]
    else:
        pix = [[S(Fraction(float(round(rng.uniform(-1, H + 1), 3)))), S(Fraction(float(round(rng.uniform(-1, W + 1), 3))))] for _ in range(4)]
    pix += [[S(rng.randrange(H)), S(rng.randrange(W))] for _ in range(2)]
    yield dict(base, op="central2")
    yield dict(base, op="extent2")
    for p in pts[:4]: yield dict(base, op="pix2", c=p)
    for p in pix[:3] + pix[-1:]: yield dict(base, op="scaled2", p=p)
    yield dict(base, op="gridpixels", g=pts)
    yield dict(base, op="gridcentres", g=pts)
    yield dict(base, op="gridindexes", g=pts)
    yield dict(base, op="gridscaled", g=pix)
    yield dict(base, op="gridmask", m=rand_mask(rng, H, W))

def gen_geometry1_cases(rng, exact):
    (n,), (s,), (o,) = rand_geom(rng, exact, dims=1)
    base = {"exact": exact, "n": n, "s": S(s), "o": S(o)}
    yield dict(base, op="central1")
    yield dict(base, op="extent1")
    for _ in range(3): yield dict(base, op="pix1", x=S(rand_coord(rng, n, s, o, exact, False)))
    yield dict(base, op="pix1", x=S(o + (rng.randrange(n) - Fraction(n - 1, 2)) * s))
    for _ in range(2):
        p = Fraction(rng.randint(-16, 16 * n + 16), 16) if exact else Fraction(float(round(rng.uniform(-1, n + 1), 3)))
        yield dict(base, op="scaled1", p=S(p))
    yield dict(base, op="scaled1", p=S(rng.randrange(n)))
    m = [rng.random() < 0.4 for _ in range(n)]
    if all(m): m[rng.randrange(n)] = False
    yield dict(base, op="grid1mask", m=m)

def offsets2(H, W, sy, sx, cy, cx):
    """exact squared-distance ingredients (dy, dx) of every pixel centre (mask origin (0,0)) from the centre (cy, cx)"""
    out = []
    for i in range(H):
        for j in range(W):
            out.append(((Fraction(H - 1, 2) - i) * sy - cy, (j - Fraction(W - 1, 2)) * sx - cx))
    return out

def exact_sqrt(q):
    """the rational square root of a non-negative Fraction, or None"""
    n, d = q.numerator, q.denominator
    rn, rd = math.isqrt(n), math.isqrt(d)
    return Fraction(rn, rd) if rn * rn == n and rd * rd == d else None

def tie_radii(H, W, sy, sx, cy, cx):
    """the rational distances of pixel centres from the requested centre: radii that produce exact ties"""
    out = set()
    for dy, dx in offsets2(H, W, sy, sx, cy, cx):
        r = exact_sqrt(dy * dy + dx * dx)
        if r is not None: out.add(r)
    return sorted(out)

def radius_in_band(a2, r):
    """is sqrt(a2) within MARGIN of r (exact arithmetic; an exact tie a2 == r^2 is reported separately)"""
    if r < 0: r = -r
    lo = max(r - MARGIN, 0); hi = r + MARGIN
    return lo * lo < a2 < hi * hi

def ell2(dy, dx, c, s, q):
    xr = dx * c + dy * s
    yr = dy * c - dx * s
    return xr * xr + (yr / q) ** 2

PYTH = [(3, 4, 5), (4, 3, 5), (5, 12, 13), (12, 5, 13), (8, 15, 17), (15, 8, 17), (7, 24, 25), (24, 7, 25), (20, 21, 29), (21, 20, 29),
        (1, 0, 1), (0, 1, 1)]

def snap(x, bits):
    """a `short double`: the nearest multiple of 2^-bits"""
    return Fraction(round(Fraction(x) * 2 ** bits), 2 ** bits)

def rand_angle(rng, arbitrary):
    """-> (angle in degrees as the Fraction of a double, cos, sin) with |cos - cos(radians(angle))| <= 2^-31"""
    if arbitrary:
        ang = Fraction(float(rng.choice([30, 45, 60, 120, 135, 225, -45, 400]) if rng.random() < 0.5 else round(rng.uniform(-180, 360), 1)))
        a = math.radians(float(ang))
        return ang, snap(math.cos(a), 32), snap(math.sin(a), 32)
    c, s, h = rng.choice(PYTH)
    c, s = rng.choice([1, -1]) * c, rng.choice([1, -1]) * s
    ang = Fraction(math.degrees(math.atan2(s, c)) + rng.choice([0, 0, 360, -360]))
    return ang, Fraction(c, h), Fraction(s, h)

def mask_case_inband(inp):
    """any pixel whose (elliptical) radius is within MARGIN of a radius parameter -> skip; on the exact stream of the
    circular family an exact tie is allowed (the doubles compute it exactly)."""
    H, W = inp["shape"]; sy, sx = F(inp["s"][0]), F(inp["s"][1]); cy, cx = F(inp["c"][0]), F(inp["c"][1])
    offs = offsets2(H, W, sy, sx, cy, cx)
    op = inp["op"]
    if op in ("circ", "ann", "anti"):
        radii = [F(r) for r in inp["r"]]
        for dy, dx in offs:
            a2 = dy * dy + dx * dx
            for r in radii:
                if inp["exact"] and a2 == r * r: continue
                if radius_in_band(a2, r): return True
        return False
    for dy, dx in offs:
        for R, q, ang, c, s in inp["ell"]:
            if F(R) <= MARGIN or radius_in_band(ell2(dy, dx, F(c), F(s), F(q)), F(R)): return True
    return False

TOL_SCALES = [0.05, 0.1, 0.3, 0.7, 1.0, 1.3]

def gen_mask_cases(rng, exact, kinds):
    H, W = rng.randint(1, 9), rng.randint(1, 9)
    def dyadic_geom():
        sy, sx = rng.choice(EXACT_SCALES), rng.choice(EXACT_SCALES)
        if rng.random() < 0.4: sx = sy
        cy = sy * Fraction(rng.randint(-6, 6), 4) if rng.random() < 0.7 else Fraction(0)
        cx = sx * Fraction(rng.randint(-6, 6), 4) if rng.random() < 0.7 else Fraction(0)
        return sy, sx, cy, cx, (lambda: Fraction(rng.randint(0, 24), 4) * rng.choice([sy, sx, Fraction(1)]))
    def short_geom():
        # `short doubles` (multiples of 2^-12): not dyadic-friendly (o/s, sqrt are inexact) yet cheap for the exact-rational model
        sy = snap(rng.choice(TOL_SCALES), 12)
        sx = sy if rng.random() < 0.5 else snap(rng.choice(TOL_SCALES), 12)
        cy = snap(rng.uniform(-2, 2) * float(sy), 12) if rng.random() < 0.7 else Fraction(0)
        cx = snap(rng.uniform(-2, 2) * float(sx), 12) if rng.random() < 0.7 else Fraction(0)
        return sy, sx, cy, cx, (lambda: snap(rng.uniform(0, 5) * float(max(sy, sx)), 12))
    origin = [S(Fraction(rng.randint(-8, 8), 4)), S(Fraction(rng.randint(-8, 8), 4))] if rng.random() < 0.6 else ["0", "0"]
    geoms = {True: dyadic_geom(), False: short_geom()}
    for kind in kinds:
        ell = kind in ("ell", "ellann")
        arbitrary = ell and rng.random() < 0.12
        sy, sx, cy, cx, rad = geoms[exact or (ell and not arbitrary)]
        h, w = (min(H, 5), min(W, 5)) if arbitrary else (H, W)
        base = {"exact": exact and not ell, "shape": [h, w], "s": [S(sy), S(sx)], "c": [S(cy), S(cx)], "origin": origin}
        ties = tie_radii(h, w, sy, sx, cy, cx) if (exact and not ell) else []
        if ties and rng.random() < 0.5:
            rad0 = rad
            rad = lambda: rng.choice(ties) if rng.random() < 0.6 else rad0()      # a radius that passes exactly through pixel centres
        for _ in range(20):
            if kind == "circ":
                inp = dict(base, op="circ", r=[S(rad())])
            elif kind == "ann":
                a, b = sorted([rad(), rad()]); inp = dict(base, op="ann", r=[S(a), S(b)])
                if rng.random() < 0.1: inp["r"] = [S(b), S(a)]          # inner > outer: empty annulus
            elif kind == "anti":
                a, b, c = sorted([rad(), rad(), rad()]); inp = dict(base, op="anti", r=[S(a), S(b), S(c)])
            else:
                def one():
                    q = Fraction(rng.choice([1, 2, 3, 4]), 4)
                    ang, c, s = rand_angle(rng, arbitrary)
                    R = rad()
                    return [S(R), S(q), S(ang), S(c), S(s)]
                inp = dict(base, op=kind, ell=[one()] if kind == "ell" else [one(), one()])
            if not mask_case_inband(inp):
                yield inp; break
            SKIPPED["redrawn"] += 1

def gen_all_shapes(rng, nmax):
    """every shape up to nmax x nmax, every pixel: centre grid, and each centre back to its index / flat index"""
    for H in range(1, nmax + 1):
        for W in range(1, nmax + 1):
            sy, sx = rng.choice(EXACT_SCALES), rng.choice(EXACT_SCALES)
            oy, ox = sy * Fraction(rng.choice([-7, -3, -1, 1, 2, 5]), 4), sx * Fraction(rng.choice([-6, -2, 1, 3, 9]), 4)
            base = {"exact": True, "shape": [H, W], "s": [S(sy), S(sx)], "o": [S(oy), S(ox)]}
            centres = [[S(oy + (Fraction(H - 1, 2) - i) * sy), S(ox + (j - Fraction(W - 1, 2)) * sx)] for i in range(H) for j in range(W)]
            yield dict(base, op="gridmask", m=[[False] * W for _ in range(H)])
            yield dict(base, op="gridcentres", g=centres)
            yield dict(base, op="gridindexes", g=centres)

def gen_inputs(tier, rng):
    big = tier == "thorough"
    yield from gen_all_shapes(rng, 9 if big else 6)
    n_geom = 400 if big else 44
    for i in range(n_geom):
        yield from gen_geometry_cases(rng, exact=(i % 3 != 2))
    for i in range(200 if big else 24):
        yield from gen_geometry1_cases(rng, exact=(i % 3 != 2))
    for i in range(900 if big else 90):
        yield from gen_mask_cases(rng, exact=(i % 3 != 2), kinds=["circ", "ann", "anti", "ell", "ellann"])

# ----------------------------------------------------------------------------- running one case
def nontrivial(inp):
    if "shape" in inp:
        H, W = inp["shape"]
        return H != W or inp["s"][0] != inp["s"][1] or any(F(v) != 0 for v in inp.get("o", inp.get("c", ["0", "0"])))
    return F(inp["o"]) != 0 or inp["n"] > 1

def check_cs(ang, c, s):
    """the (cos, sin) pair handed to the model is that of the angle handed to the implementation"""
    a = math.radians(float(ang))
    if abs(math.cos(a) - float(c)) > 1e-9 or abs(math.sin(a) - float(s)) > 1e-9:
        raise ValueError("harness input inconsistent: (cos, sin) does not belong to the angle")

def grid_obj(aa, pts):
    """the points as a Grid2D (the geometry methods want an object with a mask)"""
    return aa.Grid2D.no_mask(values=[[fl(p[0]), fl(p[1])] for p in pts], shape_native=(len(pts), 1), pixel_scales=1.0)

def run_case(inp):
    aa = import_aa()
    from autoarray.geometry import geometry_util as gu
    from autoarray.structures.grids import grid_2d_util as g2u, grid_1d_util as g1u
    from autoarray.mask import mask_2d_util as mu
    op = inp["op"]
    exact = inp["exact"]
    tol = cq(0 if exact else TOL)
    base = {"kind": op + (":exact" if exact else ":tol"), "nontrivial": nontrivial(inp), "py_ok": None}
    def done(terms, out):
        terms = list(dict.fromkeys(terms))      # public entry point and util function normally return the same thing: one Coq case
        return dict(base, coq=terms[0], extra_coq=terms[1:], out=out)
    def skip():
        SKIPPED["inband"] += 1
        return dict(base, coq=None, out="skipped: inside the decision band", kind="skipped-inband", nontrivial=False)

    if op in GEOM_OPS:
        H, W = inp["shape"]; sy, sx = F(inp["s"][0]), F(inp["s"][1]); oy, ox = F(inp["o"][0]), F(inp["o"][1])
        sh, ps, org = (H, W), (fl(sy), fl(sx)), (fl(oy), fl(ox))
        hdr = f"{z2(sh)} {q2((sy, sx))} {q2((oy, ox))}"
        ps_pub = ps[0] if (sy == sx and (H + W) % 2) else ps       # a bare float is widened by convert_pixel_scales_2d
        mask = aa.Mask2D.all_false(shape_native=sh, pixel_scales=ps_pub, origin=org) if op != "gridmask" else None
        def margin_bad(pts):
            return (not exact) and any(in_margin(pixel_pos(H, sy, oy, F(p[0]), True)) or in_margin(pixel_pos(W, sx, ox, F(p[1]), False))
                                       for p in pts)
        if op == "central2":
            outs = []
            for (a, b) in ((mask.geometry.central_pixel_coordinates, mask.geometry.central_scaled_coordinates),
                           (gu.central_pixel_coordinates_2d_from(shape_native=sh),
                            gu.central_scaled_coordinate_2d_from(shape_native=sh, pixel_scales=ps, origin=org))):
                outs.append(([frac(a[0]), frac(a[1])], [frac(b[0]), frac(b[1])]))
            return done([f"(KCentral2 {hdr} {tol} {q2(a)} {q2(b)})" for a, b in outs], str(outs[0]))
        if op == "extent2":
            e = mask.geometry.extent
            arr = aa.Array2D.no_mask(values=np.zeros(sh), pixel_scales=ps, origin=org)
            outs = [[frac(v) for v in e], [frac(v) for v in arr.geometry.extent]]
            return done([f"(KExtent2 {hdr} {tol} {ctup([cq(v) for v in o])})" for o in outs], str(outs[0]))
        if op == "pix2":
            c = inp["c"]
            if margin_bad([c]): return skip()
            pt = (fl(c[0]), fl(c[1]))
            outs = [mask.geometry.pixel_coordinates_2d_from(scaled_coordinates_2d=pt),
                    gu.pixel_coordinates_2d_from(scaled_coordinates_2d=pt, shape_native=sh, pixel_scales=ps, origins=org)]
            # snapping a coordinate to its pixel centre = index -> centre
            snap = mask.geometry.scaled_coordinate_2d_to_scaled_at_pixel_centre_from(scaled_coordinate_2d=pt)
            back = mask.geometry.scaled_coordinates_2d_from(pixel_coordinates_2d=outs[0])
            base["py_ok"] = bool(tuple(snap) == tuple(back))
            terms = [f"(KPix2 {hdr} {q2((F(c[0]), F(c[1])))} {z2((int(o[0]), int(o[1])))})" for o in outs]
            terms.append(f"(KScaled2 {hdr} {q2((int(outs[0][0]), int(outs[0][1])))} {tol} {q2((frac(snap[0]), frac(snap[1])))})")
            return done(terms, str(outs[0]))
        if op == "scaled2":
            p = inp["p"]
            pp = (fl(p[0]), fl(p[1]))
            outs = [mask.geometry.scaled_coordinates_2d_from(pixel_coordinates_2d=pp),
                    gu.scaled_coordinates_2d_from(pixel_coordinates_2d=pp, shape_native=sh, pixel_scales=ps, origins=org)]
            return done([f"(KScaled2 {hdr} {q2((F(p[0]), F(p[1])))} {tol} {q2((frac(o[0]), frac(o[1])))})" for o in outs], str(outs[0]))
        if op in ("gridpixels", "gridcentres", "gridindexes", "gridscaled"):
            g = inp["g"]
            if op != "gridscaled" and op != "gridpixels" and margin_bad(g): return skip()
            G = grid_obj(aa, g)
            arr = np.array([[fl(p[0]), fl(p[1])] for p in g])
            gq = q2list([(F(p[0]), F(p[1])) for p in g])
            kw = dict(shape_native=sh, pixel_scales=ps, origin=org)
            if op == "gridpixels":
                outs = [np.array(mask.geometry.grid_pixels_2d_from(grid_scaled_2d=G)), gu.grid_pixels_2d_slim_from(grid_scaled_2d_slim=arr, **kw)]
                return done([f"(KGridPixels {hdr} {gq} {tol} {q2list(fr2(o))})" for o in outs], str(outs[0].tolist()))
            if op == "gridscaled":
                outs = [np.array(mask.geometry.grid_scaled_2d_from(grid_pixels_2d=G)), gu.grid_scaled_2d_slim_from(grid_pixels_2d_slim=arr, **kw)]
                return done([f"(KGridScaled {hdr} {gq} {tol} {q2list(fr2(o))})" for o in outs], str(outs[0].tolist()))
            if op == "gridcentres":
                outs = [np.array(mask.geometry.grid_pixel_centres_2d_from(grid_scaled_2d=G)),
                        gu.grid_pixel_centres_2d_slim_from(grid_scaled_2d_slim=arr, **kw)]
                return done([f"(KGridCentres {hdr} {gq} {q2list(fr2(o))})" for o in outs], str(outs[0].tolist()))
            outs = [np.array(mask.geometry.grid_pixel_indexes_2d_from(grid_scaled_2d=G)),
                    gu.grid_pixel_indexes_2d_slim_from(grid_scaled_2d_slim=arr, **kw)]
            return done([f"(KGridIndexes {hdr} {gq} {qlist([frac(v) for v in o])})" for o in outs], str(outs[0].tolist()))
        if op == "gridmask":
            m = inp["m"]
            mk = aa.Mask2D(mask=np.array(m, dtype=bool), pixel_scales=ps, origin=org)
            outs = [np.array(aa.Grid2D.from_mask(mask=mk)), np.array(mk.derive_grid.unmasked),
                    g2u.grid_2d_slim_via_mask_from(mask_2d=np.array(m, dtype=bool), pixel_scales=ps, origin=org)]
            terms = [f"(KGridMask {cmask(m)} {q2((sy, sx))} {q2((oy, ox))} {tol} {q2list(fr2(o))})" for o in outs]
            # the all-false grids of the same geometry: Grid2D.uniform, derive_grid.all_false, the native form of from_mask
            full = [[False] * W for _ in range(H)]
            outs2 = [np.array(aa.Grid2D.uniform(shape_native=sh, pixel_scales=ps, origin=org)), np.array(mk.derive_grid.all_false)]
            terms += [f"(KGridMask {cmask(full)} {q2((sy, sx))} {q2((oy, ox))} {tol} {q2list(fr2(o))})" for o in outs2]
            nat = np.array(aa.Grid2D.from_mask(mask=mk).native)
            un = [(i, j) for i in range(H) for j in range(W) if not m[i][j]]
            base["py_ok"] = bool(nat.shape == (H, W, 2) and all((nat[i, j] == outs[0][k]).all() for k, (i, j) in enumerate(un))
                                 and all((nat[i, j] == 0).all() for i in range(H) for j in range(W) if m[i][j]))
            return done(terms, str(outs[0].tolist()))

    if op in GEOM1_OPS:
        n = inp["n"]; s, o = F(inp["s"]), F(inp["o"])
        hdr = f"{cz(n)} {cq(s)} {cq(o)}"
        sh, ps, org = (n,), (fl(s),), (fl(o),)
        if op == "central1":
            a = gu.central_pixel_coordinates_1d_from(shape_slim=sh)
            b = gu.central_scaled_coordinate_1d_from(shape_slim=sh, pixel_scales=ps, origin=org)
            return done([f"(KCentral1 {hdr} {tol} {cq(frac(a[0]))} {cq(frac(b[0]))})"], str((a, b)))
        if op == "extent1":
            mk = aa.Mask1D.all_false(shape_slim=sh, pixel_scales=ps, origin=org)
            e = mk.geometry.extent
            return done([f"(KExtent1 {hdr} {tol} {q2((frac(e[0]), frac(e[1])))})"], str(e))
        if op == "pix1":
            x = F(inp["x"])
            if (not exact) and in_margin(pixel_pos(n, s, o, x, False)): return skip()
            r = gu.pixel_coordinates_1d_from(scaled_coordinates_1d=(fl(x),), shape_slim=sh, pixel_scales=ps, origins=org)
            return done([f"(KPix1 {hdr} {cq(x)} {cz(int(r[0]))})"], str(r))
        if op == "scaled1":
            p = F(inp["p"])
            r = gu.scaled_coordinates_1d_from(pixel_coordinates_1d=(fl(p),), shape_slim=sh, pixel_scales=ps, origins=org)
            return done([f"(KScaled1 {hdr} {cq(p)} {tol} {cq(frac(r[0]))})"], str(r))
        if op == "grid1mask":
            m = inp["m"]
            mk = aa.Mask1D(mask=np.array(m, dtype=bool), pixel_scales=ps, origin=org)
            outs = [np.array(aa.Grid1D.from_mask(mask=mk)), g1u.grid_1d_slim_via_mask_from(mask_1d=np.array(m, dtype=bool), pixel_scales=ps, origin=org)]
            cm = clist([cbool(b) for b in m])
            terms = [f"(KGrid1Mask {cm} {cq(s)} {cq(o)} {tol} {qlist([frac(v) for v in ou])})" for ou in outs]
            u = np.array(aa.Grid1D.uniform(shape_native=sh, pixel_scales=ps, origin=org))
            terms.append(f"(KGrid1Mask {clist([cbool(False)] * n)} {cq(s)} {cq(o)} {tol} {qlist([frac(v) for v in u])})")
            e = mk.geometry.extent
            terms.append(f"(KExtent1 {hdr} {tol} {q2((frac(e[0]), frac(e[1])))})")
            return done(terms, str(outs[0].tolist()))

    if op in ("circ", "ann", "anti", "ell", "ellann"):
        if mask_case_inband(inp): return skip()
        H, W = inp["shape"]; sy, sx = F(inp["s"][0]), F(inp["s"][1]); cy, cx = F(inp["c"][0]), F(inp["c"][1])
        sh, ps, ctr = (H, W), (fl(sy), fl(sx)), (fl(cy), fl(cx))
        org = (fl(inp["origin"][0]), fl(inp["origin"][1]))
        hdr = f"{z2(sh)} {q2((sy, sx))}"
        cc = q2((cy, cx))
        kw = dict(shape_native=sh, pixel_scales=ps, centre=ctr)
        kwp = dict(kw, pixel_scales=ps[0]) if (sy == sx and (H + W) % 2) else kw      # public entry point: bare float scale
        if op == "circ":
            r = F(inp["r"][0])
            outs = [aa.Mask2D.circular(radius=fl(r), origin=org, **kwp), mu.mask_2d_circular_from(radius=fl(r), **kw)]
            mk = lambda o: f"(KCirc {hdr} {cq(r)} {cc} {cmask(np.array(o))})"
        elif op == "ann":
            a, b = F(inp["r"][0]), F(inp["r"][1])
            outs = [aa.Mask2D.circular_annular(inner_radius=fl(a), outer_radius=fl(b), origin=org, **kwp),
                    mu.mask_2d_circular_annular_from(inner_radius=fl(a), outer_radius=fl(b), **kw)]
            mk = lambda o: f"(KAnn {hdr} {cq(a)} {cq(b)} {cc} {cmask(np.array(o))})"
        elif op == "anti":
            a, b, c3 = (F(v) for v in inp["r"])
            outs = [aa.Mask2D.circular_anti_annular(inner_radius=fl(a), outer_radius=fl(b), outer_radius_2=fl(c3), origin=org, **kwp),
                    mu.mask_2d_circular_anti_annular_from(inner_radius=fl(a), outer_radius=fl(b), outer_radius_2_scaled=fl(c3), **kw)]
            mk = lambda o: f"(KAnti {hdr} {cq(a)} {cq(b)} {cq(c3)} {cc} {cmask(np.array(o))})"
        elif op == "ell":
            R, q, ang, co, si = (F(v) for v in inp["ell"][0])
            check_cs(ang, co, si)
            outs = [aa.Mask2D.elliptical(major_axis_radius=fl(R), axis_ratio=fl(q), angle=fl(ang), origin=org, **kwp),
                    mu.mask_2d_elliptical_from(major_axis_radius=fl(R), axis_ratio=fl(q), angle=fl(ang), **kw)]
            mk = lambda o: f"(KEll {hdr} {cq(R)} {cq(q)} {q2((co, si))} {cc} {cmask(np.array(o))})"
        else:
            (Ri, qi, ai, ci, si_), (Ro, qo, ao, co, so) = [[F(v) for v in e] for e in inp["ell"]]
            check_cs(ai, ci, si_); check_cs(ao, co, so)
            k2 = dict(inner_major_axis_radius=fl(Ri), inner_axis_ratio=fl(qi), inner_phi=fl(ai),
                      outer_major_axis_radius=fl(Ro), outer_axis_ratio=fl(qo), outer_phi=fl(ao))
            outs = [aa.Mask2D.elliptical_annular(origin=org, **k2, **kwp), mu.mask_2d_elliptical_annular_from(**k2, **kw)]
            mk = lambda o: f"(KEllAnn {hdr} {cq(Ri)} {cq(qi)} {q2((ci, si_))} {cq(Ro)} {cq(qo)} {q2((co, so))} {cc} {cmask(np.array(o))})"
        base["py_ok"] = bool(tuple(outs[0].origin) == org and tuple(outs[0].pixel_scales) == ps and tuple(outs[0].shape_native) == sh)
        terms = [mk(o) for o in outs]
        # mask_2d_centres_from: the pixel position of the requested centre
        mc = mu.mask_2d_centres_from(shape_native=sh, pixel_scales=ps, centre=ctr)
        terms.append(f"(KMaskCentres {hdr} {cc} {cq(0 if exact else TOL)} {q2((frac(mc[0]), frac(mc[1])))})")
        return done(terms, str(np.array(outs[0]).astype(int).tolist()))
    raise ValueError(op)
