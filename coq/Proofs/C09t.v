(* C09 -- proofs, part 3: integer- and bool-valued user functions (indicator / step / count functions).
   Binning is the exact rational mean whatever the values are: for an integer-valued function the binned value of a pixel
   is (sum of its s^2 integer sub-values) / s^2, for an indicator it is the covered fraction (#sub-centres inside) / s^2 --
   never a truncated integer. *)
From Coq Require Import ZArith Reals Lra Lia List Bool Arith.
From PAV Require Import Base.NumOps Base.Res Base.Sum Model.C09 Proofs.C09.
Import ListNotations.
Local Open Scope R_scope.

Definition sumZ (l : list Z) : Z := fold_right Z.add 0%Z l.
Definition indR (P : R * R -> bool) (p : R * R) : R := if P p then 1 else 0.

Lemma sumT_cons_R (a : R) l : @sumT ROps (a :: l) = a + @sumT ROps l.
Proof. change (a :: l) with ([a] ++ l). rewrite sumT_R_app. unfold sumT, zero. cbn. lra. Qed.

Lemma sumT_IZR {A} (g : A -> Z) (l : list A) : @sumT ROps (map (fun p => IZR (g p)) l) = IZR (sumZ (map g l)).
Proof.
  induction l as [|a l IH]; [reflexivity|].
  cbn [map sumZ fold_right]. rewrite sumT_cons_R, IH, plus_IZR. reflexivity.
Qed.

Lemma sumT_indicator (P : R * R -> bool) (l : list (R * R)) : @sumT ROps (map (indR P) l) = INR (length (filter P l)).
Proof.
  induction l as [|a l IH]; [reflexivity|].
  cbn [map filter]. rewrite sumT_cons_R, IH. unfold indR. destruct (P a).
  - cbn [length]. rewrite S_INR. lra.
  - lra.
Qed.

Lemma mean_IZR {A} (g : A -> Z) (l : list A) :
  @mean ROps (map (fun p => IZR (g p)) l) = IZR (sumZ (map g l)) / INR (length l).
Proof. unfold mean. rewrite sumT_IZR, map_length. unfold ofNat. cbn [div ofZ ROps]. rewrite <- INR_IZR_INZ. reflexivity. Qed.

Lemma mean_indicator (P : R * R -> bool) (l : list (R * R)) :
  @mean ROps (map (indR P) l) = INR (length (filter P l)) / INR (length l).
Proof. unfold mean. rewrite sumT_indicator, map_length. unfold ofNat. cbn [div ofZ ROps]. rewrite <- INR_IZR_INZ. reflexivity. Qed.

(* integer-valued user function g: every pixel receives (sum of its s^2 integer sub-values) / s^2 *)
Theorem integer_valued_bins_to_exact_rational_mean (g : R * R -> Z) m (ps og : R * R) ss :
  shape_okP m ss -> ps_okR ps ->
  @array_via_func ROps (fun p => IZR (g p)) m ps og ss =
  map (fun cs => IZR (sumZ (map g (@block ROps ps (fst cs) (snd cs)))) / INR (snd cs * snd cs))
      (combine (@spec_centres ROps m ps og) ss).
Proof.
  intros Hs Hp. rewrite via_func_is_block_means by assumption. unfold spec_via_func.
  apply map_ext. intros cs. rewrite mean_IZR, block_length. reflexivity.
Qed.

(* bool-valued user function (indicator of a region P): every pixel receives the fraction of its sub-centres inside P *)
Theorem indicator_bins_to_covered_fraction (P : R * R -> bool) m (ps og : R * R) ss :
  shape_okP m ss -> ps_okR ps ->
  @array_via_func ROps (indR P) m ps og ss =
  map (fun cs => INR (length (filter P (@block ROps ps (fst cs) (snd cs)))) / INR (snd cs * snd cs))
      (combine (@spec_centres ROps m ps og) ss).
Proof.
  intros Hs Hp. rewrite via_func_is_block_means by assumption. unfold spec_via_func.
  apply map_ext. intros cs. rewrite mean_indicator, block_length. reflexivity.
Qed.

(* the same for arbitrary integer sub-values handed to binned_array_2d_from *)
Theorem bin_of_integers_is_exact_rational_mean (arr : list Z) m ss :
  shape_okP m ss -> length arr = list_sum (map (fun s => (s * s)%nat) ss) ->
  @binned ROps (map IZR arr) m ss =
  map (fun blk => IZR (sumZ blk) / INR (length blk)) (chop (map (fun s => (s * s)%nat) ss) arr).
Proof.
  intros Hs Hl. rewrite bin_is_mean_of_own_subvalues by (rewrite ?map_length; assumption).
  unfold spec_binned.
  assert (Hchop : forall lens (l : list Z), chop lens (map IZR l) = map (map IZR) (chop lens l)).
  { induction lens as [|n t IH]; intros l; [reflexivity|].
    cbn [chop]. rewrite firstn_map, skipn_map, IH. reflexivity. }
  rewrite Hchop, map_map. apply map_ext. intros blk.
  pose proof (mean_IZR (fun z : Z => z) blk) as H. rewrite map_id in H.
  replace (map IZR blk) with (map (fun p : Z => IZR p) blk) by reflexivity. exact H.
Qed.

(* a half-covered pixel bins to 1/2 (not to 0): one pixel, sub-size 2, indicator of the upper half plane y > 0 *)
Example half_covered_pixel_bins_to_half :
  @array_via_func ROps (indR (fun p => Rltb 0 (fst p))) [[false]] (1, 1) (0, 0) [2%nat] = [1 / 2].
Proof.
  rewrite indicator_bins_to_covered_fraction.
  2: { split; [reflexivity|]. repeat constructor. }
  2: { split; cbn; lra. }
  cbn [spec_centres unmasked combine map fst snd].
  unfold unmasked, spec_centres. cbn.
  replace (0 + (0 / 2 - 0) * 1 + 1 / 2 - (0 + 1 / 2) * 1 / 2) with (1 / 4) by lra.
  replace (0 + (0 / 2 - 0) * 1 + 1 / 2 - (1 + 1 / 2) * 1 / 2) with (- (1 / 4)) by lra.
  assert (H1 : Rltb 0 (1 / 4) = true) by (unfold Rltb; destruct (Rlt_dec 0 (1 / 4)); [reflexivity | lra]).
  assert (H2 : Rltb 0 (- (1 / 4)) = false) by (unfold Rltb; destruct (Rlt_dec 0 (- (1 / 4))); [lra | reflexivity]).
  rewrite H1, H2. cbn [length]. f_equal. cbn. lra.
Qed.
