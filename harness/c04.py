"""C04 -- data vector and curvature matrix equal the normal equations in both formalisms (mapping / w-tilde)."""
import random, hashlib
import numpy as np
from fractions import Fraction
from harness.common import cz, cq, cnat, cbool, clist, ctup, import_aa, frac

ID = "C04"
GEN = []
PROPS = "Props/C04.v"
COQ_CHECK = ("Model.C04", "check")
COQ_FALLBACK = None
COQ_IMPORTS = "From PAV Require Import Base.NumOps."
SHARD = 12
RULE = ("(1) inversions: imaging datasets on random masks (densities 0.15-0.9, single pixel, ring with hole, full block, full line along the "
        "kernel's long axis, corners + centre, a pixel pair at an extreme offset of the kernel overlap with the later pixel to the left or "
        "right, checkerboard, diagonal + anti-diagonal) of <= 20 unmasked pixels in frames up to 10x10 whose kernel footprint stays inside "
        "the frame, with unit / anisotropic pixel scales (2 x 1/2, 1/2 x 2, 1/4) and shifted origins at the CLASS layer; PSFs of shape "
        "{1x1,1x3,3x1,3x3,3x5,5x3,1x5,5x1,5x5,1x7,7x1}: signed, non-negative, sparse, point-symmetric, positive core with negative wings, "
        "pure off-centre shifts (use_normalized_psf=False: every double operation exact); integer data of either sign; noise in "
        "{1/2,1,2,4}; 1..3 linear objects in random order mixing real MapperRectangular / MapperDelaunay objects (sub_size 1, 2, per-pixel "
        "{1,2,4}; affine + bilinear source-plane distortions; with / without regularization) and function lists (random sparse matrices, "
        "optional operated override), function lists before and after a mapper, several unregularized objects; every third case carries "
        "an EXTREME: data x 2^-30 / 2^30 / all zero, noise x 2^-20 / 2^20 / spread over 2^-8..2^8, psf x 2^-20 / 2^20, equal noise + "
        "symmetric kernel + full block (exact ties), one basis column x 2^-20 / x 2^20 / zero / negative throughout; comparisons inside "
        "Coq are exact, or (Delaunay weights, default 1e-3 diagonal term, power-of-two extremes) within 1e-9 RELATIVE TO A BOUND ON THE "
        "TERMS OF EACH ENTRY (column scale x column scale x sum 1/sigma^2 ...), so a tiny column is judged at its own scale. Both "
        "use_w_tilde settings on the same inputs through aa.Inversion; ONE instance per formalism whose cached properties are read in a "
        "random order with repeats (operated_mapping_matrix, data_vector, curvature_matrix, curvature_reg_matrix, reconstruction; "
        "curvature_matrix again after curvature_reg_matrix), every read judged by the cell model and by the specification (KSeq), then "
        "mapped_reconstructed_data of the same instance for an injected integer reconstruction; 30% of the instances use the default "
        "positive-only solver; the two formalisms compared with each other (D, F, mapped data, solved reconstruction where F+H is well "
        "conditioned); the caller's arrays / settings fingerprinted around every inversion. (2) sessions: a history in one process on "
        "SHARED objects -- one Imaging, one settings object per formalism, one list of linear objects -- with three of: other objects of "
        "the same kinds and shapes then the first list again; DatasetInterface(data = data - model (derived by arithmetic), noise_map, "
        "convolver, w_tilde = imaging.w_tilde); Preloads(w_tilde = the w_tilde of an Imaging with OTHER data, use_w_tilde=True), "
        "Preloads(use_w_tilde=False), the same Preloads object again after an in-place edit of the data; in-place edit of the data; in-place "
        "edit of a basis function; another dataset (other psf / noise / data, same first noise value) on the same mask with the same linear "
        "objects, then the first dataset again; DatasetInterface with the noise map scaled by arithmetic and the stale w_tilde "
        "(InversionException expected from the w-tilde class, normal equations of the scaled noise from the mapping class); a dataset "
        "derived by a second apply_mask; a dataset derived by apply_over_sampling; every inversion judged (KInvW) on the values read from "
        "the dataset actually passed in at that moment. (3) every anchored util function called directly on synthetic inputs (random sparse "
        "encodings with filler entries, random upper-triangular preloads, asymmetric matrices for the mirror, duplicate indices for the "
        "diagonal term). Non-trivial = at least 2 unmasked pixels and a kernel with more than one non-zero entry (inversion cases) / any "
        "session or util case; distinct = distinct JSON input.")
EXHAUSTIVE = {}
TRUSTED = ["hand-written Gallina model coq/Model/C04.v (scatter loops, sequential symmetrisation / mirror / block assignments, running-index "
           "walk of the preload, param ranges by running count, the w_tilde object handed over separately with check_noise_map, the factory's "
           "choice, heap cells for the cached curvature_matrix / curvature_reg_matrix arrays) on top of the convolver model coq/Model/C03.v; tied "
           "to /repo by this correspondence run (comparison evaluated inside Coq by vm_compute: exact for rectangular mappers / function lists "
           "with dyadic diagonal term; otherwise within 1e-9 of a rigorous bound on the sum of the absolute values of the terms of each entry -- "
           "column scale x column scale x sum 1/sigma^2, + |eps| on a flagged diagonal entry, + |H| for curvature_reg_matrix (one extra rounding "
           "2^-53 allowed there because the regularization matrix is not dyadic))",
           "numpy: np.dot = sum of products, slice / block assignment, hstack, np.concatenate, np.add / += on arrays, .native zero-fills masked "
           "pixels (0/0 = NaN exactly at masked pixels in w_tilde_data_imaging_from)",
           "a mapper enters as its mapping_matrix together with its unique-mapping encoding (that the encoding represents the matrix is "
           "C06's theorem; here it is re-checked numerically on every generated mapper); regularization_matrix enters the read sequences as an "
           "input (C07 / C08)",
           "the reconstruction itself (np.linalg.solve / fnnls) is C05's; here it is an input of mapped_reconstructed_data, and both formalisms "
           "are proved to hand the same matrix and vector to it"]
ASSUMPTIONS = ["real arithmetic (no rounding): theorems over R; correspondence exact or within 1e-9 relative to the scale of each entry",
               "kernel footprint of every unmasked pixel inside the frame (the property's quantifier); positive noise on unmasked pixels",
               "a w_tilde object handed over separately comes from an Imaging with the same mask, psf and noise map (a stale object that passes "
               "the first-value test of check_noise_map is the caller's error: no claim); linear objects pairwise distinct",
               "of the Preloads object only w_tilde and use_w_tilde are exercised here (the other fields are C15's)"]

PSF_SHAPES = [(1, 1), (1, 3), (3, 1), (3, 3), (3, 3), (3, 5), (5, 3), (1, 5), (5, 1), (5, 5), (1, 7), (7, 1)]
NOISE = [Fraction(1, 2), Fraction(1), Fraction(2), Fraction(4)]
STATS = {}

def tally(k): STATS[k] = STATS.get(k, 0) + 1
def extra_evidence(): return {"distribution": dict(sorted(STATS.items()))}

# ----------------------------------------------------------------------------- generators
def S(x): return str(Fraction(x))
def rand_mask(rng, H, W, kh, kw, style, maxpix):
    m = [[True] * W for _ in range(H)]
    y0, y1, x0, x1 = kh // 2, H - kh // 2, kw // 2, W - kw // 2
    cells = [(y, x) for y in range(y0, y1) for x in range(x0, x1)]
    if not cells: return None
    if style == "single":
        y, x = rng.choice(cells); m[y][x] = False
    elif style == "ring":
        for (y, x) in cells:
            if y in (y0, y1 - 1) or x in (x0, x1 - 1): m[y][x] = False
    elif style == "full":
        for (y, x) in cells: m[y][x] = False
    elif style == "line":
        # a full row / column of the admissible cells along the kernel's long axis: pixel pairs at every separation up to and
        # beyond 2 * (k // 2) along that axis (the limit of the overlap), plus a second line two cells away when there is room
        horiz = kw > kh or (kw == kh and rng.random() < 0.5)
        if horiz:
            y = rng.randrange(y0, y1)
            for x in range(x0, x1): m[y][x] = False
            if y + 2 < y1 and rng.random() < 0.5:
                for x in range(x0, x1, 2): m[y + 2][x] = False
        else:
            x = rng.randrange(x0, x1)
            for y in range(y0, y1): m[y][x] = False
            if x + 2 < x1 and rng.random() < 0.5:
                for y in range(y0, y1, 2): m[y][x + 2] = False
    elif style == "pair":
        # two pixels at an extreme offset of the kernel overlap (|dy| = 2*(kh//2) or |dx| = 2*(kw//2), either sign of dx, so that the
        # later pixel in slim order can lie to the LEFT of the earlier one), plus a few random ones
        for _ in range(20):
            y, x = rng.choice(cells)
            dy = rng.choice([0, 2 * (kh // 2), 2 * (kh // 2), rng.randint(0, 2 * (kh // 2))])
            dx = rng.choice([-2 * (kw // 2), 2 * (kw // 2), -rng.randint(0, 2 * (kw // 2)), -(kw // 2) - 1 if kw > 1 else 0])
            if (y + dy, x + dx) in cells and (dy, dx) != (0, 0):
                m[y][x] = False; m[y + dy][x + dx] = False
                break
        else:
            y, x = rng.choice(cells); m[y][x] = False
        for (y, x) in cells:
            if rng.random() < 0.1: m[y][x] = False
    elif style == "checker":
        # every other admissible cell: no two unmasked pixels are neighbours, all overlaps go through masked pixels
        par = rng.randrange(2)
        for (y, x) in cells:
            if (y + x) % 2 == par: m[y][x] = False
        if all(all(r) for r in m):
            y, x = rng.choice(cells); m[y][x] = False
    elif style == "diag":
        # a diagonal and an anti-diagonal run: the later pixel of a pair lies to the right of the earlier one on one, to the left on the other
        for k in range(min(y1 - y0, x1 - x0)):
            m[y0 + k][x0 + k] = False
            if rng.random() < 0.7: m[y0 + k][x1 - 1 - k] = False
    elif style == "corners":
        for (y, x) in ((y0, x0), (y0, x1 - 1), (y1 - 1, x0), (y1 - 1, x1 - 1), ((y0 + y1 - 1) // 2, (x0 + x1 - 1) // 2)): m[y][x] = False
    else:
        p = rng.choice([0.15, 0.3, 0.5, 0.7, 0.9])
        for (y, x) in cells:
            if rng.random() < p: m[y][x] = False
        if all(all(r) for r in m):
            y, x = rng.choice(cells); m[y][x] = False
    un = [(y, x) for y in range(H) for x in range(W) if not m[y][x]]
    while len(un) > maxpix:
        y, x = un.pop(rng.randrange(len(un))); m[y][x] = True
    return m

def rand_kernel(rng, kh, kw, mode=None):
    mode = mode or rng.choice(["signed", "signed", "nonneg", "sparse", "symmetric", "negwings", "shift"])
    while True:
        if mode == "nonneg": K = [[rng.randint(0, 3) for _ in range(kw)] for _ in range(kh)]
        elif mode == "sparse": K = [[rng.choice([0, 0, 1, -1, 2]) for _ in range(kw)] for _ in range(kh)]
        elif mode == "symmetric":      # point-symmetric and mirror-symmetric: ties between the two triangles of the overlap matrix
            q = [[rng.randint(-2, 3) for _ in range(kw // 2 + 1)] for _ in range(kh // 2 + 1)]
            K = [[q[min(y, kh - 1 - y)][min(x, kw - 1 - x)] for x in range(kw)] for y in range(kh)]
        elif mode == "shift":          # one or two off-centre entries: a pure shift, maximally asymmetric overlaps
            K = [[0] * kw for _ in range(kh)]
            for _ in range(rng.choice([1, 1, 2])): K[rng.randrange(kh)][rng.randrange(kw)] = rng.choice([1, 2, -1, 3])
        elif mode == "negwings":       # positive core, negative wings: every cross term between neighbours can be negative
            K = [[(rng.randint(2, 4) if (y, x) == (kh // 2, kw // 2) else -rng.randint(0, 2)) for x in range(kw)] for y in range(kh)]
        else: K = [[rng.randint(-3, 3) for _ in range(kw)] for _ in range(kh)]
        if any(v for r in K for v in r): return K

GEOMS = [None, None, None, {"ps": ["2", "1/2"], "origin": ["3/4", "-5/4"]}, {"ps": ["1/4", "1/4"], "origin": ["0", "0"]},
         {"ps": ["1/2", "2"], "origin": ["-1/2", "3"]}]
MASK_STYLES = ["random", "random", "random", "single", "ring", "full", "line", "corners", "pair", "pair", "checker", "diag"]
def rand_dataset(rng, maxpix, ext=None, geom=None):
    """ext: None | 'data_tiny' | 'data_huge' | 'noise_tiny' | 'noise_huge' | 'noise_spread' | 'psf_tiny' | 'psf_huge' | 'zero_data' |
    'flat' (equal noise, symmetric kernel, full block: exact ties).  Every factor is a power of two."""
    kh, kw = rng.choice(PSF_SHAPES)
    H = rng.randint(kh + 1, min(10, kh + 5)); W = rng.randint(kw + 1, min(10, kw + 5))
    m = rand_mask(rng, H, W, kh, kw, "full" if ext == "flat" else rng.choice(MASK_STYLES), maxpix)
    K = rand_kernel(rng, kh, kw, "symmetric" if ext == "flat" else None)
    fd = {"data_tiny": Fraction(1, 2 ** 30), "data_huge": Fraction(2 ** 30), "zero_data": Fraction(0)}.get(ext, Fraction(1))
    fs = {"noise_tiny": Fraction(1, 2 ** 20), "noise_huge": Fraction(2 ** 20)}.get(ext, Fraction(1))
    fk = {"psf_tiny": Fraction(1, 2 ** 20), "psf_huge": Fraction(2 ** 20)}.get(ext, Fraction(1))
    data = [[S(rng.randint(-9, 9) * fd) for _ in range(W)] for _ in range(H)]
    noise = [[S(rng.choice(NOISE) * fs) for _ in range(W)] for _ in range(H)]
    if ext == "noise_spread": noise = [[S(Fraction(2) ** rng.choice([-8, -1, 0, 3, 8])) for _ in range(W)] for _ in range(H)]
    if ext == "flat": noise = [[S(Fraction(2)) for _ in range(W)] for _ in range(H)]
    ds = {"m": m, "K": [[S(v * fk) for v in r] for r in K], "data": data, "noise": noise}
    if geom: ds.update(geom)
    return ds

def rand_vals(rng, sparse):
    if sparse and rng.random() < 0.5: return Fraction(0)
    if rng.random() < 0.3: return Fraction(rng.randint(-12, 12), 4)
    return Fraction(rng.randint(-5, 5))

def rand_obj(rng, n, kind=None, colext=None):
    kind = kind or rng.choice(["rect", "rect", "delaunay", "func", "func"])
    if kind == "func":
        P = rng.randint(1, 3); sp = rng.random() < 0.5
        o = {"kind": "func", "P": P, "M": [[S(rand_vals(rng, sp)) for _ in range(P)] for _ in range(n)],
             "reg": rng.random() < 0.15, "ov": None}
        if rng.random() < 0.2: o["ov"] = [[S(rand_vals(rng, sp)) for _ in range(P)] for _ in range(n)]
        if colext:
            # one column of the basis (and of the override) scaled by 2^-20 / 2^20 / set to zero / made negative throughout
            j = rng.randrange(P); f = {"tiny": Fraction(1, 2 ** 20), "huge": Fraction(2 ** 20), "zero": Fraction(0), "neg": None}[colext]
            for key in ("M", "ov"):
                if o[key] is not None:
                    for r in o[key]:
                        r[j] = S(-abs(Fraction(r[j])) - 1) if f is None else S(Fraction(r[j]) * f)
        return o
    sub = rng.choice([1, 1, 2, 2, "mixed"])
    dist = [S(Fraction(rng.randint(-8, 8), 4)) for _ in range(4)] + [S(Fraction(rng.randint(-4, 4), 8)) for _ in range(2)]
    if rng.random() < 0.3: dist = ["1", "0", "0", "1", "0", "0"]
    o = {"kind": kind, "sub": sub, "dist": dist, "reg": rng.random() < 0.6, "subseed": rng.randrange(10 ** 6)}
    if kind == "rect": o["shape"] = [rng.randint(1, 3), rng.randint(1, 3)]
    else: o["npts"] = rng.randint(4, 7)
    return o

def synth_enc(rng, n, P, width=None, exact=True):
    """a random sparse unique-mapping encoding: filler (-1, junk weight) beyond pix_lengths, repeated pixels allowed"""
    width = width or rng.randint(1, 4)
    du, dw, pl = [], [], []
    for _ in range(n):
        L = rng.randint(0, width)
        row_i = [rng.randrange(P) for _ in range(L)] + [-1] * (width - L)
        row_w = [S(Fraction(rng.randint(-8, 8), 4)) for _ in range(L)] + [S(rng.choice([0, 0, 1])) for _ in range(width - L)]
        du.append(row_i); dw.append(row_w); pl.append(L)
    return {"du": du, "dw": dw, "pl": pl, "P": P}

def synth_preload(rng, n):
    """random upper-triangular sparse rows (index >= row, values of either sign, zeros allowed)"""
    pre, idx, lens = [], [], []
    for i in range(n):
        js = sorted(rng.sample(range(i, n), rng.randint(0, min(3, n - i))))
        for j in js:
            pre.append(S(Fraction(rng.randint(-8, 8), 2))); idx.append(j)
        lens.append(len(js))
    return {"pre": pre, "idx": idx, "lens": lens}

EXTS_DS = ["psf_tiny", "data_tiny", "noise_huge", "noise_tiny", "psf_huge", "data_huge", "noise_spread", "zero_data", "flat", "psf_tiny"]
EXTS_COL = ["tiny", "huge", "zero", "neg"]
SESS_STEPS = ["objs2", "iface", "preload", "edit_data", "edit_func", "ds2", "iface_noise0", "remask", "oversampling"]

def n_unmasked(ds): return sum(1 for r in ds["m"] for b in r if not b)

def twin_obj(rng, o, n):
    """an object of the same kind and shapes as [o] with other values (a cache keyed by kind / shape / position confuses them)"""
    t = rand_obj(rng, n, o["kind"])
    if o["kind"] == "func":
        P = o["P"]; sp = rng.random() < 0.5
        t.update(P=P, M=[[S(rand_vals(rng, sp)) for _ in range(P)] for _ in range(n)], reg=o["reg"],
                 ov=None if o["ov"] is None else [[S(rand_vals(rng, sp)) for _ in range(P)] for _ in range(n)])
    else:
        t.update(sub=o["sub"], reg=o["reg"])
        if o["kind"] == "rect": t["shape"] = o["shape"]
        else: t["npts"] = o["npts"]
    return t

def gen_inputs(tier, rng):
    thorough = tier == "thorough"
    n_inv = 250 if thorough else 30
    n_sess = 45 if thorough else 9
    n_util = 40 if thorough else 6
    maxpix = 20 if thorough else 14
    for i in range(n_inv):
        # every third case carries one extreme: a dataset-level one (power-of-two factors, zero data, exact ties) or a column-level
        # one (a basis column scaled by 2^-20 / 2^20 / zero / negative throughout); geometry: anisotropic pixel scales, shifted origin
        ext = colext = None
        if i % 3 == 1: ext = EXTS_DS[(i // 3) % len(EXTS_DS)]
        if i % 3 == 2 and (i // 3) % 2 == 0: colext = EXTS_COL[(i // 6) % len(EXTS_COL)]
        geom = rng.choice(GEOMS)
        ds = rand_dataset(rng, maxpix if i % 4 else 9, ext, geom)
        if ds["m"] is None: continue
        n = n_unmasked(ds)
        nobj = rng.choice([1, 1, 2, 2, 3])
        if not thorough and n > 9:
            # quick tier: Delaunay weights are 53-bit rationals, the exact evaluation inside Coq of a case with many pixels AND a Delaunay
            # mapper AND three objects costs ~20 s; such cases stay in the thorough tier, here the big masks get rectangular mappers only
            heavy_ok = False
        else: heavy_ok = True
        objs = [rand_obj(rng, n) for _ in range(nobj)]
        if i % 7 == 0: objs = [rand_obj(rng, n, "func") for _ in range(nobj)]          # factory: all function lists
        if i % 7 == 1: objs = [rand_obj(rng, n, rng.choice(["rect", "delaunay"])) for _ in range(max(2, nobj))]   # several mappers
        if i % 7 == 2: objs = [rand_obj(rng, n, "func"), rand_obj(rng, n, "rect"), rand_obj(rng, n, "func")][:max(2, nobj)]
        if colext:      # a function list with the extreme column, before AND after a mapper (negative cross blocks on both sides)
            objs = [rand_obj(rng, n, "func", colext), rand_obj(rng, n, rng.choice(["rect", "rect", "delaunay"])), rand_obj(rng, n, "func", colext)][:rng.choice([2, 3])]
            if rng.random() < 0.5: objs.reverse()
            for o in objs: o["reg"] = o["reg"] and rng.random() < 0.5      # several unregularized objects
        if ext and all(o["kind"] == "func" for o in objs):
            # an extreme dataset always meets a mapper (the w-tilde tables are only used then), at a random position
            objs[rng.randrange(len(objs))] = rand_obj(rng, n, rng.choice(["rect", "rect", "delaunay"]))
        if not heavy_ok:
            objs = [(rand_obj(rng, n, "rect", None) if o["kind"] == "delaunay" else o) for o in objs]
        eps = rng.choice([None, "1/1024", "1/2", "1/1024"])
        if ext in ("noise_huge", "psf_tiny"): eps = rng.choice([None, "1/1073741824"])
        yield {"op": "inv", "ds": ds, "objs": objs, "eps": eps, "rseed": rng.randrange(10 ** 6), "ext": ext or colext, "k": i}
    for i in range(n_sess):
        # a history in ONE process on shared objects: see run_sess
        while True:
            ds = rand_dataset(rng, 8, None, rng.choice(GEOMS))
            if ds["m"] is not None and n_unmasked(ds) >= 2: break
        n = n_unmasked(ds); kh, kw = len(ds["K"]), len(ds["K"][0]); H, W = len(ds["m"]), len(ds["m"][0])
        kinds = [["rect"], ["func", "rect"], ["rect", "func"], ["rect", "rect"], ["func", "rect", "func"]][i % 5]
        objs = [rand_obj(rng, n, k) for k in kinds]
        for o in objs:
            if o["kind"] == "func" and rng.random() < 0.7: o["ov"] = None
        objs2 = [twin_obj(rng, o, n) for o in objs]
        ds2 = {"m": ds["m"], "K": [[S(v) for v in r] for r in rand_kernel(rng, kh, kw)],
               "data": [[S(rng.randint(-9, 9)) for _ in range(W)] for _ in range(H)],
               # same first noise value as ds (the only thing check_noise_map looks at), other values elsewhere
               "noise": [[S(rng.choice(NOISE)) for _ in range(W)] for _ in range(H)]}
        for k in ("ps", "origin"):
            if k in ds: ds2[k] = ds[k]
        first = next((y, x) for y in range(H) for x in range(W) if not ds["m"][y][x])
        ds2["noise"][first[0]][first[1]] = ds["noise"][first[0]][first[1]]
        steps = [SESS_STEPS[(3 * i + j) % len(SESS_STEPS)] for j in range(3)]
        yield {"op": "sess", "ds": ds, "ds2": ds2, "objs": objs, "objs2": objs2, "steps": steps,
               "d2": [rng.randint(-9, 9) for _ in range(n)], "d3": [[S(rng.randint(-9, 9)) for _ in range(W)] for _ in range(H)],
               "eps": rng.choice(["1/1024", "1/2"]), "rseed": rng.randrange(10 ** 6)}
    for i in range(n_util):
        for op in ("dv_blurred", "curv_mapping", "add_diag", "mirror", "wt", "curv_preload", "off_preload", "dv_wtd",
                   "off_mapper_func", "dlfm", "mapped_unique", "mapped_matrix", "dense_w"):
            yield {"op": op, "seed": rng.randrange(10 ** 9)}

# ----------------------------------------------------------------------------- Coq printing
def cmask(m): return clist([clist([cbool(b) for b in r]) for r in m])
def cqv(v): return clist([cq(x) for x in v])
def cqm(M): return clist([cqv(r) for r in M])
def cnl(v): return clist([cnat(x) for x in v])
def czm(M): return clist([clist([cz(x) for x in r]) for r in M])
def cenc(e): return f"{czm(e['du'])} {cqm([[Fraction(x) for x in r] for r in e['dw']])} {cnl(e['pl'])}"
def fm(a): return [[frac(x) for x in r] for r in np.asarray(a)]
def fv(a): return [frac(x) for x in np.asarray(a)]
def fl(M): return np.array([[float(Fraction(x)) for x in r] for r in M], dtype=float)
def flv(v): return np.array([float(Fraction(x)) for x in v], dtype=float)

# ----------------------------------------------------------------------------- building the implementation objects
def geom_of(ds):
    ps = tuple(float(Fraction(x)) for x in ds.get("ps", ["1", "1"])); org = tuple(float(Fraction(x)) for x in ds.get("origin", ["0", "0"]))
    return ps, org

def build_imaging(aa, ds, data=None):
    ps, org = geom_of(ds)
    data = aa.Array2D.no_mask(values=fl(ds["data"] if data is None else data), pixel_scales=ps, origin=org)
    noise = aa.Array2D.no_mask(values=fl(ds["noise"]), pixel_scales=ps, origin=org)
    psf = aa.Kernel2D.no_mask(values=fl(ds["K"]), pixel_scales=ps)
    return aa.Imaging(data=data, noise_map=noise, psf=psf, use_normalized_psf=False)

def build_mask(aa, ds, m=None):
    ps, org = geom_of(ds)
    return aa.Mask2D(mask=np.array(ds["m"] if m is None else m, dtype=bool), pixel_scales=ps, origin=org)

def build_dataset(aa, ds, data=None):
    mask = build_mask(aa, ds)
    return build_imaging(aa, ds, data).apply_mask(mask=mask), mask

def build_obj(aa, mask, o, n):
    """returns (linear object, exact?)"""
    reg = aa.reg.Constant(coefficient=1.0) if o["reg"] else None
    if o["kind"] == "func":
        grid = aa.Grid2D.from_mask(mask=mask)
        return aa.m.MockLinearObjFuncList(parameters=o["P"], grid=grid, mapping_matrix=fl(o["M"]), regularization=reg,
                                          operated_mapping_matrix_override=None if o["ov"] is None else fl(o["ov"])), True
    rng = random.Random(o["subseed"])
    sub = o["sub"]
    if sub == "mixed": sub = np.array([rng.choice([1, 2, 4]) for _ in range(n)])
    over = aa.OverSamplerUniform(mask=mask, sub_size=sub)
    g = np.array(over.over_sampled_grid)
    a, b, c, d, e, f = [float(Fraction(x)) for x in o["dist"]]
    y, x = g[:, 0], g[:, 1]
    g2 = np.stack([a * y + b * x + e * x * y, c * y + d * x + f * y * y], axis=1)
    if np.ptp(g2[:, 0]) == 0 or np.ptp(g2[:, 1]) == 0: g2 = g
    sgrid = aa.Grid2DIrregular(values=g2)
    if o["kind"] == "rect":
        mesh = aa.Mesh2DRectangular.overlay_grid(grid=sgrid, shape_native=tuple(o["shape"]))
        mg = aa.MapperGrids(mask=mask, source_plane_data_grid=sgrid, source_plane_mesh_grid=mesh)
        return aa.MapperRectangular(mapper_grids=mg, over_sampler=over, border_relocator=None, regularization=reg), True
    y0, y1, x0, x1 = g2[:, 0].min(), g2[:, 0].max(), g2[:, 1].min(), g2[:, 1].max()
    pts = [[y0 - 0.5, x0 - 0.5], [y0 - 0.5, x1 + 0.5], [y1 + 0.5, x0 - 0.5], [y1 + 0.5, x1 + 0.5]][:rng.choice([0, 4])]
    while len(pts) < o["npts"]:
        pts.append([rng.uniform(y0 - 0.3, y1 + 0.3), rng.uniform(x0 - 0.3, x1 + 0.3)])
    mesh = aa.Mesh2DDelaunay(values=aa.Grid2DIrregular(values=pts))
    mg = aa.MapperGrids(mask=mask, source_plane_data_grid=sgrid, source_plane_mesh_grid=mesh)
    return aa.MapperDelaunay(mapper_grids=mg, over_sampler=over, border_relocator=None, regularization=reg), False

def cobj(aa, lo, o):
    """the Coq view of a linear object, read from the LIVE object (what the inversion is handed), not from its descriptor"""
    if o["kind"] == "func":
        ovv = lo.operated_mapping_matrix_override
        ov = "None" if ovv is None else f"(Some {cqm(fm(ovv))})"
        return f"(QFunc {cqm(fm(lo.mapping_matrix))} {ov} {cnat(lo.params)} {cbool(lo.regularization is not None)})"
    um = lo.unique_mappings
    du = [[int(v) for v in r] for r in np.asarray(um.data_to_pix_unique)]
    return (f"(QMapper {czm(du)} {cqm(fm(um.data_weights))} {cnl([int(v) for v in um.pix_lengths])} "
            f"{cqm(fm(lo.mapping_matrix))} {cnat(lo.params)} {cbool(lo.regularization is not None)})")

def enc_represents(lo):
    um = lo.unique_mappings; M = np.asarray(lo.mapping_matrix); E = np.zeros_like(M)
    for d in range(M.shape[0]):
        for k in range(int(um.pix_lengths[d])):
            E[d, int(um.data_to_pix_unique[d, k])] += um.data_weights[d, k]
    return bool(np.allclose(E, M, rtol=0, atol=1e-12))

def close(a, b, rtol=1e-8):
    """relative to the largest magnitude present (no absolute floor: tiny data must not hide a difference)"""
    a = np.asarray(a, dtype=float); b = np.asarray(b, dtype=float)
    if a.shape != b.shape: return False
    scale = max(float(np.max(np.abs(b))) if b.size else 0.0, float(np.max(np.abs(a))) if a.size else 0.0)
    return bool(np.all(np.abs(a - b) <= rtol * scale))

def settings_for(aa, use, eps_in, pos=False):
    kw = dict(use_w_tilde=use, use_positive_only_solver=pos)
    if eps_in is not None: kw["no_regularization_add_to_curvature_diag_value"] = float(Fraction(eps_in))
    return aa.SettingsInversion(**kw)

def digest(x):
    if x is None: return None
    if isinstance(x, (bool, int, float, str)): return repr(x)
    try:
        a = np.ascontiguousarray(np.asarray(x))
        if a.dtype != object: return hashlib.sha1(a.tobytes() + str(a.shape).encode() + str(a.dtype).encode()).hexdigest()
    except Exception: pass
    return "id:%d" % id(x)

def fingerprint(aa, dataset, los, settings, preloads=None, wts=()):
    """everything the caller handed over (letter d): arrays of the dataset, of the w_tilde objects, of the linear objects, the fields
    of the settings / preloads objects"""
    fp = {"data": digest(dataset.data), "noise_map": digest(dataset.noise_map), "kernel": digest(dataset.convolver.kernel),
          "mask": digest(dataset.data.mask)}
    for i, w in enumerate(wts):
        if w is not None:
            fp.update({f"w{i}.curvature_preload": digest(w.curvature_preload), f"w{i}.indexes": digest(w.indexes),
                       f"w{i}.lengths": digest(w.lengths), f"w{i}.noise_map_value": digest(float(w.noise_map_value))})
    for i, lo in enumerate(los):
        fp[f"obj{i}.mapping_matrix"] = digest(lo.mapping_matrix)
        fp[f"obj{i}.override"] = digest(lo.operated_mapping_matrix_override)
        if hasattr(lo, "unique_mappings") and not isinstance(lo, aa.m.MockLinearObjFuncList):
            um = lo.unique_mappings
            fp.update({f"obj{i}.data_to_pix_unique": digest(um.data_to_pix_unique), f"obj{i}.data_weights": digest(um.data_weights),
                       f"obj{i}.pix_lengths": digest(um.pix_lengths)})
    for k, v in sorted(vars(settings).items()): fp["settings." + k] = digest(v)
    if preloads is not None:
        for k, v in sorted(vars(preloads).items()):
            if k != "w_tilde": fp["preloads." + k] = digest(v)
    return fp

def fp_diff(a, b): return sorted(k for k in a if a[k] != b.get(k))

QNAMES = {"B": "operated_mapping_matrix", "D": "data_vector", "F": "curvature_matrix", "FR": "curvature_reg_matrix"}
def rand_reads(rrng):
    """operated_mapping_matrix, data_vector, curvature_matrix each at least once, curvature_reg_matrix / reconstruction in between,
    repeats; often curvature_matrix again AFTER curvature_reg_matrix"""
    qs = ["B", "D", "F"] + [rrng.choice(["B", "D", "F", "F", "FR", "FR", "Rec"]) for _ in range(rrng.randint(1, 4))]
    rrng.shuffle(qs)
    if rrng.random() < 0.6: qs += [rrng.choice(["FR", "Rec"]), "F"] + (["FR"] if rrng.random() < 0.5 else []) + (["D"] if rrng.random() < 0.3 else [])
    return qs

def do_reads(inv, qs):
    outs = []
    for q in qs:
        if q == "Rec":
            try: inv.reconstruction
            except Exception: pass         # singular / degenerate systems are C05's: data_vector and curvature_reg_matrix are read before
            outs.append(None)
        else: outs.append(np.array(getattr(inv, QNAMES[q])))     # a COPY taken at the time of the read
    return outs

def crouts(qs, outs):
    ts = []
    for q, o in zip(qs, outs):
        if q == "Rec": ts.append("(@OutNone QOps)")
        elif q == "D": ts.append(f"(@OutV QOps {cqv(fv(o))})")
        else: ts.append(f"(@OutM QOps {cqm(fm(o))})")
    return clist(ts)
def crqs(qs): return clist([{"B": "RB", "D": "RD", "F": "RF", "FR": "RFR", "Rec": "RRec"}[q] for q in qs])

EXACT_EXTS = (None, "zero_data", "flat", "zero", "neg")
def run_inv(aa, inp):
    ds = inp["ds"]; m = ds["m"]; K = [[Fraction(v) for v in r] for r in ds["K"]]
    dataset, mask = build_dataset(aa, ds)
    n = int(mask.pixels_in_mask)
    built = [build_obj(aa, mask, o, n) for o in inp["objs"]]
    los = [b[0] for b in built]
    eps_in = inp["eps"]; ext = inp.get("ext")
    exact = all(b[1] for b in built) and (eps_in is not None or all(o["reg"] for o in inp["objs"])) and ext in EXACT_EXTS
    tol = Fraction(0) if exact else Fraction(1, 10 ** 9)
    d = fv(dataset.data); s = fv(dataset.noise_map)
    cobjs = clist([cobj(aa, lo, o) for lo, o in zip(los, inp["objs"])])
    kinds = "+".join(o["kind"] for o in inp["objs"])
    tally("objs:" + kinds); tally(f"psf:{len(K)}x{len(K[0])}"); tally("signed_psf" if any(v < 0 for r in K for v in r) else "nonneg_psf")
    tally("exact" if exact else "tolerance"); tally("ext:" + str(ext)); tally("geom:" + ("unit" if "ps" not in ds else "x".join(ds["ps"])))
    has_mapper = any(o["kind"] != "func" for o in inp["objs"])
    rrng = random.Random(inp["rseed"])
    terms, outs, detail = [], {}, {}
    py_ok = True
    for lo in los:
        if hasattr(lo, "unique_mappings") and not isinstance(lo, aa.m.MockLinearObjFuncList):
            if not enc_represents(lo): py_ok = False; detail["encoding"] = "unique mappings do not represent mapping_matrix"
    hdr = f"{cmask(m)} {cqm(K)}"
    res = {}
    qs = rand_reads(rrng)
    for use in (False, True):
        settings = settings_for(aa, use, eps_in)
        fp0 = fingerprint(aa, dataset, los, settings, wts=[dataset.w_tilde])
        # the regularization matrix, from a twin instance (the instance under observation is only touched by the reads below)
        H = np.array(aa.Inversion(dataset=dataset, linear_obj_list=los, settings=settings).regularization_matrix)
        # the observed instance sometimes runs with the library's default positive-only solver (its reconstruction reads
        # curvature_reg_matrix / data_vector along another path; the values of B, D, F do not depend on it)
        pos = rrng.random() < 0.3
        inv = aa.Inversion(dataset=dataset, linear_obj_list=los, settings=settings_for(aa, use, eps_in, pos) if pos else settings)
        if pos: tally("positive_only_solver")
        is_wt = isinstance(inv, aa.InversionImagingWTilde)
        tally("class_as_modelled" if is_wt == (use and has_mapper) else "class_differs_from_model")
        eps = frac(settings.no_regularization_add_to_curvature_diag_value)
        # ONE instance, its cached properties read in a random order with repeats (curvature_matrix again after
        # curvature_reg_matrix / reconstruction): every read is judged by the cell model and by the specification
        o_ = do_reads(inv, qs)
        first = {q: v for q, v in reversed(list(zip(qs, o_)))}
        B, D, F = first["B"], first["D"], first["F"]
        P = B.shape[1]
        terms.append(f"(KSeq {hdr} {cqv(d)} {cqv(s)} {cobjs} {cbool(is_wt)} {cq(eps)} {cq(tol)} {cqm(fm(H))} {crqs(qs)} {crouts(qs, o_)})")
        # mapped_reconstructed_data of the same instance for an injected integer reconstruction (cached_property slot)
        r = [Fraction(rrng.randint(-4, 4)) for _ in range(P)] if use is False else res[False]["r"]
        inv.__dict__["reconstruction"] = flv(r); inv.__dict__.pop("mapped_reconstructed_data", None)
        mapped = np.array(inv.mapped_reconstructed_data)
        terms.append(f"(KMapped {hdr} {cnat(n)} {cobjs} {cbool(is_wt)} {cq(tol)} {cqv(r)} {cqv(fv(mapped))})")
        # the solved reconstruction (C05's), only for the comparison of the two formalisms
        rec = None
        try:
            inv3 = aa.Inversion(dataset=dataset, linear_obj_list=los, settings=settings)
            cond = np.linalg.cond(np.array(inv3.curvature_reg_matrix))
            if np.isfinite(cond) and cond < 1e6:
                inv3 = aa.Inversion(dataset=dataset, linear_obj_list=los, settings=settings)
                rec = np.array(inv3.reconstruction); recmapped = np.array(inv3.mapped_reconstructed_data)
        except Exception as e:   # singular systems, degenerate solutions: C05
            rec = None
        ch = fp_diff(fp0, fingerprint(aa, dataset, los, settings, wts=[dataset.w_tilde]))
        if ch: py_ok = False; detail["inputs_modified"] = ch
        res[use] = dict(is_wt=is_wt, B=B, D=D, F=F, mapped=mapped, r=r, rec=rec, recmapped=None if rec is None else recmapped)
        outs[str(use)] = {"class": type(inv).__name__, "reads": qs, "D": D.tolist(), "F": F.tolist()}
    a, b = res[False], res[True]
    tally("class:" + ("wtilde" if b["is_wt"] else "mapping") + "(use_w_tilde=True)")
    if has_mapper and not b["is_wt"]:
        # whatever the factory chose, the w-tilde class itself is compared with the mapping formalism
        st = settings_for(aa, True, eps_in)
        iw = aa.InversionImagingWTilde(dataset=dataset, w_tilde=dataset.w_tilde, linear_obj_list=los, settings=st)
        b = dict(b, D=np.array(iw.data_vector), F=np.array(iw.curvature_matrix))
        terms.append(f"(KInv {hdr} {cqv(d)} {cqv(s)} {cobjs} true {cq(frac(st.no_regularization_add_to_curvature_diag_value))} {cq(tol)} "
                     f"{cqm(fm(iw.operated_mapping_matrix))} {cqv(fv(b['D']))} {cqm(fm(b['F']))})")
    if inp.get("k", 0) % 3 == 0:
        # the library's defaults: no settings / preloads argument, i.e. the SHARED default SettingsInversion() and Preloads() objects of
        # the factory's signature (anything remembered in them is carried from one dataset of this process to the next)
        invd = aa.Inversion(dataset=dataset, linear_obj_list=los)
        epsd = frac(invd.settings.no_regularization_add_to_curvature_diag_value)
        told = tol if all(o["reg"] for o in inp["objs"]) else Fraction(1, 10 ** 9)
        terms.append(f"(KInv {hdr} {cqv(d)} {cqv(s)} {cobjs} {cbool(isinstance(invd, aa.InversionImagingWTilde))} {cq(epsd)} {cq(told)} "
                     f"{cqm(fm(invd.operated_mapping_matrix))} {cqv(fv(invd.data_vector))} {cqm(fm(invd.curvature_matrix))})")
        tally("default_settings_and_preloads")
    if ext in EXACT_EXTS:      # (with scaled columns the Coq comparison, which is relative to each column's scale, is the judge)
        for key in ("B", "D", "F", "mapped"):
            if not close(a[key], b[key]): py_ok = False; detail["formalisms_differ"] = key
        for r_ in (a, b):
            if not close(r_["F"], r_["F"].T, 1e-12): py_ok = False; detail["asymmetric"] = True
    if a["rec"] is not None and b["rec"] is not None:
        tally("reconstruction_compared")
        if not close(a["rec"], b["rec"], 1e-6) or not close(a["recmapped"], b["recmapped"], 1e-6):
            py_ok = False; detail["formalisms_differ"] = "reconstruction"
    else: tally("reconstruction_skipped_ill_conditioned")
    nontrivial = n >= 2 and sum(1 for r in K for v in r if v != 0) > 1
    return dict(coq=terms[0], extra_coq=terms[1:], out=outs, py_ok=py_ok, nontrivial=nontrivial, kind="inv:" + kinds, detail=detail)

def run_sess(aa, inp):
    """a history in one process on SHARED objects (letters a-d): one Imaging, one settings object per formalism, one list of linear
    objects, used for several inversions between which the caller swaps the objects / the data / the w_tilde carrier, edits arrays in
    place or derives datasets; every inversion is judged by the model + specification on the values of the dataset ACTUALLY passed in
    (read from the objects at that moment); the caller's arrays and settings are fingerprinted around every inversion."""
    ds = inp["ds"]
    A, mask = build_dataset(aa, ds)
    n = int(mask.pixels_in_mask)
    objs = inp["objs"]
    los = [build_obj(aa, mask, o, n)[0] for o in objs]
    eps_in = inp["eps"]; rrng = random.Random(inp["rseed"])
    st = {use: settings_for(aa, use, eps_in) for use in (False, True)}
    terms, outs, detail = [], {}, {}
    py = {"ok": True}
    def observe(label, dataset, los_, descs, preloads=None, sw=None, wts=(), uses=(False, True)):
        mq = [[bool(b) for b in r] for r in np.array(dataset.data.mask)]
        Kq = fm(np.array(dataset.convolver.kernel.native))
        d = fv(dataset.data); s = fv(dataset.noise_map); sw_ = s if sw is None else sw
        for use in uses:
            cobjs = clist([cobj(aa, lo, o) for lo, o in zip(los_, descs)])
            fp0 = fingerprint(aa, dataset, los_, st[use], preloads, wts)
            kw = {} if preloads is None else {"preloads": preloads}
            try:
                inv = aa.Inversion(dataset=dataset, linear_obj_list=los_, settings=st[use], **kw)
                is_wt = isinstance(inv, aa.InversionImagingWTilde)
                B, D, F = np.array(inv.operated_mapping_matrix), np.array(inv.data_vector), np.array(inv.curvature_matrix)
                out = f"(Some ({cqm(fm(B))}, {cqv(fv(D))}, {cqm(fm(F))}))"
                outs[f"{label}:{use}"] = {"class": type(inv).__name__, "D": D.tolist(), "F": F.tolist()}
            except aa.exc.InversionException as e:
                is_wt = True; out = "None"; outs[f"{label}:{use}"] = "InversionException"
            eps = frac(st[use].no_regularization_add_to_curvature_diag_value)
            terms.append(f"(KInvW {cmask(mq)} {cqm(Kq)} {cqv(d)} {cqv(s)} {cqv(sw_)} {cobjs} {cbool(is_wt)} {cq(eps)} {cq(0)} {out})")
            ch = fp_diff(fp0, fingerprint(aa, dataset, los_, st[use], preloads, wts))
            if ch: py["ok"] = False; detail["inputs_modified:" + label] = ch
            tally("sess:" + label)
    wA = A.w_tilde
    observe("base", A, los, objs, wts=[wA])
    for step in inp["steps"]:
        if step == "objs2":
            # the same dataset and settings with other objects of the same kinds and shapes, then the first list again
            los2 = [build_obj(aa, mask, o, n)[0] for o in inp["objs2"]]
            observe("objs2", A, los2, inp["objs2"], wts=[wA])
            observe("objs_again", A, los, objs, wts=[wA], uses=(True,))
        elif step == "iface":
            # model-subtracted data handed over through a DatasetInterface that carries the Imaging's convolver and w_tilde
            sub = aa.Array2D(values=np.array(inp["d2"], dtype=float), mask=mask)
            DI = aa.DatasetInterface(data=A.data - sub, noise_map=A.noise_map, convolver=A.convolver, w_tilde=A.w_tilde, grids=A.grids)
            observe("iface", DI, los, objs, wts=[wA])
            observe("after_iface", A, los, objs, wts=[wA], uses=(True,))
        elif step == "preload":
            # Preloads(w_tilde=...) made by an Imaging with the same mask / noise map / psf and OTHER data
            A3, _ = build_dataset(aa, ds, data=inp["d3"])
            pl = aa.Preloads(w_tilde=A3.w_tilde, use_w_tilde=True)
            observe("preload", A, los, objs, preloads=pl, wts=[wA, A3.w_tilde])
            observe("preload_off", A, los, objs, preloads=aa.Preloads(use_w_tilde=False), wts=[wA], uses=(True,))
            # the SAME Preloads object again after the data were edited in place (nothing remembered in it may be used for the data)
            j = rrng.randrange(n); A.data[j] = float(A.data[j]) + 6.0
            observe("preload_again", A, los, objs, preloads=pl, wts=[wA, A3.w_tilde], uses=(True,))
        elif step == "edit_data":
            # the caller edits the data in place between two inversions on the same dataset object
            j = rrng.randrange(n); A.data[j] = float(A.data[j]) + rrng.choice([-7.0, 5.0, 11.0])
            observe("edit_data", A, los, objs, wts=[wA])
        elif step == "edit_func":
            # the caller edits a basis function (plain attribute of the function list) in place between two inversions
            fs = [lo for lo, o in zip(los, objs) if o["kind"] == "func"]
            if fs:
                lo = rrng.choice(fs); tgt = lo.mapping_matrix if lo.operated_mapping_matrix_override is None else lo.operated_mapping_matrix_override
                tgt[rrng.randrange(tgt.shape[0]), rrng.randrange(tgt.shape[1])] += 3.0
            else:
                j = rrng.randrange(n); A.data[j] = float(A.data[j]) - 4.0
            observe("edit_func", A, los, objs, wts=[wA])
        elif step == "ds2":
            # the same linear objects and settings with another dataset on the same mask (other psf, noise map, data)
            B2, _ = build_dataset(aa, inp["ds2"])
            observe("ds2", B2, los, objs, wts=[B2.w_tilde, wA])
            observe("after_ds2", A, los, objs, wts=[wA], uses=(True,))
        elif step == "iface_noise0":
            # a scaled noise map (derived by arithmetic) with the Imaging's w_tilde: check_noise_map must refuse the w-tilde class;
            # the mapping formalism gives the normal equations of the scaled noise map
            DI = aa.DatasetInterface(data=A.data, noise_map=A.noise_map * 2.0, convolver=A.convolver, w_tilde=A.w_tilde, grids=A.grids)
            observe("iface_noise0", DI, los, objs, sw=fv(A.noise_map), wts=[wA])
        elif step == "remask":
            # a dataset DERIVED by a second apply_mask (one pixel fewer) after convolver / w_tilde of the first were used
            un = [(y, x) for y in range(len(ds["m"])) for x in range(len(ds["m"][0])) if not ds["m"][y][x]]
            j = rrng.randrange(n)
            m2 = [list(r) for r in ds["m"]]; m2[un[j][0]][un[j][1]] = True
            mask2 = build_mask(aa, ds, m2)
            A2 = A.apply_mask(mask=mask2)
            descs = []
            for o in objs:
                o2 = dict(o)
                if o["kind"] == "func":
                    o2["M"] = [r for k, r in enumerate(o["M"]) if k != j]
                    o2["ov"] = None if o["ov"] is None else [r for k, r in enumerate(o["ov"]) if k != j]
                descs.append(o2)
            los_r = [build_obj(aa, mask2, o, n - 1)[0] for o in descs]
            observe("remask", A2, los_r, descs, wts=[A2.w_tilde, wA])
        elif step == "oversampling":
            A4 = A.apply_over_sampling(over_sampling=aa.OverSamplingDataset(uniform=aa.OverSamplingUniform(sub_size=2),
                                                                           pixelization=aa.OverSamplingUniform(sub_size=2)))
            observe("oversampling", A4, los, objs, wts=[A4.w_tilde, wA])
        else: raise ValueError(step)
    kinds = "+".join(o["kind"] for o in objs)
    return dict(coq=terms[0], extra_coq=terms[1:], out=outs, py_ok=py["ok"], nontrivial=True,
                kind="sess:" + kinds + ":" + ",".join(inp["steps"]), detail=detail)

# ----------------------------------------------------------------------------- cases
def run_case(inp):
    aa = import_aa()
    op = inp["op"]
    if op == "inv": return run_inv(aa, inp)
    if op == "sess": return run_sess(aa, inp)
    return run_util(aa, inp)

def small_dataset(rng):
    while True:
        ds = rand_dataset(rng, 9)
        if ds["m"] is not None: return ds

def run_util(aa, inp):
    from autoarray.inversion.inversion import inversion_util as iu
    from autoarray.inversion.inversion.imaging import inversion_imaging_util as iiu
    op = inp["op"]; rng = random.Random(inp["seed"])
    base = dict(py_ok=None, nontrivial=True, kind="util:" + op)
    tally("util:" + op)
    Z0 = Fraction(0)
    def rmat(n, p, sparse=True): return [[rand_vals(rng, sparse) for _ in range(p)] for _ in range(n)]
    def rnoise(n): return [rng.choice(NOISE) for _ in range(n)]
    def enc_arrays(e):
        return (np.array(e["du"], dtype=int).reshape(len(e["du"]), -1), fl(e["dw"]).reshape(len(e["dw"]), -1), np.array(e["pl"], dtype=int))
    if op == "dv_blurred":
        n, P = rng.randint(1, 6), rng.randint(1, 4)
        B = rmat(n, P); d = [Fraction(rng.randint(-9, 9)) for _ in range(n)]; s = rnoise(n)
        out = iiu.data_vector_via_blurred_mapping_matrix_from(blurred_mapping_matrix=fl(B), image=flv(d), noise_map=flv(s))
        return dict(base, coq=f"(KDvBlurred {cqm(B)} {cqv(d)} {cqv(s)} {cq(0)} {cqv(fv(out))})", out=np.asarray(out).tolist())
    if op == "curv_mapping":
        n, P = rng.randint(1, 6), rng.randint(1, 4)
        B = rmat(n, P); s = rnoise(n); add = rng.random() < 0.7
        idx = sorted(rng.sample(range(P), rng.randint(0, P))); eps = Fraction(1, rng.choice([2, 1024]))
        out = iu.curvature_matrix_via_mapping_matrix_from(mapping_matrix=fl(B), noise_map=flv(s), add_to_curvature_diag=add,
                  no_regularization_index_list=idx, settings=aa.SettingsInversion(no_regularization_add_to_curvature_diag_value=float(eps)))
        return dict(base, coq=f"(KCurvMapping {cqm(B)} {cqv(s)} {cbool(add)} {cnl(idx)} {cq(eps)} {cq(0)} {cqm(fm(out))})", out=np.asarray(out).tolist())
    if op == "add_diag":
        P = rng.randint(1, 5); F = rmat(P, P); v = Fraction(rng.randint(-8, 8), 4)
        idx = [rng.randrange(P) for _ in range(rng.randint(1, P + 1))]
        out = iu.curvature_matrix_with_added_to_diag_from(curvature_matrix=fl(F), value=float(v), no_regularization_index_list=idx)
        return dict(base, coq=f"(KAddDiag {cqm(F)} {cq(v)} {cnl(idx)} {cqm(fm(out))})", out=np.asarray(out).tolist())
    if op == "mirror":
        # matrices as the w-tilde assembly produces them: a symmetric matrix of which, pair by pair, one side may be blanked
        # (on such inputs the result does not depend on the order of the conditional writes)
        P = rng.randint(1, 5); C = rmat(P, P)
        for i in range(P):
            for j in range(i):
                C[i][j] = C[j][i]
                u = rng.random()
                if u < 0.3: C[i][j] = Z0
                elif u < 0.6: C[j][i] = Z0
        out = iu.curvature_matrix_mirrored_from(curvature_matrix=fl(C))
        return dict(base, coq=f"(KMirror {cqm(C)} {cqm(fm(out))})", out=np.asarray(out).tolist())
    if op == "wt":
        ds = small_dataset(rng); dataset, mask = build_dataset(aa, ds)
        m, K = ds["m"], ds["K"]; d = fv(dataset.data); s = fv(dataset.noise_map)
        nfs = mask.derive_indexes.native_for_slim
        img_n = np.array(dataset.data.native); noi_n = np.array(dataset.noise_map.native); k_n = np.array(dataset.psf.native)
        wd = iiu.w_tilde_data_imaging_from(image_native=img_n, noise_map_native=noi_n, kernel_native=k_n, native_index_for_slim_index=nfs)
        W = iiu.w_tilde_curvature_imaging_from(noise_map_native=noi_n, kernel_native=k_n, native_index_for_slim_index=nfs)
        pre, idx, lens = iiu.w_tilde_curvature_preload_imaging_from(noise_map_native=noi_n, kernel_native=k_n, native_index_for_slim_index=nfs)
        wt = dataset.w_tilde
        ok = (np.array_equal(wt.curvature_preload, pre) and np.array_equal(wt.indexes, idx.astype(int)) and np.array_equal(wt.lengths, lens.astype(int)))
        hdr = f"{cmask(m)} {cqm(K)}"
        t1 = f"(KWtData {hdr} {cqv(d)} {cqv(s)} {cqv(fv(wd))})"
        t2 = f"(KWtDense {hdr} {cqv(s)} {cqm(fm(W))})"
        t3 = f"(KPreload {hdr} {cqv(s)} {cqv(fv(pre))} {cnl([int(v) for v in idx])} {cnl([int(v) for v in lens])})"
        return dict(base, coq=t1, extra_coq=[t2, t3], py_ok=ok, out={"w_tilde_data": np.asarray(wd).tolist(), "lengths": [int(v) for v in lens]})
    if op in ("curv_preload", "off_preload", "dense_w"):
        n = rng.randint(1, 6)
        if op == "dense_w":
            P = rng.randint(1, 3); W = rmat(n, n); M = rmat(n, P)
            out = iu.curvature_matrix_via_w_tilde_from(w_tilde=fl(W), mapping_matrix=fl(M))
            return dict(base, coq=f"(KCurvDenseW {cqm(W)} {cqm(M)} {cq(0)} {cqm(fm(out))})", out=np.asarray(out).tolist())
        pr = synth_preload(rng, n)
        pre = flv(pr["pre"]); idx = np.array(pr["idx"], dtype=int); lens = np.array(pr["lens"], dtype=int)
        cpre = f"{cqv([Fraction(x) for x in pr['pre']])} {cnl(pr['idx'])} {cnl(pr['lens'])}"
        e0 = synth_enc(rng, n, rng.randint(1, 4))
        du0, dw0, pl0 = enc_arrays(e0)
        if op == "curv_preload":
            out = iiu.curvature_matrix_via_w_tilde_curvature_preload_imaging_from(curvature_preload=pre, curvature_indexes=idx,
                      curvature_lengths=lens, data_to_pix_unique=du0, data_weights=dw0, pix_lengths=pl0, pix_pixels=e0["P"])
            return dict(base, coq=f"(KCurvPreload {cpre} {cenc(e0)} {cnat(e0['P'])} {cq(0)} {cqm(fm(out))})", out=np.asarray(out).tolist())
        e1 = synth_enc(rng, n, rng.randint(1, 4)); du1, dw1, pl1 = enc_arrays(e1)
        out = iiu.curvature_matrix_off_diags_via_w_tilde_curvature_preload_imaging_from(curvature_preload=pre, curvature_indexes=idx,
                  curvature_lengths=lens, data_to_pix_unique_0=du0, data_weights_0=dw0, pix_lengths_0=pl0, pix_pixels_0=e0["P"],
                  data_to_pix_unique_1=du1, data_weights_1=dw1, pix_lengths_1=pl1, pix_pixels_1=e1["P"])
        return dict(base, coq=f"(KOffPreload {cpre} {cenc(e0)} {cnat(e0['P'])} {cenc(e1)} {cnat(e1['P'])} {cq(0)} {cqm(fm(out))})", out=np.asarray(out).tolist())
    if op == "dv_wtd":
        n = rng.randint(1, 6); e = synth_enc(rng, n, rng.randint(1, 4)); du, dw, pl = enc_arrays(e)
        wd = [Fraction(rng.randint(-9, 9), 2) for _ in range(n)]
        out = iiu.data_vector_via_w_tilde_data_imaging_from(w_tilde_data=flv(wd), data_to_pix_unique=du, data_weights=dw, pix_lengths=pl, pix_pixels=e["P"])
        return dict(base, coq=f"(KDvWtd {cqv(wd)} {cenc(e)} {cnat(e['P'])} {cq(0)} {cqv(fv(out))})", out=np.asarray(out).tolist())
    if op in ("off_mapper_func", "dlfm"):
        ds = small_dataset(rng); dataset, mask = build_dataset(aa, ds)
        n = int(mask.pixels_in_mask); c = dataset.convolver
        e = synth_enc(rng, n, rng.randint(1, 4)); du, dw, pl = enc_arrays(e)
        L = rng.randint(1, 3); cw = rmat(n, L)
        hdr = f"{cmask(ds['m'])} {cqm(ds['K'])}"
        if op == "off_mapper_func":
            out = iiu.curvature_matrix_off_diags_via_mapper_and_linear_func_curvature_vector_from(data_to_pix_unique=du, data_weights=dw,
                      pix_lengths=pl, pix_pixels=e["P"], curvature_weights=fl(cw), image_frame_1d_lengths=c.image_frame_1d_lengths,
                      image_frame_1d_indexes=c.image_frame_1d_indexes, image_frame_1d_kernels=c.image_frame_1d_kernels)
            return dict(base, coq=f"(KOffMapperFunc {hdr} {cenc(e)} {cnat(e['P'])} {cqm(cw)} {cq(0)} {cqm(fm(out))})", out=np.asarray(out).tolist())
        dl = iiu.data_linear_func_matrix_from(curvature_weights_matrix=fl(cw), image_frame_1d_lengths=c.image_frame_1d_lengths,
                 image_frame_1d_indexes=c.image_frame_1d_indexes, image_frame_1d_kernels=c.image_frame_1d_kernels)
        out = iiu.curvature_matrix_off_diags_via_data_linear_func_matrix_from(data_linear_func_matrix=dl, data_to_pix_unique=du,
                  data_weights=dw, pix_lengths=pl, pix_pixels=e["P"])
        return dict(base, coq=f"(KDlfm {hdr} {cqm(cw)} {cenc(e)} {cnat(e['P'])} {cq(0)} {cqm(fm(dl))} {cqm(fm(out))})", out=np.asarray(out).tolist())
    if op == "mapped_unique":
        n = rng.randint(1, 6); e = synth_enc(rng, n, rng.randint(1, 4)); du, dw, pl = enc_arrays(e)
        r = [Fraction(rng.randint(-6, 6), 2) for _ in range(e["P"])]
        out = iu.mapped_reconstructed_data_via_image_to_pix_unique_from(data_to_pix_unique=du, data_weights=dw, pix_lengths=pl, reconstruction=flv(r))
        return dict(base, coq=f"(KMappedUnique {cenc(e)} {cqv(r)} {cq(0)} {cqv(fv(out))})", out=np.asarray(out).tolist())
    if op == "mapped_matrix":
        n, P = rng.randint(1, 6), rng.randint(1, 4); B = rmat(n, P); r = [Fraction(rng.randint(-6, 6), 2) for _ in range(P)]
        out = iu.mapped_reconstructed_data_via_mapping_matrix_from(mapping_matrix=fl(B), reconstruction=flv(r))
        return dict(base, coq=f"(KMappedMatrix {cqm(B)} {cqv(r)} {cq(0)} {cqv(fv(out))})", out=np.asarray(out).tolist())
    raise ValueError(op)
