(* C09 -- proofs.  Part 1: loop skeletons = folds over the indexed list of unmasked pixels. *)
From Coq Require Import ZArith QArith Reals Lra Lia List Bool Arith Psatz.
From PAV Require Import Base.NumOps Base.Res Base.Check Base.Sum Model.C09.
Import ListNotations.

(* ------------------------------------------------------------------ list helpers *)
Lemma fold_left_map {A B S} (f : S -> B -> S) (g : A -> B) l : forall s,
  fold_left f (map g l) s = fold_left (fun st x => f st (g x)) l s.
Proof. induction l as [|a l IH]; intros s; cbn; auto. Qed.

Lemma fold_left_ext {A S} (f g : S -> A -> S) l : (forall s x, In x l -> f s x = g s x) ->
  forall s, fold_left f l s = fold_left g l s.
Proof.
  induction l as [|a l IH]; intros H s; cbn; auto.
  rewrite H by (left; reflexivity). apply IH. intros; apply H; right; assumption.
Qed.

(* a fold whose body appends a chunk is a flat_map *)
Lemma fold_left_append {A B} (g : A -> list B) l : forall acc,
  fold_left (fun acc x => acc ++ g x) l acc = acc ++ flat_map g l.
Proof.
  induction l as [|a l IH]; intros acc; cbn; [now rewrite app_nil_r|].
  rewrite IH, app_assoc. reflexivity.
Qed.

Lemma for_range_append {B} n (g : nat -> list B) acc :
  for_range n (fun i acc => acc ++ g i) acc = acc ++ flat_map g (seq 0 n).
Proof. unfold for_range. apply fold_left_append. Qed.

Lemma flat_map_singleton {A B} (h : A -> B) l : flat_map (fun x => [h x]) l = map h l.
Proof. induction l; cbn; congruence. Qed.

(* the doubly nested `for y1: for x1: out.append(h y1 x1)` *)
Lemma for_range2_append {B} s (h : nat -> nat -> B) acc :
  for_range s (fun y1 acc => for_range s (fun x1 acc => acc ++ [h y1 x1]) acc) acc
  = acc ++ flat_map (fun a => map (fun b => h a b) (seq 0 s)) (seq 0 s).
Proof.
  rewrite <- (for_range_append s (fun a => map (fun b => h a b) (seq 0 s)) acc).
  unfold for_range at 1 3. apply fold_left_ext. intros st a _.
  rewrite for_range_append, flat_map_singleton. reflexivity.
Qed.

(* ------------------------------------------------------------------ pixel_loop = fold over indexed unmasked pixels *)
Notation ipix := (nat * (nat * nat))%type (only parsing).       (* (slim index, (y, x)) *)
Definition indexed_from {A} (k : nat) (l : list A) : list (nat * A) := combine (seq k (length l)) l.
Definition ipixels (m : mask) : list ipix := indexed_from 0 (unmasked m).
Definition ibody {St} (body : nat -> nat -> nat -> St -> St) (st : St) (ip : ipix) : St :=
  body (fst (snd ip)) (snd (snd ip)) (fst ip) st.

Lemma indexed_from_app {A} (l1 l2 : list A) k :
  indexed_from k (l1 ++ l2) = indexed_from k l1 ++ indexed_from (k + length l1) l2.
Proof.
  unfold indexed_from. revert k. induction l1 as [|a l1 IH]; intros k; cbn.
  - now rewrite Nat.add_0_r.
  - rewrite IH. now rewrite Nat.add_succ_r.
Qed.

Lemma row_loop_fold {St} (body : nat -> nat -> nat -> St -> St) y row : forall x k s,
  row_loop body y row x (k, s) =
  ((k + length (unmasked_row y row x))%nat, fold_left (ibody body) (indexed_from k (unmasked_row y row x)) s).
Proof.
  induction row as [|b r IH]; intros x k s; cbn [row_loop unmasked_row].
  - cbn. now rewrite Nat.add_0_r.
  - destruct b.
    + apply IH.
    + cbn [fst snd]. rewrite IH. cbn [length indexed_from]. unfold indexed_from. cbn [length seq combine fold_left].
      unfold ibody at 2. cbn [fst snd]. f_equal. lia.
Qed.

Lemma rows_loop_fold {St} (body : nat -> nat -> nat -> St -> St) m : forall y k s,
  rows_loop body m y (k, s) =
  ((k + length (unmasked_from m y))%nat, fold_left (ibody body) (indexed_from k (unmasked_from m y)) s).
Proof.
  induction m as [|row t IH]; intros y k s; cbn [rows_loop unmasked_from].
  - cbn. now rewrite Nat.add_0_r.
  - rewrite row_loop_fold, IH, indexed_from_app, fold_left_app, app_length. f_equal. lia.
Qed.

Lemma pixel_loop_fold {St} (body : nat -> nat -> nat -> St -> St) m s0 :
  pixel_loop body m s0 = fold_left (ibody body) (ipixels m) s0.
Proof. unfold pixel_loop, ipixels, unmasked. rewrite rows_loop_fold. reflexivity. Qed.

(* pixels_in_mask (np.size - np.sum) counts the unmasked list *)
Lemma pixels_row row : forall x y n,
  fold_left (fun k (b : bool) => if b then k else S k) row n = (n + length (unmasked_row y row x))%nat.
Proof.
  induction row as [|b r IH]; intros x y n; cbn; [lia|].
  destruct b; rewrite (IH (S x) y); cbn; lia.
Qed.
Lemma pixels_in_mask_from m : forall y n,
  fold_left (fun n row => fold_left (fun k (b : bool) => if b then k else S k) row n) m n
  = (n + length (unmasked_from m y))%nat.
Proof.
  induction m as [|row t IH]; intros y n; cbn; [lia|].
  rewrite (pixels_row row 0 y), (IH (S y)), app_length. lia.
Qed.
Lemma pixels_in_mask_length m : pixels_in_mask m = length (unmasked m).
Proof. unfold pixels_in_mask, unmasked. now rewrite (pixels_in_mask_from m 0). Qed.

(* replacing `sub_size[index]` by the zipped sub-size: valid when len(sub_size) = number of unmasked pixels *)
Lemma indexed_nth_gen {A} (d : nat) (l : list A) : forall (ss pre : list nat),
  length ss = length l ->
  map (fun ip : nat * A => (ip, nth (fst ip) (pre ++ ss) d)) (indexed_from (length pre) l)
  = combine (indexed_from (length pre) l) ss.
Proof.
  unfold indexed_from.
  induction l as [|a l IH]; intros ss pre Hl; destruct ss as [|s ss]; cbn in Hl; try discriminate; cbn; auto.
  f_equal.
  - f_equal. rewrite app_nth2 by lia. now rewrite Nat.sub_diag.
  - specialize (IH ss (pre ++ [s])). rewrite app_length in IH. cbn in IH.
    rewrite Nat.add_1_r, <- app_assoc in IH. cbn in IH. apply IH. lia.
Qed.
Lemma indexed_nth {A} (d : nat) (l : list A) (ss : list nat) : length ss = length l ->
  map (fun ip : nat * A => (ip, nth (fst ip) ss d)) (indexed_from 0 l) = combine (indexed_from 0 l) ss.
Proof. intros H. apply (indexed_nth_gen d l ss [] H). Qed.

Definition zpixels (m : mask) (ss : list nat) : list (ipix * nat) := combine (ipixels m) ss.

(* a pixel loop whose body reads s = sub_size[index] is a fold over (index, (y, x), s) *)
Lemma pixel_loop_zip {St} (B : nat -> nat -> nat -> nat -> St -> St) m ss s0 :
  length ss = length (unmasked m) ->
  pixel_loop (fun y x index st => B y x index (nth index ss 0%nat) st) m s0
  = fold_left (fun st (z : ipix * nat) => B (fst (snd (fst z))) (snd (snd (fst z))) (fst (fst z)) (snd z) st) (zpixels m ss) s0.
Proof.
  intros H. rewrite pixel_loop_fold. unfold zpixels, ipixels. rewrite <- (indexed_nth 0%nat) by exact H.
  rewrite fold_left_map. reflexivity.
Qed.

Lemma map_fst_combine_indexed {A} (l : list A) k : map snd (indexed_from k l) = l.
Proof. unfold indexed_from. revert k. induction l; intros k; cbn; congruence. Qed.
Lemma map_fst_indexed {A} (l : list A) k : map fst (indexed_from k l) = seq k (length l).
Proof. unfold indexed_from. revert k. induction l; intros k; cbn; congruence. Qed.
Lemma indexed_from_length {A} (l : list A) k : length (indexed_from k l) = length l.
Proof. unfold indexed_from. rewrite combine_length, seq_length. lia. Qed.

Lemma combine_map_l {A B C} (f : A -> B) (l : list A) (r : list C) :
  combine (map f l) r = map (fun p => (f (fst p), snd p)) (combine l r).
Proof. revert r. induction l; intros [|c r]; cbn; auto. now rewrite IHl. Qed.

(* the (y,x) pixels zipped with their sub-size, from the triples *)
Lemma zpixels_pix m ss : map (fun z : ipix * nat => (snd (fst z), snd z)) (zpixels m ss) = combine (unmasked m) ss.
Proof.
  unfold zpixels, ipixels. rewrite <- (map_fst_combine_indexed (unmasked m) 0) at 2.
  rewrite combine_map_l. reflexivity.
Qed.
Lemma zpixels_idx m ss : length ss = length (unmasked m) ->
  map (fun z : ipix * nat => (fst (fst z), snd z)) (zpixels m ss) = combine (seq 0 (length ss)) ss.
Proof.
  intros H. unfold zpixels, ipixels. rewrite H, <- (map_fst_indexed (unmasked m) 0).
  rewrite combine_map_l. reflexivity.
Qed.
