(* C12 (continued) -- the index lists of derive_grid.edge / derive_grid.border are no longer arbitrary: they are C10's models of
   mask_2d_util.edge_1d_indexes_from / border_slim_indexes_from (Model/C10.v, theorems in Props/C10.v).  C10 proves that every
   such index is a valid slim index; here its slim order (filter over the row-major scan) is shown to be C12's double loop for
   rectangular masks, which discharges the index-bound hypothesis of C12_mask_grids_translate for these two entry points. *)
From Coq Require Import ZArith QArith List Bool Reals Lra Lia ZifyBool.
From PAV Require Import Base.Res Base.Check Base.NumOps Model.C12 Proofs.C12.
From PAV Require Model.C10 Proofs.C10 Proofs.C10b.
Import ListNotations.
Local Open Scope Z_scope.

Lemma filter_flat_map {A B} (f : B -> bool) (g : A -> list B) l : filter f (flat_map g l) = flat_map (fun x => filter f (g x)) l.
Proof. induction l as [|a l IH]; cbn; [reflexivity|]. rewrite filter_app, IH. reflexivity. Qed.
Lemma flat_map_map {A B C} (g : B -> list C) (h : A -> B) l : flat_map g (map h l) = flat_map (fun x => g (h x)) l.
Proof. induction l as [|a l IH]; cbn; [reflexivity|]. rewrite IH. reflexivity. Qed.

Lemma filter_map_ext2 {A B} (P Q : B -> bool) (f g : A -> B) l :
  (forall a, In a l -> f a = g a /\ P (f a) = Q (g a)) -> filter P (map f l) = filter Q (map g l).
Proof.
  induction l as [|a l IH]; intros H; [reflexivity|]. cbn [map filter].
  destruct (H a (or_introl eq_refl)) as [E1 E2]. rewrite E2, E1. rewrite IH by (intros x Hx; apply H; right; exact Hx). reflexivity.
Qed.

Lemma flat_map_ext_in' {A B} (f g : A -> list B) l : (forall a, In a l -> f a = g a) -> flat_map f l = flat_map g l.
Proof. induction l as [|a l IH]; intros H; cbn; [reflexivity|]. rewrite (H a (or_introl eq_refl)), IH by (intros x Hx; apply H; right; exact Hx). reflexivity. Qed.

(* C12's row loop as a filter over the column indices *)
Lemma row_unmasked_filter (r : list bool) (y : Z) : forall x0,
  row_unmasked r y x0 =
  filter (fun p => negb (nth (Z.to_nat (snd p - x0)) r true)) (map (fun j => (y, x0 + Z.of_nat j)) (seq 0 (length r))).
Proof.
  induction r as [|b t IH]; intros x0; [reflexivity|].
  assert (E : filter (fun p : Z * Z => negb (nth (Z.to_nat (snd p - x0)) (b :: t) true)) (map (fun j => (y, x0 + Z.of_nat j)) (seq 1 (length t)))
              = row_unmasked t y (x0 + 1)).
  { rewrite IH. rewrite <- seq_shift, map_map. apply filter_map_ext2. intros j _. split; [f_equal; lia|]. cbn [snd].
    replace (x0 + Z.of_nat (S j) - x0) with (Z.of_nat (S j)) by lia. replace (x0 + 1 + Z.of_nat j - (x0 + 1)) with (Z.of_nat j) by lia.
    rewrite !Nat2Z.id. reflexivity. }
  cbn [row_unmasked length seq map].
  set (P := fun p : Z * Z => negb (nth (Z.to_nat (snd p - x0)) (b :: t) true)) in *.
  cbn [filter]. rewrite E.
  assert (HP : P (y, x0 + Z.of_nat 0) = negb b).
  { unfold P. cbn [snd]. replace (x0 + Z.of_nat 0 - x0) with 0 by lia. reflexivity. }
  rewrite HP. destruct b; cbn [negb]; [reflexivity|]. f_equal. f_equal. lia.
Qed.

Lemma rows_unmasked_flat (m : mask) : forall y0,
  rows_unmasked m y0 = flat_map (fun i => row_unmasked (nth i m []) (y0 + Z.of_nat i) 0) (seq 0 (length m)).
Proof.
  induction m as [|r t IH]; intros y0; [reflexivity|]. cbn [rows_unmasked length seq flat_map nth].
  replace (y0 + Z.of_nat 0) with y0 by lia. f_equal. rewrite IH, <- seq_shift, flat_map_map.
  apply flat_map_ext. intros i. cbn [nth]. f_equal. lia.
Qed.

(* for a rectangular mask, C10's slim order (filter over the row-major scan) is C12's double loop *)
Theorem unmasked_is_C10 (m : mask) : Model.C10.rectb m = true -> unmasked m = Model.C10.unmasked_pixels m.
Proof.
  intros Hr. unfold unmasked, Model.C10.unmasked_pixels, Model.C10.scan, Model.C10.coords.
  rewrite rows_unmasked_flat, filter_flat_map. unfold Model.C10.zrange. rewrite flat_map_map.
  unfold Model.C10.shape0. rewrite !Z.sub_0_r, Nat2Z.id.
  apply flat_map_ext_in'. intros i Hi. apply in_seq in Hi.
  pose proof (Proofs.C10.rect_row m i Hr ltac:(lia)) as Hlen.
  rewrite row_unmasked_filter. rewrite <- Hlen, Nat2Z.id, map_map.
  apply filter_map_ext2. intros j Hj. split; [reflexivity|]. cbn [snd fst].
  unfold Model.C10.getp, Model.C10.get, Model.C10.norm. cbn [fst snd].
  destruct (0 + Z.of_nat i <? 0) eqn:E1; [lia|]. destruct (0 + Z.of_nat j <? 0) eqn:E2; [lia|].
  destruct (0 <=? 0 + Z.of_nat i) eqn:E3; [|lia]. destruct (0 <=? 0 + Z.of_nat j) eqn:E4; [|lia]. cbn [andb].
  rewrite !Z.add_0_l, Z.sub_0_r, !Nat2Z.id. reflexivity.
Qed.

(* ------------------------------------------------------------------ derive_grid.edge / derive_grid.border with C10's index lists *)
Lemma edge_sel_bound (m : mask) : Model.C10.rectb m = true -> Forall (fun i => (i < length (unmasked m))%nat) (edge_sel m).
Proof.
  intros Hr. unfold edge_sel. rewrite Forall_forall. intros i Hi. apply in_map_iff in Hi. destruct Hi as (k & <- & Hk).
  apply Proofs.C10b.edge_sound in Hk. destruct Hk as (Hk & _). unfold Proofs.C10b.nslim in Hk. rewrite <- unmasked_is_C10 in Hk by exact Hr.
  destruct Hk as [Hk0 Hk1]. apply Z2Nat.inj_lt in Hk1; [|exact Hk0|apply Nat2Z.is_nonneg]. rewrite Nat2Z.id in Hk1. exact Hk1.
Qed.
Lemma border_sel_bound (m : mask) : Model.C10.rectb m = true -> Forall (fun i => (i < length (unmasked m))%nat) (border_sel m).
Proof.
  intros Hr. unfold border_sel. rewrite Forall_forall. intros i Hi. apply in_map_iff in Hi. destruct Hi as (k & <- & Hk).
  apply Proofs.C10b.border_In in Hk. destruct Hk as (Hk & _).
  apply Proofs.C10b.edge_sound in Hk. destruct Hk as (Hk & _). unfold Proofs.C10b.nslim in Hk. rewrite <- unmasked_is_C10 in Hk by exact Hr.
  destruct Hk as [Hk0 Hk1]. apply Z2Nat.inj_lt in Hk1; [|exact Hk0|apply Nat2Z.is_nonneg]. rewrite Nat2Z.id in Hk1. exact Hk1.
Qed.

Local Open Scope R_scope.
Lemma from_mask_length (M : RM) : length (from_mask M) = length (unmasked (mk M)).
Proof. unfold from_mask, grid_via_mask. apply map_length. Qed.

Theorem derive_grid_edge_translates (d : RP) (M : RM) : Model.C10.rectb (mk M) = true -> fst (mps M) <> 0 -> snd (mps M) <> 0 ->
  derive_grid_sel edge_sel (translate d M) = shift d (derive_grid_sel edge_sel M).
Proof.
  intros Hr A B. apply derive_grid_sel_translates; [split; assumption|]. rewrite from_mask_length. apply edge_sel_bound. exact Hr.
Qed.
Theorem derive_grid_border_translates (d : RP) (M : RM) : Model.C10.rectb (mk M) = true -> fst (mps M) <> 0 -> snd (mps M) <> 0 ->
  derive_grid_sel border_sel (translate d M) = shift d (derive_grid_sel border_sel M).
Proof.
  intros Hr A B. apply derive_grid_sel_translates; [split; assumption|]. rewrite from_mask_length. apply border_sel_bound. exact Hr.
Qed.
(* ... and they are selections from the origin-free grid + origin *)
Theorem derive_grid_sel_spec (sel : mask -> list nat) (M : RM) : fst (mps M) <> 0 -> snd (mps M) <> 0 ->
  derive_grid_sel sel M = gather zpt (shift (morg M) (rel_grid (mk M) (mps M))) (sel (mk M)).
Proof. intros A B. unfold derive_grid_sel. rewrite from_mask_spec by (split; assumption). reflexivity. Qed.
