(* C11s -- PART E of C11: argument objects with optional fields that are SHARED between calls.

   autoarray/dataset/imaging/dataset.py, interferometer/dataset.py, abstract/dataset.py:
     Imaging(..., over_sampling = OverSamplingDataset())          the dataset KEEPS the object it is given; when the argument is
                                                                  omitted that object is the signature's default instance, one per
                                                                  signature, shared by every call
     ds.apply_over_sampling(over_sampling = OverSamplingDataset())
         uniform = over_sampling.uniform or self.over_sampling.uniform        (idem non_uniform, pixelization)
         over_sampling = OverSamplingDataset(uniform=uniform, ...)            a NEW record
         return Imaging(..., over_sampling=over_sampling)
     ds.apply_mask / apply_noise_scaling / trimmed_after_convolution_from     Imaging(..., over_sampling=self.over_sampling)

   A record is a list of fields; a field is 0 (None) or k > 0 (an over-sampling object of sub-size k: immutable).  The machine has a
   heap of records; the policy flag says whether apply_over_sampling fills the missing fields of the record it RECEIVED (and hands
   that record to the new dataset) or builds a new record (the code).  The specification is the value semantics: records are
   values, the default instances are the constant empty record.  Executable definitions only. *)
From Coq Require Import ZArith List Bool Lia.
From PAV Require Import Base.Res Base.Check Model.C11.
Import ListNotations.
Local Open Scope Z_scope.

Definition orz (a b : Z) : Z := if a =? 0 then b else a.            (* Python `a or b` on a field *)
Fixpoint merge (a d : arr) : arr :=
  match a, d with
  | x :: ta, y :: td => orz x y :: merge ta td
  | _, _ => []
  end.
Definition empty_rec : arr := [0; 0; 0].

Inductive sop :=
| HArg (r : arr)                          (* the caller builds OverSamplingDataset(uniform=.., non_uniform=.., pixelization=..) *)
| HDs (cls : nat) (a : option nat)        (* class cls (0 Imaging, 1 Interferometer) built with argument a | with the argument omitted *)
| HApply (d : nat) (a : option nat)       (* datasets[d].apply_over_sampling(argument a | omitted) *)
| HKeep (d : nat)                         (* datasets[d].apply_mask(..) / apply_noise_scaling(..) / trimmed..: over_sampling=self.over_sampling *)
| HPeekArg (i : nat)                      (* the caller looks at its argument object *)
| HPeekDs (d : nat)                       (* ... at the over_sampling of a dataset *)
| HPeekDefault (w : nat).                 (* ... at a default instance: 2 cls = the constructor's, 2 cls + 1 = apply_over_sampling's *)

Record hstate := mkH { h_heap : heap; h_args : list cell; h_dss : list (nat * cell) }.
(* cells 0..3: the default instances of the four signatures *)
Definition hst0 : hstate := mkH [empty_rec; empty_rec; empty_rec; empty_rec] [] [].
Definition ndefaults : nat := 4.

Definition hstep (inplace : bool) (st : hstate) (o : sop) : hstate * obs :=
  let h := h_heap st in
  match o with
  | HArg r => let '(h1, c) := halloc h r in (mkH h1 (h_args st ++ [c]) (h_dss st), Ok r)
  | HDs cls a =>
      if Nat.ltb cls 2 then
        match (match a with Some i => nth_error (h_args st) i | None => Some (2 * cls)%nat end) with
        | Some c => (mkH h (h_args st) (h_dss st ++ [(cls, c)]), Ok (hget h c))
        | None => (st, bad)
        end
      else (st, bad)
  | HApply d a =>
      match nth_error (h_dss st) d with
      | Some (cls, dc) =>
          match (match a with Some i => nth_error (h_args st) i | None => Some (2 * cls + 1)%nat end) with
          | Some ac =>
              let v := merge (hget h ac) (hget h dc) in
              if inplace then (mkH (hset h ac v) (h_args st) (h_dss st ++ [(cls, ac)]), Ok v)
              else let '(h1, c) := halloc h v in (mkH h1 (h_args st) (h_dss st ++ [(cls, c)]), Ok v)
          | None => (st, bad)
          end
      | None => (st, bad)
      end
  | HKeep d =>
      match nth_error (h_dss st) d with
      | Some (cls, dc) => (mkH h (h_args st) (h_dss st ++ [(cls, dc)]), Ok (hget h dc))
      | None => (st, bad)
      end
  | HPeekArg i => match nth_error (h_args st) i with Some c => (st, Ok (hget h c)) | None => (st, bad) end
  | HPeekDs d => match nth_error (h_dss st) d with Some (_, c) => (st, Ok (hget h c)) | None => (st, bad) end
  | HPeekDefault w => if Nat.ltb w ndefaults then (st, Ok (hget h w)) else (st, bad)
  end.

(* names the caller can look at: default instance w -> w; argument i -> 4 + 2 i; dataset d -> 5 + 2 d *)
Definition hnames (st : hstate) : list (nat * cell) :=
  map (fun w => (w, w)) (seq 0 ndefaults)
  ++ map (fun ic => ((4 + 2 * fst ic)%nat, snd ic)) (indexed 0 (h_args st))
  ++ map (fun ic => ((5 + 2 * fst ic)%nat, snd (snd ic))) (indexed 0 (h_dss st)).
(* names bound before the step whose record is different after it, with the new record *)
Definition hchanges (st st' : hstate) : list (nat * arr) :=
  flat_map (fun nc => if arr_eqb (hget (h_heap st) (snd nc)) (hget (h_heap st') (snd nc)) then []
                      else [(fst nc, hget (h_heap st') (snd nc))]) (hnames st).

Fixpoint htrace (inplace : bool) (st : hstate) (ops : list sop) : list (obs * list (nat * arr)) :=
  match ops with
  | [] => []
  | o :: t => let '(st1, ob) := hstep inplace st o in (ob, hchanges st st1) :: htrace inplace st1 t
  end.
Definition hobservations (inplace : bool) (ops : list sop) : list obs := map fst (htrace inplace hst0 ops).

(* ---- specification: records are values *)
Record vstate := mkV { v_args : list arr; v_dss : list arr }.
Definition vst0 : vstate := mkV [] [].
Definition vstep (sp : vstate) (o : sop) : vstate * obs :=
  match o with
  | HArg r => (mkV (v_args sp ++ [r]) (v_dss sp), Ok r)
  | HDs cls a =>
      if Nat.ltb cls 2 then
        match (match a with Some i => nth_error (v_args sp) i | None => Some empty_rec end) with
        | Some r => (mkV (v_args sp) (v_dss sp ++ [r]), Ok r)
        | None => (sp, bad)
        end
      else (sp, bad)
  | HApply d a =>
      match nth_error (v_dss sp) d with
      | Some dr =>
          match (match a with Some i => nth_error (v_args sp) i | None => Some empty_rec end) with
          | Some ar => let v := merge ar dr in (mkV (v_args sp) (v_dss sp ++ [v]), Ok v)
          | None => (sp, bad)
          end
      | None => (sp, bad)
      end
  | HKeep d => match nth_error (v_dss sp) d with Some dr => (mkV (v_args sp) (v_dss sp ++ [dr]), Ok dr) | None => (sp, bad) end
  | HPeekArg i => match nth_error (v_args sp) i with Some r => (sp, Ok r) | None => (sp, bad) end
  | HPeekDs d => match nth_error (v_dss sp) d with Some r => (sp, Ok r) | None => (sp, bad) end
  | HPeekDefault w => if Nat.ltb w ndefaults then (sp, Ok empty_rec) else (sp, bad)
  end.
Fixpoint vrun (sp : vstate) (ops : list sop) : list obs :=
  match ops with
  | [] => []
  | o :: t => let '(sp1, ob) := vstep sp o in ob :: vrun sp1 t
  end.
Definition vobservations (ops : list sop) : list obs := vrun vst0 ops.

(* ---- correspondence: a run on the real datasets.  [out]: per step, the over-sampling record of what the step returned (or looked
   at), and the names (default instances, the caller's argument objects, datasets) whose record differs from the one they held
   before the step, with the new record *)
Definition schange_eqb : nat * arr -> nat * arr -> bool := prod_eqb Nat.eqb arr_eqb.
Definition share_agree (ops : list sop) (out : list (obs * list (nat * arr))) : bool :=
  all2 (fun m i => obs_eqb (fst m) (fst i) && list_eqb schange_eqb (snd m) (snd i)) (htrace false hst0 ops) out.
Definition share_spec_ok (ops : list sop) (out : list (obs * list (nat * arr))) : bool :=
  all2 (fun s i => obs_eqb s (fst i) && is_nil (snd i)) (vobservations ops) out.
