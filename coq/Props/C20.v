(* C20 -- statements only. *)
From Coq Require Import ZArith List Bool Reals.
From PAV Require Import Base.Res Base.NumOps Model.C20 Proofs.C20.
Import ListNotations.

Theorem C20_count_quadruples : forall (ts : list (@tri ROps)),
  length (up_sample_triangles ts) = (4 * length ts)%nat.
Proof. exact (@up_sample_length ROps). Qed.

Print Assumptions C20_count_quadruples.
