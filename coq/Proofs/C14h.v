(* C14 -- part 8: Imaging.apply_mask applied repeatedly: every mask is applied to the ORIGINAL unmasked data
   (`self.unmasked`), also after the automatic padding and after trimming the padded dataset back. *)
From Coq Require Import ZArith List Bool Lia.
From PAV Require Import Base.Res Base.Check Base.NumOps Model.C14 Model.C14g
     Proofs.C14 Proofs.C14b Proofs.C14c Proofs.C14d Proofs.C14e.
Import ListNotations.
Local Open Scope Z_scope.

Lemma all_false_const {B} (data : list (list B)) : all_false (map (map (fun _ => false)) data) = true.
Proof.
  unfold all_false. apply forallb_forall. intros row Hr. apply in_map_iff in Hr. destruct Hr as (r & <- & _).
  apply forallb_forall. intros b Hb. apply in_map_iff in Hb. destruct Hb as (x & <- & _). reflexivity.
Qed.

Lemma all_false_get (m : list (list bool)) H W i j :
  rectb H W m = true -> 0 < H -> all_false m = true -> 0 <= i < H -> 0 <= j < W -> zget2 true m i j = false.
Proof.
  intros HB HP HA Hi Hj. pose proof (rectb_W_nonneg _ _ _ HB HP) as HW. destruct (rectb_Rect _ _ _ HB HW) as [HL HC].
  unfold all_false in HA. rewrite forallb_forall in HA.
  assert (IR : In (nth (Z.to_nat i) m []) m) by (apply nth_In; lia). specialize (HA _ IR). rewrite forallb_forall in HA.
  assert (IX : In (nth (Z.to_nat j) (nth (Z.to_nat i) m []) true) (nth (Z.to_nat i) m [])) by (apply nth_In; rewrite HC; lia).
  specialize (HA _ IX). unfold zget2, get2. now apply negb_true_iff in HA.
Qed.

Section Chain.
  Context {B : Type} (zero : B).

  (* an all-False mask masks nothing *)
  Lemma mask_apply_all_false (data : list (list B)) (m : list (list bool)) H W :
    rectb H W data = true -> rectb H W m = true -> 0 < H -> all_false m = true -> mask_apply zero data m = Ok data.
  Proof.
    intros HD HM HP HA. pose proof (Entries_self zero _ _ _ HD HP) as XD. pose proof (Entries_self true _ _ _ HM HP) as XM.
    destruct (mask_apply_entries zero data m H W _ _ XD XM) as (d & -> & YD). f_equal.
    apply (Entries_ext zero _ _ _ _ _ _ YD XD). intros i j Hi Hj. unfold masked_fun.
    rewrite (all_false_get m H W i j HM HP HA Hi Hj). reflexivity.
  Qed.
  Lemma zip_mask_all_false (data : list (list B)) (m : list (list bool)) H W :
    rectb H W data = true -> rectb H W m = true -> 0 < H -> all_false m = true -> zip_mask zero data m = data.
  Proof.
    intros HD HM HP HA. pose proof (Entries_self zero _ _ _ HD HP) as XD. pose proof (Entries_self true _ _ _ HM HP) as XM.
    apply (Entries_ext zero _ _ _ _ _ _ (zip_mask_entries zero _ _ _ _ _ _ XD XM) XD). intros i j Hi Hj. unfold masked_fun.
    rewrite (all_false_get m H W i j HM HP HA Hi Hj). reflexivity.
  Qed.

  (* a mask that was padded (the blurring region left the frame) has a masked border: it is not all False *)
  Lemma padded_mask_not_all_false (m : list (list bool)) H W k :
    rectb H W m = true -> 0 < H -> odd_kernel k = true -> blurring_raises m k = true ->
    all_false (resize_spec true m (H + (fst k - 1)) (W + (snd k - 1))) = false.
  Proof.
    intros HM HP HK EB. rewrite (blurring_raises_iff m H W k HM HP HK) in EB. apply negb_true_iff in EB.
    destruct k as [k0 k1]. unfold odd_kernel in HK. cbn [fst snd] in *. boolp.
    pose proof (Entries_self true _ _ _ HM HP) as XM. pose proof (rectb_W_nonneg _ _ _ HM HP) as HW.
    (* some unmasked pixel's footprint leaves the frame: the frame has a column and the kernel is not 1 x 1 *)
    assert (NE : 0 < W /\ (1 < k0 \/ 1 < k1)).
    { unfold footprint_inside in EB. cbn [fst snd] in EB.
      destruct (forallb _ (unmasked_coords m)) eqn:EF; [discriminate|]. clear EB.
      assert (EX : exists p, In p (unmasked_coords m) /\
                 ((k0 - 1) / 2 <=? fst p) && (fst p + (k0 - 1) / 2 <? nrows m) && ((k1 - 1) / 2 <=? snd p) && (snd p + (k1 - 1) / 2 <? ncols m) = false).
      { clear -EF. induction (unmasked_coords m) as [|p t IH]; [discriminate|]. cbn [forallb] in EF.
        apply andb_false_iff in EF. destruct EF as [E | E]; [exists p; split; [left; reflexivity | exact E]|].
        destruct (IH E) as (q & Hq & Eq). exists q. split; [right; exact Hq | exact Eq]. }
      destruct EX as ([py px] & Hin & EQ). apply (In_unmasked _ _ _ _ _ _ XM) in Hin. destruct Hin as (Y & X & _).
      destruct (Entries_shape _ _ _ _ XM HP) as [S0 S1]. rewrite S0, S1 in EQ. cbn [fst snd] in EQ.
      split; [lia|]. destruct (Z.eq_dec k0 1) as [-> | N0]; [|left; lia]. destruct (Z.eq_dec k1 1) as [-> | N1]; [|right; lia].
      exfalso. change ((1 - 1) / 2) with 0 in EQ. rewrite !Z.add_0_r in EQ.
      destruct (Z.leb_spec 0 py), (Z.ltb_spec py H), (Z.leb_spec 0 px), (Z.ltb_spec px W); cbn [andb] in EQ; try discriminate; lia. }
    destruct NE as [WP KK].
    set (r0 := H + (k0 - 1)). set (r1 := W + (k1 - 1)).
    destruct (all_false (resize_spec true m r0 r1)) eqn:EA; [|reflexivity]. exfalso.
    pose proof (resize_spec_entries true m H W _ r0 r1 XM ltac:(unfold r0; lia) ltac:(unfold r1; lia)) as XR.
    pose proof XR as (_ & _ & RR & HG).
    assert (RB : rectb r0 r1 (resize_spec true m r0 r1) = true) by (apply Rect_rectb; [unfold r0; lia | unfold r1; lia | exact RR]).
    pose proof (all_false_get _ r0 r1 0 0 RB ltac:(unfold r0; lia) EA ltac:(unfold r0; lia) ltac:(unfold r1; lia)) as G0.
    rewrite (HG 0 0 true ltac:(unfold r0; lia) ltac:(unfold r1; lia)) in G0. unfold resized_fun, inr in G0.
    assert (C0 : k0 - 1 = 2 * ((k0 - 1) / 2))
      by (match goal with HO : Z.odd k0 = true |- _ => rewrite Z.odd_spec in HO; destruct HO as [q ->]; zdiv end).
    assert (C1 : k1 - 1 = 2 * ((k1 - 1) / 2))
      by (match goal with HO : Z.odd k1 = true |- _ => rewrite Z.odd_spec in HO; destruct HO as [q ->]; zdiv end).
    assert (D0 : H / 2 - r0 / 2 = - ((k0 - 1) / 2)) by (unfold r0; zdiv).
    assert (D1 : W / 2 - r1 / 2 = - ((k1 - 1) / 2)) by (unfold r1; zdiv).
    rewrite D0, D1 in G0.
    destruct (Z.leb_spec 0 (0 + - ((k0 - 1) / 2))), (Z.leb_spec 0 (0 + - ((k1 - 1) / 2))); cbn [andb] in G0;
      try discriminate; rewrite ?andb_false_r in G0; try discriminate.
    destruct KK; zdiv.
  Qed.

  Definition psf_ok (psf : option (Z * Z)) : Prop := match psf with Some k => odd_kernel k = true | None => True end.

  (* apply_mask on the dataset the user built: the mask goes onto the given data *)
  Lemma dset_apply_fresh (data noise : list (list B)) m psf :
    dset_apply_mask zero (dset_new data noise) m psf
    = bind (imaging_apply_mask zero data noise m psf) (fun '(d', n') => Ok (d', n', Some (data, noise))).
  Proof. unfold dset_apply_mask, dset_new. cbn [fst snd]. rewrite all_false_const. reflexivity. Qed.

  (* what a masked dataset looks like: either unpadded on the given mask, or padded *)
  Lemma apply_mask_shape (data noise : list (list B)) (m : list (list bool)) H W psf :
    rectb H W data = true -> rectb H W noise = true -> rectb H W m = true -> 0 < H -> psf_ok psf ->
    exists d n, mask_apply zero data m = Ok d /\ mask_apply zero noise m = Ok n /\
      (imaging_apply_mask zero data noise m psf = Ok ((d, m), (n, m)) \/
       exists k pd pn, psf = Some k /\ blurring_raises m k = true /\
         imaging_apply_mask zero data noise m psf = Ok (pd, pn) /\
         snd pd = resize_spec true m (H + (fst k - 1)) (W + (snd k - 1))).
  Proof.
    intros HD HN HM HP HK.
    pose proof (Entries_self zero _ _ _ HD HP) as XD. pose proof (Entries_self zero _ _ _ HN HP) as XN.
    pose proof (Entries_self true _ _ _ HM HP) as XM.
    destruct (mask_apply_entries zero data m H W _ _ XD XM) as (d & ED & YD).
    destruct (mask_apply_entries zero noise m H W _ _ XN XM) as (n & EN & YN).
    exists d, n. split; [exact ED|]. split; [exact EN|].
    unfold imaging_apply_mask. rewrite ED, EN. cbn [bind].
    destruct psf as [[k0 k1]|]; [|left; reflexivity].
    destruct (blurring_raises m (k0, k1)) eqn:EB; [|left; reflexivity].
    right. unfold psf_ok, odd_kernel in HK. cbn [fst snd] in HK. boolp. pose proof (rectb_W_nonneg _ _ _ HM HP) as HW.
    assert (PD : properA H W (d, m)) by (split; [destruct YD as (_ & _ & RD & _); apply Rect_rectb; [lia | lia | exact RD] | split; assumption]).
    assert (PN : properA H W (n, m)) by (split; [destruct YN as (_ & _ & RN & _); apply Rect_rectb; [lia | lia | exact RN] | split; assumption]).
    rewrite (padded_is_spec zero (d, m) H W k0 k1 1 PD ltac:(lia) ltac:(lia)).
    rewrite (padded_is_spec zero (n, m) H W k0 k1 1 PN ltac:(lia) ltac:(lia)). cbn [bind].
    eexists (k0, k1), _, _. split; [reflexivity|]. split; [exact EB|]. split; [reflexivity|]. reflexivity.
  Qed.

  (* MAIN: masking a masked dataset again applies the new mask to the original unmasked data: the result is what
     apply_mask on the unmasked dataset gives, whatever the first mask was and whether or not it made the data padded *)
  Lemma apply_mask_twice (data noise : list (list B)) (m1 m2 : list (list bool)) H W psf :
    rectb H W data = true -> rectb H W noise = true -> rectb H W m1 = true -> 0 < H -> psf_ok psf ->
    bind (dset_apply_mask zero (dset_new data noise) m1 psf) (fun s1 => dset_apply_mask zero s1 m2 psf)
    = dset_apply_mask zero (dset_new data noise) m2 psf.
  Proof.
    intros HD HN HM HP HK. rewrite !dset_apply_fresh.
    destruct (apply_mask_shape data noise m1 H W psf HD HN HM HP HK) as (d & n & ED & EN & [E | (k & pd & pn & -> & EB & E & EM)]).
    - rewrite E. cbn [bind]. unfold dset_apply_mask. cbn [fst snd].
      destruct (all_false m1) eqn:EA; [|reflexivity].
      rewrite (mask_apply_all_false data m1 H W HD HM HP EA) in ED. rewrite (mask_apply_all_false noise m1 H W HN HM HP EA) in EN.
      inversion ED. inversion EN. subst. reflexivity.
    - rewrite E. cbn [bind]. unfold dset_apply_mask. rewrite EM.
      rewrite (padded_mask_not_all_false m1 H W k HM HP HK EB). reflexivity.
  Qed.

  (* the same when the padded dataset is first trimmed back with AbstractDataset.trimmed_after_convolution_from *)
  Lemma apply_mask_trim_apply_mask (data noise : list (list B)) (m1 m2 : list (list bool)) H W k :
    rectb H W data = true -> rectb H W noise = true -> rectb H W m1 = true -> 0 < H -> odd_kernel k = true ->
    blurring_raises m1 k = true ->
    bind (dset_apply_mask zero (dset_new data noise) m1 (Some k)) (fun s1 =>
    bind (dset_trimmed zero s1 k) (fun s2 => dset_apply_mask zero s2 m2 (Some k)))
    = dset_apply_mask zero (dset_new data noise) m2 (Some k).
  Proof.
    intros HD HN HM HP HK EB. rewrite !dset_apply_fresh.
    pose proof (apply_mask_then_trim_id zero data noise m1 H W k HD HN HM HP HK EB) as TR.
    destruct (imaging_apply_mask zero data noise m1 (Some k)) as [[d1 n1]|e]; [|discriminate TR].
    cbn [bind] in *. unfold dset_trimmed. rewrite TR. cbn [bind]. unfold dset_apply_mask. cbn [fst snd].
    destruct (all_false m1) eqn:EA; [|reflexivity].
    rewrite (zip_mask_all_false data m1 H W HD HM HP EA), (zip_mask_all_false noise m1 H W HN HM HP EA). reflexivity.
  Qed.
End Chain.
