(* C08 -- numpy glue shared by the hand model (Model/C08.v) and the code generated from
   autoarray/fit/fit_util.py by py2v/gen_fit.py (Gen/Gen_fit.v).  Executable definitions only. *)
From Coq Require Import List Bool Arith.
Import ListNotations.

(* ------------------------------------------------------------------ list helpers (numpy glue) *)
Section Lists.
  Context {A B C : Type}.
  (* a (op) b, element-wise *)
  Fixpoint map2 (f : A -> B -> C) (l1 : list A) (l2 : list B) : list C :=
    match l1, l2 with
    | a :: t1, b :: t2 => f a b :: map2 f t1 t2
    | _, _ => []
    end.
  (* np.<op>(a, b, out=np.zeros_like(a), where=np.asarray(mask) == 0) *)
  Fixpoint map2w (dflt : C) (f : A -> B -> C) (mask : list bool) (l1 : list A) (l2 : list B) : list C :=
    match mask, l1, l2 with
    | m :: tm, a :: t1, b :: t2 => (if m then dflt else f a b) :: map2w dflt f tm t1 t2
    | _, _, _ => []
    end.
  (* a[np.asarray(mask) == 0] *)
  Fixpoint select (mask : list bool) (l : list A) : list A :=
    match mask, l with
    | m :: tm, a :: t => if m then select tm t else a :: select tm t
    | _, _ => []
    end.
  (* np.delete(a, idxs, axis) along the leading axis: drop the positions listed in idxs *)
  Fixpoint delete_from (k : nat) (idxs : list nat) (l : list A) : list A :=
    match l with
    | [] => []
    | a :: t => if existsb (Nat.eqb k) idxs then delete_from (S k) idxs t else a :: delete_from (S k) idxs t
    end.
  Definition np_delete (idxs : list nat) (l : list A) : list A := delete_from 0 idxs l.
End Lists.

