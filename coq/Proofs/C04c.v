(* C04, part 3 -- (1) mapped_reconstructed_data is ONE sum over all parameters: (stacked operated matrix) . r, for both classes;
   (2) the cached properties of one instance read in any order any number of times (heap cells; curvature_reg_matrix's in-place
       addition and `del`): every read returns the pure value; without the `del` it does not;
   (3) the w_tilde object handed over separately (dataset.w_tilde / preloads.w_tilde / DatasetInterface.w_tilde): the data vector is
       that of the data PASSED IN whatever object is handed over, check_noise_map, the factory's class choice as a total function and
       "the values do not depend on it". *)
From Coq Require Import ZArith Reals Lra Lia List Bool Arith ZifyBool.
From PAV Require Import Base.Res Base.NumOps Base.Sum Model.C03 Model.C03Lib Model.C04 Model.C04Lib.
From PAV Require Proofs.C03.
From PAV Require Import Proofs.C04 Proofs.C04b.
Import ListNotations.
Local Open Scope R_scope.
Module P3 := PAV.Proofs.C03.

(* ================================================================== 1. mapped_reconstructed_data = (stacked B) r *)
Lemma vadd_length (a b : list R) n : length a = n -> length b = n -> length (@vadd ROps a b) = n.
Proof. intros Ha Hb. unfold vadd. rewrite map_length, combine_length. rfix. lia. Qed.
Lemma nth_vadd (a b : list R) n i : length a = n -> length b = n -> (i < n)%nat ->
  nth i (@vadd ROps a b) 0 = nth i a 0 + nth i b 0.
Proof.
  intros Ha Hb Hi. unfold vadd.
  rewrite (P3.nth_map_lt _ _ _ (0, 0)) by (rewrite combine_length; rfix; lia).
  rewrite combine_nth by (rfix; lia). reflexivity.
Qed.
Lemma fold_vadd_nth n i (vs : list (list R)) : forall acc, length acc = n -> (forall v, In v vs -> length v = n) -> (i < n)%nat ->
  length (fold_left (@vadd ROps) vs acc) = n /\
  nth i (fold_left (@vadd ROps) vs acc) 0 = nth i acc 0 + sumR (map (fun v => nth i v 0) vs).
Proof.
  induction vs as [|v t IH]; intros acc Hacc Hvs Hi; cbn [fold_left map sumR].
  - split; [exact Hacc | lra].
  - assert (Hv : length v = n) by (apply Hvs; now left).
    destruct (IH (@vadd ROps acc v)) as [HL HN]; auto.
    + now apply vadd_length.
    + intros w Hw. apply Hvs. now right.
    + split; [exact HL|]. rewrite HN, (nth_vadd acc v n) by auto. rfix. lra.
Qed.
Lemma vsum_nth n i (vs : list (list R)) : (forall v, In v vs -> length v = n) -> (i < n)%nat ->
  nth i (@vsum ROps n vs) 0 = sumR (map (fun v => nth i v 0) vs).
Proof.
  intros Hvs Hi. unfold vsum. destruct (fold_vadd_nth n i vs (@zeros ROps n)) as [_ H]; auto.
  - unfold zeros. apply repeat_length.
  - rewrite H, nth_zeros_R. rfix. lra.
Qed.

(* row i of the stacked matrix is the concatenation of the objects' rows *)
Lemma op_matrix_row (c : @convolver ROps) objs n i : (i < n)%nat ->
  nth i (op_matrix c objs n) [] = concat (map (fun o => nth i (opmat c o) []) objs).
Proof.
  intros Hi. unfold op_matrix, hstack. rewrite (nth_map_seq _ n i) by exact Hi. now rewrite map_map.
Qed.

Lemma seq_split a p q : seq a (p + q) = seq a p ++ seq (a + p) q.
Proof. apply seq_app. Qed.

(* the sum over the objects of (object's matrix) . (object's slice) is the one sum over all parameters *)
Lemma stacked_product (c : @convolver ROps) n i : (i < n)%nat -> forall objs (r : list R),
  (forall o, In o objs -> shape n (params o) (opmat c o)) -> length r = tp objs ->
  sumR (map (fun orr => nth i (@mapped_via_matrix ROps (opmat c (fst orr)) (snd orr)) 0) (combine objs (@slices ROps objs r))) =
  sumR (map (fun a => nth a (concat (map (fun o => nth i (opmat c o) []) objs)) 0 * nth a r 0) (seq 0 (tp objs))).
Proof.
  intros Hi. induction objs as [|o t IH]; intros r Hsh Hr.
  - reflexivity.
  - cbn [slices combine map sumR concat fst snd]. rewrite tp_cons in *.
    assert (Ho : shape n (params o) (opmat c o)) by (apply Hsh; now left).
    destruct Ho as [HL HR]. pose proof (HR i Hi) as Hrow.
    rewrite seq_split, map_app, sumR_app. f_equal.
    + (* the object's own block *)
      rewrite mapped_via_matrix_spec by (rfix; lia).
      rewrite firstn_length, Nat.min_l by (rfix; lia).
      apply sumR_map_ext. intros a Ha. apply in_seq in Ha.
      rewrite app_nth1 by lia. rewrite nth_firstn_lt by lia. rewrite mget_R. reflexivity.
    + (* the remaining objects, shifted by params o *)
      rewrite IH; [| intros o' Ho'; apply Hsh; now right | rewrite skipn_length; rfix; lia].
      rewrite (seq_shift_add (0 + params o)), map_map. apply sumR_map_ext. intros b Hb.
      rewrite app_nth2 by lia. rewrite nth_skipn_add. f_equal; f_equal; lia.
Qed.

(* InversionImagingMapping.mapped_reconstructed_data, pixel i: ONE sum over all parameters of the stacked operated matrix *)
Theorem mapped_mapping_is_stacked (c : @convolver ROps) objs n (r : list R) i :
  (forall o, In o objs -> shape n (params o) (opmat c o)) -> length r = tp objs -> (i < n)%nat ->
  nth i (@mapped_mapping ROps c objs n r) 0 =
  sumR (map (fun a => mget (op_matrix c objs n) i a * nth a r 0) (seq 0 (tp objs))).
Proof.
  intros Hsh Hr Hi. unfold mapped_mapping. rewrite vsum_nth; auto.
  - rewrite map_map. cbv beta. etransitivity; [exact (stacked_product c n i Hi objs r Hsh Hr)|].
    apply sumR_map_ext. intros a _. rewrite mget_R, op_matrix_row by exact Hi. reflexivity.
  - intros v Hv. apply in_map_iff in Hv. destruct Hv as [[o rs] [<- Hin]]. cbn [fst snd].
    destruct (slices_lengths objs r o rs Hr Hin) as [Ho _]. rewrite mapped_via_matrix_length. apply (Hsh o Ho).
Qed.

Lemma wf_obj_shape (c : @convolver ROps) n o : wf_obj c n o -> shape n (params o) (opmat c o).
Proof. intros (_ & H & _). exact H. Qed.

Section MappedFull.
  Variables (m : mask) (K : RK) (c : @convolver ROps).
  Hypothesis Hrect : rectb m = true.
  Hypothesis Hc : @convolver_init ROps m K = Ok c.
  Notation n := (length (unmasked m)).
  (* InversionImagingWTilde.mapped_reconstructed_data (unique mappings, then convolve_image_no_blurring; function lists by
     np.sum(reconstruction * operated_mapping_matrix, axis=1)) is the same single sum *)
  Theorem mapped_wt_is_stacked objs (r : list R) i :
    (forall o, In o objs -> wf_obj c n o) -> length r = tp objs -> (i < n)%nat ->
    nth i (@mapped_wt ROps c objs n r) 0 =
    sumR (map (fun a => mget (op_matrix c objs n) i a * nth a r 0) (seq 0 (tp objs))).
  Proof.
    intros Hwf Hr Hi. rewrite (mapped_wt_eq_mapped_mapping m K c Hrect Hc objs r Hwf Hr).
    apply mapped_mapping_is_stacked; auto. intros o Ho. apply wf_obj_shape. now apply Hwf.
  Qed.
End MappedFull.

(* ================================================================== 2. cached properties read in any order *)
Section Reads.
  Variables (objs : list (@lobj ROps)) (Bv : @mat ROps) (Dv : list R) (Fv H : @mat ROps).
  Definition FRv : @mat ROps := if existsb (@has_reg ROps) objs then @madd ROps Fv H else Fv.
  (* the cached curvature_matrix array holds F, the cached curvature_reg_matrix array holds F + H (F without regularization) *)
  Definition cells_ok (st : @istate ROps) : Prop :=
    (forall c, i_F st = Some c -> (c < length (i_heap st))%nat /\ hcell (i_heap st) c = Fv) /\
    (forall c, i_FR st = Some c -> (c < length (i_heap st))%nat /\ hcell (i_heap st) c = FRv).

  Lemma hcell_app_old (h : list (@mat ROps)) x c : (c < length h)%nat -> hcell (h ++ [x]) c = hcell h c.
  Proof. intros Hc. unfold hcell. now rewrite app_nth1. Qed.
  Lemma hcell_app_new (h : list (@mat ROps)) x : hcell (h ++ [x]) (length h) = x.
  Proof. unfold hcell. rewrite app_nth2 by lia. now rewrite Nat.sub_diag. Qed.

  Lemma read_F_ok st : cells_ok st ->
    let '(st1, c) := read_F Fv st in
    cells_ok st1 /\ (c < length (i_heap st1))%nat /\ hcell (i_heap st1) c = Fv /\ i_F st1 = Some c /\ i_FR st1 = i_FR st.
  Proof.
    intros [HF HR]. unfold read_F. destruct (i_F st) as [c|] eqn:EF; cbv beta iota.
    - destruct (HF c eq_refl) as [Hc Hv]. split; [split; [intros c' E'; apply HF; congruence | exact HR]|].
      repeat split; auto.
    - split; [split|]; cbn [i_heap i_F i_FR].
      + intros c' E'. injection E' as <-. rewrite app_length. cbn [length]. split; [lia | apply hcell_app_new].
      + intros c' E'. destruct (HR c' E') as [Hc' Hv']. rewrite app_length. cbn [length]. split; [lia|].
        now rewrite hcell_app_old.
      + rewrite app_length. cbn [length]. split; [lia|]. split; [apply hcell_app_new|]. split; reflexivity.
  Qed.

  Lemma hcell_upd_same (h : list (@mat ROps)) c x : (c < length h)%nat -> hcell (upd_set h c x) c = x.
  Proof. intros Hc. unfold hcell. rewrite nth_upd_set by exact Hc. now rewrite Nat.eqb_refl. Qed.

  (* with the `del` (entry_deleted = true) *)
  Lemma read_FR_ok st : cells_ok st ->
    let '(st1, c) := read_FR true objs Fv H st in
    cells_ok st1 /\ (c < length (i_heap st1))%nat /\ hcell (i_heap st1) c = FRv.
  Proof.
    intros Hok. unfold read_FR. destruct (i_FR st) as [c|] eqn:ER; cbv beta iota.
    - pose proof Hok as [HF HR]. destruct (HR c ER) as [Hc Hv]. split; [exact Hok|]. split; auto.
    - pose proof (read_F_ok st Hok) as HrF. destruct (read_F Fv st) as [st1 c].
      destruct HrF as ([HF1 HR1] & Hc & Hv & EF1 & ER1). rewrite ER in ER1.
      unfold cells_ok, FRv in *. destruct (existsb (@has_reg ROps) objs) eqn:Ereg; cbn [negb]; cbv beta iota.
      + destruct (Nat.eqb (length objs) 1).
        * (* a single object with a regularization: F + H is written INTO the cached array and the entry is dropped *)
          split; [split|]; cbn [i_heap i_F i_FR]; rewrite ?upd_set_length.
          -- intros c' E'. discriminate.
          -- intros c' E'. injection E' as <-. split; [exact Hc|]. rewrite hcell_upd_same by exact Hc. now rewrite Hv.
          -- split; [exact Hc|]. rewrite hcell_upd_same by exact Hc. now rewrite Hv.
        * (* np.add allocates *)
          split; [split|]; cbn [i_heap i_F i_FR]; rewrite ?app_length; cbn [length].
          -- intros c' E'. destruct (HF1 c' E') as [Hc' Hv']. split; [lia|]. now rewrite hcell_app_old.
          -- intros c' E'. injection E' as <-. split; [lia|]. rewrite hcell_app_new. now rewrite Hv.
          -- split; [lia|]. rewrite hcell_app_new. now rewrite Hv.
      + (* no regularization at all: the cached curvature_matrix array itself (never written afterwards) *)
        split; [split|]; cbn [i_heap i_F i_FR].
        -- exact HF1.
        -- intros c' E'. injection E' as <-. split; [exact Hc | exact Hv].
        -- split; [exact Hc | exact Hv].
  Qed.

  Lemma rstep_pure st q : cells_ok st ->
    let '(st1, v) := rstep true objs Bv Dv Fv H st q in cells_ok st1 /\ v = rpure objs Bv Dv Fv H q.
  Proof.
    intros Hok. destruct q; cbn [rstep rpure].
    - split; [exact Hok | reflexivity].
    - split; [exact Hok | reflexivity].
    - pose proof (read_F_ok st Hok) as HrF. destruct (read_F Fv st) as [st1 c]. destruct HrF as (Hok1 & _ & Hv & _).
      split; [exact Hok1 | now rewrite Hv].
    - pose proof (read_FR_ok st Hok) as HrR. destruct (read_FR true objs Fv H st) as [st1 c]. destruct HrR as (Hok1 & _ & Hv).
      split; [exact Hok1 | now rewrite Hv].
    - pose proof (read_FR_ok st Hok) as HrR. destruct (read_FR true objs Fv H st) as [st1 c]. destruct HrR as (Hok1 & _).
      split; [exact Hok1 | reflexivity].
  Qed.

  (* every read of every sequence returns the pure value, whatever was read before and however often *)
  Theorem rrun_pure qs : forall st, cells_ok st -> rrun true objs Bv Dv Fv H st qs = map (rpure objs Bv Dv Fv H) qs.
  Proof.
    induction qs as [|q t IH]; intros st Hok; [reflexivity|].
    cbn [rrun map]. pose proof (rstep_pure st q Hok) as Hs. destruct (rstep true objs Bv Dv Fv H st q) as [st1 v].
    destruct Hs as [Hok1 ->]. f_equal. now apply IH.
  Qed.
  Lemma cells_ok_ist0 : cells_ok (@ist0 ROps).
  Proof. split; intros c E; discriminate. Qed.
  Corollary rrun_pure0 qs : rrun true objs Bv Dv Fv H (@ist0 ROps) qs = map (rpure objs Bv Dv Fv H) qs.
  Proof. apply rrun_pure, cells_ok_ist0. Qed.
End Reads.

(* without the `del self.__dict__["curvature_matrix"]`: curvature_matrix read after curvature_reg_matrix returns F + H *)
Theorem reads_without_del_refuted :
  exists (objs : list (@lobj ROps)) (Bv : @mat ROps) (Dv : list R) (Fv H : @mat ROps) (qs : list rq),
    rrun false objs Bv Dv Fv H (@ist0 ROps) qs <> map (rpure objs Bv Dv Fv H) qs.
Proof.
  exists [@LMapper ROps (@Build_enc ROps [] [] []) [] 1%nat true], [], [], [[1]], [[1]], [RFR; RF].
  cbn. unfold hcell. cbn. intros E. injection E as E1. lra.
Qed.

(* ================================================================== 3. the w_tilde object, the factory *)
Lemma F_wt_of_imaging (c : @convolver ROps) m K objs (s : list R) eps :
  @F_wt_of ROps c (@imaging_w_tilde ROps m K s) objs s eps = @F_wt ROps c m K objs s eps.
Proof.
  unfold F_wt_of, F_wt, imaging_w_tilde. destruct (@preload ROps (@native ROps m s) K (unmasked m)) as [[pre idx] lens].
  reflexivity.
Qed.
Lemma imaging_w_tilde_nmv m K (s : list R) : w_nmv (@imaging_w_tilde ROps m K s) = nth 0 s 0.
Proof. unfold imaging_w_tilde. destruct (@preload ROps (@native ROps m s) K (unmasked m)) as [[pre idx] lens]. reflexivity. Qed.
Lemma Reqb_refl x : Reqb x x = true.
Proof. unfold Reqb. destruct (Req_EM_T x x); [reflexivity | contradiction]. Qed.

(* the instance handed the Imaging's own w_tilde (or one made by ANY Imaging with the same mask, psf and noise map: the object
   has no component that depends on data) is the instance of the model [inversion] *)
Theorem inversion_w_own (m : mask) (K : RK) (d s : list R) objs wt eps :
  @inversion_w ROps m K d s (@imaging_w_tilde ROps m K s) objs wt eps = @inversion ROps m K d s objs wt eps.
Proof.
  unfold inversion_w, inversion. destruct (@convolver_init ROps m K) as [c|e]; [|reflexivity].
  destruct wt; [|reflexivity]. rewrite imaging_w_tilde_nmv. unfold nthT, zero. cbn [eqb ofZ ROps]. rewrite Reqb_refl.
  now rewrite F_wt_of_imaging.
Qed.
(* check_noise_map: a w_tilde object whose noise_map_value differs from noise_map[0] is refused by the w-tilde class *)
Theorem inversion_w_refuses (m : mask) (K : RK) c (d s : list R) (w : @wtilde ROps) objs eps :
  @convolver_init ROps m K = Ok c -> nth 0 s 0 <> w_nmv w ->
  @inversion_w ROps m K d s w objs true eps = Raise InversionException.
Proof.
  intros Hc Hne. unfold inversion_w. rewrite Hc. unfold nthT, zero. cbn [eqb ofZ ROps]. unfold Reqb.
  destruct (Req_EM_T _ _) as [E|_]; [contradiction | reflexivity].
Qed.
(* operated_mapping_matrix and data_vector of the instance do not depend on the w_tilde object at all: whatever object is handed
   over (dataset.w_tilde, preloads.w_tilde of an Imaging with other data, DatasetInterface.w_tilde), the w-tilde data vector is
   computed from the data and the noise map of the dataset that was passed in *)
Theorem inversion_w_B_D_independent_of_w (m : mask) (K : RK) (d s : list R) (w w' : @wtilde ROps) objs wt eps o o' :
  @inversion_w ROps m K d s w objs wt eps = Ok o -> @inversion_w ROps m K d s w' objs wt eps = Ok o' ->
  o_B o = o_B o' /\ o_D o = o_D o'.
Proof.
  unfold inversion_w. destruct (@convolver_init ROps m K) as [c|e]; [|discriminate].
  destruct wt.
  - destruct (eqb ROps (@nthT ROps s 0) (w_nmv w)); [|discriminate]. destruct (eqb ROps (@nthT ROps s 0) (w_nmv w')); [|discriminate].
    intros E E'. inversion E; inversion E'; subst; cbn [o_B o_D]. split; reflexivity.
  - intros E E'. inversion E; inversion E'; subst; cbn [o_B o_D]. split; reflexivity.
Qed.

(* factory.inversion_imaging_from as a total function: InversionImagingWTilde iff settings.use_w_tilde, some object is not a
   function list, and preloads.use_w_tilde is not False *)
Theorem factory_use_wt_spec (objs : list (@lobj ROps)) su pu :
  factory_use_wt objs su pu = true <-> su = true /\ forallb (@is_func ROps) objs = false /\ pu <> Some false.
Proof.
  unfold factory_use_wt. destruct su; cbn [negb].
  - destruct (forallb (@is_func ROps) objs).
    + split; [discriminate | intros (_ & H & _); discriminate].
    + destruct pu as [[|]|]; split; try discriminate; try (intros _; repeat split; congruence).
      intros (_ & _ & H). now contradiction H.
  - split; [discriminate | intros (H & _); discriminate].
Qed.

Section FactoryFull.
  Variables (m : mask) (K : RK) (c : @convolver ROps).
  Hypothesis Hrect : rectb m = true.
  Hypothesis Hc : @convolver_init ROps m K = Ok c.
  Notation n := (length (unmasked m)).
  Variables (objs : list (@lobj ROps)) (d s : list R) (eps : R).
  Hypothesis Hn : (0 < n)%nat.
  Hypothesis Hd : length d = n.
  Hypothesis Hs : length s = n.
  Hypothesis Hpos : forall i, (i < n)%nat -> 0 < nth i s 0.
  Hypothesis Hwf : forall o, In o objs -> wf_obj c n o.

  (* the instance exists whichever class is chosen, and its values do not depend on the choice *)
  Theorem inversion_values_independent_of_class wt wt' :
    exists o o', @inversion ROps m K d s objs wt eps = Ok o /\ @inversion ROps m K d s objs wt' eps = Ok o' /\
      o_B o = o_B o' /\
      (forall a, (a < tp objs)%nat -> nth a (o_D o) 0 = nth a (o_D o') 0) /\
      (forall a b, (a < tp objs)%nat -> (b < tp objs)%nat -> mget (o_F o) a b = mget (o_F o') a b).
  Proof.
    unfold inversion. rewrite Hc.
    assert (HD : forall a, (a < tp objs)%nat -> nth a (@D_wt ROps c m K objs d s) 0 = nth a (@D_mapping ROps c objs d s) 0).
    { intros a Ha. apply (D_wt_eq_D_mapping_full m K c Hrect Hc); auto. now apply pos_nonzero. }
    assert (HF : forall a b, (a < tp objs)%nat -> (b < tp objs)%nat ->
                 mget (@F_wt ROps c m K objs s eps) a b = mget (@F_mapping ROps c objs (length d) s eps) a b).
    { intros a b Ha Hb. rewrite Hd. apply (F_wt_eq_F_mapping_full m K c Hrect Hc); auto. }
    destruct wt, wt'; eexists; eexists; (split; [reflexivity|]); (split; [reflexivity|]); cbn [o_B o_D o_F];
      (split; [reflexivity|]); split; intros; auto; symmetry; auto.
  Qed.

  (* aa.Inversion(dataset, linear_obj_list, settings, preloads) with the dataset's own w_tilde or a preloaded one made from the same
     noise map: whatever settings.use_w_tilde / preloads.use_w_tilde say, the instance exists and has the same values *)
  Theorem inversion_from_values_independent_of_flags su pu su' pu' pw pw' :
    (pw = None \/ pw = Some (@imaging_w_tilde ROps m K s)) -> (pw' = None \/ pw' = Some (@imaging_w_tilde ROps m K s)) ->
    exists o o', @inversion_from ROps m K d s (@imaging_w_tilde ROps m K s) pw objs su pu eps = Ok o /\
                 @inversion_from ROps m K d s (@imaging_w_tilde ROps m K s) pw' objs su' pu' eps = Ok o' /\
      o_B o = o_B o' /\
      (forall a, (a < tp objs)%nat -> nth a (o_D o) 0 = nth a (o_D o') 0) /\
      (forall a b, (a < tp objs)%nat -> (b < tp objs)%nat -> mget (o_F o) a b = mget (o_F o') a b).
  Proof.
    intros Hpw Hpw'. unfold inversion_from.
    assert (E : factory_w (@imaging_w_tilde ROps m K s) pw = @imaging_w_tilde ROps m K s) by (destruct Hpw; subst; reflexivity).
    assert (E' : factory_w (@imaging_w_tilde ROps m K s) pw' = @imaging_w_tilde ROps m K s) by (destruct Hpw'; subst; reflexivity).
    rewrite E, E', !inversion_w_own. apply inversion_values_independent_of_class.
  Qed.

  (* one instance, any sequence of reads: operated_mapping_matrix / data_vector / curvature_matrix always return the instance's
     B, D, F; curvature_reg_matrix returns F + H (F itself when no object has a regularization) *)
  Theorem inversion_reads_pure wt (H : @mat ROps) qs :
    exists o, @inversion ROps m K d s objs wt eps = Ok o /\
      @inversion_reads ROps m K d s (@imaging_w_tilde ROps m K s) objs wt eps H qs =
      Ok (map (rpure objs (o_B o) (o_D o) (o_F o) H) qs).
  Proof.
    unfold inversion_reads. rewrite inversion_w_own. unfold inversion. rewrite Hc.
    destruct wt; eexists; (split; [reflexivity|]); now rewrite rrun_pure0.
  Qed.
End FactoryFull.

(* ================================================================== 4. the two classes hand the SAME F and D (as lists) to the solver *)
Lemma shape_eq_ext n p (A B : @mat ROps) : shape n p A -> shape n p B ->
  (forall a b, (a < n)%nat -> (b < p)%nat -> mget A a b = mget B a b) -> A = B.
Proof.
  intros [HA HAr] [HB HBr] Heq. apply (P3.nth_ext_len _ _ []); [rfix; lia|]. intros a Ha. rewrite HA in Ha.
  apply (P3.nth_ext_len _ _ 0); [rewrite HAr, HBr by exact Ha; reflexivity|]. intros b Hb. rewrite HAr in Hb by exact Ha.
  specialize (Heq a b Ha Hb). now rewrite !mget_R in Heq.
Qed.
Lemma concat_map_length {A} (f : A -> list R) (g : A -> nat) l : (forall x, In x l -> length (f x) = g x) ->
  length (concat (map f l)) = list_sum (map g l).
Proof.
  induction l as [|x t IH]; intros H; [reflexivity|]. cbn [map concat list_sum]. rewrite app_length, H by now left.
  rewrite IH; [reflexivity|]. intros y Hy. apply H. now right.
Qed.

Section SameSystem.
  Variables (m : mask) (K : RK) (c : @convolver ROps).
  Hypothesis Hrect : rectb m = true.
  Hypothesis Hc : @convolver_init ROps m K = Ok c.
  Notation n := (length (unmasked m)).
  Variables (objs : list (@lobj ROps)) (s : list R) (eps : R).
  Hypothesis Hne : objs <> [].
  Hypothesis Hn : (0 < n)%nat.
  Hypothesis Hs : length s = n.
  Hypothesis Hpos : forall i, (i < n)%nat -> 0 < nth i s 0.
  Hypothesis Hwf : forall o, In o objs -> wf_obj c n o.

  Lemma tp_pos : (0 < tp objs)%nat.
  Proof.
    destruct objs as [|o t]; [contradiction|]. rewrite tp_cons. destruct (Hwf o (or_introl eq_refl)) as [H _]. lia.
  Qed.
  Lemma Hshape : forall o, In o objs -> shape n (params o) (opmat c o).
  Proof. intros o Ho. apply wf_obj_shape. now apply Hwf. Qed.
  Lemma ncols_B : ncols (op_matrix c objs n) = tp objs.
  Proof. apply (ncols_shape _ n); [apply shape_op_matrix, Hshape | exact Hn]. Qed.

  Lemma shape_F_mapping : shape (tp objs) (tp objs) (@F_mapping ROps c objs n s eps).
  Proof. unfold F_mapping. rewrite <- ncols_B at 1 2. apply shape_curv_mapping. Qed.
  Lemma shape_F_wt : shape (tp objs) (tp objs) (@F_wt ROps c m K objs s eps).
  Proof.
    pose proof tp_pos as Htp.
    destruct (mirrored_wt_is_normal_full m K c Hrect Hc objs s Hn Hs Hpos Hwf 0%nat 0%nat Htp Htp) as [Hsh _].
    cbv zeta in Hsh. unfold F_wt.
    destruct (@preload ROps (@native ROps m s) K (unmasked m)) as [[pre idx] lens]. cbn [fst snd] in Hsh.
    destruct (negb (Nat.eqb (length (@noreg_index_list ROps objs)) 0)).
    - apply shape_add_to_diag. now apply shape_mirrored.
    - now apply shape_mirrored.
  Qed.
  (* InversionImagingWTilde.curvature_matrix and InversionImagingMapping.curvature_matrix are the same matrix *)
  Theorem F_wt_eq_F_mapping_list : @F_wt ROps c m K objs s eps = @F_mapping ROps c objs n s eps.
  Proof.
    apply (shape_eq_ext (tp objs) (tp objs)); [apply shape_F_wt | apply shape_F_mapping|].
    intros a b Ha Hb. now apply (F_wt_eq_F_mapping_full m K c Hrect Hc).
  Qed.

  Variable d : list R.
  Hypothesis Hd : length d = n.
  Lemma D_mapping_length : length (@D_mapping ROps c objs d s) = tp objs.
  Proof. unfold D_mapping. rewrite dv_blurred_length. rfix. rewrite Hd. apply ncols_B. Qed.
  Lemma D_wt_length : length (@D_wt ROps c m K objs d s) = tp objs.
  Proof.
    destruct (existsb (@is_func ROps) objs) eqn:Ef.
    - unfold D_wt. rewrite Ef.
      set (wd := @wt_data ROps (@native ROps m d) (@native ROps m s) K (unmasked m)).
      set (g1 := fun o : @lobj ROps => @dv_wtd ROps wd (enc_of o) (params o)).
      set (g2 := fun o : @lobj ROps => @dv_blurred ROps (opmat c o) d s).
      destruct (fold_slices_ent objs is_mapper g1 (@zeros ROps (total_params objs))) as [L1 _].
      { unfold zeros. now rewrite repeat_length, total_params_tp. }
      { intros k _ _. unfold g1. apply dv_wtd_length. }
      destruct (fold_slices_ent objs is_func g2
                  (fold_left (fun dv (orr : @lobj ROps * (nat * nat)) => @set_slice ROps dv (fst (snd orr)) (g1 (fst orr)))
                             (combine (filter is_mapper objs) (@ranges_from ROps is_mapper objs 0)) (@zeros ROps (total_params objs))) L1) as [L2 _].
      { intros k Hk _. unfold g2. rewrite dv_blurred_length. apply (ncols_shape _ n); auto. apply Hshape. unfold ob. now apply nth_In. }
      exact L2.
    - rewrite D_wt_mappers_only by (auto; now apply no_func_all_mappers).
      rewrite (concat_map_length _ params); [reflexivity|]. intros o _. apply dv_wtd_length.
  Qed.
  (* ... and the same data vector *)
  Theorem D_wt_eq_D_mapping_list : @D_wt ROps c m K objs d s = @D_mapping ROps c objs d s.
  Proof.
    pose proof D_wt_length as L1. pose proof D_mapping_length as L2. rfix.
    apply (P3.nth_ext_len _ _ 0); [lia|]. intros a Ha. rewrite L1 in Ha.
    apply (D_wt_eq_D_mapping_full m K c Hrect Hc); auto. now apply pos_nonzero.
  Qed.
  (* hence the reconstruction (any function of curvature_reg_matrix and data_vector: np.linalg.solve, fnnls, ...) is the same
     in both formalisms, whatever the regularization matrix *)
  Theorem reconstruction_wtilde_eq_mapping (solve : @mat ROps -> list R -> list R) (H : @mat ROps) :
    solve (FRv objs (@F_wt ROps c m K objs s eps) H) (@D_wt ROps c m K objs d s) =
    solve (FRv objs (@F_mapping ROps c objs n s eps) H) (@D_mapping ROps c objs d s).
  Proof. now rewrite F_wt_eq_F_mapping_list, D_wt_eq_D_mapping_list. Qed.
End SameSystem.

(* ================================================================== 5. the model meets the EXECUTABLE specification of the correspondence
   check (Model/C04.v B_spec / D_spec / F_spec / mapped_spec: conv_full and plain sums, no frames, no preload, no blocks) *)
Lemma combined_no_blurring_image m bm (img : list R) q : @combined ROps m bm img [] q = @combined ROps m [] img [] q.
Proof. unfold combined. destruct (negb (mz m q)); [reflexivity|]. now rewrite !P3.lookup_nil. Qed.

Lemma unreg_flags_length objs : length (@unreg_flags ROps objs) = tp objs.
Proof.
  induction objs as [|o t IH]; [reflexivity|]. unfold unreg_flags in *. cbn [flat_map]. rewrite app_length, repeat_length, IH.
  now rewrite tp_cons.
Qed.
Lemma nth_repeat_lt {A} (x d : A) p i : (i < p)%nat -> nth i (repeat x p) d = x.
Proof. revert i. induction p as [|p IH]; intros [|i] H; cbn; try lia; auto. apply IH. lia. Qed.
Lemma unreg_flags_nth : forall objs k la, (k < length objs)%nat -> (la < params (ob objs k))%nat ->
  nth (off objs k + la) (@unreg_flags ROps objs) false = negb (has_reg (ob objs k)).
Proof.
  induction objs as [|o t IH]; intros k la Hk Hla; [cbn in Hk; lia|].
  unfold unreg_flags. cbn [flat_map]. fold (@unreg_flags ROps t). destruct k as [|k].
  - unfold off, ob in *. cbn [firstn nth] in *. change (tp []) with 0%nat. cbn [Nat.add].
    rewrite app_nth1 by (now rewrite repeat_length). now apply nth_repeat_lt.
  - rewrite off_cons. unfold ob in *. cbn [nth] in *. cbn [length] in Hk.
    rewrite app_nth2 by (rewrite repeat_length; lia). rewrite repeat_length.
    replace (params o + off t k + la - params o)%nat with (off t k + la)%nat by lia. apply IH; [lia | exact Hla].
Qed.

Section MeetsSpec.
  Variables (m : mask) (K : RK) (c : @convolver ROps).
  Hypothesis Hrect : rectb m = true.
  Hypothesis Hc : @convolver_init ROps m K = Ok c.
  Notation n := (length (unmasked m)).
  Hypothesis Hn : (0 < n)%nat.

  (* a blurred matrix, row i: the true 2-D convolution of every column placed on the mask, read at the i-th unmasked pixel *)
  Lemma convolve_matrix_row (M : @mat ROps) P i : length M = n -> ncols M = P -> (i < n)%nat ->
    nth i (@convolve_matrix ROps c M) [] =
    map (fun p => @conv_full ROps (@combined ROps m [] (@column ROps M p) []) K (Uat m i)) (seq 0 P).
  Proof.
    intros HL HP Hi. pose proof (shape_convolve_matrix c M) as [HLc HRc].
    apply (P3.nth_ext_len _ _ 0).
    - rewrite HRc by (rfix; lia). now rewrite map_length, seq_length.
    - intros p Hp. rewrite HRc in Hp by (rfix; lia). rewrite HP in Hp.
      rewrite (nth_map_seq _ P p) by exact Hp.
      pose proof (P3.convolve_matrix_is_conv_full m K c M p Hrect Hc HL) as Hcol.
      assert (Hp' : (p < length (hd [] M))%nat) by (unfold ncols in HP; rfix; lia). specialize (Hcol Hp').
      assert (E : nth p (nth i (@convolve_matrix ROps c M) []) 0 = nth i (@column ROps (@convolve_matrix ROps c M) p) 0).
      { rewrite nth_column, mget_R. reflexivity. }
      etransitivity; [exact E|]. rewrite Hcol. rewrite (P3.nth_map_lt _ _ _ (0%Z, 0%Z)) by exact Hi. fold (Uat m i).
      apply P3.conv_full_ext. intros ab _. apply combined_no_blurring_image.
  Qed.
  Lemma opmat_row_spec o i : wf_obj c n o -> (i < n)%nat -> nth i (opmat c o) [] = nth i (@B_spec_obj ROps m K o) [].
  Proof.
    intros W Hi. pose proof W as (_ & Hsh & Hrest).
    assert (Hconv : forall M, opmat c o = @convolve_matrix ROps c M -> length M = n /\ ncols M = params o).
    { intros M E. rewrite E in Hsh. pose proof (shape_convolve_matrix c M) as [HLc HRc]. destruct Hsh as [HL HR].
      split; [rfix; lia|]. specialize (HR 0%nat Hn). rewrite HRc in HR by (rfix; lia). exact HR. }
    assert (Hrow : forall M, opmat c o = @convolve_matrix ROps c M ->
              nth i (@convolve_matrix ROps c M) [] =
              nth i (map (fun t => map (fun p => @conv_full ROps (@combined ROps m [] (@column ROps M p) []) K t) (seq 0 (params o))) (unmasked m)) []).
    { intros M E. destruct (Hconv M E) as [HL HP].
      rewrite (convolve_matrix_row M (params o) i HL HP Hi).
      rewrite (P3.nth_map_lt _ _ _ (0%Z, 0%Z)) by exact Hi. reflexivity. }
    destruct o as [e M P reg|M [ov|] P reg]; cbn [opmat B_spec_obj params] in *.
    - now apply Hrow.
    - reflexivity.
    - now apply Hrow.
  Qed.

  Variables (objs : list (@lobj ROps)).
  Hypothesis Hwf : forall o, In o objs -> wf_obj c n o.

  (* operated_mapping_matrix = the column-wise PSF-blurred mapping matrix of all objects, in object order (equal lists) *)
  Theorem op_matrix_is_B_spec : op_matrix c objs n = @B_spec ROps m K objs.
  Proof.
    unfold op_matrix, hstack, B_spec. apply map_ext_in. intros i Hi. apply in_seq in Hi.
    rewrite flat_map_concat_map, map_map. f_equal. apply map_ext_in. intros o Ho. apply opmat_row_spec; [now apply Hwf | lia].
  Qed.

  Variables (s : list R) (eps : R).
  Hypothesis Hnz : forall i, (i < n)%nat -> nth i s 0 <> 0.
  Let Hsh' : forall o, In o objs -> shape n (params o) (opmat c o).
  Proof. intros o Ho. apply wf_obj_shape. now apply Hwf. Qed.

  (* curvature_matrix (mapping class) = F_spec: B^T N^-1 B plus eps exactly on the diagonal entries flagged "no regularization" *)
  Theorem F_mapping_is_F_spec a b : (a < tp objs)%nat -> (b < tp objs)%nat ->
    mget (@F_mapping ROps c objs n s eps) a b =
    mget (@F_spec ROps (@B_spec ROps m K objs) s (@unreg_flags ROps objs) eps) a b.
  Proof.
    intros Ha Hb. rewrite <- op_matrix_is_B_spec. pose proof (shape_op_matrix c objs n Hsh') as HB.
    set (B := op_matrix c objs n) in *.
    assert (HncB : ncols B = tp objs) by (apply (ncols_shape _ n); auto).
    assert (HlB : length B = n) by (now destruct HB).
    unfold F_mapping. fold B. rewrite curv_mapping_spec; rewrite ?HlB, ?HncB; auto using noreg_NoDup, noreg_bound.
    unfold F_spec. rewrite unreg_flags_length. rewrite mget_R.
    rewrite (nth_map_seq _ (tp objs) a) by exact Ha. rewrite (nth_map_seq _ (tp objs) b) by exact Hb.
    rewrite sumT_sumR, HlB.
    assert (Esum : sumR (map (fun i => mget B i a * mget B i b / (nth i s 0 * nth i s 0)) (seq 0 n)) =
                   sumR (map (fun x => div ROps (mul ROps (mget B x a) (mget B x b)) (@sq ROps (@nthT ROps s x))) (seq 0 n))).
    { apply sumR_map_ext. intros i _. unfold sq, nthT. ropen. reflexivity. }
    assert (Eflag : existsb (Nat.eqb a) (@noreg_index_list ROps objs) = nth a (@unreg_flags ROps objs) false).
    { destruct (locate_exists objs a Ha) as (k & la & Hk & Hla & ->). rewrite unreg_flags_nth by assumption.
      destruct (has_reg (ob objs k)) eqn:R; cbn [negb].
      - destruct (existsb _ _) eqn:Ex; auto. apply existsb_exists in Ex. destruct Ex as [x [Hx Ex]]. apply Nat.eqb_eq in Ex. subst x.
        apply noreg_In in Hx. destruct Hx as (k' & la' & Hk' & Hla' & R' & Heq).
        assert (k' = k) by (apply (locate_range objs k k' la (off objs k + la)); auto; lia). subst k'. congruence.
      - apply existsb_exists. exists (off objs k + la)%nat. split; [|apply Nat.eqb_refl]. apply noreg_In. exists k, la. auto. }
    cbn [andb]. rewrite Eflag, Esum. destruct (Nat.eqb a b && nth a (@unreg_flags ROps objs) false); ropen; lra.
  Qed.
  (* mapped_reconstructed_data (mapping class) = mapped_spec: row i of that matrix times the reconstruction *)
  Theorem mapped_mapping_is_mapped_spec (r : list R) i : length r = tp objs -> (i < n)%nat ->
    nth i (@mapped_mapping ROps c objs n r) 0 = nth i (@mapped_spec ROps (@B_spec ROps m K objs) r) 0.
  Proof.
    intros Hr Hi. rewrite <- op_matrix_is_B_spec. pose proof (shape_op_matrix c objs n Hsh') as [HBl HBr].
    rewrite mapped_mapping_is_stacked by auto.
    unfold mapped_spec. rewrite (P3.nth_map_lt _ _ _ []) by (rfix; lia). rewrite sumT_sumR. rfix.
    rewrite (combine_nth_map _ _ 0 0 (tp objs)) by (auto; apply HBr; exact Hi).
    rewrite map_map. apply sumR_map_ext. intros a _. cbn [fst snd]. ropen. now rewrite mget_R.
  Qed.
  Variable d : list R.
  Hypothesis Hd : length d = n.
  (* data_vector (mapping class) = D_spec of that matrix: D[p] = sum_i B[i][p] d_i / sigma_i^2 *)
  Theorem D_mapping_is_D_spec p : (p < tp objs)%nat ->
    nth p (@D_mapping ROps c objs d s) 0 = nth p (@D_spec ROps (@B_spec ROps m K objs) d s (tp objs)) 0.
  Proof.
    intros Hp. rewrite <- op_matrix_is_B_spec. pose proof (shape_op_matrix c objs n Hsh') as HB.
    assert (HncB : ncols (op_matrix c objs n) = tp objs) by (apply (ncols_shape _ n); auto).
    unfold D_mapping. rfix. rewrite Hd. rewrite dv_blurred_spec by (rewrite HncB; exact Hp).
    unfold D_spec. rewrite (nth_map_seq _ (tp objs) p) by exact Hp. rewrite sumT_sumR.
    apply sumR_map_ext. intros i _. unfold sq, nthT, zero. ropen. rewrite !mget_R. unfold Rdiv. ring.
  Qed.
End MeetsSpec.

Section MeetsSpecWTilde.
  Variables (m : mask) (K : RK) (c : @convolver ROps).
  Hypothesis Hrect : rectb m = true.
  Hypothesis Hc : @convolver_init ROps m K = Ok c.
  Notation n := (length (unmasked m)).
  Variables (objs : list (@lobj ROps)) (d s : list R) (eps : R).
  Hypothesis Hn : (0 < n)%nat.
  Hypothesis Hd : length d = n.
  Hypothesis Hs : length s = n.
  Hypothesis Hpos : forall i, (i < n)%nat -> 0 < nth i s 0.
  Hypothesis Hwf : forall o, In o objs -> wf_obj c n o.
  (* the w-tilde class meets the same executable specification *)
  Theorem D_wt_is_D_spec p : (p < tp objs)%nat ->
    nth p (@D_wt ROps c m K objs d s) 0 = nth p (@D_spec ROps (@B_spec ROps m K objs) d s (tp objs)) 0.
  Proof.
    intros Hp. rewrite (D_wt_eq_D_mapping_full m K c Hrect Hc) by (auto; now apply pos_nonzero).
    apply (D_mapping_is_D_spec m K c Hrect Hc Hn objs Hwf); auto.
  Qed.
  Theorem F_wt_is_F_spec a b : (a < tp objs)%nat -> (b < tp objs)%nat ->
    mget (@F_wt ROps c m K objs s eps) a b = mget (@F_spec ROps (@B_spec ROps m K objs) s (@unreg_flags ROps objs) eps) a b.
  Proof.
    intros Ha Hb. rewrite (F_wt_eq_F_mapping_full m K c Hrect Hc) by auto.
    apply (F_mapping_is_F_spec m K c Hrect Hc Hn objs Hwf); auto. now apply pos_nonzero.
  Qed.
End MeetsSpecWTilde.
