(* C01 -- Slim and native forms are exact, order-preserving inverses under any mask.
   Statements only.  [A] is any value type with a chosen [zero]; masks are lists of rows of
   booleans (true = masked); [rectb H W] is the boolean shape predicate.  Grids and vector fields
   are handled by the code plane by plane with the same functions, so every statement applies to
   each plane (the pairing is exercised by the KGrid correspondence cases). *)
From Coq Require Import List Arith Bool Permutation Sorting.Sorted ZArith.
From PAV Require Import Model.C01 Proofs.C01.
Import ListNotations.

(* the published slim -> native index list is the row-major enumeration of the unmasked pixels *)
Theorem C01_native_for_slim_is_rowmajor_unmasked : forall (m : mask) H W,
  rectb H W m = true -> 0 < H -> native_for_slim m = unmasked_spec m.
Proof. exact native_for_slim_is_spec. Qed.

(* slim form = values of the unmasked pixels, row-major *)
Theorem C01_slim_is_rowmajor_gather : forall (A : Type) (zero : A) (m : mask) (n : list (list A)) H W,
  rectb H W m = true -> rectb H W n = true -> slim_from m n = map (get2 zero n) (native_for_slim m).
Proof. exact @slim_is_rowmajor_gather. Qed.

(* native form: slim value k sits at the k-th unmasked pixel, masked pixels hold zero *)
Theorem C01_native_value_at_kth_unmasked : forall (A : Type) (zero : A) (m : mask) (s : list A) H W k d,
  rectb H W m = true -> 0 < H -> length s = count m -> k < count m ->
  get2 zero (native_from zero m s) (nth k (native_for_slim m) d) = nth k s zero.
Proof. exact @native_at_kth_unmasked. Qed.
Theorem C01_native_masked_is_zero : forall (A : Type) (zero : A) (m : mask) (s : list A) H W p,
  rectb H W m = true -> 0 < H -> mget m p = true -> get2 zero (native_from zero m s) p = zero.
Proof. exact @native_at_masked. Qed.
Theorem C01_native_has_mask_shape : forall (A : Type) (zero : A) (m : mask) (s : list A) H W,
  rectb H W m = true -> 0 < H -> rectb H W (native_from zero m s) = true.
Proof. exact @native_from_rect. Qed.

(* round trips *)
Theorem C01_slim_native_slim : forall (A : Type) (zero : A) (m : mask) (s : list A) H W,
  rectb H W m = true -> 0 < H -> length s = count m -> slim_from m (native_from zero m s) = s.
Proof. exact @slim_native_roundtrip. Qed.
Theorem C01_native_slim_native : forall (A : Type) (zero : A) (m : mask) (n : list (list A)) H W,
  rectb H W m = true -> rectb H W n = true -> 0 < H ->
  native_from zero m (slim_from m n) = zero_masked zero m n.
Proof. exact @native_slim_roundtrip. Qed.

(* whichever form is supplied and whichever form is stored *)
Theorem C01_construct_from_native : forall (A : Type) (zero : A) (m : mask) (n : list (list A)) H W store_native,
  rectb H W m = true -> rectb H W n = true -> 0 < H ->
  let f := convert zero m (Native n) store_native in
  to_slim m f = map (get2 zero n) (native_for_slim m) /\ to_native zero m f = zero_masked zero m n.
Proof. exact @construct_from_native. Qed.
Theorem C01_construct_from_slim : forall (A : Type) (zero : A) (m : mask) (s : list A) H W store_native,
  rectb H W m = true -> 0 < H -> length s = count m ->
  let f := convert zero m (Slim s) store_native in
  to_slim m f = s /\ to_native zero m f = native_from zero m s.
Proof. exact @construct_from_slim. Qed.

(* published index lists *)
Theorem C01_index_lists_are_filters : forall (m : mask) flag,
  mask_slim_indexes m flag = filter (fun k => Bool.eqb (nth k (concat m) true) flag) (seq 0 (length (concat m))).
Proof. exact mask_slim_indexes_spec. Qed.
Theorem C01_index_lists_partition : forall (m : mask),
  Permutation (mask_slim_indexes m false ++ mask_slim_indexes m true) (seq 0 (length (concat m))).
Proof. exact index_lists_partition. Qed.
Theorem C01_index_lists_increasing : forall (m : mask) flag, StronglySorted lt (mask_slim_indexes m flag).
Proof. exact index_lists_increasing. Qed.
Theorem C01_slim_index_k_is_kth_unmasked : forall (m : mask) H W,
  rectb H W m = true -> map (fun p => fst p * W + snd p) (native_for_slim m) = mask_slim_indexes m false.
Proof. exact slim_index_k_is_kth_unmasked. Qed.

(* one dimension: the 1-D routines are the one-row instance, hence the same round trips *)
Theorem C01_1d_native_is_one_row : forall (A : Type) (zero : A) r (s : list A),
  [native_from_1d zero r s] = native_from zero [r] s.
Proof. exact @native_from_1d_is_one_row. Qed.
Theorem C01_1d_slim_is_one_row : forall (A : Type) r (v : list A), slim_from_1d r v = slim_from [r] [v].
Proof. exact @slim_from_1d_is_one_row. Qed.
Theorem C01_1d_slim_native_slim : forall (A : Type) (zero : A) r (s : list A),
  length s = length (native_for_slim_1d r 0) -> slim_from_1d r (native_from_1d zero r s) = s.
Proof. exact @slim_native_roundtrip_1d. Qed.
Theorem C01_1d_native_slim_native : forall (A : Type) (zero : A) r (v : list A),
  length v = length r -> native_from_1d zero r (slim_from_1d r v) = zero_masked_1d zero r v.
Proof. exact @native_slim_roundtrip_1d. Qed.

(* ---------------- phase 2: objects with a history ----------------
   [obs_slim] / [obs_native] are what `.slim` / `.native` return for an object whose stored array is [f]
   (the accessors rebuild through convert_array_2d from the CURRENT stored array); [wfb] is the shape predicate
   of a stored array (slim: one entry per unmasked pixel; native: the mask's shape) -- nothing is assumed about
   the values at masked positions. *)
Theorem C01_reading_a_stored_native : forall (A : Type) (zero : A) (m : mask) (n : list (list A)) H W,
  rectb H W m = true -> rectb H W n = true -> 0 < H ->
  obs_slim zero m (Native n) = map (get2 zero n) (native_for_slim m) /\
  obs_native zero m (Native n) = zero_masked zero m n.
Proof. exact @obs_of_stored_native. Qed.
Theorem C01_reading_a_stored_slim : forall (A : Type) (zero : A) (m : mask) (s : list A),
  obs_slim zero m (Slim s) = s /\ obs_native zero m (Slim s) = native_from zero m s.
Proof. exact @obs_of_stored_slim. Qed.
(* whatever is stored: native reading = scatter of the slim reading (so: value k at the k-th unmasked pixel, zero at
   masked pixels, by C01_native_value_at_kth_unmasked / C01_native_masked_is_zero; restated below) *)
Theorem C01_reading_native_is_scatter_of_slim : forall (A : Type) (zero : A) (m : mask) (f : form) H W,
  rectb H W m = true -> 0 < H -> wfb m H W f = true ->
  obs_native zero m f = native_from zero m (obs_slim zero m f) /\ length (obs_slim zero m f) = count m.
Proof. exact @obs_native_is_scatter_of_obs_slim. Qed.
Theorem C01_reading_masked_is_zero : forall (A : Type) (zero : A) (m : mask) (f : form) H W p,
  rectb H W m = true -> 0 < H -> wfb m H W f = true -> mget m p = true -> get2 zero (obs_native zero m f) p = zero.
Proof. exact @obs_native_masked_is_zero. Qed.
Theorem C01_reading_kth_unmasked : forall (A : Type) (zero : A) (m : mask) (f : form) H W k d,
  rectb H W m = true -> 0 < H -> wfb m H W f = true -> k < count m ->
  get2 zero (obs_native zero m f) (nth k (native_for_slim m) d) = nth k (obs_slim zero m f) zero.
Proof. exact @obs_native_at_kth_unmasked. Qed.
(* .native / .slim chains and re-construction from an existing object do not change what is read *)
Theorem C01_reading_after_convert : forall (A : Type) (zero : A) (m : mask) (f : form) sn H W,
  rectb H W m = true -> 0 < H -> wfb m H W f = true ->
  obs_slim zero m (convert zero m f sn) = obs_slim zero m f /\
  obs_native zero m (convert zero m f sn) = obs_native zero m f.
Proof. exact @obs_of_convert. Qed.
(* arithmetic on the stored array (arr + c, c - arr, ...): slim reading is mapped, native reading is mapped and re-zeroed *)
Theorem C01_reading_after_arithmetic : forall (A : Type) (zero : A) (g : A -> A) (m : mask) (f : form) H W,
  rectb H W m = true -> 0 < H -> wfb m H W f = true ->
  obs_slim zero m (fmap g f) = map g (obs_slim zero m f) /\
  obs_native zero m (fmap g f) = zero_masked zero m (map (map g) (obs_native zero m f)).
Proof. exact @obs_of_fmap. Qed.
(* an in-place assignment to a masked entry of a natively stored array is never visible *)
Theorem C01_masked_assignment_invisible : forall (A : Type) (zero : A) (m : mask) (n : list (list A)) p v H W,
  rectb H W m = true -> rectb H W n = true -> 0 < H -> mget m p = true ->
  obs_slim zero m (Native (upd2 n p v)) = obs_slim zero m (Native n) /\
  obs_native zero m (Native (upd2 n p v)) = obs_native zero m (Native n).
Proof. exact @set_masked_entry_invisible. Qed.
(* every reading along ANY history of arithmetic / with_new_array / re-construction / element assignment / accessor steps *)
Theorem C01_history_readings : forall (A : Type) (zero : A) (m : mask) H W, rectb H W m = true -> 0 < H ->
  forall ops (f : form), wfb m H W f = true -> forallb (hop_ok m H W) ops = true ->
  forall so, In so (run_hist zero m f ops) ->
    snd so = native_from zero m (fst so) /\ length (fst so) = count m.
Proof. exact @history_readings. Qed.
(* 1-D objects read as the one-row 2-D objects *)
Theorem C01_1d_reading_is_one_row : forall (A : Type) (zero : A) (r : list bool) (f : form1),
  match f with Slim1 _ => True | Native1 n => length n = length r end ->
  obs_slim_1d zero r f = obs_slim zero [r] (lift1 f) /\ [obs_native_1d zero r f] = obs_native zero [r] (lift1 f).
Proof. exact @obs_1d_is_one_row. Qed.

(* ---------------- phase 2: a Mask2D edited in place ---------------- *)
Theorem C01_mask_after_edit : forall (m : mask) p b q H W,
  rectb H W m = true -> fst p < H -> snd p < W ->
  mget (mset m p b) q = if pair_eqb q p then b else mget m q.
Proof. exact mget_mset. Qed.
Theorem C01_indexes_after_edit : forall (m : mask) p b H W,
  rectb H W m = true -> 0 < H -> fst p < H -> snd p < W ->
  native_for_slim (mset m p b) = filter (fun q => negb (if pair_eqb q p then b else mget m q)) (all_coords H W).
Proof. exact indexes_after_edit. Qed.
(* every reading along a history of edits / copies / replacements / inversions is the specification of the mask held then *)
Theorem C01_mask_history_readings : forall (n : zgrid) H W, 0 < H -> rectb H W n = true ->
  forall ops (m : mask), rectb H W m = true -> forallb (mop_ok H W) ops = true ->
  run_mhist n m ops = map (mobs n) (mstates m ops) /\
  forall m', In m' (mstates m ops) ->
    rectb H W m' = true /\
    native_for_slim m' = unmasked_spec m' /\
    mask_slim_indexes m' false = flat_filter m' false /\ mask_slim_indexes m' true = flat_filter m' true /\
    map (fun p => fst p * W + snd p) (native_for_slim m') = mask_slim_indexes m' false /\
    slim_from m' n = map (get2 0%Z n) (unmasked_spec m').
Proof. exact mask_history_readings. Qed.

(* ---------------- phase 3: apply_mask -- an object read under its own mask m, re-masked with a second mask m2 ----------------
   [apply_mask m m2 f] is what `obj.apply_mask(mask2)` builds (`Array2D(values=obj.native, mask=mask2)`) *)
Theorem C01_reading_after_apply_mask : forall (A : Type) (zero : A) (m m2 : mask) (f : form) H W,
  rectb H W m = true -> rectb H W m2 = true -> 0 < H -> wfb m H W f = true ->
  obs_slim zero m2 (apply_mask zero m m2 f) = map (get2 zero (obs_native zero m f)) (native_for_slim m2) /\
  obs_native zero m2 (apply_mask zero m m2 f) = zero_masked zero m2 (obs_native zero m f) /\
  wfb m2 H W (apply_mask zero m m2 f) = true.
Proof. exact @obs_of_apply_mask. Qed.
Theorem C01_apply_mask_pointwise : forall (A : Type) (zero : A) (m m2 : mask) (f : form) H W p,
  rectb H W m = true -> rectb H W m2 = true -> 0 < H -> wfb m H W f = true -> fst p < H -> snd p < W ->
  get2 zero (obs_native zero m2 (apply_mask zero m m2 f)) p =
  if mget m2 p || mget m p then zero else get2 zero (obs_native zero m f) p.
Proof. exact @apply_mask_pointwise. Qed.

(* non-vacuity: a 3x4 mask with a hole, an isolated last-column pixel and an outer-ring pixel *)
Example C01_hyps_satisfiable :
  let m := [[false; true; true; false]; [true; false; true; true]; [true; true; false; false]] in
  rectb 3 4 m = true /\ count m = 5 /\
  native_for_slim m = [(0, 0); (0, 3); (1, 1); (2, 2); (2, 3)] /\
  native_from 0 m [7; 8; 9; 10; 11] = [[7; 0; 0; 8]; [0; 9; 0; 0]; [0; 0; 10; 11]] /\
  mask_slim_indexes m false = [0; 3; 5; 10; 11].
Proof. vm_compute. repeat split. Qed.
(* non-vacuity, phase 2: a natively stored array with garbage at the masked pixels, followed through c - arr, an
   assignment to a masked entry, .native, with_new_array(raw); every step is admissible and the last native reading
   has zeros at the masked pixels; a mask history with an in-place edit, a copy and an inversion *)
Example C01_history_hyps_satisfiable :
  let m := [[false; true; true]; [true; false; false]] in
  let f := Native [[1; 50; 60]; [70; 2; 3]]%Z in
  let ops := [HMap (fun x => 3 - x)%Z; HSet 0 0 1 9%Z; HNative; HNew (Native [[4; 5; 6]; [7; 8; 9]]%Z)] in
  rectb 2 3 m = true /\ wfb m 2 3 f = true /\ forallb (hop_ok m 2 3) ops = true /\
  run_hist 0%Z m f ops =
    [([1; 2; 3], [[1; 0; 0]; [0; 2; 3]]); ([2; 1; 0], [[2; 0; 0]; [0; 1; 0]]); ([2; 1; 0], [[2; 0; 0]; [0; 1; 0]]);
     ([2; 1; 0], [[2; 0; 0]; [0; 1; 0]]); ([4; 8; 9], [[4; 0; 0]; [0; 8; 9]])]%Z /\
  forallb (mop_ok 2 3) [MSet 0 1 false; MCopy; MInvert] = true /\
  map (@native_for_slim) (mstates m [MSet 0 1 false; MCopy; MInvert]) =
    [[(0, 0); (1, 1); (1, 2)]; [(0, 0); (0, 1); (1, 1); (1, 2)]; [(0, 0); (0, 1); (1, 1); (1, 2)]; [(0, 2); (1, 0)]].
Proof. vm_compute. repeat split. Qed.

(* non-vacuity, phase 3: a natively stored array with garbage at its masked pixels, re-masked with a mask that unmasks
   one of them (it reads zero, not the garbage) and masks one of its unmasked pixels *)
Example C01_apply_mask_hyps_satisfiable :
  let m := [[false; true; true]; [true; false; false]] in
  let m2 := [[false; false; true]; [true; true; false]] in
  let f := Native [[1; 50; 60]; [70; 2; 3]]%Z in
  rectb 2 3 m = true /\ rectb 2 3 m2 = true /\ wfb m 2 3 f = true /\
  obs_slim 0%Z m2 (apply_mask 0%Z m m2 f) = [1; 0; 3]%Z /\
  obs_native 0%Z m2 (apply_mask 0%Z m m2 f) = [[1; 0; 0]; [0; 0; 3]]%Z.
Proof. vm_compute. repeat split. Qed.


(* session 4: sizes.  The slim form has exactly one entry per False entry of the mask (any mask), and the published
   unmasked index list has that many entries *)
Theorem C01_count_is_number_of_unmasked : forall (m : mask), count m = length (filter negb (concat m)).
Proof. exact count_is_number_of_unmasked. Qed.
Theorem C01_slim_length_is_number_of_unmasked : forall (A : Type) (zero : A) (m : mask) (n : list (list A)) H W,
  rectb H W m = true -> rectb H W n = true -> length (slim_from m n) = length (filter negb (concat m)).
Proof. exact @slim_length_is_number_of_unmasked. Qed.
Theorem C01_index_list_false_length : forall (m : mask) H W,
  rectb H W m = true -> length (mask_slim_indexes m false) = count m.
Proof. exact index_list_false_length. Qed.
Example C01_sizes_hyps_satisfiable :
  let m := [[false; true; true]; [true; false; false]] in
  rectb 2 3 m = true /\ rectb 2 3 [[1; 50; 60]; [70; 2; 3]]%Z = true /\ count m = 3 /\
  length (slim_from m [[1; 50; 60]; [70; 2; 3]]%Z) = 3.
Proof. vm_compute. repeat split. Qed.

Print Assumptions C01_native_for_slim_is_rowmajor_unmasked. Print Assumptions C01_slim_is_rowmajor_gather.
Print Assumptions C01_native_value_at_kth_unmasked. Print Assumptions C01_native_masked_is_zero.
Print Assumptions C01_native_has_mask_shape. Print Assumptions C01_slim_native_slim.
Print Assumptions C01_native_slim_native. Print Assumptions C01_construct_from_native.
Print Assumptions C01_construct_from_slim. Print Assumptions C01_index_lists_are_filters.
Print Assumptions C01_index_lists_partition. Print Assumptions C01_index_lists_increasing.
Print Assumptions C01_slim_index_k_is_kth_unmasked. Print Assumptions C01_1d_native_is_one_row.
Print Assumptions C01_1d_slim_is_one_row. Print Assumptions C01_1d_slim_native_slim.
Print Assumptions C01_1d_native_slim_native.
Print Assumptions C01_reading_a_stored_native. Print Assumptions C01_reading_a_stored_slim.
Print Assumptions C01_reading_native_is_scatter_of_slim. Print Assumptions C01_reading_masked_is_zero.
Print Assumptions C01_reading_kth_unmasked. Print Assumptions C01_reading_after_convert.
Print Assumptions C01_reading_after_arithmetic. Print Assumptions C01_masked_assignment_invisible.
Print Assumptions C01_history_readings. Print Assumptions C01_1d_reading_is_one_row.
Print Assumptions C01_mask_after_edit. Print Assumptions C01_indexes_after_edit.
Print Assumptions C01_mask_history_readings.
Print Assumptions C01_reading_after_apply_mask. Print Assumptions C01_apply_mask_pointwise.
Print Assumptions C01_count_is_number_of_unmasked. Print Assumptions C01_slim_length_is_number_of_unmasked.
Print Assumptions C01_index_list_false_length.
