(* C11 -- Queries are pure: no input mutation, no order dependence, deterministic.  Statements only.

   [step qf p] is the heap machine of the anchored copy / cache discipline (Model/C11.v): arrays live in heap cells,
   objects hold cell references and a cache of cached_property values, every API operation is executed as the code
   executes it under the policy [p] (one flag per code site that chooses between copying and aliasing) and returns its
   effect summary.  [sstep qf] is the value semantics: immutable objects, no heap, no cache.  [qf] -- what a quantity's
   value is as a function of the object's mask and contents -- is universally quantified everywhere.
   [faithful] is the policy of /repo, [finding_class] the recorded finding D8. *)
From Coq Require Import ZArith List Bool.
From PAV Require Import Base.Res Model.C11 Model.C11g Model.C11s Model.C11r Proofs.C11 Proofs.C11g Proofs.C11s Proofs.C11r.
Import ListNotations.

(* ---- PART A: histories of constructions, derivations, reads and queries -------------------------------------- *)

(* if every step's effect summary respects the discipline (in-place writes only into cells the step allocated and did
   not publish; no cache entry inherited by an object with other contents), then EVERY observation of EVERY finite
   history is the one of the value semantics *)
Theorem C11_discipline_implies_purity : forall (qf : qfn) (p : policy) (ops : list op),
  run_ok qf p ops = true -> observations qf p ops = spec_observations qf ops.
Proof. exact discipline_implies_purity. Qed.

(* ... and the caller-owned arrays / settings objects hold, at the end, the values they were created with *)
Theorem C11_inputs_never_modified : forall (qf : qfn) (p : policy) (ops : list op),
  run_ok qf p ops = true ->
  map (hget (st_heap (final qf p ops))) (st_inputs (final qf p ops)) = news ops.
Proof. exact inputs_never_modified. Qed.

(* the effect summaries are sound: a cell that exists before a step and holds something else after it is in the
   step's write set (so the run-time comparison of changed cells with write sets validates the summaries) *)
Theorem C11_effect_summaries_are_sound : forall (qf : qfn) (p : policy) (st : state) (o : op) (c : cell),
  (c < length (st_heap st))%nat ->
  hget (st_heap (fst (fst (step qf p st o)))) c <> hget (st_heap st) c ->
  In c (e_writes (snd (step qf p st o))).
Proof. exact effects_sound. Qed.

(* a policy that copies at every site is pure on every history *)
Theorem C11_safe_policy_is_pure : forall (qf : qfn) (p : policy) (ops : list op),
  safe p = true -> observations qf p ops = spec_observations qf ops.
Proof. exact safe_implies_purity. Qed.

(* the code as it is: pure on every history that stays outside the recorded finding class (D8: values_masked /
   mapped_reconstructed_image_from on a MapperValued whose mesh_pixel_mask has a True entry) *)
Theorem C11_code_is_pure_outside_findings : forall (qf : qfn) (ops : list op),
  avoids_findings qf ops = true -> observations qf faithful ops = spec_observations qf ops.
Proof. exact faithful_pure_outside_findings. Qed.
Theorem C11_code_never_modifies_inputs_outside_findings : forall (qf : qfn) (ops : list op),
  avoids_findings qf ops = true ->
  map (hget (st_heap (final qf faithful ops))) (st_inputs (final qf faithful ops)) = news ops.
Proof. exact faithful_inputs_never_modified. Qed.

(* order and number of earlier accesses are irrelevant: two histories with the same constructions / derivations, and
   ANY reads and queries interleaved, repeated or omitted, give the same answer to any further operation *)
Theorem C11_order_independence : forall (qf : qfn) (p : policy) (h1 h2 : list op) (o : op),
  safe p = true -> derivations h1 = derivations h2 -> obs_after qf p h1 o = obs_after qf p h2 o.
Proof. exact order_independence. Qed.
Theorem C11_order_independence_code : forall (qf : qfn) (h1 h2 : list op) (o : op),
  avoids_findings qf (h1 ++ [o]) = true -> avoids_findings qf (h2 ++ [o]) = true ->
  derivations h1 = derivations h2 ->
  last (observations qf faithful (h1 ++ [o])) bad = last (observations qf faithful (h2 ++ [o])) bad.
Proof. exact order_independence_faithful. Qed.

(* a derived object reports quantities consistent with its own contents: whatever happened before, a cached or plain
   read on object j is [qf] of the mask and contents object j has in the value semantics *)
Theorem C11_read_is_function_of_own_contents : forall (qf : qfn) (p : policy) (h : list op) (j q : nat),
  safe p = true ->
  obs_after qf p h (ORead j q) =
  match nth_error (sp_objs (spec_final qf h)) j with
  | Some so => Ok (qf q (so_mask so) (so_val so))
  | None => bad
  end.
Proof. exact read_is_pure_function. Qed.
Theorem C11_read_is_function_of_own_contents_code : forall (qf : qfn) (h : list op) (j q : nat),
  avoids_findings qf (h ++ [ORead j q]) = true ->
  last (observations qf faithful (h ++ [ORead j q])) bad =
  match nth_error (sp_objs (spec_final qf h)) j with
  | Some so => Ok (qf q (so_mask so) (so_val so))
  | None => bad
  end.
Proof. exact read_is_pure_function_faithful. Qed.

(* the recorded finding, and the histories each repaired site failed on (policies with that one repair reverted) *)
Theorem C11_purity_refuted_D8_values_masked :
  observations qf_sum faithful hist_D8 <> spec_observations qf_sum hist_D8
  /\ map (hget (st_heap (final qf_sum faithful hist_D8))) (st_inputs (final qf_sum faithful hist_D8)) <> news hist_D8.
Proof. exact purity_refuted_D8. Qed.
Theorem C11_purity_refuted_without_D7_repair : observations qf_sum policy_D7 hist_D7 <> spec_observations qf_sum hist_D7.
Proof. exact purity_refuted_D7_revert. Qed.
Theorem C11_purity_refuted_without_D9_repair : observations qf_mm policy_D9 hist_D9 <> spec_observations qf_mm hist_D9.
Proof. exact purity_refuted_D9_revert. Qed.
Theorem C11_purity_refuted_without_D10_repair : observations qf_sum policy_D10 hist_D10 <> spec_observations qf_sum hist_D10.
Proof. exact purity_refuted_D10_revert. Qed.
Theorem C11_purity_refuted_without_D11_repair : observations qf_sum policy_D11 hist_D11 <> spec_observations qf_sum hist_D11.
Proof. exact purity_refuted_D11_revert. Qed.
Theorem C11_purity_refuted_without_D12_repair :
  observations qf_sum policy_D12 hist_D12 <> spec_observations qf_sum hist_D12
  /\ map (hget (st_heap (final qf_sum policy_D12 hist_D12))) (st_inputs (final qf_sum policy_D12 hist_D12)) <> news hist_D12.
Proof. exact purity_refuted_D12_revert. Qed.
(* Kernel2D(values=.., normalize=True) / psf.normalized / SimulatorImaging(psf=..) normalise in place: the eager copy of
   convert_array_2d is what keeps the caller's kernel (a slim ndarray, or the Kernel2D `normalized` is read on) as it was *)
Theorem C11_purity_refuted_normalize_without_copy :
  observations qf_norm policy_D7 hist_norm_in <> spec_observations qf_norm hist_norm_in /\
  map (hget (st_heap (final qf_norm policy_D7 hist_norm_in))) (st_inputs (final qf_norm policy_D7 hist_norm_in)) <> news hist_norm_in /\
  observations qf_norm policy_D7 hist_norm_obj <> spec_observations qf_norm hist_norm_obj /\
  observations qf_norm faithful hist_norm_in = spec_observations qf_norm hist_norm_in /\
  observations qf_norm faithful hist_norm_obj = spec_observations qf_norm hist_norm_obj /\
  nth 1 (observations qf_norm faithful hist_norm_in) bad = Ok [20; 20]%Z.
Proof. exact purity_refuted_normalize_without_copy. Qed.
Theorem C11_refutations_and_finding_class :
  avoids_findings qf_sum hist_D8 = false /\
  avoids_findings qf_sum hist_D7 = true /\ avoids_findings qf_mm hist_D9 = false /\
  avoids_findings qf_sum hist_D10 = true /\ avoids_findings qf_sum hist_D11 = true /\ avoids_findings qf_sum hist_D12 = true /\
  observations qf_sum faithful hist_D7 = spec_observations qf_sum hist_D7 /\
  observations qf_sum faithful hist_D10 = spec_observations qf_sum hist_D10 /\
  observations qf_sum faithful hist_D11 = spec_observations qf_sum hist_D11 /\
  observations qf_sum faithful hist_D12 = spec_observations qf_sum hist_D12.
Proof. exact refutations_and_finding_class. Qed.

(* ---- PART B: curvature_matrix / curvature_reg_matrix (in-place `+=` into the cached matrix, entry deleted;
   preloaded curvature matrix / preloaded block-diagonal matrix copied before they are written into) ------------------ *)
Theorem C11_inversion_reads_pure : forall (add : adder) (F H D U : arr) (pre : ipre) (qs : list iq),
  irun add ifaithful pre F H D U (ist0 F D) qs = map (ispec add F H D) qs.
Proof. exact inversion_reads_pure. Qed.
Theorem C11_inversion_preload_alias_refuted :
  irun vadd (mkIPolicy false true true) PCurv [1; 2]%Z [10; 10]%Z [1; 0]%Z [1; 0]%Z (ist0 [1; 2]%Z [1; 0]%Z) [QFR; QPre]
  <> map (ispec vadd [1; 2]%Z [10; 10]%Z [1; 0]%Z) [QFR; QPre].
Proof. exact inversion_preload_alias_refuted. Qed.
Theorem C11_inversion_entry_kept_refuted :
  irun vadd (mkIPolicy true false true) PNone [1; 2]%Z [10; 10]%Z [1; 0]%Z [1; 0]%Z (ist0 [1; 2]%Z [1; 0]%Z) [QF; QFR; QF]
  <> map (ispec vadd [1; 2]%Z [10; 10]%Z [1; 0]%Z) [QF; QFR; QF].
Proof. exact inversion_entry_kept_refuted. Qed.
Theorem C11_inversion_preload_diag_alias_refuted_without_D20_repair :
  irun vadd (mkIPolicy true true false) PDiag [1; 2; 2; 4]%Z [10; 0; 0; 10]%Z [1; 0; 0; 4]%Z [1; 2; 0; 4]%Z
       (ist0 [1; 2; 2; 4]%Z [1; 0; 0; 4]%Z) [QF; QPreDiag]
  <> map (ispec vadd [1; 2; 2; 4]%Z [10; 0; 0; 10]%Z [1; 0; 0; 4]%Z) [QF; QPreDiag].
Proof. exact inversion_preload_diag_alias_refuted. Qed.

(* ---- PART C: seeded noise --------------------------------------------------------------------------------------- *)
Theorem C11_rng_seeded_is_state_independent :
  forall (S : Type) (init : Z -> S) (draw : S -> Z -> Z * S) (randint : S -> Z * S) (g1 g2 : S) (seed : Z) (counts : arr),
  seed <> (-1)%Z -> poisson_noise init draw randint g1 seed counts = poisson_noise init draw randint g2 seed counts.
Proof. exact @rng_seeded_is_state_independent. Qed.
Theorem C11_rng_unseeded_depends_on_state :
  fst (poisson_noise lcg_init lcg_draw lcg_randint 1%Z (-1)%Z [4; 4; 4]%Z)
  <> fst (poisson_noise lcg_init lcg_draw lcg_randint 2%Z (-1)%Z [4; 4; 4]%Z).
Proof. exact rng_unseeded_depends_on_state. Qed.

(* ---- PART D: object graphs as graphs of quantities (Model/C11g.v) ---------------------------------------------------
   [ev] evaluates a node as the code does: dependencies left to right through the same mechanism, then the body, which builds a
   new array, returns the array of a dependency, or assigns into the array it received from a dependency; cached_property results
   are stored in the cache and returned by reference.  [gspec] is the pure value of the node.  [gdisc g] is read off the graph:
   dependencies point backwards, and a body assigns only into an array that no cache entry and no caller holds (the result of
   a plain property that built it, possibly through other such properties), or into its own copy. *)

(* every read, after any sequence of reads of any quantities, reports the pure value of its node *)
Theorem C11_graph_reads_pure : forall (g : graph) (vf : vfn),
  gdisc g = true -> forall reads : list nat, gobservations g vf reads = map (gspec g vf) reads.
Proof. exact graph_reads_pure. Qed.

(* ... the arrays the caller handed over (and every cell that existed before the first read) are never written *)
Theorem C11_graph_inputs_kept : forall (g : graph) (vf : vfn),
  gdisc g = true -> forall (reads : list nat) (c0 : cell), (c0 < length (gs_heap (ginit g vf)))%nat ->
  hget (gs_heap (gfinal g vf reads)) c0 = hget (gs_heap (ginit g vf)) c0.
Proof. exact graph_inputs_kept. Qed.

(* ... and what a read reports does not depend on which reads were made before it, how many, in which order *)
Theorem C11_graph_order_independence : forall (g : graph) (vf : vfn),
  gdisc g = true -> forall (h1 h2 : list nat) (n : nat),
  last (gobservations g vf (h1 ++ [n])) [] = last (gobservations g vf (h2 ++ [n])) [].
Proof. exact graph_order_independence. Qed.

(* the write lists are sound for EVERY graph (no discipline assumed): a cell that exists before a read and holds something else
   after it is in the read's write list -- so comparing the entries that changed on the real objects with the write lists
   validates the graph *)
Theorem C11_graph_effect_summaries_are_sound : forall (g : graph) (vf : vfn) (st : gstate) (n : nat) (c0 : cell),
  (c0 < length (gs_heap st))%nat ->
  hget (gs_heap (fst (fst (gread g vf st n)))) c0 <> hget (gs_heap st) c0 ->
  In c0 (snd (gread g vf st n)).
Proof. exact graph_effects_sound. Qed.

(* the graphs of the library: a Delaunay / Voronoi mesh with its mapper and valued mapper; FitImaging -> Imaging -> inversion ->
   mapper (mapping and w-tilde formalisms); the derivation chains ds -> apply_mask / apply_over_sampling -> apply_noise_scaling;
   Interferometer -> inversion through the factory.
   Each satisfies the discipline, hence is pure for every read order and every body function *)
Theorem C11_library_graphs_disciplined :
  gdisc (g_mesh false false) = true /\ gdisc (g_mesh true false) = true /\ gdisc g_fit = true /\
  gdisc (g_chain false) = true /\ gdisc g_interf = true /\ gdisc g_wtilde = true.
Proof. exact instances_disciplined. Qed.
Theorem C11_library_graph_reads_pure : forall (k : nat) (vf : vfn) (reads : list nat),
  (k < 6)%nat -> gobservations (ginstance k) vf reads = map (gspec (ginstance k) vf) reads.
Proof. exact instance_reads_pure. Qed.

(* curvature_reg_matrix is, in those graphs, a node that builds a new array and deletes the curvature_matrix entry; the code adds INTO
   the cached curvature matrix and deletes the entry (PART B): the two machines report the same values on every sequence of
   curvature_matrix / curvature_reg_matrix reads, with or without preloads *)
Theorem C11_partB_agrees_with_graph_node : forall (add : adder) (F H D U : arr) (pre : ipre) (qs : list iq),
  forallb is_matrix_read qs = true ->
  irun add ifaithful pre F H D U (ist0 F D) qs = gobservations g_crm (vf_crm add F H) (map node_of_iq qs).
Proof. exact partB_agrees_with_graph_node. Qed.

(* the two defect classes leave the discipline and are order dependent: `voronoi_pixel_areas` as a cached_property (its consumers
   edit the array they receive), and `noise_map.native` returning the stored object (apply_noise_scaling edits it) *)
Theorem C11_defect_graphs_not_disciplined :
  gdisc (g_mesh false true) = false /\ gdisc (g_mesh true true) = false /\ gdisc (g_chain true) = false.
Proof. exact mutant_graphs_not_disciplined. Qed.
Theorem C11_mesh_areas_cached_refuted :
  gobservations (g_mesh true true) vf_mesh [5; 4]%nat <> map (gspec (g_mesh true true) vf_mesh) [5; 4]%nat /\
  gobservations (g_mesh true true) vf_mesh [7; 5]%nat <> map (gspec (g_mesh true true) vf_mesh) [7; 5]%nat /\
  last (gobservations (g_mesh true true) vf_mesh [5; 7]%nat) [] <> last (gobservations (g_mesh true true) vf_mesh [7]%nat) [] /\
  gobservations (g_mesh true false) vf_mesh [5; 4; 7; 5; 4]%nat = [[6; 4; 6]; [-1; 4; 9]; [0; 4; 9]; [6; 4; 6]; [-1; 4; 9]]%Z.
Proof. exact mesh_areas_cached_refuted. Qed.
Theorem C11_chain_native_alias_refuted :
  gobservations (g_chain true) vf_chain [20; 15; 20]%nat <> map (gspec (g_chain true) vf_chain) [20; 15; 20]%nat /\
  hget (gs_heap (gfinal (g_chain true) vf_chain [15%nat])) 1%nat <> hget (gs_heap (ginit (g_chain true) vf_chain)) 1%nat /\
  gobservations (g_chain false) vf_chain [20; 15; 20]%nat = map (gspec (g_chain false) vf_chain) [20; 15; 20]%nat.
Proof. exact chain_native_alias_refuted. Qed.

(* ---- PART E: argument objects shared between calls (OverSamplingDataset handed to dataset constructors and to apply_over_sampling,
   explicitly or through a signature's default instance; Model/C11s.v) ------------------------------------------------------------ *)

(* on EVERY history of argument constructions, dataset constructions (the dataset keeps the object it is given, or the signature's
   default instance), apply_over_sampling calls with an explicit / shared / omitted argument and derivations that keep the
   over-sampling, the machine of the code (a NEW record per apply_over_sampling) observes what the value semantics observes *)
Theorem C11_shared_arguments_pure : forall ops : list sop, hobservations false ops = vobservations ops.
Proof. exact share_pure. Qed.

(* ... and no step changes the record of anything that exists (default instances, the caller's arguments, datasets) *)
Theorem C11_shared_arguments_nothing_changes : forall ops : list sop, Forall (fun x => snd x = []) (htrace false hst0 ops).
Proof. exact share_nothing_changes. Qed.

(* the caller's argument objects hold, after every history, the record they were created with; the default instances stay empty *)
Theorem C11_shared_arguments_never_modified : forall (ops : list sop) (i : nat),
  last (hobservations false (ops ++ [HPeekArg i])) bad = match nth_error (sargs ops) i with Some r => Ok r | None => bad end.
Proof. exact share_args_never_modified. Qed.
Theorem C11_default_instances_never_filled : forall (ops : list sop) (w : nat), (w < ndefaults)%nat ->
  last (hobservations false (ops ++ [HPeekDefault w])) bad = Ok empty_rec.
Proof. exact share_defaults_never_filled. Qed.

(* the correspondence check of a KShare run accepts exactly the runs the specification accepts *)
Theorem C11_shared_arguments_check_is_spec : forall ops out, share_agree ops out = share_spec_ok ops out.
Proof. exact share_agree_is_spec. Qed.

(* refutations of the variant that fills the missing fields of the record it RECEIVED (found by the independent campaign): with the
   argument omitted the second dataset reports the over-sampling of the first and the default instance is filled; with one partially
   specified argument handed to both calls the second result carries the first dataset's field and the caller's object is changed *)
Theorem C11_apply_over_sampling_in_place_refuted_default :
  hobservations true hist_share <> vobservations hist_share
  /\ nth 5 (hobservations true hist_share) bad = Ok [1; 0; 2]%Z /\ nth 5 (vobservations hist_share) bad = Ok [4; 0; 1]%Z
  /\ nth 6 (hobservations true hist_share) bad = Ok [1; 0; 2]%Z.
Proof. exact share_inplace_refuted. Qed.
Theorem C11_apply_over_sampling_in_place_refuted_shared_argument :
  hobservations true hist_share_arg <> vobservations hist_share_arg
  /\ nth 6 (hobservations true hist_share_arg) bad = Ok [1; 0; 8]%Z /\ nth 6 (vobservations hist_share_arg) bad = Ok [4; 0; 8]%Z
  /\ nth 7 (hobservations true hist_share_arg) bad = Ok [1; 0; 8]%Z /\ nth 7 (vobservations hist_share_arg) bad = Ok [0; 0; 8]%Z.
Proof. exact share_inplace_arg_refuted. Qed.

(* ---- non-vacuity ------------------------------------------------------------------------------------------------ *)
(* a history with a native construction under a mask, a dataset, cached reads, arithmetic, slicing, trimming, a valued
   mapper with an all-False pixel mask and both inversion factories ([example_history] in Proofs/C11.v): it respects the discipline under the code's policy,
   stays outside the finding class, and its observations are not trivial *)
Example C11_hyps_satisfiable :
  run_ok qf_sum faithful example_history = true /\ avoids_findings qf_sum example_history = true /\
  safe disciplined = true /\
  nth 4 (observations qf_sum faithful example_history) bad = Ok [50; 1]%Z /\
  nth 11 (observations qf_sum faithful example_history) bad = Ok [13; 7]%Z /\
  derivations [ORead 0 1; OCopy 0; OPlain 1 2] = derivations [OCopy 0; ORead 1 3; ORead 1 3] /\
  (* x.native of the slim object 0, then a kernel built from it with normalize=True: the source keeps its contents *)
  nth 25 (observations qf_sum faithful example_history) bad = Ok [20; 9]%Z /\
  nth 26 (observations qf_sum faithful example_history) bad = Ok [5; 0; 7; 8]%Z.
Proof. vm_compute. repeat split. Qed.
(* PART D: the discipline holds of the library's graphs (theorem above); reads on the mesh graph give non-trivial values in any order *)
Example C11_graph_hyps_satisfiable :
  gdisc (g_mesh true false) = true /\
  gobservations (g_mesh true false) vf_mesh [7; 5; 6; 4; 7]%nat = [[0; 4; 9]; [6; 4; 6]; [6]; [-1; 4; 9]; [0; 4; 9]]%Z /\
  gobservations g_fit (fun n vs => [Z.of_nat n; Z.of_nat (length vs)]) [28; 12; 16; 15]%nat = [[28; 5]; [12; 2]; [15; 2]; [15; 2]]%Z.
Proof. vm_compute. repeat split. Qed.

(* PART E: a history with shared and omitted arguments gives non-trivial records *)
Example C11_shared_arguments_nontrivial :
  vobservations hist_share_arg = [Ok [1; 0; 2]; Ok [4; 0; 1]; Ok [0; 0; 8]; Ok [1; 0; 2]; Ok [4; 0; 1]; Ok [1; 0; 8]; Ok [4; 0; 8]; Ok [0; 0; 8]]%Z
  /\ hobservations false hist_share = vobservations hist_share.
Proof. vm_compute. split; reflexivity. Qed.

(* ---- PART F: re-masking chains on a dataset with a noise covariance matrix (Model/C11r.v) ------------------------------------ *)

(* [robservations false] is the machine of Imaging.apply_mask (dataset objects with a reference to the dataset they go back to, the
   matrix reduced with np.delete, which can raise); [sobservations] the value semantics: a dataset is (the caller's data array and
   covariance matrix, its own mask).  For EVERY history of apply_mask calls on any of the datasets made so far (a then b: larger,
   smaller, disjoint, all-false ...) and looks at them, every dataset reports the data and the matrix of the pixels of ITS OWN mask *)
Theorem C11_remask_reports_own_contents : forall (data0 : arr) (cov0 : option (list arr)) (ops : list rop),
  wf_cov (length data0) cov0 = true -> robservations false data0 cov0 ops = sobservations data0 cov0 ops.
Proof. exact remask_pure. Qed.

(* history independence: masking with b after ANY history gives what masking the fresh dataset with b gives (or the step is
   ill-formed: no such dataset / a mask of another shape) *)
Theorem C11_remask_history_free : forall (data0 : arr) (cov0 : option (list arr)) (ops : list rop) (d : nat) (b : list bool),
  wf_cov (length data0) cov0 = true ->
  last (robservations false data0 cov0 (ops ++ [RMask d b])) RBad = view data0 cov0 b
  \/ last (robservations false data0 cov0 (ops ++ [RMask d b])) RBad = RBad.
Proof. exact remask_history_free. Qed.

(* the correspondence check of a KRemask run accepts exactly the runs the specification accepts *)
Theorem C11_remask_check_is_spec : forall data0 cov0 ops out,
  remask_agree data0 cov0 ops out = remask_spec_ok data0 cov0 ops out.
Proof. exact remask_check_is_spec. Qed.

(* refutation of the variant that reduces the matrix of `self` (the already reduced matrix of a masked dataset; found by the
   independent campaign): a then a larger b raises IndexError; a then a smaller b yields a 1x1 matrix for a dataset of 2 pixels *)
Theorem C11_remask_from_reduced_matrix_refuted :
  robservations true w_data w_cov w_h1 <> sobservations w_data w_cov w_h1
  /\ robservations true w_data w_cov w_h2 <> sobservations w_data w_cov w_h2
  /\ nth 1 (robservations true w_data w_cov w_h1) RBad = RRaise
  /\ nth 1 (robservations true w_data w_cov w_h2) RBad = ROk [12; 13]%Z (Some [[16]%Z])
  /\ nth 1 (sobservations w_data w_cov w_h2) RBad = ROk [12; 13]%Z (Some [[11; 12]; [15; 16]]%Z).
Proof. exact remask_from_reduced_matrix_refuted. Qed.

(* non-vacuity: a well-formed matrix, a history with a re-masking, and what it reports *)
Example C11_remask_nonvacuous :
  wf_cov (length w_data) w_cov = true
  /\ robservations false w_data w_cov w_h2 = [ROk [11; 12; 13]%Z (Some [[6; 7; 8]; [10; 11; 12]; [14; 15; 16]]%Z);
                                               ROk [12; 13]%Z (Some [[11; 12]; [15; 16]]%Z)].
Proof. split; vm_compute; reflexivity. Qed.

Print Assumptions C11_discipline_implies_purity.
Print Assumptions C11_inputs_never_modified.
Print Assumptions C11_effect_summaries_are_sound.
Print Assumptions C11_safe_policy_is_pure.
Print Assumptions C11_code_is_pure_outside_findings.
Print Assumptions C11_code_never_modifies_inputs_outside_findings.
Print Assumptions C11_order_independence.
Print Assumptions C11_order_independence_code.
Print Assumptions C11_read_is_function_of_own_contents.
Print Assumptions C11_read_is_function_of_own_contents_code.
Print Assumptions C11_purity_refuted_D8_values_masked.
Print Assumptions C11_purity_refuted_without_D7_repair.
Print Assumptions C11_purity_refuted_without_D9_repair.
Print Assumptions C11_purity_refuted_without_D10_repair.
Print Assumptions C11_purity_refuted_without_D11_repair.
Print Assumptions C11_purity_refuted_without_D12_repair.
Print Assumptions C11_refutations_and_finding_class.
Print Assumptions C11_purity_refuted_normalize_without_copy.
Print Assumptions C11_inversion_reads_pure.
Print Assumptions C11_inversion_preload_alias_refuted.
Print Assumptions C11_inversion_entry_kept_refuted.
Print Assumptions C11_inversion_preload_diag_alias_refuted_without_D20_repair.
Print Assumptions C11_rng_seeded_is_state_independent.
Print Assumptions C11_rng_unseeded_depends_on_state.
Print Assumptions C11_graph_reads_pure.
Print Assumptions C11_graph_inputs_kept.
Print Assumptions C11_graph_order_independence.
Print Assumptions C11_graph_effect_summaries_are_sound.
Print Assumptions C11_library_graphs_disciplined.
Print Assumptions C11_library_graph_reads_pure.
Print Assumptions C11_partB_agrees_with_graph_node.
Print Assumptions C11_defect_graphs_not_disciplined.
Print Assumptions C11_mesh_areas_cached_refuted.
Print Assumptions C11_chain_native_alias_refuted.
Print Assumptions C11_shared_arguments_pure.
Print Assumptions C11_shared_arguments_nothing_changes.
Print Assumptions C11_shared_arguments_never_modified.
Print Assumptions C11_default_instances_never_filled.
Print Assumptions C11_shared_arguments_check_is_spec.
Print Assumptions C11_apply_over_sampling_in_place_refuted_default.
Print Assumptions C11_apply_over_sampling_in_place_refuted_shared_argument.
Print Assumptions C11_remask_reports_own_contents.
Print Assumptions C11_remask_history_free.
Print Assumptions C11_remask_check_is_spec.
Print Assumptions C11_remask_from_reduced_matrix_refuted.
