"""C05 -- the reconstruction is the (non-negative) least-squares optimum.

Entry points exercised (implementation side):
  autoarray.util.fnnls.fnnls_cholesky(ZTZ, ZTx, P_initial)                    (cold start, bool-mask / index warm starts)
  inversion_util.reconstruction_positive_only_from / reconstruction_positive_negative_from
  aa.Inversion(...).reconstruction / .reconstruction_dict / .mapped_reconstructed_data_dict / .mapped_reconstructed_data
     - mock linear objects (exact integer / dyadic systems, 1-3 objects, edge pixels, objects without regularization)
     - real Imaging + Rectangular mappers, mapping and w-tilde formalisms
  for use_positive_only_solver x positive_only_uses_p_initial x force_edge_pixels_to_zeros (passed explicitly through
  SettingsInversion, or through a pushed general.yaml overlay: the repository's config is what decides when the argument is None).

Every floating-point *decision* of the solver (sign of the warm-start solution, s <= tol, max w > tol, arg-max runner-up,
d <= tol after the alpha step) is re-computed exactly (fractions) by `Mirror`; for a case with a decision closer than 1e-6 to
its threshold (every exactly symmetric system) the comparison with the model is waived and only the specification is evaluated, in Coq,
on the implementation's output (kind `...:speconly`, Coq wrapper KSpec; counts per reason in the evidence)."""
import os, atexit, shutil, tempfile, random
import numpy as np
from fractions import Fraction
from harness.common import cz, cq, cnat, cbool, clist, ctup, cres, copt, import_aa, frac, exn_name

ID = "C05"
GEN = []
PROPS = "Props/C05.v"
COQ_CHECK = ("Model.C05", "check")
COQ_FALLBACK = None
COQ_IMPORTS = "From PAV Require Import Base.NumOps Model.C05Chol."
SHARD = 40
EXHAUSTIVE = {}
RULE = ("SPD systems A = Z^T Z (+ R) + k I, n = 1..8, integer or quarter entries, right-hand sides b of four classes (positive, zero-mean, "
        "negative, noise-dominated mixed sign), plus sparse/banded A and b with exact zeros; fnnls_cholesky with cold start, the "
        "production warm start (sign pattern of the unconstrained solution), arbitrary bool-mask and index-array warm starts; both "
        "reconstruction_* wrappers; aa.Inversion over mock objects (1-3 objects, mappers with edge pixels, objects without "
        "regularization, 1-pixel mappers, singular systems) and over Imaging + Rectangular mappers (mapping and w-tilde formalisms, "
        "3x3 / 1x3 / 3x1 signed PSFs, negative data) for all use_positive_only_solver x positive_only_uses_p_initial x "
        "force_edge_pixels_to_zeros (+ force_edge_image_pixels_to_zeros); settings given explicitly or through a pushed "
        "general.yaml. Phase 2 streams: exactly symmetric / degenerate SPD systems (mirror pairs, exchangeable triples, self-mirrored "
        "parameters, A = S + P S P, duplicate columns; two thirds selected by the exact mirror to delete >= 2 passive entries in one "
        "fix_constraint step) through fnnls_cholesky (cold / production warm start / masks), reconstruction_positive_only_from and "
        "aa.Inversion (identity-mapping mapper; left-right symmetric Imaging on Rectangular meshes, corpus seeds); linear_obj_list orders "
        "fm, fmf, ffm, mfm, fmm, mf, fmfm, m with both forced lists non-empty (mock and Rectangular mappers). Cases with a decision on a "
        "tie are evaluated specification-only (KSpec), never dropped. Phase 4 streams: (i) rare active-set paths built deliberately -- >= 3 "
        "consecutive iterations in which one parameter enters and a different one leaves, followed by further iterations (2-d `fan` of columns with "
        "geometrically falling norms closing in on the data direction, optionally a weakly coupled second block; n = 6..25; plus the corpus systems "
        "swap_*.json found offline in random correlated / PSF-like / low-rank families, conjugated by random permutations), selected by an independent "
        "float reference run of the active-set method, for the cold and the production warm start, through fnnls_cholesky, "
        "reconstruction_positive_only_from (explicit and shared-default settings) and aa.Inversion (identity mapping matrix; also as the system left after "
        "removing forced edge parameters); (ii) larger systems n = 9..25 (Gram / correlated / PSF-like / low-rank / banded), specification only; "
        "(iii) A * 2^(+-12), b * 2^(-10, 10, 20) scalings; (iv) histories on every solver case: arguments fingerprinted before/after, the call repeated "
        "through the same array objects with two neighbour systems solved in between (their outputs go through the certificate too), the system "
        "passed as a Fortran-ordered / strided-view / read-only / integer-dtype array, omitted P_initial and omitted settings (shared default objects); "
        "on every Inversion: .reconstruction read twice, curvature_reg_matrix / data_vector / settings fingerprinted, a second Inversion built from the "
        "same linear objects and the same settings object with negated data (and, for settings read from general.yaml, with use_positive_only_solver "
        "flipped in the pushed configuration). Non-trivial = the unconstrained solution has at least one negative and one positive entry (the active set "
        "is neither empty nor full) or the case is an Inversion; distinct = distinct JSON input.")
TRUSTED = ["hand-written Gallina model coq/Model/C05.v (active-set loops of fnnls.py, wrappers of inversion_util.py / abstract.py), tied to "
           "/repo by this correspondence run: implementation output vs exact rational model output, |diff| <= 1e-9 max(1,|model|), "
           "evaluated inside Coq by vm_compute, plus the KKT / normal-equation certificate evaluated on the implementation's output",
           "scipy.linalg.solve(assume_a='pos'), scipy.linalg.cholesky/cho_solve, numpy.linalg.solve = the exact solve of the system they "
           "are given (modelled by Gaussian elimination, proved sound in Coq); the Cholesky updates of cholesky_funcs.py are modelled "
           "(Model/C05Chol.v) and proved to preserve U^T U = A[P_inorder, P_inorder]; the contract is also asserted numerically on every call "
           "the implementation makes during the run, and a sample of the calls is replayed in Coq (KChol cases)",
           "Python-side exact mirror (fractions) used only to measure decision margins; never used to decide agreement",
           "Python-side float reference run of the active-set method (ref_path) used only to SELECT inputs with a rare path shape and to tally path "
           "shapes; a sys.setprofile hook that reads the locals no_update / max_repetitions of fnnls_cholesky at its return, for the evidence "
           "only (implementation_loop_exit_tally); neither decides agreement",
           "doubles: systems are small integers / quarters; comparisons under tolerance; where a decision lies within 1e-6 of its threshold only the "
           "specification (KKT certificate, tolerance 1e-8 max(1,|b|)) is evaluated on the implementation's output"]
ASSUMPTIONS = ["real arithmetic (no rounding); theorems over R", "termination of the active-set loops is not proved (explicit fuel = the code's "
               "10000-iteration guards)", "w-tilde mapped data (unique mappings + convolution) is correspondence-only"]

EPS = 2.2204e-16
BAND = Fraction(1, 10 ** 6)
STATS = {"chol_contract_calls": 0, "chol_contract_max_residual": 0.0, "solver_runs": 0, "runs_with_prune_step": 0, "runs_with_2plus_prune_rounds": 0,
         "runs_with_inner_fix_step": 0, "runs_with_2plus_inner_fix_steps": 0, "runs_with_multi_delete_step_exact": 0, "outer_iterations": 0,
         # measured on the implementation (wrapper around the choldeleteindexes that fnnls.py calls)
         "chol_cases_in_coq": 0, "chol_calls_too_deep_for_coq": 0, "impl_solver_runs_watched": 0, "impl_delete_calls": 0, "impl_delete_calls_2plus": 0, "impl_runs_deleting_2plus_in_one_step": 0,
         "impl_runs_deleting_3plus_in_one_step": 0, "impl_max_deleted_in_one_step": 0,
         "glue_cases_nonmapper_before_mapper": 0, "glue_cases_nonmapper_before_mapper_with_forced_edge_and_zero_lists": 0,
         "glue_..._of_which_rectangular_mappers": 0, "glue_..._of_which_mock_mappers": 0,
         # shapes of the active-set path according to the reference run (ref_path), over every solver case of the run
         "ref_path": {"runs": 0, "runs_not_finished_by_the_reference_run": 0, "runs_with_3plus_consecutive_swap_iterations": 0, "runs_with_3plus_consecutive_swap_iterations_followed_by_more": 0, "runs_with_4plus_consecutive_swap_iterations": 0,
                      "runs_with_3plus_consecutive_non_growing_iterations": 0, "runs_with_more_than_10_outer_iterations": 0, "runs_with_6plus_fix_constraint_steps": 0, "max_fix_constraint_steps": 0,
                      "runs_where_a_removed_parameter_re_enters": 0, "max_consecutive_swap_iterations": 0, "max_outer_iterations": 0},
         "mirror_exits_through_no_update_break": 0,
         "impl_exit": {"observed": 0, "through_the_no_update_break": 0, "raised": 0, "not_observable_locals_renamed": 0},
         "history": {"second_evaluations_same_arrays": 0, "neighbour_systems_between_evaluations": 0, "argument_fingerprints": 0,
                     "input_kind_variants": {}, "second_inversions_same_objects": 0, "second_inversions_config_flipped": 0,
                     "default_settings_calls": 0}}
CHOL_BUDGET = [120]     # number of Cholesky-update calls turned into Coq cases (set per tier by gen_inputs)
CHOL_MAXROT = [3]       # deepest deletion replayed in Coq: 3 rotations cost about 20 s of exact rational square roots each (quick tier: 2)
SKIPPED = {}        # reason -> number of cases not evaluated at all
SPEC_ONLY = {}      # reason -> number of cases where only the specification was evaluated on the implementation's output (KSpec)
def note(d, reason): d[reason] = d.get(reason, 0) + 1
def tally(m):
    STATS["solver_runs"] += 1; STATS["outer_iterations"] += m.n_outer
    if m.n_prune: STATS["runs_with_prune_step"] += 1
    if m.n_prune >= 2: STATS["runs_with_2plus_prune_rounds"] += 1
    if m.n_inner: STATS["runs_with_inner_fix_step"] += 1
    if m.n_inner >= 2: STATS["runs_with_2plus_inner_fix_steps"] += 1
    if m.n_multi: STATS["runs_with_multi_delete_step_exact"] += 1

def extra_evidence():
    return {"skipped_by_reason": dict(SKIPPED), "skipped_total": sum(SKIPPED.values()),
            "spec_only_by_reason": dict(SPEC_ONLY), "spec_only_total": sum(SPEC_ONLY.values()),
            "cholesky_contract_calls": STATS["chol_contract_calls"], "cholesky_update_calls_checked_in_coq": STATS["chol_cases_in_coq"],
            "cholesky_delete_calls_not_replayed_in_coq_more_than_3_rotations": STATS["chol_calls_too_deep_for_coq"], "cholesky_delete_max_rotations_replayed_in_coq": CHOL_MAXROT[0],
            "cholesky_contract_max_residual": STATS["chol_contract_max_residual"],
            "branch_tally": {k: STATS[k] for k in ("solver_runs", "runs_with_prune_step", "runs_with_2plus_prune_rounds", "runs_with_inner_fix_step",
                                                   "runs_with_2plus_inner_fix_steps", "runs_with_multi_delete_step_exact", "outer_iterations")},
            "implementation_delete_tally": {k: STATS[k] for k in STATS if k.startswith("impl_")},
            "glue_order_tally": {k: STATS[k] for k in STATS if k.startswith("glue_")},
            "reference_path_tally": dict(STATS["ref_path"]), "mirror_exits_through_no_update_break": STATS["mirror_exits_through_no_update_break"],
            "history_tally": dict(STATS["history"]), "implementation_loop_exit_tally": dict(STATS["impl_exit"])}

# --------------------------------------------------------------------------------------------- exact mirror (margins only)
def gauss(A, b):
    n = len(b)
    M = [list(map(Fraction, A[i])) + [Fraction(b[i])] for i in range(n)]
    for c in range(n):
        p = next((r for r in range(c, n) if M[r][c] != 0), None)
        if p is None: return None
        M[c], M[p] = M[p], M[c]
        for r in range(n):
            if r != c and M[r][c] != 0:
                f = M[r][c] / M[c][c]
                M[r] = [a - f * x for a, x in zip(M[r], M[c])]
    return [M[i][n] / M[i][i] for i in range(n)]

class Mirror:
    """exact re-execution of fnnls_cholesky that records the distance of every decision from its threshold"""
    def __init__(self): self.margin = Fraction(10 ** 9); self.n_prune = 0; self.n_inner = 0; self.n_outer = 0; self.n_multi = 0
    def dec(self, x, thr):
        self.margin = min(self.margin, abs(Fraction(x) - Fraction(thr)))
    def sub_solve(self, A, b, idx):
        return gauss([[A[i][j] for j in idx] for i in idx], [b[i] for i in idx])
    def solve_on(self, A, b, P):
        n = len(P); s = [Fraction(0)] * n
        idx = [i for i in range(n) if P[i]]
        if idx:
            x = self.sub_solve(A, b, idx)
            if x is None: return None
            for k, i in enumerate(idx): s[i] = x[k]
        return s
    def need_fix(self, P, s, tau):
        for i, p in enumerate(P):
            if p: self.dec(s[i], tau)
        return any(p and s[i] <= tau for i, p in enumerate(P))
    def fnnls(self, A, b, tau, pinit):
        n = len(A)
        A = [[Fraction(x) for x in r] for r in A]; b = [Fraction(x) for x in b]
        if pinit is None:
            P = [False] * n; Pin = []; s = [Fraction(0)] * n; d = list(s)
        else:
            P = list(pinit)
            s = self.solve_on(A, b, P)
            if s is None: return None
            while self.need_fix(P, s, tau):
                self.n_prune += 1
                P = [p and not (s[i] <= tau) for i, p in enumerate(P)]
                s = self.solve_on(A, b, P)
                if s is None: return None
            Pin = [i for i in range(n) if P[i]]; d = list(s)
        w = [b[i] - sum(A[i][j] * d[j] for j in range(n)) for i in range(n)]
        lc = lc2 = nu = 0
        while True:
            off = [w[i] for i in range(n) if not P[i]]
            if not off: break
            if any(x != 0 for x in d): self.dec(max(off), tau)     # d = 0: w = b exactly, the doubles decide identically
            if not max(off) > tau: break
            cur = list(P)
            v = [Fraction(0) if P[i] else w[i] for i in range(n)]
            idmax = max(range(n), key=lambda i: (v[i], -i))
            if any(x != 0 for x in d):       # w = b exactly when d = 0: ties are then decided identically by the doubles
                for i in range(n):
                    if i != idmax: self.dec(v[i], v[idmax])
            Pin = Pin + [idmax]
            x = self.sub_solve(A, b, Pin)
            if x is None: return None
            for k, i in enumerate(Pin): s[i] = x[k]
            P[idmax] = True
            self.n_outer += 1
            while self.need_fix(P, s, tau):
                self.n_inner += 1
                q = [P[i] and s[i] <= tau for i in range(n)]
                ratios = [d[i] / (d[i] - s[i]) if d[i] != s[i] else Fraction(0) for i in range(n) if q[i]]
                alpha = min(ratios)
                d = [d[i] + alpha * (s[i] - d[i]) for i in range(n)]
                for i in Pin:
                    if d[i] != 0: self.dec(d[i], tau)     # an exact 0 is the alpha arg-min: noise of either sign ends up deleted
                if sum(1 for i in Pin if d[i] <= tau) >= 2: self.n_multi += 1
                Pin = [i for i in Pin if not d[i] <= tau]
                P = [P[i] and not d[i] <= tau for i in range(n)]
                if Pin:
                    x = self.sub_solve(A, b, Pin)
                    if x is None: return None
                    for k, i in enumerate(Pin): s[i] = x[k]
                s = [s[i] if P[i] else Fraction(0) for i in range(n)]
                lc2 += 1
                if lc2 > 10000: return None
            d = list(s)
            w = [b[i] - sum(A[i][j] * d[j] for j in range(n)) for i in range(n)]
            lc += 1
            if lc > 10000: return None
            nu = nu + 1 if cur == P else 0
            if nu >= 3:      # only reachable through a degenerate (in-band) state
                self.margin = Fraction(0); STATS["mirror_exits_through_no_update_break"] += 1; break
        return d

def margin_pos_only(A, b, uses_p):
    """margin of reconstruction_positive_only_from on (A, b); None if the exact system is singular"""
    n = len(b)
    if n == 0: return Fraction(1)
    m = Mirror(); tau = Fraction(EPS * n)
    pinit = None
    if uses_p:
        u = gauss(A, b)
        if u is None: return None
        for x in u: m.dec(x, 0)
        pinit = [x > 0 for x in u]
    m.fnnls(A, b, tau, pinit)
    tally(m)
    return m.margin

# --------------------------------------------------------------------------------------------- reference active-set run (floats)
def ref_path(A, b, pinit=None):
    """Independent float re-run of the active-set method (plain numpy solves, no Cholesky updates, no no_update counter).  It is used
    ONLY to select inputs whose active-set path has a rare shape and to tally those shapes in the evidence -- never to decide agreement.
    Returns (d, path); path[k] = (entered index, [indices removed during outer iteration k], entered index still passive at its end,
    number of fix_constraint steps of the iteration)."""
    A = np.asarray(A, dtype=float); b = np.asarray(b, dtype=float)
    n = len(b); tol = EPS * n
    P = np.zeros(n, bool); d = np.zeros(n); s = np.zeros(n); path = []
    try:
        if pinit is not None and len(pinit):
            P[:] = pinit
            if P.any(): s[P] = np.linalg.solve(A[P][:, P], b[P])
            while P.any() and s[P].min() <= tol:
                P[s <= tol] = False; s[:] = 0
                if P.any(): s[P] = np.linalg.solve(A[P][:, P], b[P])
            d = s.copy()
        w = b - A @ d
        while (not P.all()) and w[~P].max() > tol:
            P0 = P.copy()
            j = int(np.argmax(w * ~P)); P[j] = True
            s[:] = 0; s[P] = np.linalg.solve(A[P][:, P], b[P])
            inner = 0
            while P.any() and s[P].min() <= tol:
                q = P & (s <= tol)
                step = d[q] - s[q]; ratio = np.zeros(step.shape); np.divide(d[q], step, out=ratio, where=step != 0)
                d = d + ratio.min() * (s - d)
                P[d <= tol] = False
                s[:] = 0
                if P.any(): s[P] = np.linalg.solve(A[P][:, P], b[P])
                inner += 1
                if inner > 500: return None, path
            d = s.copy(); w = b - A @ d
            path.append((j, [int(i) for i in np.where(P0 & ~P)[0]], bool(P[j]), inner))
            if len(path) > 200: return None, path
    except np.linalg.LinAlgError:
        return None, path
    return d, path

def swap_run(path):
    """longest run of consecutive outer iterations in which one parameter enters and a DIFFERENT one leaves (|P| unchanged, P changed)"""
    best = cur = 0
    for j, rem, kept, *_ in path:
        if kept and len(rem) == 1: cur += 1; best = max(best, cur)
        else: cur = 0
    return best

def swaps_then_more(path, k=3):
    """longest run of consecutive swap iterations that is FOLLOWED by at least one more outer iteration (the state after the run is not
    yet optimal: leaving the loop there -- a stall test that is too coarse -- returns a non-KKT vector); 0 if shorter than k"""
    best = cur = 0
    for t, (j, rem, kept, *_) in enumerate(path):
        if kept and len(rem) == 1:
            cur += 1
            if t < len(path) - 1: best = max(best, cur)
        else: cur = 0
    return best if best >= k else 0

def nogrow_run(path):
    """longest run of consecutive outer iterations at whose end |P| has not grown"""
    best = cur = 0
    for j, rem, kept, *_ in path:
        if (1 if kept else 0) - len(rem) <= 0: cur += 1; best = max(best, cur)
        else: cur = 0
    return best

def reentries(path):
    """number of times a parameter that was removed earlier enters the passive set again"""
    gone = set(); k = 0
    for j, rem, kept, *_ in path:
        if j in gone: k += 1
        gone |= set(rem)
        if not kept: gone.add(j)
    return k

def tally_path(A, b, pinit):
    d, path = ref_path(flm(A), np.array(fl(b)), pinit)
    R = STATS["ref_path"]
    if d is None: R["runs_not_finished_by_the_reference_run"] += 1; return 0
    R["runs"] += 1
    sr = swap_run(path); ng = nogrow_run(path)
    if sr >= 3: R["runs_with_3plus_consecutive_swap_iterations"] += 1
    if swaps_then_more(path): R["runs_with_3plus_consecutive_swap_iterations_followed_by_more"] += 1
    if sr >= 4: R["runs_with_4plus_consecutive_swap_iterations"] += 1
    if ng >= 3: R["runs_with_3plus_consecutive_non_growing_iterations"] += 1
    if len(path) > 10: R["runs_with_more_than_10_outer_iterations"] += 1
    fs = sum(p_[3] for p_ in path)
    if fs >= 6: R["runs_with_6plus_fix_constraint_steps"] += 1
    R["max_fix_constraint_steps"] = max(R["max_fix_constraint_steps"], fs)
    if reentries(path): R["runs_where_a_removed_parameter_re_enters"] += 1
    R["max_consecutive_swap_iterations"] = max(R["max_consecutive_swap_iterations"], sr)
    R["max_outer_iterations"] = max(R["max_outer_iterations"], len(path))
    return sr

def fan_system(rng, n, nfans=None):
    """Directed generator for the rare active-set path `one enters, a different one leaves` repeated several times in a row.
    A `fan` is a pair of rows of Z: chain columns z_j = r_j (cos t_j, sin t_j) with angles t_1 > t_2 > ... > 0 closing in on the data
    direction (1, 0) with shrinking gaps and norms r_j falling geometrically: the arg-max of the gradient picks the next LARGER column,
    the sub-problem on {previous, new} has the data outside its cone, so the previous column leaves as the new one enters -- one swap per
    chain column (the dynamic range r_1 / r_L costs condition number, which limits one fan to about 4 swaps at cond <= 5e4).
    Several fans on disjoint row pairs (block structure, weakly coupled) interleave their swaps: longer runs of consecutive swap
    iterations, more fix_constraint steps and more outer iterations in one call, |P| > 2 while the swaps happen.
    Decoration: columns behind a chain (never picked), shadowed copies of chain columns (smaller norm), a few random ones, and optionally
    an extra block of ordinary columns on extra rows.  A = Z^T Z + k I with entries in 1/256 units (exact doubles), b = Z^T x + e with a
    small negative e on the chains (keeps them out of the warm-start set, so the production warm start walks the same path).
    Whether a system really has the path is decided by `ref_path`, not assumed."""
    import math
    unit = 16
    if nfans is None: nfans = 1 if n < 12 else (rng.choice([1, 2, 2]) if n < 18 else rng.choice([1, 2, 3, 3]))
    me = rng.choice([0, 0, 0, 1, 2])                       # extra rows
    ne = rng.randint(1, 3) if me and n >= 8 + 4 * nfans else 0          # extra columns (ordinary block)
    nf = n - ne
    sizes = [nf // nfans + (1 if f < nf % nfans else 0) for f in range(nfans)]
    m = 2 * nfans + me
    noise = rng.random() < 0.75
    Zc = []; e = []
    for f, sz in enumerate(sizes):
        L = rng.randint(4, min(sz, 8))
        g = rng.uniform(0.45, 0.8); q = rng.uniform(1.4, 2.4)
        t0 = rng.uniform(55, 88); gap = t0 * (1 - g) * rng.uniform(0.8, 1.0)
        t = [t0]
        for j in range(1, L): t.append(t[-1] - gap); gap *= g
        R = rng.uniform(20, 60)
        cols = [(R / q ** j, t[j]) for j in range(L)]; kinds = ["c"] * L
        while len(cols) < sz:
            u = rng.random()
            if u < 0.4: cols.append((rng.uniform(1, R), rng.uniform(95, 175))); kinds.append("b")
            elif u < 0.8:
                j = rng.randrange(L); cols.append((R / q ** j * rng.uniform(0.2, 0.8), t[j] + rng.uniform(-2, 2))); kinds.append("s")
            else: cols.append((rng.uniform(1, 6), rng.uniform(t0, 180))); kinds.append("o")
        for (r, a), kd in zip(cols, kinds):
            col = [Fraction(rng.randint(-1, 1), 4) if (rng.random() < 0.15 and nfans > 1) else Fraction(0) for _ in range(m)]    # weak coupling between fans
            col[2 * f] = Fraction(round(r * math.cos(math.radians(a)) * unit), unit)
            col[2 * f + 1] = Fraction(round(r * math.sin(math.radians(a)) * unit), unit)
            for r_ in range(2 * nfans, m):
                if rng.random() < 0.3: col[r_] = Fraction(rng.randint(-1, 1), 4)
            Zc.append(col)
            if not noise: e.append(Fraction(0))
            elif kd in "cs": e.append(-Fraction(rng.randint(1, 4), 4))
            else: e.append(Fraction(rng.randint(-4, 4), 4))
    for _ in range(ne):
        sc = rng.choice([1, 2, 4])
        col = [Fraction(rng.randint(-1, 1), 4) if rng.random() < 0.3 else Fraction(0) for _ in range(2 * nfans)]
        col += [Fraction(sc * rng.randint(0, 3)) for _ in range(me)]
        if all(v == 0 for v in col[2 * nfans:]): col[2 * nfans] = Fraction(sc)
        Zc.append(col); e.append(Fraction(rng.randint(-2, 2), 4))
    perm = list(range(n)); rng.shuffle(perm)
    Z = [[Fraction(0)] * n for _ in range(m)]; ev = [Fraction(0)] * n
    for j in range(n):
        for r_ in range(m): Z[r_][perm[j]] = Zc[j][r_]
        ev[perm[j]] = e[j]
    k = Fraction(rng.choice([1, 1, 2, 4]), rng.choice([1, 2, 4, 8]))
    A = [[sum(Z[r_][i] * Z[r_][j] for r_ in range(m)) + (k if i == j else 0) for j in range(n)] for i in range(n)]
    x = []
    for f in range(nfans): x += [Fraction(rng.randint(3, 9)), Fraction(0)]
    x += [Fraction(rng.randint(-3, 6)) for _ in range(me)]
    b = [sum(Z[r_][i] * x[r_] for r_ in range(m)) + ev[i] for i in range(n)]
    return A, b

def swap_hits(A, b):
    """(longest swap run that is followed by a further iteration: with the cold start, with the production warm start) according to the
    reference run; None if the system is unusable (cond > 5e4)"""
    An = flm(A); bn = np.array(fl(b))
    c = np.linalg.cond(An)
    if not np.isfinite(c) or c > 5e4: return None
    try: u = np.linalg.solve(An, bn)
    except np.linalg.LinAlgError: return None
    out = []
    for pin in (None, u > 0):
        if pin is not None and not pin.any(): out.append(0); continue
        d, path = ref_path(An, bn, pin)
        out.append(swaps_then_more(path) if d is not None else 0)
    return out

CORPUS_DIR = os.path.join(os.path.dirname(os.path.dirname(os.path.abspath(__file__))), "replays", "C05", "corpus")
def corpus_swap_systems():
    """the systems of replays/C05/corpus/swap_*.json (found offline by searching random correlated / PSF-like / low-rank families)"""
    import glob, json
    out = []
    for p in sorted(glob.glob(os.path.join(CORPUS_DIR, "swap_*.json"))):
        inp = json.load(open(p))["input"]
        if "A" in inp: out.append(([[F(x) for x in r] for r in inp["A"]], [F(x) for x in inp["b"]]))
    return out

def swap_systems(rng, count, nmax=25):
    """`count` systems (A, b, cold_run, warm_run) whose reference path has >= 3 consecutive swap iterations with the cold start or with
    the production warm start (alternately required); one in four is a corpus system conjugated by a random permutation"""
    corpus = corpus_swap_systems()
    out = 0; tries = 0
    while out < count and tries < 400 * count:
        tries += 1
        if corpus and tries % 4 == 0:
            A0, b0 = rng.choice(corpus); n = len(b0)
            pm = list(range(n)); rng.shuffle(pm)
            A = [[A0[pm[i]][pm[j]] for j in range(n)] for i in range(n)]; b = [b0[pm[i]] for i in range(n)]
        else:
            A, b = fan_system(rng, rng.randint(6, 10) if out % 5 < 2 else rng.randint(11, nmax))     # 2 in 5 small enough for the exact model run
        h = swap_hits(A, b)
        if h is None: continue
        want_warm = out % 2 == 1
        if (h[1] if want_warm else h[0]) < 3: continue
        out += 1
        yield A, b, h[0], h[1]

def big_spd(rng, n):
    """larger systems (n up to 25) for the specification-only stream: Gram matrices of correlated / PSF-like / low-rank columns"""
    fam = rng.choice(["corr", "gram", "psf", "lowrank", "band"])
    if fam in ("corr", "gram", "band"): return rand_spd(rng, n, False, fam), fam
    if fam == "psf":
        m = n + rng.randint(0, 4); wd = rng.randint(2, 5)
        ker = [rng.randint(1, 4) for _ in range(2 * wd + 1)]; ker[wd] += rng.randint(1, 3)
        Z = [[Fraction(0)] * n for _ in range(m)]
        for j in range(n):
            for t in range(-wd, wd + 1):
                r = j + t + (m - n) // 2
                if 0 <= r < m: Z[r][j] = Fraction(ker[t + wd])
    else:
        m = rng.choice([2, 2, 3, 4])
        Z = [[Fraction(rng.choice([1, 1, 2, 3, 5]) * rng.randint(-1 if r else 0, 4)) for _ in range(n)] for r in range(m)]
    k = Fraction(rng.choice([1, 2, 4]), rng.choice([1, 4, 16]))
    return [[sum(Z[r][i] * Z[r][j] for r in range(len(Z))) + (k if i == j else 0) for j in range(n)] for i in range(n)], fam

# --------------------------------------------------------------------------------------------- Coq printing
def F(x): return Fraction(x)
def cqv(v): return clist([cq(F(x)) for x in v])
def cqm(M): return clist([cqv(r) for r in M])
def cbools(v): return clist([cbool(bool(x)) for x in v])
def fl(v): return [float(F(x)) for x in v]
def flm(M): return np.array([fl(r) for r in M], dtype=float).reshape(len(M), len(M[0]) if M else 0)
def out_vec(res):
    """('ok', ndarray) | ('raise', name) -> same with exact fractions"""
    if res[0] == "ok": return ("ok", [frac(x) for x in np.asarray(res[1], dtype=float).ravel()])
    return res
def cres_vec(res): return cres(res, cqv)
def call(f, *a, **k):
    try: return ("ok", f(*a, **k))
    except Exception as e: return ("raise", exn_name(e))
def show(res): return [str(float(x)) for x in res[1]] if res[0] == "ok" else "raise " + res[1]
def S(M): return [[str(F(x)) for x in r] for r in M]
def Sv(v): return [str(F(x)) for x in v]

# --------------------------------------------------------------------------------------------- Cholesky contract watcher
class CholWatch:
    """wraps the factor updates used by fnnls_cholesky: after each call, U'^T U' must equal the bordered / deleted Gram matrix"""
    def __init__(self, record=True):
        self.bad = None; self.deleted = []; self.cases = []; self.record = record
    def tri(self, U):
        """upper-triangular factor -> its rows from the diagonal on, as Coq rationals (Model/C05Chol.v)"""
        U = np.asarray(U, dtype=float)
        return clist([clist([cq(frac(v)) for v in U[r, r:]]) for r in range(U.shape[0])])
    def keep(self, kind, U0, arg, out, multi=False):
        """record the call as a Coq case (model of the update vs implementation; contract evaluated in Coq): the first insertion, the
        first deletion and every deletion of >= 2 indexes of a run (at most 4 per run), factors up to 7 x 7, while the budget lasts"""
        if not self.record or CHOL_BUDGET[0] <= 0 or U0.shape[0] > 7 or U0.shape[0] == 0: return
        n_kind = sum(1 for c in self.cases if c[0] == kind)
        if len(self.cases) >= 4 or (n_kind >= 1 and not multi): return
        if kind == "del":       # every rotation of _cholupdate takes a square root of the previous results: the exact rationals of the
            # model grow about five-fold in size per rotation (1000 s for 5 rotations), so only calls with at most 3 rotations are replayed in Coq
            size = U0.shape[0]; rot = 0
            for i in sorted(arg, reverse=True): rot += size - 1 - i; size -= 1
            if rot > CHOL_MAXROT[0]: STATS["chol_calls_too_deep_for_coq"] += 1; return
        out = np.asarray(out, dtype=float)
        if out.ndim != 2 or out.shape[0] != out.shape[1] or not np.all(np.isfinite(out)): return     # shape / nan: reported by `note`
        CHOL_BUDGET[0] -= 1; STATS["chol_cases_in_coq"] += 1
        if kind == "ins": self.cases.append((kind, f"(KChol (KIns {self.tri(U0)} {cqv([frac(v) for v in arg])} {self.tri(out)}))"))
        else: self.cases.append((kind, f"(KChol (KDel {self.tri(U0)} {clist([cnat(i) for i in arg])} {self.tri(out)}))"))
    def coq_cases(self): return [c[1] for c in self.cases]
    def exit_note(self):
        """informational (goes into the replay file): the implementation left its main loop through the no_update break"""
        if any(r and isinstance(nu, int) and isinstance(mx, int) and nu >= mx for nu, mx, r in getattr(self, "exits", [])):
            return "note: fnnls_cholesky left its main loop through the `no_update >= max_repetitions` break (not through the loop condition)"
        return None
    def __enter__(self):
        import autoarray.util.fnnls as fm
        self.fm = fm; self.orig = (fm.cholinsertlast, fm.choldeleteindexes)
        watch = self
        def ins(*a, **k):
            try: U0 = np.array(a[0], dtype=float); x = np.array(a[1], dtype=float)
            except Exception: U0 = None
            S_ = watch.orig[0](*a, **k)
            if U0 is not None and k == {} and len(a) == 2:
                G = U0.T @ U0; m = G.shape[0]
                want = np.zeros((m + 1, m + 1)); want[:m, :m] = G; want[:m, m] = x[:m]; want[m, :m] = x[:m]; want[m, m] = x[m]
                watch.note(np.asarray(S_), want)
                watch.keep("ins", U0, x, S_)
            return S_
        def dele(*a, **k):
            try: U0 = np.array(a[0], dtype=float); idx = [int(i) for i in a[1]]; watch.deleted.append(len(idx))
            except Exception: U0 = None
            S_ = watch.orig[1](*a, **k)
            if U0 is not None and k == {} and len(a) == 2:
                G = U0.T @ U0
                want = np.delete(np.delete(G, idx, axis=0), idx, axis=1)
                watch.note(np.asarray(S_), want)
                watch.keep("del", U0, idx, S_, multi=len(idx) >= 2)
            return S_
        fm.cholinsertlast, fm.choldeleteindexes = ins, dele
        # which way does the implementation leave its main loop?  (the locals of fnnls_cholesky at its return: evidence only -- the
        # verdict is the KKT certificate on the returned vector, which is evaluated whatever the exit was)
        self.exits = []
        code = getattr(getattr(fm, "fnnls_cholesky", None), "__code__", None)
        def prof(frame, event, arg):
            if event == "return" and frame.f_code is code:
                loc = frame.f_locals
                watch.exits.append((loc.get("no_update"), loc.get("max_repetitions"), arg is not None))
        import sys
        self.old_prof = sys.getprofile(); sys.setprofile(prof)
        return self
    def note(self, U1, want):
        STATS["chol_contract_calls"] += 1
        if U1.shape != want.shape:
            self.bad = f"factor shape {U1.shape} for a system of shape {want.shape}"; return
        r = float(np.max(np.abs(U1.T @ U1 - want))) if want.size else 0.0
        lower = float(np.max(np.abs(np.tril(U1, -1)))) if want.size else 0.0
        STATS["chol_contract_max_residual"] = max(STATS["chol_contract_max_residual"], r)
        if not (r <= 1e-8 * max(1.0, float(np.max(np.abs(want))) if want.size else 1.0)) or lower > 1e-9:
            self.bad = f"U^T U differs from A[P,P] by {r} (below-diagonal {lower})"
    def __exit__(self, *a):
        import sys
        sys.setprofile(self.old_prof)
        self.fm.cholinsertlast, self.fm.choldeleteindexes = self.orig
        E = STATS["impl_exit"]
        for nu, mx, returned in self.exits:
            if not returned: E["raised"] += 1
            elif isinstance(nu, int) and isinstance(mx, int):
                E["observed"] += 1
                if nu >= mx: E["through_the_no_update_break"] += 1
            else: E["not_observable_locals_renamed"] += 1
        STATS["impl_solver_runs_watched"] += 1
        STATS["impl_delete_calls"] += len(self.deleted); STATS["impl_delete_calls_2plus"] += sum(1 for k in self.deleted if k >= 2)
        if any(k >= 2 for k in self.deleted): STATS["impl_runs_deleting_2plus_in_one_step"] += 1
        if any(k >= 3 for k in self.deleted): STATS["impl_runs_deleting_3plus_in_one_step"] += 1
        STATS["impl_max_deleted_in_one_step"] = max([STATS["impl_max_deleted_in_one_step"]] + self.deleted)

# --------------------------------------------------------------------------------------------- generators
def rand_entry(rng, quarters, lo=-3, hi=3):
    if quarters and rng.random() < 0.5: return Fraction(rng.randint(4 * lo, 4 * hi), 4)
    return Fraction(rng.randint(lo, hi))

def rand_spd(rng, n, quarters=False, style=None):
    style = style or rng.choice(["gram", "gram", "corr", "corr", "corr", "band", "diag", "lap"])
    k = Fraction(rng.choice([1, 1, 2, 3]))
    if quarters and rng.random() < 0.3: k = Fraction(rng.choice([1, 2, 3]), 4)
    if style == "gram":
        m = rng.randint(max(1, n - 2), n + 3)
        Z = [[rand_entry(rng, quarters) for _ in range(n)] for _ in range(m)]
        A = [[sum(Z[r][i] * Z[r][j] for r in range(m)) for j in range(n)] for i in range(n)]
    elif style == "corr":     # strongly correlated columns: entering variables push passive ones negative (inner loop is exercised)
        m = rng.randint(2, n + 1)
        base = [Fraction(rng.randint(1, 3)) for _ in range(n)]
        Z = [[base[j] + Fraction(rng.randint(-1, 1)) for j in range(n)] for _ in range(m)]
        A = [[sum(Z[r][i] * Z[r][j] for r in range(m)) for j in range(n)] for i in range(n)]
        k = Fraction(rng.choice([1, 1, 2]), rng.choice([1, 2, 4]))
    elif style == "band":     # diagonally dominant tridiagonal (regularisation-like), signed off-diagonals
        A = [[Fraction(0)] * n for _ in range(n)]
        for i in range(n - 1):
            v = Fraction(rng.choice([-2, -1, -1, 1, 0])); A[i][i + 1] = v; A[i + 1][i] = v
        for i in range(n): A[i][i] = sum(abs(x) for x in A[i])
    elif style == "lap":      # constant regularisation: graph Laplacian of a random graph
        A = [[Fraction(0)] * n for _ in range(n)]
        for i in range(n):
            for j in range(i + 1, n):
                if rng.random() < 0.4:
                    A[i][j] -= 1; A[j][i] -= 1; A[i][i] += 1; A[j][j] += 1
    else:
        A = [[Fraction(0)] * n for _ in range(n)]
        for i in range(n): A[i][i] = Fraction(rng.randint(0, 4))
    for i in range(n): A[i][i] += k
    return A

def rand_rhs(rng, A, quarters=False, cls=None):
    n = len(A)
    cls = cls or rng.choice(["pos", "zero", "neg", "noise", "noise", "noise", "sparse"])
    if cls == "pos":      # data generated by a positive source: b = A x, x > 0
        x = [Fraction(rng.randint(1, 4)) for _ in range(n)]
        return [sum(A[i][j] * x[j] for j in range(n)) for i in range(n)]
    if cls == "zero":
        b = [rand_entry(rng, quarters, -5, 5) for _ in range(n)]
        b[-1] = -sum(b[:-1])
        return b
    if cls == "neg": return [Fraction(-rng.randint(0, 6)) for _ in range(n)]
    if cls == "sparse": return [rand_entry(rng, quarters, -6, 6) if rng.random() < 0.5 else Fraction(0) for _ in range(n)]
    return [rand_entry(rng, quarters, -9, 9) for _ in range(n)]

def is_spd(A):
    """exact: all pivots of the elimination without row exchanges are positive"""
    n = len(A); M = [list(map(Fraction, r)) for r in A]
    for c in range(n):
        if M[c][c] <= 0: return False
        for r in range(c + 1, n):
            f = M[r][c] / M[c][c]
            if f: M[r] = [a - f * x for a, x in zip(M[r], M[c])]
    return True

def orbit_system(rng):
    """Exactly symmetric SPD system.  The parameters are partitioned into orbits of size 1, 2 or 3 (mirror pairs / exchangeable triples and
    self-mirrored parameters), randomly embedded in 0..n-1; A and b are invariant under the symmetry, so the members of an orbit have equal
    sub-solutions at every symmetric state of the solver and reach zero SIMULTANEOUSLY (several passive entries deleted in one
    fix_constraint step).  `mirror`: pairs only, and the coupling of two pairs distinguishes i-j from i-j' (invariance under ONE involution
    only: A = S + P S P).  Low-norm self-mirrored parameters strongly coupled to heavy pairs make the pairs leave when they enter.
    b = A d0 + small symmetric perturbation with d0 >= 0 on the pairs: mixed-sign, noise-dominated right-hand sides included."""
    mirror = rng.random() < 0.5
    sizes = [rng.choice([2] if mirror else [2, 2, 2, 3]) for _ in range(rng.randint(1, 3))] + [1] * rng.randint(1, 2)
    rng.shuffle(sizes)
    orb = []
    for k, g in enumerate(sizes): orb += [(k, t) for t in range(g)]
    n = len(orb); K = len(sizes)
    pos = list(range(n)); rng.shuffle(pos)
    q = rng.random() < 0.3
    def ent(lo, hi): return rand_entry(rng, q, lo, hi)
    diag = [ent(1, 3) if sizes[k] == 1 else ent(4, 12) for k in range(K)]
    within = [Fraction(0) if sizes[k] == 1 else ent(-2, 8) for k in range(K)]
    cp = {}; cx = {}
    for k in range(K):
        for l in range(k + 1, K):
            if sizes[k] == 1 or sizes[l] == 1: v = ent(1, 3) if rng.random() < 0.8 else ent(-2, 2)
            else: v = ent(-1, 2)
            cp[(k, l)] = v
            cx[(k, l)] = ent(-1, 2) if (mirror and sizes[k] == 2 and sizes[l] == 2) else v
    A = [[Fraction(0)] * n for _ in range(n)]
    for i, (k, t) in enumerate(orb):
        for j, (l, u) in enumerate(orb):
            if i == j: v = diag[k]
            elif k == l: v = within[k]
            else:
                kk, ll = (k, l) if k < l else (l, k)
                v = cp[(kk, ll)] if (t == u or sizes[k] != sizes[l]) else cx[(kk, ll)]
            A[pos[i]][pos[j]] = v
    tries = 0
    while not is_spd(A):
        for i, (k, t) in enumerate(orb):
            if sizes[k] > 1: A[pos[i]][pos[i]] += 1
        tries += 1
        if tries > 40: return None
    dP = [Fraction(rng.randint(1, 3)) if sizes[k] > 1 and rng.random() < 0.8 else Fraction(0) for k in range(K)]
    dv = [Fraction(0)] * n
    for i, (k, t) in enumerate(orb): dv[pos[i]] = dP[k]
    bo = []
    for k in range(K):
        i0 = pos[[i for i, (kk, t) in enumerate(orb) if kk == k][0]]
        base = sum(A[i0][j] * dv[j] for j in range(n))
        if sizes[k] > 1: bo.append((base + (ent(-1, 1) if rng.random() < 0.3 else 0)) if dP[k] else ent(-9, 3))
        else: bo.append(ent(-9, 9) if rng.random() < 0.3 else base + ent(0, 6))
    b = [Fraction(0)] * n
    for i, (k, t) in enumerate(orb): b[pos[i]] = Fraction(bo[k])
    return A, b

def mirror_system(rng):
    """A = S + P S P, b = c + P c for a random SPD S, a random involution P (mirror pairs + self-mirrored parameters) and a mixed-sign c;
    with probability 1/3 two columns are exact duplicates up to the ridge term (A[i][:] = A[j][:] off the diagonal)"""
    n = rng.choice([3, 4, 5, 5, 6, 7, 7, 8])
    perm = list(range(n)); idx = list(range(n)); rng.shuffle(idx)
    nfix = rng.choice([0, 1, 1, 2])
    if (n - nfix) % 2: nfix += 1
    rest = idx[min(nfix, n):]
    for a_, b_ in zip(rest[0::2], rest[1::2]): perm[a_] = b_; perm[b_] = a_
    q = rng.random() < 0.3
    if rng.random() < 1 / 3:      # duplicate columns: Z has the same column at every mirror pair
        m = rng.randint(2, n + 1)
        Z = [[Fraction(0)] * n for _ in range(m)]
        for j in range(n):
            if perm[j] >= j:
                col = [rand_entry(rng, q) for _ in range(m)]
                for r in range(m): Z[r][j] = col[r]; Z[r][perm[j]] = col[r]
        k = Fraction(rng.choice([1, 1, 2]), rng.choice([1, 2, 4]))
        A = [[sum(Z[r][i] * Z[r][j] for r in range(m)) + (k if i == j else 0) for j in range(n)] for i in range(n)]
    else:
        S_ = rand_spd(rng, n, q, rng.choice(["gram", "corr", "corr", "corr", "band", "lap"]))
        A = [[S_[i][j] + S_[perm[i]][perm[j]] for j in range(n)] for i in range(n)]
    c = rand_rhs(rng, A, q, rng.choice(["noise", "noise", "noise", "zero", "sparse", "neg"]))
    b = [c[i] + c[perm[i]] for i in range(n)]
    return A, b

def multi_delete_exact(A, b):
    """does the exact mirror delete >= 2 passive entries in one fix_constraint step, with the cold or the production warm start?"""
    n = len(b); tau = Fraction(EPS * n); hit = False
    u = gauss(A, b)
    for pinit in (None, [x > 0 for x in u]):
        if pinit is not None and not any(pinit): continue
        m = Mirror(); m.fnnls(A, b, tau, pinit)
        hit = hit or m.n_multi > 0
    return hit

def sym_systems(rng, count):
    """`count` symmetric systems, two thirds of them selected (by the exact mirror, not by the implementation) to delete several
    passive entries in one step; the others are unselected members of both families"""
    out = 0; tries = 0
    want_multi = (2 * count) // 3
    while out < want_multi and tries < 40 * count:
        tries += 1
        r = orbit_system(rng)
        if r is None or not multi_delete_exact(*r): continue
        out += 1; yield r
    while out < count:
        r = mirror_system(rng) if rng.random() < 0.6 else orbit_system(rng)
        if r is None: continue
        out += 1; yield r

ORDERS = ["fm", "fmf", "ffm", "mfm", "fmm", "mf", "fmfm", "m"]     # f = non-mapper linear object (function list), m = mapper

def gen_inputs(tier, rng):
    big = tier == "thorough"
    CHOL_BUDGET[0] = 600 if big else 60; CHOL_MAXROT[0] = 3 if big else 2
    # ---- the glue layer: every order of mappers / non-mapper objects with non-empty forced lists (mock objects, then Rectangular mappers)
    for i in range(160 if big else 24):
        yield gen_mock_order(rng, ORDERS[i % len(ORDERS)], i)
    for i in range(32 if big else 5):
        yield {"op": "real", "seed": rng.randrange(10 ** 9), "w_tilde": i % 3 == 2, "pos": True, "pinit": i % 2 == 0, "force": True,
               "two": False, "mockreg": True, "order": ["fm", "fmf", "mfm", "ffm", "fmm"][i % 5], "edge_image": i % 4 != 3}
    # ---- rare active-set paths constructed deliberately: >= 3 consecutive iterations in which one parameter enters and another leaves
    for i, (A, b, cold, warm) in enumerate(swap_systems(rng, 180 if big else 24)):
        n = len(b); large = n > 10
        wmask = [bool(x > 0) for x in np.linalg.solve(flm(A), np.array(fl(b)))]
        hits = ([False] if cold >= 3 else []) + ([True] if warm >= 3 else [])
        for w_ in hits:
            yield {"op": "fnnls", "A": S(A), "b": Sv(b), "start": {"kind": "mask", "mask": wmask} if w_ else {"kind": "none"}, "swap": True, "big": large}
        if i % 3 == 0:
            for w_ in hits: yield {"op": "posonly", "A": S(A), "b": Sv(b), "uses_p": w_, "swap": True, "big": large, "via_config": i % 2 == 0}
        else:        # the same system through aa.Inversion: identity mapping matrix, regularization A - I; i % 3 == 2: the system is what is
            # left after the forced (edge) parameters are removed from a larger one
            extra = sorted(rng.sample(range(n + 2), 2)) if i % 3 == 2 else []
            N = n + len(extra); kept = [j for j in range(N) if j not in extra]
            Af = [[Fraction(0)] * N for _ in range(N)]; bf = [Fraction(rng.randint(-6, 6)) for _ in range(N)]
            for a_, ia in enumerate(kept):
                bf[ia] = b[a_]
                for c_, ic in enumerate(kept): Af[ia][ic] = A[a_][c_]
            for j in extra:
                Af[j][j] = Fraction(N + 1)
                for c_ in range(N):
                    if c_ != j and rng.random() < 0.4: v = Fraction(rng.randint(-1, 1), 4); Af[j][c_] = v; Af[c_][j] = v
            R = [[Af[r][c] - (1 if r == c else 0) for c in range(N)] for r in range(N)]
            I_ = [[Fraction(1 if r == c else 0) for c in range(N)] for r in range(N)]
            for w_ in hits:
                yield {"op": "mock", "npix": N, "objs": [{"params": N, "mapper": True, "M": S(I_), "reg": S(R), "edge": extra}], "data": Sv(bf),
                       "noise": Sv([1] * N), "order": "swap", "big": large,
                       "settings": {"pos": True, "pinit": w_, "force": bool(extra), "edge_image": False, "source_zero": [],
                                    "via_config": i % 4 == 1, "check": True}}
    # ---- larger systems (n = 9..25), specification only: the KKT certificate is cheap, the exact model run is not attempted
    for i in range(420 if big else 18):
        n = rng.randint(9, 25)
        A, fam = big_spd(rng, n); b = rand_rhs(rng, A, False, rng.choice(["noise", "noise", "noise", "zero", "sparse", "pos"]))
        wmask = [bool(x > 0) for x in np.linalg.solve(flm(A), np.array(fl(b)))]
        if i % 3 != 2:
            yield {"op": "fnnls", "A": S(A), "b": Sv(b), "start": {"kind": "none"}, "big": True}
            yield {"op": "fnnls", "A": S(A), "b": Sv(b), "start": {"kind": "mask", "mask": wmask}, "big": True}
        else:
            for uses_p in (True, False): yield {"op": "posonly", "A": S(A), "b": Sv(b), "uses_p": uses_p, "big": True}
    # ---- exactly symmetric / degenerate systems: ties in every decision, several passive entries deleted in one step
    for i, (A, b) in enumerate(sym_systems(rng, 300 if big else 36)):
        n = len(b); u = gauss(A, b)
        warm = [bool(x > 0) for x in u]
        starts = [{"kind": "none"}, {"kind": "mask", "mask": warm}]
        if i % 3 == 0: starts.append({"kind": "mask", "mask": [True] * n})
        elif i % 3 == 1: starts.append({"kind": "mask", "mask": [rng.random() < 0.6 for _ in range(n)]})
        for st in starts:
            yield {"op": "fnnls", "A": S(A), "b": Sv(b), "start": st, "sym": True}
        if i % 3 == 2:
            for uses_p in (True, False):
                yield {"op": "posonly", "A": S(A), "b": Sv(b), "uses_p": uses_p, "sym": True}
        if i % 3 == 0:       # the same system through the public entry point: one mapper with the identity mapping matrix on n image
            # pixels, identity PSF, unit noise and regularization matrix A - I, data b: curvature_reg_matrix = A, data_vector = b
            R = [[A[r][c] - (1 if r == c else 0) for c in range(n)] for r in range(n)]
            I_ = [[Fraction(1 if r == c else 0) for c in range(n)] for r in range(n)]
            yield {"op": "mock", "npix": n, "objs": [{"params": n, "mapper": True, "M": S(I_), "reg": S(R), "edge": []}], "data": Sv(b),
                   "noise": Sv([1] * n), "order": "sym", "settings": {"pos": True, "pinit": i % 2 == 0, "force": False, "edge_image": False,
                                                                    "source_zero": [], "via_config": i % 4 == 3, "check": True}}
    for i in range(16 if big else 3):     # left-right symmetric data on an odd-width rectangular mesh, light regularization
        yield {"op": "real", "seed": rng.randrange(10 ** 9), "w_tilde": i % 2 == 1, "pos": True, "pinit": i % 3 != 2, "force": False,
               "two": False, "mockreg": False, "sym": True}
    # ---- the solver routine on arbitrary SPD systems
    for i in range(1600 if big else 110):
        n = rng.choice([1, 2, 2, 3, 3, 4, 4, 5, 5, 6, 7, 8]) if big else rng.choice([1, 2, 3, 3, 4, 4, 5, 6, 7])
        q = i % 4 == 0
        A = rand_spd(rng, n, q); b = rand_rhs(rng, A, q)
        u = gauss(A, b)
        warm = [bool(x > 0) for x in u]
        starts = [{"kind": "none"}, {"kind": "mask", "mask": warm}]
        r = rng.random()
        if r < 0.35: starts.append({"kind": "mask", "mask": [rng.random() < 0.6 for _ in range(n)]})
        elif r < 0.6: starts.append({"kind": "mask", "mask": [True] * n})
        elif r < 0.8:
            idx = [j for j in range(n) if rng.random() < 0.5]
            rng.shuffle(idx)
            starts.append({"kind": "index", "index": idx})
        else: starts.append({"kind": "mask", "mask": [not w_ for w_ in warm]})
        scale = None
        if i % 8 == 5: scale = [rng.choice([-12, 12, 0]), rng.choice([-10, 10, 20])]      # A * 2^k, b * 2^l: tiny / huge magnitudes
        for st in starts:
            inp = {"op": "fnnls", "A": S(A), "b": Sv(b), "start": st}
            if scale: inp["scale"] = scale
            yield inp
    # ---- the two wrappers
    for i in range(500 if big else 40):
        n = rng.randint(1, 7)
        q = i % 3 == 0
        A = rand_spd(rng, n, q); b = rand_rhs(rng, A, q)
        for uses_p in (True, False):
            yield {"op": "posonly", "A": S(A), "b": Sv(b), "uses_p": uses_p}
        yield {"op": "posneg", "A": S(A), "b": Sv(b), "ranges": rand_ranges(rng, n), "check": rng.random() < 0.8,
               "via_config": rng.random() < 0.5}
    yield {"op": "posonly", "A": [], "b": [], "uses_p": True}
    yield {"op": "posonly", "A": [], "b": [], "uses_p": False}
    for i in range(60 if big else 8):     # singular / equal-valued systems: the exception branch of the unconstrained solver
        n = rng.randint(2, 5)
        A = rand_spd(rng, n, False, "gram")
        if i % 2 == 0:
            j = rng.randrange(n)
            for t in range(n): A[j][t] = Fraction(0); A[t][j] = Fraction(0)
            b = rand_rhs(rng, A, False, "noise")
        else:
            c = Fraction(rng.randint(-3, 3))
            b = [c * sum(A[r]) for r in range(n)]          # solution = (c, ..., c)
        yield {"op": "posneg", "A": S(A), "b": Sv(b), "ranges": rand_ranges(rng, n), "check": i % 4 != 3, "via_config": i % 3 == 0}
    # ---- public entry point: aa.Inversion over mock linear objects
    for i in range(420 if big else 36):
        yield gen_mock_inversion(rng, i)
    # ---- public entry point: Imaging + Rectangular mappers (mapping and w-tilde formalisms)
    for i in range(48 if big else 8):
        yield {"op": "real", "seed": rng.randrange(10 ** 9), "w_tilde": i % 2 == 0,
               "pos": rng.random() < 0.75, "pinit": rng.random() < 0.6, "force": rng.random() < 0.5, "two": i % 3 == 0, "mockreg": i % 4 < 2 or i % 3 == 0}

def rand_ranges(rng, n):
    out = []; lo = 0
    while lo < n:
        hi = rng.randint(lo + 1, n)
        if rng.random() < 0.7: out.append([lo, hi])
        lo = hi
    return out

def gen_mock_inversion(rng, i):
    npix = rng.randint(3, 7)
    nobj = rng.choice([1, 1, 2, 2, 3])
    objs = []
    q = i % 4 == 0
    for o in range(nobj):
        p = rng.randint(1, 4 if nobj > 1 else 6)
        mapper = rng.random() < 0.7 or (o == 0 and nobj == 1)
        M = [[rand_entry(rng, q, -2, 3) if rng.random() < 0.6 else Fraction(0) for _ in range(p)] for _ in range(npix)]
        has_reg = mapper or rng.random() < 0.5
        if has_reg:
            R = rand_spd(rng, p, False, rng.choice(["lap", "band", "diag"]))
        else: R = None
        edge = sorted(j for j in range(p) if rng.random() < 0.35) if mapper else []
        objs.append({"params": p, "mapper": mapper, "M": S(M), "reg": S(R) if R is not None else None, "edge": edge})
    cls = rng.choice(["pos", "noise", "noise", "neg", "zero"])
    if cls == "pos": data = [Fraction(rng.randint(0, 6)) for _ in range(npix)]
    elif cls == "neg": data = [Fraction(-rng.randint(0, 6)) for _ in range(npix)]
    elif cls == "zero":
        data = [Fraction(rng.randint(-4, 4)) for _ in range(npix)]; data[-1] = -sum(data[:-1])
    else: data = [rand_entry(rng, q, -6, 6) for _ in range(npix)]
    noise = [Fraction(rng.choice([1, 1, 2, Fraction(1, 2)])) for _ in range(npix)] if rng.random() < 0.4 else [Fraction(1)] * npix
    pos = rng.random() < 0.75
    st = {"pos": pos, "pinit": rng.random() < 0.6, "force": rng.random() < 0.6,
          "edge_image": rng.random() < 0.25 and sum(1 for o in objs if o["mapper"]) >= 1,
          "source_zero": sorted(set(rng.randrange(npix) for _ in range(rng.randint(1, 2)))),
          "via_config": rng.random() < 0.35, "check": rng.random() < 0.85}
    if not st["edge_image"]: st["source_zero"] = []
    return {"op": "mock", "npix": npix, "objs": objs, "data": Sv(data), "noise": Sv(noise), "settings": st}

def gen_mock_order(rng, order, i):
    """aa.Inversion over mock objects in a prescribed order, positive-only solver with BOTH forced lists non-empty: every mapper has
    edge pixels and receives a non-zero mapping from one of the image pixels in image_pixels_source_zero"""
    npix = rng.randint(4, 7)
    q = i % 4 == 0
    source_zero = sorted(set(rng.randrange(npix) for _ in range(rng.randint(1, 2))))
    edge_image = i % 5 != 4
    objs = []
    for ch in order:
        mapper = ch == "m"
        p = rng.randint(2, 4) if mapper else rng.randint(1, 3)
        M = [[(rand_entry(rng, q, 0, 3) if rng.random() < 0.8 else rand_entry(rng, q, -2, -1)) if rng.random() < 0.65 else Fraction(0)
              for _ in range(p)] for _ in range(npix)]
        edge = []
        if mapper:
            edge = sorted(rng.sample(range(p), rng.randint(1, p - 1)))
            free = [j for j in range(p) if j not in edge]
            j0 = rng.choice(free)                       # a non-edge pixel fed by a source-zero image pixel: only the zero list forces it
            M[rng.choice(source_zero)][j0] = Fraction(rng.randint(1, 3))
            if len(free) > 1:                           # and one that nothing forces
                j1 = rng.choice([j for j in free if j != j0])
                for r in source_zero: M[r][j1] = Fraction(0)
                M[rng.choice([r for r in range(npix) if r not in source_zero])][j1] = Fraction(rng.randint(1, 3))
        R = rand_spd(rng, p, False, rng.choice(["lap", "band", "diag"])) if (mapper or rng.random() < 0.6) else None
        objs.append({"params": p, "mapper": mapper, "M": S(M), "reg": S(R) if R is not None else None, "edge": edge})
    cls = rng.choice(["pos", "pos", "noise", "noise", "zero"])
    if cls == "pos": data = [Fraction(rng.randint(1, 6)) for _ in range(npix)]
    elif cls == "zero":
        data = [Fraction(rng.randint(-4, 4)) for _ in range(npix)]; data[-1] = -sum(data[:-1])
    else: data = [rand_entry(rng, q, -6, 6) for _ in range(npix)]
    noise = [Fraction(rng.choice([1, 1, 2, Fraction(1, 2)])) for _ in range(npix)] if rng.random() < 0.4 else [Fraction(1)] * npix
    st = {"pos": True, "pinit": i % 2 == 0, "force": True, "edge_image": edge_image, "source_zero": source_zero if edge_image else [],
          "via_config": i % 6 == 5, "check": True}
    return {"op": "mock", "npix": npix, "objs": objs, "data": Sv(data), "noise": Sv(noise), "settings": st, "order": order}

# --------------------------------------------------------------------------------------------- configuration overlays
_CFG = {}
_CFG_ROOT = None
def push_config(pos, pinit, check=True):
    """push a general.yaml overlay that fixes the three inversion switches (the configuration dimensions of the property)"""
    global _CFG_ROOT
    from autoconf import conf
    if _CFG_ROOT is None:
        _CFG_ROOT = tempfile.mkdtemp(prefix="verif_c05_cfg_")
        atexit.register(shutil.rmtree, _CFG_ROOT, ignore_errors=True)
    key = (bool(pos), bool(pinit), bool(check))
    if key not in _CFG:
        d = os.path.join(_CFG_ROOT, "_".join(str(int(x)) for x in key)); os.makedirs(d)
        with open(os.path.join(d, "general.yaml"), "w") as f:
            f.write("inversion:\n  check_reconstruction: %s\n  use_positive_only_solver: %s\n  positive_only_uses_p_initial: %s\n"
                    "  no_regularization_add_to_curvature_diag_value: 1.0e-3\n  use_border_relocator: false\n"
                    "  reconstruction_vmax_factor: 0.5\n" % tuple(str(x).lower() for x in (key[2], key[0], key[1])))
        _CFG[key] = d
    conf.instance.push(new_path=_CFG[key])
    g = conf.instance["general"]["inversion"]
    assert (g["use_positive_only_solver"], g["positive_only_uses_p_initial"], g["check_reconstruction"]) == key

# --------------------------------------------------------------------------------------------- cases
def skip_row(kind, reason):
    """the case is not evaluated at all (counted per reason in the evidence: skipped_by_reason)"""
    note(SKIPPED, reason)
    return {"coq": None, "out": "skipped: " + reason, "py_ok": None, "kind": "skipped:" + kind, "nontrivial": False}

def spec_only(coq, reason):
    """a decision of the solver lies on / within 1e-6 of a tie (exactly symmetric or degenerate systems), or the system is too
    ill-conditioned for the 1e-9 comparison: the model-vs-implementation comparison is waived, the SPECIFICATION is still evaluated on
    the implementation's output -- the KKT certificate must hold whatever tie-break was used (counted: spec_only_by_reason)"""
    if reason is None: return coq
    note(SPEC_ONLY, reason)
    return f"(KSpec {coq})"

TIE = "a solver decision lies within 1e-6 of a tie"
ILL = "ill-conditioned system (cond > 1e5): 1e-9 comparison with the exact solve not meaningful"
COST = "more than 10 free parameters with non-dyadic entries (Constant regularization adds 1e-8): exact rational run of the model too slow"
def cond_of(A):
    if not A: return 1.0
    c = np.linalg.cond(np.array([[float(x) for x in r] for r in A]))
    return float(c) if np.isfinite(c) else float("inf")
def ill_conditioned(A):
    """the 1e-9 comparison of a double solve with the exact one is only meaningful for cond(A) << 1e7 (singular: handled by the caller)"""
    c = cond_of(A)
    return bool(np.isfinite(c) and c > 1e5)
def cert_swamped(A, b, res):
    """ill-conditioned systems only: is the rounding error of the gradient of the returned vector (n eps |A| |s|) within a factor 100 of the
    certificate's tolerance 1e-8 max(1, |b|)?  (then the certificate says nothing; the case is skipped and counted)"""
    if res[0] != "ok" or not A: return False
    amax = max(abs(float(x)) for r in A for x in r); smax = max([abs(float(x)) for x in res[1]] + [0.0])
    bmax = max([1.0] + [abs(float(x)) for x in b])
    return len(b) * 2.3e-16 * amax * smax * 100 > 1e-8 * bmax

def nontrivial_system(A, b):
    u = gauss(A, b)
    return u is not None and any(x < 0 for x in u) and any(x > 0 for x in u)

def run_case(inp):
    aa = import_aa()
    op = inp["op"]
    if op == "fnnls": return run_fnnls(aa, inp)
    if op == "posonly": return run_posonly(aa, inp)
    if op == "posneg": return run_posneg(aa, inp)
    if op == "mock": return run_mock(aa, inp)
    if op == "real": return run_real(aa, inp)
    raise ValueError(op)

def mats(inp):
    A = [[F(x) for x in r] for r in inp["A"]]; b = [F(x) for x in inp["b"]]
    if inp.get("scale"):
        ka, kb = inp["scale"]
        A = [[x * Fraction(2) ** ka for x in r] for r in A]; b = [x * Fraction(2) ** kb for x in b]
    return A, b

LARGE = "large-system stream (n > 10): the exact model run is not attempted, specification only"

def in_key(inp):
    import json, zlib
    return zlib.crc32(json.dumps(inp, sort_keys=True).encode())

def close_raw(r1, r2, rel):
    """two raw outcomes ('ok', array) / ('raise', name) agree within rel * max(1, |x|) (nan never agrees)"""
    if r1[0] != r2[0]: return False
    if r1[0] == "raise": return r1[1] == r2[1]
    a = np.asarray(r1[1], dtype=float).ravel(); b = np.asarray(r2[1], dtype=float).ravel()
    return a.shape == b.shape and bool(np.all(np.abs(a - b) <= rel * np.maximum(1.0, np.abs(b))))

def kind_variant(key, An, bn):
    """the same system as another KIND of argument: Fortran-ordered, a strided view of a larger buffer, read-only arrays, integer dtype"""
    kinds = ["fortran", "view", "readonly"]
    if An.size and np.all(An == np.round(An)) and np.all(bn == np.round(bn)) and max(np.abs(An).max(), np.abs(bn).max()) < 2 ** 50:
        kinds += ["int", "int"]
    k = kinds[key % len(kinds)]; n = len(bn)
    if k == "fortran": return k, np.asfortranarray(An.copy()), bn.copy()
    if k == "view":
        big = np.full((2 * n, 3 * n), 7.5); big[::2, ::3] = An; bb = np.full(3 * n, -3.25); bb[::3] = bn
        return k, big[::2, ::3], bb[::3]
    if k == "readonly":
        a_ = An.copy(); b_ = bn.copy(); a_.flags.writeable = False; b_.flags.writeable = False
        return k, a_, b_
    return k, An.astype(np.int64), bn.astype(np.int64)

def same_arr(x, y):
    x = np.asarray(x); y = np.asarray(y)
    return x.shape == y.shape and x.dtype == y.dtype and bool(np.array_equal(x, y))

def neighbours(A, b):
    """two systems of the same shape evaluated BETWEEN two evaluations of (A, b): same b with A + diag(1..n), same A with -reversed(b)"""
    n = len(b)
    A1 = [[A[i][j] + (i + 1 if i == j else 0) for j in range(n)] for i in range(n)]
    return [(A1, list(b)), (A, [-x for x in reversed(b)])]

def solver_history(f, A, b, An, bn, raw, key, wrap, ill):
    """blind spots (a), (d), (f) for one solver call  f(A_array, b_array) -> raw outcome  that has just been made with (An, bn):
       * neighbour systems are solved in between (one case in four) and their outputs are checked against the specification in Coq,
       * the call is repeated through the SAME array objects: same outcome,
       * the system is passed as another kind of array: same outcome, and that argument is left unmodified.
    `wrap(A, b, out)` prints the Coq case of an outcome.  Returns (detail or None, extra Coq cases)."""
    H = STATS["history"]; detail = None; extra = []
    if len(b) == 0: return None, []
    if key % 4 == 0 and not ill and len(b) <= 10:       # (larger systems: the printed case alone costs seconds of Coq parsing)
        for A_, b_ in neighbours(A, b):
            r_ = out_vec(f(flm(A_), np.array(fl(b_))))
            extra.append(f"(KSpec {wrap(A_, b_, r_)})"); H["neighbour_systems_between_evaluations"] += 1
    raw2 = f(An, bn); H["second_evaluations_same_arrays"] += 1
    if not close_raw(raw2, raw, 1e-12): detail = "a second evaluation through the same array objects differs from the first one"
    k, Av, bv = kind_variant(key // 4, An, bn)
    A0 = Av.copy(); b0 = bv.copy()
    raw3 = f(Av, bv)
    H["input_kind_variants"][k] = H["input_kind_variants"].get(k, 0) + 1
    if not close_raw(raw3, raw, 1e-9): detail = detail or f"the same system passed as a {k} array gives a different outcome: {raw3[1] if raw3[0] == 'raise' else 'values differ'}"
    if not (same_arr(Av, A0) and same_arr(bv, b0)): detail = detail or f"the {k} arguments were modified in place"
    return detail, extra

def run_fnnls(aa, inp):
    from autoarray.util import fnnls
    A, b = mats(inp); n = len(b)
    st = inp["start"]; key = in_key(inp)
    if st["kind"] == "none": pinit = None; arg = np.zeros(0, dtype=int)
    elif st["kind"] == "mask": pinit = list(st["mask"]); arg = np.array(st["mask"], dtype=bool)
    else:
        if len(st["index"]) == 0: pinit = None
        else: pinit = [j in st["index"] for j in range(n)]
        arg = np.array(st["index"], dtype=int)
    sr = tally_path(A, b, pinit)
    ill = ill_conditioned(A)
    if inp.get("big"): why = ILL if ill else LARGE
    else:
        m = Mirror(); m.fnnls(A, b, Fraction(EPS * n), pinit)
        tally(m)
        why = ILL if ill else (TIE if m.margin < BAND else None)
    An = flm(A); bn = np.array(fl(b)); A0 = An.copy(); b0 = bn.copy(); arg0 = arg.copy()
    omit = st["kind"] == "none" and key % 2 == 1           # the shared default argument object P_initial=np.zeros(0, dtype=int)
    def f(a_, b_): return call(fnnls.fnnls_cholesky, a_, b_) if omit else call(fnnls.fnnls_cholesky, a_, b_, arg)
    # (the Coq replay of a Cholesky update takes exact rational square roots: only for the small-integer / quarter systems, not for
    # scaled systems or the 1/256-unit fan systems, whose rationals explode; the numerical contract check runs on every call regardless)
    with CholWatch(record=why not in (ILL, LARGE) and not inp.get("scale") and not inp.get("swap")) as cw:
        raw = f(An, bn)
    res = out_vec(raw)
    if why == ILL and cert_swamped(A, b, res): return skip_row("fnnls", "ill-conditioned and rounding error of the certificate near its tolerance")
    detail = cw.bad; STATS["history"]["argument_fingerprints"] += 1
    if not (same_arr(An, A0) and same_arr(bn, b0) and same_arr(arg, arg0)): detail = detail or "fnnls_cholesky modified one of its arguments (ZTZ, ZTx, P_initial) in place"
    wrap = lambda A_, b_, r_: f"(KFnnls {cqm(A_)} {cqv(b_)} {cq(F(EPS))} {copt(pinit, cbools)} {cres_vec(r_)})"
    d2, extra = solver_history(f, A, b, An, bn, raw, key, wrap, ill)
    detail = detail or d2
    if not same_arr(arg, arg0): detail = detail or "P_initial was modified in place"
    coq = spec_only(wrap(A, b, res), why)
    return {"coq": coq, "extra_coq": cw.coq_cases() + extra, "out": show(res), "py_ok": (False if detail else None), "detail": detail or cw.exit_note(),
            "kind": "fnnls:" + st["kind"] + (":sym" if inp.get("sym") else "") + (":swap" if inp.get("swap") else "") + (":big" if inp.get("big") else "")
                    + (":scaled" if inp.get("scale") else "") + (":speconly" if why else ""),
            "nontrivial": bool(inp.get("big")) or nontrivial_system(A, b)}

def run_posonly(aa, inp):
    from autoarray.inversion.inversion import inversion_util
    A, b = mats(inp); n = len(b); key = in_key(inp)
    ill = ill_conditioned(A)
    if inp.get("big"):
        tally_path(A, b, [bool(x > 0) for x in np.linalg.solve(flm(A), np.array(fl(b)))] if inp["uses_p"] else None)
        why = ILL if ill else LARGE
    else:
        mg = margin_pos_only(A, b, inp["uses_p"])
        if mg is None: return skip_row("posonly", "exact system singular (outside the SPD quantifier)")
        why = ILL if ill else (TIE if mg < BAND else None)
    fn = inversion_util.reconstruction_positive_only_from
    default_obj = fn.__defaults__[0] if fn.__defaults__ else None
    if inp.get("via_config"):      # settings omitted: the shared default SettingsInversion() object, which reads the pushed general.yaml
        push_config(True, inp["uses_p"], True); settings = default_obj; STATS["history"]["default_settings_calls"] += 1
        def f(a_, b_): return call(fn, data_vector=b_, curvature_reg_matrix=a_)
    else:
        settings = aa.SettingsInversion(positive_only_uses_p_initial=inp["uses_p"])
        def f(a_, b_): return call(fn, data_vector=b_, curvature_reg_matrix=a_, settings=settings)
    fp0 = dict(vars(settings)) if settings is not None else None
    An = flm(A) if n else np.zeros((0, 0)); bn = np.array(fl(b)); A0 = An.copy(); b0 = bn.copy()
    with CholWatch(record=why not in (ILL, LARGE) and not inp.get("swap")) as cw:
        raw = f(An, bn)
    res = out_vec(raw)
    if why == ILL and cert_swamped(A, b, res):
        push_config(True, True, True)
        return skip_row("posonly", "ill-conditioned and rounding error of the certificate near its tolerance")
    detail = cw.bad; STATS["history"]["argument_fingerprints"] += 1
    if not (same_arr(An, A0) and same_arr(bn, b0)): detail = detail or "reconstruction_positive_only_from modified data_vector / curvature_reg_matrix in place"
    wrap = lambda A_, b_, r_: f"(KPosOnly {cqm(A_)} {cqv(b_)} {cq(F(EPS))} {cbool(inp['uses_p'])} {cres_vec(r_)})"
    d2, extra = solver_history(f, A, b, An, bn, raw, key, wrap, ill)
    detail = detail or d2
    if fp0 is not None and dict(vars(settings)) != fp0: detail = detail or "the SettingsInversion object was modified by the call"
    if inp.get("via_config"): push_config(True, True, True)
    coq = spec_only(wrap(A, b, res), why)
    return {"coq": coq, "extra_coq": cw.coq_cases() + extra, "out": show(res), "py_ok": (False if detail else None), "detail": detail or cw.exit_note(),
            "kind": "posonly:" + ("warm" if inp["uses_p"] else "cold") + (":sym" if inp.get("sym") else "") + (":swap" if inp.get("swap") else "")
                    + (":big" if inp.get("big") else "") + (":defaultsettings" if inp.get("via_config") else "") + (":speconly" if why else ""),
            "nontrivial": n > 0 and (bool(inp.get("big")) or nontrivial_system(A, b))}

def allclose_margin_ok(s, ranges):
    """the np.allclose decisions (|x - x0| <= 1e-8 + 1e-5 |x0|) must be clear-cut: exact equality or a factor 100 away"""
    for lo, hi in ranges:
        x0 = s[lo]
        thr = Fraction(1, 10 ** 8) + Fraction(1, 10 ** 5) * abs(x0)
        for x in s[lo:hi]:
            dlt = abs(x - x0)
            if dlt != 0 and dlt < 100 * thr: return False
    return True

def run_posneg(aa, inp):
    from autoarray.inversion.inversion import inversion_util
    A, b = mats(inp)
    ranges = [list(r) for r in inp["ranges"]]
    u = gauss(A, b)
    why = None
    if u is not None and not allclose_margin_ok(u, ranges): why = "np.allclose decision of the all-equal check within a factor 100 of its threshold"
    check = bool(inp["check"])
    if inp.get("via_config"):
        push_config(True, True, check=check); force = False
    else:
        push_config(True, True, check=False); force = check
    res = out_vec(call(inversion_util.reconstruction_positive_negative_from, data_vector=np.array(fl(b)), curvature_reg_matrix=flm(A),
                       mapper_param_range_list=ranges, force_check_reconstruction=force))
    push_config(True, True, check=True)
    cr = clist([ctup([cnat(r[0]), cnat(r[1])]) for r in ranges])
    coq = spec_only(f"(KPosNeg {cqm(A)} {cqv(b)} {cr} {cbool(check)} {cres_vec(res)})", why)
    return {"coq": coq, "out": show(res), "py_ok": None, "kind": "posneg:" + ("singular" if u is None else "regular") +
            (":raise" if res[0] == "raise" else "") + (":speconly" if why else ""), "nontrivial": u is not None}

def cobj(params, mapper, edge, M):
    return f"(@mkobj QOps {cnat(params)} {cbool(mapper)} {clist([cnat(e) for e in edge])} {cqm(M)})"
def cset(pos, pinit, force, edge_image, source_zero, check):
    return (f"(mkset {cbool(pos)} {cbool(pinit)} {cbool(force)} {cbool(edge_image)} "
            f"{clist([cnat(i) for i in source_zero])} {cbool(check)})")

def inversion_rows(aa, inv, objs_desc, st, kind, nontrivial=True, big=False, second=None):
    """common part of the mock / real Inversion cases: read A, b from the implementation, then reconstruction, dict, mapped data.
    `second(st2)`: builds another Inversion from the SAME linear objects and the SAME settings object with the data negated (under the
    configuration st2): its reconstruction is checked against the specification as well (history: objects re-used for a second input)."""
    A_np0 = np.array(inv.curvature_reg_matrix, dtype=float); b_np0 = np.array(inv.data_vector, dtype=float)
    fp0 = dict(vars(inv.settings))
    A = [[frac(x) for x in r] for r in A_np0]
    b = [frac(x) for x in b_np0]
    n = len(b)
    # decision margins of the solve that reconstruction will perform
    forced = set()
    if st["pos"] and st["force"]:
        off = 0
        for o in objs_desc:
            if o["mapper"]:
                forced |= {e + off for e in o["edge"]}
                if st["edge_image"]:
                    forced |= {j + off for j in range(o["params"]) if any(o["Mq"][r][j] != 0 for r in st["source_zero"])}
            off += o["params"]
    kept = [i for i in range(n) if i not in forced]
    Ak = [[A[i][j] for j in kept] for i in kept]
    why = ILL if ill_conditioned(Ak if st["pos"] else A) else None       # (an exactly singular system has cond = inf: not "ill", see below)
    costly = st["pos"] and len(kept) > 10 and (big or max([x.denominator for r in Ak for x in r] + [1]) > 2 ** 30)
    if st["pos"] and kept: tally_path(Ak, [b[i] for i in kept], [bool(x > 0) for x in np.linalg.lstsq(flm(Ak), np.array(fl([b[i] for i in kept])), rcond=None)[0]] if st["pinit"] else None)
    if costly:        # neither the exact mirror (margins) nor the model is run; a singular system is recognised by its condition number
        if not np.isfinite(cond_of(Ak)): return skip_row(kind, "exact system singular (outside the SPD quantifier)")
        why = why or (LARGE if big else COST)
    elif st["pos"]:
        mg = margin_pos_only(Ak, [b[i] for i in kept], st["pinit"])
        if mg is None: return skip_row(kind, "exact system singular (outside the SPD quantifier)")
        if mg < BAND and why is None: why = TIE
    else:
        u = gauss(A, b)
        ranges = []; off = 0
        for o in objs_desc:
            if o["mapper"]: ranges.append([off, off + o["params"]])
            off += o["params"]
        if u is not None and not allclose_margin_ok(u, ranges) and why is None:
            why = "np.allclose decision of the all-equal check within a factor 100 of its threshold"
    # glue-layer coverage: a non-mapper linear object precedes a mapper, and the forced lists are non-empty
    seen_func = False; order_hit = False
    for o in objs_desc:
        if not o["mapper"]: seen_func = True
        elif seen_func: order_hit = True
    if order_hit:
        STATS["glue_cases_nonmapper_before_mapper"] += 1
        zero_list = any(o["mapper"] and any(o["Mq"][r][j] != 0 for r in st["source_zero"] for j in range(o["params"])) for o in objs_desc)
        if st["pos"] and st["force"] and st["edge_image"] and any(o["mapper"] and o["edge"] for o in objs_desc) and zero_list:
            STATS["glue_cases_nonmapper_before_mapper_with_forced_edge_and_zero_lists"] += 1
            STATS["glue_..._of_which_" + ("rectangular_mappers" if kind.startswith("real") else "mock_mappers")] += 1
    with CholWatch(record=why not in (ILL, COST, LARGE) and ":swap" not in kind) as cw:
        raw = call(lambda: inv.reconstruction)
    res = out_vec(raw)
    cobjs = clist([cobj(o["params"], o["mapper"], o["edge"], o["Mq"]) for o in objs_desc])
    cs = cset(st["pos"], st["pinit"], st["force"], st["edge_image"], st["source_zero"], st["check"])
    if why == ILL and cert_swamped(A, b, res): return skip_row(kind, "ill-conditioned and rounding error of the certificate near its tolerance")
    coq = spec_only(f"(KRecon {cs} {cobjs} {cqm(A)} {cqv(b)} {cq(F(EPS))} {cres_vec(res)})", why)
    extra = cw.coq_cases(); detail = cw.bad
    # history: the solve leaves the system held by the Inversion and the settings object as they were; a second read gives the same vector
    H = STATS["history"]; H["argument_fingerprints"] += 1
    if not (same_arr(np.array(inv.curvature_reg_matrix, dtype=float), A_np0) and same_arr(np.array(inv.data_vector, dtype=float), b_np0)):
        detail = detail or "reconstruction modified curvature_reg_matrix / data_vector in place"
    if dict(vars(inv.settings)) != fp0: detail = detail or "the SettingsInversion object was modified by the solve"
    if not close_raw(call(lambda: inv.reconstruction), raw, 0.0): detail = detail or "a second read of .reconstruction differs from the first"
    H["second_evaluations_same_arrays"] += 1
    c_full = cond_of(A); c_kept = cond_of(Ak)
    if second is not None and not big and n and kept and max(c_full, c_kept) <= 1e5:
        st2 = dict(st)
        if st.get("via_config"): st2["pos"] = not st["pos"]; H["second_inversions_config_flipped"] += 1
        A2, b2, res2 = second(st2); H["second_inversions_same_objects"] += 1
        cs2 = cset(st2["pos"], st2["pinit"], st2["force"], st2["edge_image"], st2["source_zero"], st2["check"])
        cobjs2 = clist([cobj(o["params"], o["mapper"], o["edge"], o["Mq"]) for o in objs_desc])
        extra.append(f"(KSpec (KRecon {cs2} {cobjs2} {cqm(A2)} {cqv(b2)} {cq(F(EPS))} {cres_vec(res2)}))")
    py_ok = False if detail else None
    out = {"reconstruction": show(res)}
    if res[0] == "ok":
        s = res[1]
        rd = inv.reconstruction_dict
        dict_out = [[frac(x) for x in np.asarray(rd[o], dtype=float)] for o in inv.linear_obj_list]
        extra.append(f"(KDict {clist([cnat(o['params']) for o in objs_desc])} {cqv(s)} {clist([cqv(v) for v in dict_out])})")
        Bs = [[[frac(x) for x in r] for r in np.asarray(B, dtype=float)] for B in inv.operated_mapping_matrix_list]
        md = inv.mapped_reconstructed_data_dict
        md_out = [[frac(x) for x in np.asarray(md[o], dtype=float)] for o in inv.linear_obj_list]
        tot = [frac(x) for x in np.asarray(inv.mapped_reconstructed_data, dtype=float)]
        npix = len(tot)
        extra.append(f"(KMapped {clist([cqm(B) for B in Bs])} {cqv(s)} {cnat(npix)} {clist([cqv(v) for v in md_out])} {cqv(tot)})")
        out["mapped"] = [str(float(x)) for x in tot]
        # keys of the dictionaries are the linear objects, in order
        if list(rd.keys()) != list(inv.linear_obj_list) or list(md.keys()) != list(inv.linear_obj_list):
            py_ok = False; detail = "dictionary keys are not the linear objects in order"
    return {"coq": coq, "extra_coq": extra, "out": out, "py_ok": py_ok, "detail": detail or cw.exit_note(),
            "kind": kind + (":pos" if st["pos"] else ":posneg") + (":force" if st["pos"] and st["force"] else "")
                    + (":raise" if res[0] == "raise" else "") + (":speconly" if why else ""), "nontrivial": nontrivial}

def make_settings(aa, st, use_w_tilde):
    if st.get("via_config"):
        push_config(st["pos"], st["pinit"], st["check"])
        kw = dict(use_positive_only_solver=None, positive_only_uses_p_initial=None)
    else:
        push_config(True, True, st["check"])
        kw = dict(use_positive_only_solver=st["pos"], positive_only_uses_p_initial=st["pinit"])
    return aa.SettingsInversion(use_w_tilde=use_w_tilde, force_edge_pixels_to_zeros=st["force"],
                                force_edge_image_pixels_to_zeros=st["edge_image"],
                                image_pixels_source_zero=(list(st["source_zero"]) if st["edge_image"] else None), **kw)

def run_mock(aa, inp):
    npix = inp["npix"]; st = dict(inp["settings"])
    m = np.ones((npix + 2, 3), dtype=bool); m[1:npix + 1, 1] = False       # a column of npix unmasked pixels
    mask = aa.Mask2D(mask=m, pixel_scales=1.0)
    noise = aa.Array2D(values=fl(inp["noise"]), mask=mask)
    conv = aa.Convolver(mask=mask, kernel=aa.Kernel2D.no_mask(values=[[0., 0., 0.], [0., 1., 0.], [0., 0., 0.]], pixel_scales=1.0))
    grid = aa.Grid2D.from_mask(mask=mask)
    objs = []; desc = []
    for o in inp["objs"]:
        M = [[F(x) for x in r] for r in o["M"]]
        reg = aa.m.MockRegularization(regularization_matrix=flm([[F(x) for x in r] for r in o["reg"]])) if o["reg"] is not None else None
        if o["mapper"]:
            objs.append(aa.m.MockMapper(mapping_matrix=flm(M), regularization=reg, edge_pixel_list=list(o["edge"]), parameters=o["params"]))
        else:
            objs.append(aa.m.MockLinearObjFuncList(parameters=o["params"], grid=grid, mapping_matrix=flm(M), regularization=reg))
        desc.append({"params": o["params"], "mapper": o["mapper"], "edge": list(o["edge"]), "Mq": M})
    settings = make_settings(aa, st, use_w_tilde=False)
    def build(sign):
        data = aa.Array2D(values=[sign * v for v in fl(inp["data"])], mask=mask)
        return aa.Inversion(dataset=aa.DatasetInterface(data=data, noise_map=noise, convolver=conv), linear_obj_list=objs, settings=settings)
    def second(st2):
        if st2.get("via_config"): push_config(st2["pos"], st2["pinit"], st2["check"])
        inv2 = build(-1.0)
        A2 = [[frac(x) for x in r] for r in np.asarray(inv2.curvature_reg_matrix, dtype=float)]
        b2 = [frac(x) for x in np.asarray(inv2.data_vector, dtype=float)]
        res2 = out_vec(call(lambda: inv2.reconstruction))
        if st2.get("via_config"): push_config(st["pos"], st["pinit"], st["check"])
        return A2, b2, res2
    inv = build(1.0)
    row = inversion_rows(aa, inv, desc, st, "mock" + (":" + inp["order"] if inp.get("order") else ""), big=bool(inp.get("big")), second=second)
    push_config(True, True, True)
    return row

def run_real(aa, inp):
    rng = random.Random(inp["seed"])
    sym = bool(inp.get("sym"))          # left-right mirror symmetric mask, data, noise map and PSF; odd-width mesh
    kh, kw = rng.choice([(3, 3), (3, 3), (1, 3), (3, 1), (1, 1)])
    H = rng.randint(kh + 3, 8); W = rng.randint(kw + 3, 8)
    if inp.get("size"): H, W = inp["size"]
    m = np.ones((H, W), dtype=bool)
    for y in range(kh // 2 + 0, H - kh // 2):
        for x in range(kw // 2, W - kw // 2):
            if 1 <= y < H - 1 and 1 <= x < W - 1 and rng.random() < (0.85 if sym else 0.7): m[y, x] = False
    if m.all(): m[H // 2, W // 2] = False
    cls = rng.choice(["pos", "noise", "noise", "neg"]) if not sym else "noise"
    vals = np.array([[rng.randint(-6, 6) if cls == "noise" else (rng.randint(0, 6) if cls == "pos" else -rng.randint(0, 6))
                      for _ in range(W)] for _ in range(H)], dtype=float)
    noise = np.array([[rng.choice([1.0, 1.0, 2.0, 0.5]) for _ in range(W)] for _ in range(H)])
    K = [[float(rng.randint(-1, 3)) for _ in range(kw)] for _ in range(kh)]
    K[kh // 2][kw // 2] = float(rng.randint(2, 4))
    if inp.get("blur"): K = [[float(rng.randint(1, 3)) for _ in range(kw)] for _ in range(kh)]      # broad all-positive PSF: correlated columns
    if sym:
        m = m & m[:, ::-1]
        vals = vals + vals[:, ::-1]; noise = np.maximum(noise, noise[:, ::-1])
        K = [[K[r][c] + K[r][kw - 1 - c] for c in range(kw)] for r in range(kh)]
    mask = aa.Mask2D(mask=m, pixel_scales=1.0)
    ds = aa.Imaging(data=aa.Array2D.no_mask(values=vals, pixel_scales=1.0), noise_map=aa.Array2D.no_mask(values=noise, pixel_scales=1.0),
                    psf=aa.Kernel2D.no_mask(values=K, pixel_scales=1.0, normalize=False), use_normalized_psf=False,
                    over_sampling=aa.OverSamplingDataset(pixelization=aa.OverSamplingUniform(sub_size=rng.choice([1, 2, 2]))))
    import io, contextlib, logging
    logging.disable(logging.CRITICAL)
    ds = ds.apply_mask(mask=mask)
    npix = int(np.sum(~m))
    st = {"pos": inp["pos"], "pinit": inp["pinit"], "force": inp["force"], "edge_image": bool(inp.get("edge_image")), "source_zero": [],
          "via_config": False, "check": True}
    if st["edge_image"]: st["source_zero"] = sorted(set(rng.randrange(npix) for _ in range(rng.randint(1, 2))))
    order = inp.get("order") or ("mm" if inp["two"] else "m")
    objs = []; mappers = []; desc = []
    for ch in order:
        if ch == "f":        # a non-mapper linear object (list of linear functions) with its own small regularisation matrix
            p_ = rng.randint(1, 3)
            Mf = [[Fraction(rng.randint(0, 2)) if rng.random() < 0.6 else Fraction(0) for _ in range(p_)] for _ in range(npix)]
            Mf[rng.randrange(npix)][rng.randrange(p_)] = Fraction(1)
            reg = aa.m.MockRegularization(regularization_matrix=flm(rand_spd(rng, p_, False, rng.choice(["diag", "band"]))))
            objs.append(aa.m.MockLinearObjFuncList(parameters=p_, grid=aa.Grid2D.from_mask(mask=mask), mapping_matrix=flm(Mf), regularization=reg))
            desc.append({"params": p_, "mapper": False, "edge": [], "Mq": Mf})
            continue
        if sym: shape = tuple(rng.choice(inp.get("shapes") or [(3, 3), (3, 3), (4, 3), (3, 5), (4, 5), (5, 3)]))
        else: shape = rng.choice([(3, 3), (4, 3), (3, 4), (4, 4)] + ([(3, 5), (5, 3)] if inp.get("order") else [])) if inp.get("mockreg") else (3, 3)
        mesh = aa.mesh.Rectangular(shape=shape)
        os_ = ds.grids.pixelization.over_sampler
        mg = mesh.mapper_grids_from(mask=mask, border_relocator=None, source_plane_data_grid=os_.over_sampled_grid)
        if inp.get("mockreg"):     # integer regularisation matrix: the whole system stays small dyadic rationals (larger meshes affordable)
            p_ = shape[0] * shape[1]
            reg = aa.m.MockRegularization(regularization_matrix=flm(rand_spd(rng, p_, False, rng.choice(["lap", "band"]))))
        elif sym: reg = aa.reg.Constant(coefficient=float(rng.choice(inp.get("coefs") or [0.25, 0.5, 0.5, 1.0])))      # light regularisation
        else: reg = aa.reg.Constant(coefficient=float(rng.choice([1, 2])))
        mapper = aa.Mapper(mapper_grids=mg, over_sampler=os_, regularization=reg)
        mappers.append(mapper); objs.append(mapper)
        desc.append({"params": int(mapper.params), "mapper": True, "edge": [int(e) for e in mapper.edge_pixel_list],
                     "Mq": [[frac(x) for x in r] for r in np.asarray(mapper.mapping_matrix, dtype=float)]})
    settings = make_settings(aa, st, use_w_tilde=inp["w_tilde"])
    inv = aa.Inversion(dataset=ds, linear_obj_list=objs, settings=settings)
    want = "InversionImagingWTilde" if inp["w_tilde"] else "InversionImagingMapping"
    row = inversion_rows(aa, inv, desc, st, "real:" + ("wtilde" if inp["w_tilde"] else "mapping") + (":sym" if sym else "")
                         + (":" + inp["order"] if inp.get("order") else ""))
    # the loop over unique mappings (first stage of the w-tilde mapped data), for each mapper, on the reconstruction just obtained
    if row.get("coq"):
        try: srec = np.asarray(inv.reconstruction, dtype=float)
        except Exception: srec = None
        if srec is not None:
            from autoarray.inversion.inversion import inversion_util
            off = 0
            for mp, o_ in zip(objs, desc):
                if not o_["mapper"]: off += o_["params"]; continue
                um = mp.unique_mappings
                so = srec[off:off + int(mp.params)]; off += int(mp.params)
                out = inversion_util.mapped_reconstructed_data_via_image_to_pix_unique_from(
                    data_to_pix_unique=um.data_to_pix_unique, data_weights=um.data_weights, pix_lengths=um.pix_lengths, reconstruction=so)
                pix = clist([clist([cz(int(v)) for v in r]) for r in np.asarray(um.data_to_pix_unique)])
                wts = cqm([[frac(x) for x in r] for r in np.asarray(um.data_weights, dtype=float)])
                lens = clist([cnat(int(v)) for v in np.asarray(um.pix_lengths)])
                Mq = cqm([[frac(x) for x in r] for r in np.asarray(mp.mapping_matrix, dtype=float)])
                row.setdefault("extra_coq", []).append(
                    f"(KUnique {pix} {wts} {lens} {cqv([frac(x) for x in so])} {Mq} {cqv([frac(x) for x in np.asarray(out, dtype=float)])})")
    if type(inv).__name__ != want:
        row["py_ok"] = False; row["detail"] = f"factory returned {type(inv).__name__}, expected {want}"
    logging.disable(logging.NOTSET)
    return row
