"""C13 -- direct Fourier transform, preloaded variant, adjoint, interferometer normal equations."""
import sys, types

# pylops is not installed: TransformerDFT only needs it as a base class.  Minimal stand-in, installed BEFORE autoarray
# is imported (no change to /repo).
if "pylops" not in sys.modules:
    _m = types.ModuleType("pylops")
    class LinearOperator:          # noqa
        def __init__(self, dtype=None, shape=None, explicit=False, **kw):
            pass
    _m.LinearOperator = LinearOperator
    _m.__verif_standin__ = True
    sys.modules["pylops"] = _m

import random
import numpy as np
from fractions import Fraction
from harness.common import cz, cq, cnat, cbool, clist, ctup, cres, import_aa, frac, exn_name

ID = "C13"
GEN = []
PROPS = "Props/C13.v"
COQ_CHECK = ("Model.C13", "check")
COQ_FALLBACK = None
COQ_IMPORTS = "From PAV Require Import Base.NumOps Model.C13Lib."
SHARD = 40
RULE = ("util level (autoarray.util.transformer / inversion_interferometer_util functions called directly): grids of 0-12 "
        "(y,x) points and 0-8 (u,v) baselines, either on the half-integer lattice (every phase a multiple of a quarter turn: "
        "exact trig table) or on a 1/16 lattice (generic phases); zero and repeated baselines; integer / quarter valued images, "
        "signed mapping matrices with zeros, arbitrary integer preload tables incl. 0 x K tables, complex visibilities, complex "
        "positive noise maps with real/imag parts in {1/2,1,2,4}; image_via_jit_from with n_pixels <, =, > grid rows. "
        "Budgets: quick 40 util batches (8 ops each) + 50 geometries; thorough 400 + 500. Class level: Mask2D of shape up to 5x5 (non-square, 0..16 unmasked pixels incl. outer ring, fully masked, single pixel), "
        "pixel scales (sy,sx) in {1/4..3} independently, origins k/4, baselines up to 2e5 wavelengths (phases of several turns), "
        "TransformerDFT(preload on/off).visibilities_from / image_from / transform_mapping_matrix with slim- and native-stored "
        "images, InversionInterferometerMapping(DatasetInterface(Visibilities, VisibilitiesNoiseMap, TransformerDFT), 1-3 linear "
        "objects with/without regularization, explicit or config-default diagonal value).data_vector / curvature_matrix / "
        "operated_mapping_matrix, aa.Inversion factory. Python-side relations: preload on = off, native = slim storage, "
        "adjoint dot test, column-wise transform. Non-trivial = at least 2 pixels and one non-zero baseline; distinct = distinct JSON input.")
EXHAUSTIVE = {}
TRUSTED = ["hand-written Gallina model coq/Model/C13.v (scatter loops, sparsity test, preload tables, grid of unmasked pixel centres, "
           "normal equations), tied to /repo by this correspondence run: model and specification are evaluated inside Coq (vm_compute) "
           "on the exact rational values of the doubles the implementation received and compared with its outputs to 1e-9 "
           "(relative above 1; the grid to 1e-12 relative)",
           "execution device QOpsT (coq/Model/C13Lib.v): cos/sin of a rational number of turns, exact at quarter turns, otherwise a "
           "22-term Taylor series on a 2^-90 lattice (error < 1e-20); never used in a theorem",
           "numpy element-wise arithmetic, np.dot (Gram product), np.hstack, complex accumulation as two real accumulations; "
           "np.cos/np.sin/np.pi accurate to a few ulp",
           "minimal stand-in for the absent optional module pylops (base class only), installed by harness/c13.py"]
ASSUMPTIONS = ["real arithmetic (no rounding): theorems over R with the real cos, sin, PI; correspondence under tolerance 1e-9",
               "NUFFT transformer and the interferometer w-tilde path are out of scope (library / code absent)",
               "Array2D / Visibilities / Mask2D glue (slim/native storage, in_array) is correspondence-only"]

PI = Fraction(float(np.pi))
SCALES = [Fraction(1, 4), Fraction(1, 2), Fraction(1), Fraction(3, 2), Fraction(2), Fraction(3)]
NOISE = [Fraction(1, 2), Fraction(1), Fraction(2), Fraction(4)]

# ----------------------------------------------------------------------------- printing
def F(x): return Fraction(x)
def cqv(v): return clist([cq(x) for x in v])
def cqm(M): return clist([cqv(r) for r in M])
def cqc(p): return ctup([cq(p[0]), cq(p[1])])
def ccv(v): return clist([cqc(p) for p in v])
def ccm(M): return clist([ccv(r) for r in M])
def cmask(m): return clist([clist([cbool(b) for b in r]) for r in m])
def cgeom(g): return f"(@Build_geom QOpsT {cmask(g['m'])} {cq(F(g['sy']))} {cq(F(g['sx']))} {cq(F(g['oy']))} {cq(F(g['ox']))})"
def fl(v): return [float(x) for x in v]
def flm(M): return [[float(x) for x in r] for r in M]
def S(x): return str(Fraction(x))
def Sv(v): return [S(x) for x in v]
def Sm(M): return [Sv(r) for r in M]
def Fv(v): return [Fraction(x) for x in v]
def Fm(M): return [Fv(r) for r in M]
def arr2(M, ncols):
    a = np.array(flm(M), dtype=float)
    return a.reshape((len(M), ncols))
def cplx(v): return np.array([complex(float(a), float(b)) for a, b in v], dtype=complex).reshape((len(v),))
def cvout(a): return [(frac(z.real), frac(z.imag)) for z in np.asarray(a).ravel()]
def cmout(a): return [[(frac(z.real), frac(z.imag)) for z in r] for r in np.asarray(a)]
def rvout(a): return [frac(x) for x in np.asarray(a).ravel()]
def rmout(a): return [[frac(x) for x in r] for r in np.asarray(a)]
def short(x): return str(x)[:400]

# ----------------------------------------------------------------------------- generators
def rval(rng, sparse=False):
    if sparse and rng.random() < 0.4: return Fraction(0)
    if rng.random() < 0.3: return Fraction(rng.randint(-20, 20), 4)
    return Fraction(rng.randint(-9, 9))
def rvals(rng, n, sparse=False): return [rval(rng, sparse) for _ in range(n)]
def rcv(rng, n): return [(rval(rng), rval(rng)) for _ in range(n)]
def rnoise(rng, n): return [(rng.choice(NOISE), rng.choice(NOISE)) for _ in range(n)]

def rgrid_uv(rng, npix, K, lattice):
    """lattice 'quarter': coordinates and baselines multiples of 1/2 -> phases multiples of 1/4 turn (exact trig);
       'sixteenth': generic dyadic phases"""
    if lattice == "quarter":
        grid = [(Fraction(rng.randint(-6, 6), 2), Fraction(rng.randint(-6, 6), 2)) for _ in range(npix)]
        uv = [(Fraction(rng.randint(-6, 6), 2), Fraction(rng.randint(-6, 6), 2)) for _ in range(K)]
    else:
        grid = [(Fraction(rng.randint(-24, 24), 16), Fraction(rng.randint(-24, 24), 16)) for _ in range(npix)]
        uv = [(Fraction(rng.randint(-40, 40), 16), Fraction(rng.randint(-40, 40), 16)) for _ in range(K)]
    if K >= 2 and rng.random() < 0.35: uv[rng.randrange(K)] = (Fraction(0), Fraction(0))         # zero baseline
    if K >= 2 and rng.random() < 0.35: uv[rng.randrange(K)] = uv[rng.randrange(K)]               # repeated baseline
    return grid, uv

def rmask(rng):
    H, W = rng.randint(1, 5), rng.randint(1, 5)
    style = rng.choice(["random", "random", "random", "full", "single", "ring", "empty"])
    if style == "full": m = [[False] * W for _ in range(H)]
    elif style == "empty": m = [[True] * W for _ in range(H)]
    elif style == "single":
        m = [[True] * W for _ in range(H)]; m[rng.randrange(H)][rng.randrange(W)] = False
    elif style == "ring": m = [[not (y in (0, H - 1) or x in (0, W - 1)) for x in range(W)] for y in range(H)]
    else:
        p = rng.choice([0.2, 0.5, 0.8])
        m = [[rng.random() > p for _ in range(W)] for _ in range(H)]
    while sum(1 for r in m for b in r if not b) > 16:
        m[rng.randrange(H)][rng.randrange(W)] = True
    return m

def rgeom(rng):
    m = rmask(rng)
    sy = rng.choice(SCALES); sx = sy if rng.random() < 0.4 else rng.choice(SCALES)
    oy, ox = (Fraction(0), Fraction(0)) if rng.random() < 0.5 else (Fraction(rng.randint(-6, 6), 4), Fraction(rng.randint(-6, 6), 4))
    return {"m": m, "sy": S(sy), "sx": S(sx), "oy": S(oy), "ox": S(ox)}

def ruv_class(rng, K):
    style = rng.choice(["big", "big", "mixed", "small"])
    uv = []
    for _ in range(K):
        if style == "small": uv.append((Fraction(rng.randint(-9, 9)), Fraction(rng.randint(-9, 9))))
        elif style == "mixed" and rng.random() < 0.5: uv.append((Fraction(rng.randint(-50, 50), 4), Fraction(rng.randint(-50, 50), 4)))
        else: uv.append((Fraction(rng.randint(-200, 200) * 1000), Fraction(rng.randint(-200, 200) * 1000 + rng.randint(0, 999))))
    if K >= 2 and rng.random() < 0.35: uv[rng.randrange(K)] = (Fraction(0), Fraction(0))
    if K >= 2 and rng.random() < 0.35: uv[rng.randrange(K)] = uv[rng.randrange(K)]
    return uv

def npix_of(m): return sum(1 for r in m for b in r if not b)

def gen_inputs(tier, rng):
    n = 400 if tier == "thorough" else 40
    util_ops = ["preload", "vispre", "vis", "image", "tmmpre", "tmm", "data", "recon"]
    for i in range(n):
        lattice = "quarter" if i % 2 else "sixteenth"
        npix = rng.choice([0, 1, 2, 3, 5, 8, 12]); K = rng.choice([0, 1, 2, 3, 5, 8]); P = rng.choice([0, 1, 2, 3, 4])
        grid, uv = rgrid_uv(rng, npix, K, lattice)
        base = {"grid": [Sv(g) for g in grid], "uv": [Sv(u) for u in uv], "lattice": lattice}
        for op in util_ops:
            d = dict(base, op=op)
            if op in ("vis",): d["img"] = Sv(rvals(rng, npix, sparse=(i % 3 == 0)))
            elif op in ("vispre", "tmmpre"):
                d.pop("grid"); d.pop("uv")
                d["K"] = K
                d["preR"] = Sm([[Fraction(rng.randint(-4, 4)) for _ in range(K)] for _ in range(npix)])
                d["preI"] = Sm([[Fraction(rng.randint(-4, 4)) for _ in range(K)] for _ in range(npix)])
                if op == "vispre": d["img"] = Sv(rvals(rng, npix, sparse=(i % 3 == 0)))
                else:
                    d["P"] = P; d["M"] = Sm([rvals(rng, P, sparse=True) for _ in range(npix)])
            elif op == "image":
                r = rng.random()
                d["n"] = npix if r < 0.7 else (rng.randint(0, npix) if r < 0.85 else npix + rng.randint(1, 2))
                d["vis"] = [Sv(v) for v in rcv(rng, K)]
            elif op == "tmm":
                d["P"] = P; d["M"] = Sm([rvals(rng, P, sparse=True) for _ in range(npix)])
            elif op == "data":
                d = {"op": op, "P": P, "TM": [[Sv(c) for c in rcv(rng, P)] for _ in range(K)],
                     "vis": [Sv(v) for v in rcv(rng, K)], "noise": [Sv(v) for v in rnoise(rng, K)]}
            elif op == "recon":
                d = {"op": op, "P": P, "TM": [[Sv(c) for c in rcv(rng, P)] for _ in range(K)], "s": Sv(rvals(rng, P))}
            yield d
    m = 500 if tier == "thorough" else 50
    for i in range(m):
        g = rgeom(rng); npix = npix_of(g["m"])
        K = rng.choice([0, 1, 2, 3, 4, 6, 8]) if i % 7 == 0 else rng.choice([1, 2, 3, 4, 6, 8])
        uv = ruv_class(rng, K)
        base = {"geom": g, "uv": [Sv(u) for u in uv]}
        if i % 9 == 0: yield dict(base, op="tgrid")
        yield dict(base, op="tvis", preload=bool(i % 2), native=bool((i // 2) % 2), img=Sv(rvals(rng, npix, sparse=(i % 3 == 0))))
        if K > 0 or npix == 0 or True:
            yield dict(base, op="timage", preload=bool(i % 2), vis=[Sv(v) for v in rcv(rng, K)], dot_img=Sv(rvals(rng, npix)))
        P = rng.choice([0, 1, 2, 3, 4]) if i % 5 == 0 else rng.choice([1, 2, 3])
        if npix > 0:
            yield dict(base, op="ttmm", preload=bool((i // 2) % 2), P=P, M=Sm([rvals(rng, P, sparse=True) for _ in range(npix)]))
        if npix > 0 and K > 0 and (tier == "thorough" or i % 2 == 0):
            nobj = rng.choice([1, 1, 2, 3])
            objs = []
            for _ in range(nobj):
                Pi = rng.choice([1, 1, 2, 3])
                objs.append({"P": Pi, "M": Sm([rvals(rng, Pi, sparse=True) for _ in range(npix)]), "reg": rng.random() < 0.5})
            value = rng.choice(["default", "1/8", "1", "2", "0"])
            yield dict(base, op="inv", preload=bool(i % 2), objs=objs, data=[Sv(v) for v in rcv(rng, K)],
                       noise=[Sv(v) for v in rnoise(rng, K)], value=value, factory=bool(i % 3 == 0))

# ----------------------------------------------------------------------------- running
def pairs(l): return [(Fraction(a), Fraction(b)) for a, b in l]
def grid_arr(g): return np.array(flm(g), dtype=float).reshape((len(g), 2))

def mk_mask(aa, g):
    return aa.Mask2D(mask=np.array(g["m"], dtype=bool).reshape((len(g["m"]), len(g["m"][0]))),
                     pixel_scales=(float(F(g["sy"])), float(F(g["sx"]))), origin=(float(F(g["oy"])), float(F(g["ox"]))))

def run_case(inp):
    aa = import_aa()
    from autoarray.operators import transformer_util as tu
    from autoarray.inversion.inversion.interferometer import inversion_interferometer_util as iu
    op = inp["op"]
    if "grid" in inp:
        grid = pairs(inp["grid"]); uv = pairs(inp["uv"])
        ga, ua = grid_arr(grid), grid_arr(uv)
        nontriv = len(grid) >= 2 and any(u != (0, 0) for u in uv)
    else:
        nontriv = True
    base = {"kind": op, "nontrivial": nontriv, "py_ok": None}
    if op == "preload":
        R = tu.preload_real_transforms(grid_radians=ga, uv_wavelengths=ua)
        I = tu.preload_imag_transforms(ga, ua)
        coq = f"(KPreload {ccv(grid)} {ccv(uv)} {cqm(rmout(R))} {cqm(rmout(I))})"
        return dict(base, coq=coq, out=short([R.tolist(), I.tolist()]))
    if op == "vispre":
        K = inp["K"]; img = Fv(inp["img"]); preR = Fm(inp["preR"]); preI = Fm(inp["preI"])
        out = tu.visibilities_via_preload_jit_from(np.array(fl(img)), arr2(preR, K), arr2(preI, K))
        coq = f"(KVisPre {cnat(K)} {cqv(img)} {cqm(preR)} {cqm(preI)} {ccv(cvout(out))})"
        return dict(base, coq=coq, out=short(out.tolist()), nontrivial=len(img) >= 2 and K >= 1)
    if op == "vis":
        img = Fv(inp["img"])
        out = tu.visibilities_jit(np.array(fl(img)), ga, ua)
        return dict(base, coq=f"(KVis {cqv(img)} {ccv(grid)} {ccv(uv)} {ccv(cvout(out))})", out=short(out.tolist()))
    if op == "image":
        vis = pairs(inp["vis"]); n = inp["n"]
        va = np.array(flm(vis), dtype=float).reshape((len(vis), 2))
        try:
            o = tu.image_via_jit_from(n, ga, ua, va); out = ("ok", rvout(o))
        except Exception as e:
            out = ("raise", exn_name(e))
        return dict(base, coq=f"(KImage {cnat(n)} {ccv(grid)} {ccv(uv)} {ccv(vis)} {cres(out, cqv)})", out=short(out))
    if op == "tmmpre":
        K, P = inp["K"], inp["P"]; M = Fm(inp["M"]); preR = Fm(inp["preR"]); preI = Fm(inp["preI"])
        out = tu.transformed_mapping_matrix_via_preload_jit_from(arr2(M, P), arr2(preR, K), arr2(preI, K))
        coq = f"(KTmmPre {cnat(K)} {cnat(P)} {cqm(M)} {cqm(preR)} {cqm(preI)} {ccm(cmout(out))})"
        return dict(base, coq=coq, out=short(out.tolist()), nontrivial=len(M) >= 2 and K >= 1 and P >= 1)
    if op == "tmm":
        P = inp["P"]; M = Fm(inp["M"])
        out = tu.transformed_mapping_matrix_jit(arr2(M, P), ga, ua)
        return dict(base, coq=f"(KTmm {cnat(P)} {cqm(M)} {ccv(grid)} {ccv(uv)} {ccm(cmout(out))})", out=short(out.tolist()))
    if op == "data":
        P = inp["P"]; TM = [pairs(r) for r in inp["TM"]]; vis = pairs(inp["vis"]); noise = pairs(inp["noise"])
        tm = np.array([[complex(float(a), float(b)) for a, b in r] for r in TM], dtype=complex).reshape((len(TM), P))
        out = iu.data_vector_via_transformed_mapping_matrix_from(tm, cplx(vis), cplx(noise))
        return dict(base, coq=f"(KData {cnat(P)} {ccm(TM)} {ccv(vis)} {ccv(noise)} {cqv(rvout(out))})", out=short(out.tolist()),
                    nontrivial=P >= 1 and len(TM) >= 2)
    if op == "recon":
        P = inp["P"]; TM = [pairs(r) for r in inp["TM"]]; s = Fv(inp["s"])
        tm = np.array([[complex(float(a), float(b)) for a, b in r] for r in TM], dtype=complex).reshape((len(TM), P))
        out = iu.mapped_reconstructed_visibilities_from(tm, np.array(fl(s)))
        return dict(base, coq=f"(KRecon {ccm(TM)} {cqv(s)} {ccv(cvout(out))})", out=short(out.tolist()),
                    nontrivial=P >= 1 and len(TM) >= 2)
    return run_class(aa, inp, base)

def close(a, b, t=1e-9):
    a, b = np.asarray(a), np.asarray(b)
    return a.shape == b.shape and bool(np.all(np.abs(a - b) <= t * np.maximum(1.0, np.abs(b))))

def run_class(aa, inp, base):
    op = inp["op"]; g = inp["geom"]; uv = pairs(inp["uv"])
    mask = mk_mask(aa, g)
    npix = npix_of(g["m"])
    ua = np.array(flm(uv), dtype=float).reshape((len(uv), 2))
    base["nontrivial"] = npix >= 2 and any(u != (0, 0) for u in uv)
    G = cgeom(g); U = ccv(uv); Pi = cq(PI)
    def tr(preload): return aa.TransformerDFT(uv_wavelengths=ua, real_space_mask=mask, preload_transform=preload)
    if op == "tgrid":
        t = tr(False)
        out = [(frac(y), frac(x)) for y, x in np.array(t.grid).reshape((npix, 2))]
        ok = tuple(t.shape) == (len(uv), npix) and t.total_image_pixels == npix and t.total_visibilities == len(uv)
        return dict(base, coq=f"(KTGrid {Pi} {G} {ccv(out)})", out=short(out), py_ok=ok)
    if op == "tvis":
        img = Fv(inp["img"])
        def image(native):
            im = aa.Array2D(values=fl(img), mask=mask)
            return im.native if native else im
        out = np.array(tr(inp["preload"]).visibilities_from(image=image(inp["native"])))
        # relations: preload on = off; native storage = slim storage
        others = [np.array(tr(p).visibilities_from(image=image(nat))) for p in (True, False) for nat in (True, False)]
        ok = all(close(o, out, 1e-12) for o in others)
        return dict(base, coq=f"(KTVis {Pi} {G} {U} {cbool(inp['preload'])} {cqv(img)} {ccv(cvout(out))})", out=short(out.tolist()),
                    py_ok=ok, detail=None if ok else short([o.tolist() for o in others]))
    if op == "timage":
        vis = pairs(inp["vis"])
        t = tr(inp["preload"])
        V = aa.Visibilities(visibilities=cplx(vis))
        res = t.image_from(visibilities=V)
        out = np.array(res.slim)
        ok = res.shape_native == mask.shape_native and bool(np.all(np.array(res.native)[np.array(mask)] == 0.0))
        # adjoint (dot) test: Re <V, A I> = <image_from(V), I>
        I = Fv(inp["dot_img"])
        AI = np.array(t.visibilities_from(image=aa.Array2D(values=fl(I), mask=mask)))
        lhs = float(np.sum(np.real(np.conj(cplx(vis)) * AI))); rhs = float(np.dot(out, np.array(fl(I)))) if npix else 0.0
        ok = ok and abs(lhs - rhs) <= 1e-9 * max(1.0, abs(lhs))
        return dict(base, coq=f"(KTImage {Pi} {G} {U} {ccv(vis)} {cqv(rvout(out))})", out=short(out.tolist()), py_ok=ok,
                    detail=None if ok else short([lhs, rhs]))
    if op == "ttmm":
        P = inp["P"]; M = Fm(inp["M"])
        t = tr(inp["preload"])
        out = t.transform_mapping_matrix(mapping_matrix=arr2(M, P))
        other = tr(not inp["preload"]).transform_mapping_matrix(mapping_matrix=arr2(M, P))
        ok = close(other, out, 1e-12) and out.shape == (len(uv), P)
        for j in range(P):     # column-wise: the operator applied to column j
            col = np.array(t.visibilities_from(image=aa.Array2D(values=arr2(M, P)[:, j], mask=mask)))
            ok = ok and close(out[:, j], col, 1e-12)
        return dict(base, coq=f"(KTTmm {Pi} {G} {U} {cbool(inp['preload'])} {cnat(P)} {cqm(M)} {ccm(cmout(out))})",
                    out=short(out.tolist()), py_ok=ok)
    if op == "inv":
        data = pairs(inp["data"]); noise = pairs(inp["noise"])
        t = tr(inp["preload"])
        ds = aa.DatasetInterface(data=aa.Visibilities(visibilities=cplx(data)),
                                 noise_map=aa.VisibilitiesNoiseMap(visibilities=cplx(noise)), transformer=t)
        objs = []
        for o in inp["objs"]:
            objs.append(aa.m.MockLinearObj(parameters=o["P"], mapping_matrix=arr2(Fm(o["M"]), o["P"]),
                                           regularization=aa.reg.Constant(coefficient=1.0) if o["reg"] else None))
        if inp["value"] == "default":
            settings = aa.SettingsInversion(use_w_tilde=False)
        else:
            settings = aa.SettingsInversion(use_w_tilde=False, no_regularization_add_to_curvature_diag_value=float(F(inp["value"])))
        value = frac(settings.no_regularization_add_to_curvature_diag_value)
        if inp["factory"]:
            inv = aa.Inversion(dataset=ds, linear_obj_list=objs, settings=settings)
        else:
            inv = aa.InversionInterferometerMapping(dataset=ds, linear_obj_list=objs, settings=settings)
        ok = type(inv).__name__ == "InversionInterferometerMapping"
        T = np.array(inv.operated_mapping_matrix); D = np.array(inv.data_vector); Fm_ = np.array(inv.curvature_matrix)
        cobjs = clist([ctup([cnat(o["P"]), cqm(Fm(o["M"])), cbool(o["reg"])]) for o in inp["objs"]])
        coq = (f"(KInv {Pi} {G} {U} {cbool(inp['preload'])} {cobjs} {ccv(data)} {ccv(noise)} {cq(value)} "
               f"{ccm(cmout(T))} {cqv(rvout(D))} {cqm(rmout(Fm_))})")
        return dict(base, coq=coq, out=short([D.tolist(), Fm_.tolist()]), py_ok=ok)
    raise ValueError(op)
