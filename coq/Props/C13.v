From PAV Require Import Model.C13.
