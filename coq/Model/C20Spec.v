(* C20 -- specification vocabulary at the real numbers (definitions only, no proofs).
   A triangle is a triple of points of the plane; the notions below do not mention any routine of
   the model in Model/C20.v except its data types. *)
From Coq Require Import ZArith List Bool Reals.
From PAV Require Import Base.NumOps Model.C20.
Import ListNotations.
Local Open Scope R_scope.

Definition rpt : Type := @pt ROps.       (* = R * R *)
Definition rtri : Type := @tri ROps.

(* the point with barycentric coordinates (a, b, c) in triangle t *)
Definition comb (a b c : R) (t : rtri) : rpt :=
  (a * fst (v0 t) + b * fst (v1 t) + c * fst (v2 t), a * snd (v0 t) + b * snd (v1 t) + c * snd (v2 t)).
(* closed triangle = convex hull of its corners; open interior *)
Definition inside (t : rtri) (p : rpt) : Prop :=
  exists a b c, 0 <= a /\ 0 <= b /\ 0 <= c /\ a + b + c = 1 /\ p = comb a b c t.
Definition strictly_inside (t : rtri) (p : rpt) : Prop :=
  exists a b c, 0 < a /\ 0 < b /\ 0 < c /\ a + b + c = 1 /\ p = comb a b c t.
(* twice the signed area (shoelace formula written from the origin) *)
Definition signed2 (t : rtri) : R :=
  (fst (v1 t) - fst (v0 t)) * (snd (v2 t) - snd (v0 t)) - (fst (v2 t) - fst (v0 t)) * (snd (v1 t) - snd (v0 t)).
Definition nondegenerate (t : rtri) : Prop := signed2 t <> 0.
Definition tri_area (t : rtri) : R := Rabs (signed2 t) / 2.
Fixpoint total_area (ts : list rtri) : R := match ts with [] => 0 | t :: r => tri_area t + total_area r end.

Definition is_corner (p : rpt) (t : rtri) : Prop := p = v0 t \/ p = v1 t \/ p = v2 t.
(* the same triangle up to the order in which its corners are listed *)
Definition tri_perm (s t : rtri) : Prop :=
  let '(a, b, c) := t in
  s = (a, b, c) \/ s = (a, c, b) \/ s = (b, a, c) \/ s = (b, c, a) \/ s = (c, a, b) \/ s = (c, b, a).
(* two lists describe the same set of triangles *)
Definition same_triangle_set (l1 l2 : list rtri) : Prop :=
  (forall s, In s l1 -> exists t, In t l2 /\ tri_perm s t) /\ (forall t, In t l2 -> exists s, In s l1 /\ tri_perm s t).

Definition midpoint (p q : rpt) : rpt := ((fst p + fst q) / 2, (snd p + snd q) / 2).
(* the midpoint subdivision of a triangle: three corner triangles and the medial triangle *)
Definition subdivision (t : rtri) : list rtri :=
  let A := v0 t in let B := v1 t in let C := v2 t in
  [(A, midpoint A B, midpoint C A); (B, midpoint B C, midpoint A B); (C, midpoint C A, midpoint B C);
   (midpoint A B, midpoint B C, midpoint C A)].
(* q is the mirror image of p through the point m *)
Definition point_reflection (m p q : rpt) : Prop := midpoint p q = m.
(* n is the neighbour of t across the edge opposite to corner k: it keeps that edge and its third corner is the
   reflection of corner k through the midpoint of the edge *)
Definition edge_neighbour (k : nat) (t n : rtri) : Prop :=
  match k with
  | 0%nat => v1 n = v1 t /\ v2 n = v2 t /\ point_reflection (midpoint (v1 t) (v2 t)) (v0 t) (v0 n)
  | 1%nat => v0 n = v0 t /\ v2 n = v2 t /\ point_reflection (midpoint (v0 t) (v2 t)) (v1 t) (v1 n)
  | _ => v0 n = v0 t /\ v1 n = v1 t /\ point_reflection (midpoint (v0 t) (v1 t)) (v2 t) (v2 n)
  end.
(* t itself or one of its three edge neighbours *)
Definition self_or_neighbour (t n : rtri) : Prop :=
  n = t \/ edge_neighbour 0 t n \/ edge_neighbour 1 t n \/ edge_neighbour 2 t n.

(* lattice description of the coordinate representation: the four children / the three neighbours of a cell,
   depending on whether the cell points up (flip_of = false) or down *)
Definition lattice_children (down : bool) (c : zpt) : list zpt :=
  let d := dbl c in
  if down then [d; zadd d (1, 1)%Z; zadd d (-1, 1)%Z; zadd d (0, 1)%Z]
  else [d; zadd d (1, 0)%Z; zadd d (-1, 0)%Z; zadd d (0, 1)%Z].
Definition lattice_neighbours (down : bool) (c : zpt) : list zpt :=
  if down then [c; zadd c (1, 0)%Z; zadd c (-1, 0)%Z; zadd c (0, 1)%Z]
  else [c; zadd c (1, 0)%Z; zadd c (-1, 0)%Z; zadd c (0, -1)%Z].
