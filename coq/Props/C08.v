(* C08 -- Fit statistics and evidence follow their definitions on unmasked pixels only.
   Statements only; every proof is [exact <lemma of Proofs/C08.v>].
   The [g_...] definitions (Gen/Gen_fit.v: the three likelihood / evidence composition formulas) are GENERATED from
   autoarray/fit/fit_util.py by py2v/gen_fit.py on every run; C08_generated_composition_is_model re-checks that they
   are the model's composition layer, so that C08_evidence_composition is about what fit_util.py says now.

   The statements are about the executable model of Model/C08.v (fit_util.py, fit_dataset.py,
   fit_imaging.py, evidence terms of inversion/abstract.py), which the correspondence run ties to /repo.
   [RL lnf] is the real-number instance of [NumOps] with an ARBITRARY function [lnf] in the ln slot: no
   theorem depends on a property of the logarithm.  The first, second and the matrix-reduction theorems
   hold for EVERY [NumOps] record (hence also for the rational execution device).
   Specification side (Model/C08.v, section Spec): [fit_pixels] = unmasked pixels (masked-native mode) or
   all stored values (slim mode); [s_data = data - sky], [s_residual = s_data - model],
   [s_normres = s_residual / noise], [s_chi = s_normres^2], [s_chi_squared = sum over fit_pixels of s_chi],
   [s_noise_normalization = sum over fit_pixels of ln(2 pi noise^2)],
   [s_log_likelihood = -(chi2 + norm)/2], [reg_indices] = parameters owned by a regularized object,
   [s_H] / [s_FH] = entries of H / F+H, [s_regularization_term = sum_{i,j in reg} s_i H_ij s_j],
   [s_log_evidence = -(chi2 + s^T H s + ln det (F+H)|reg - ln det H|reg + norm)/2]. *)
From Coq Require Import ZArith QArith Reals List Bool.
From PAV Require Import Base.NumOps Base.Res Base.Sum Gen.Gen_fit Model.C08 Model.C08x Proofs.C08 Proofs.C08x.
Import ListNotations.

(* ---- tie to the code: the three composition formulas are GENERATED from fit_util.py; over the reals they are
        the model's composition layer and the formulas of the property text *)
Theorem C08_generated_composition_is_model : forall (lnf : R -> R) (chi reg ldc ldr nn : R),
  @g_log_likelihood_from (RL lnf) chi nn = @log_likelihood_from (RL lnf) chi nn /\
  @g_log_likelihood_with_regularization_from (RL lnf) chi reg nn = @log_likelihood_with_regularization_from (RL lnf) chi reg nn /\
  @g_log_evidence_from (RL lnf) chi reg ldc ldr nn = @log_evidence_from (RL lnf) chi reg ldc ldr nn.
Proof. exact generated_composition_is_model. Qed.
(* the generated composition formulas of fit_util.py, over the reals *)
Theorem C08_generated_composition_formulas : forall (lnf : R -> R) (chi reg ldc ldr nn : R),
  @g_log_likelihood_from (RL lnf) chi nn = (- ((chi + nn) / 2))%R /\
  @g_log_likelihood_with_regularization_from (RL lnf) chi reg nn = (- ((chi + reg + nn) / 2))%R /\
  @g_log_evidence_from (RL lnf) chi reg ldc ldr nn = (- ((chi + reg + ldc - ldr + nn) / 2))%R.
Proof. exact generated_composition_formulas. Qed.

(* ---- values carried in masked pixels never change anything (masked-native mode), for every NumOps *)
Theorem C08_masked_values_irrelevant : forall (O : NumOps) (tp : T O) (f g : fit (T O)),
  agree_on_unmasked f g ->
  same_statistics tp (mask f) f g /\
  select (mask f) (fit_residual_map f) = select (mask f) (fit_residual_map g) /\
  select (mask f) (fit_normalized_residual_map f) = select (mask f) (fit_normalized_residual_map g) /\
  select (mask f) (fit_chi_squared_map f) = select (mask f) (fit_chi_squared_map g) /\
  select (mask f) (fit_residual_flux_fraction_map f) = select (mask f) (fit_residual_flux_fraction_map g) /\
  select (mask f) (fit_signal_to_noise_map f) = select (mask f) (fit_signal_to_noise_map g).
Proof. exact @masked_values_irrelevant. Qed.

(* ---- the masked-native evaluation equals the slim evaluation of the selected values, for every NumOps *)
Theorem C08_slim_and_native_modes_agree : forall (O : NumOps) (tp : T O) (f : fit (T O)),
  use_mask f = true ->
  same_statistics tp (mask f) f (slim_of f) /\
  select (mask f) (fit_data f) = fit_data (slim_of f) /\
  select (mask f) (fit_residual_map f) = fit_residual_map (slim_of f) /\
  select (mask f) (fit_normalized_residual_map f) = fit_normalized_residual_map (slim_of f) /\
  select (mask f) (fit_chi_squared_map f) = fit_chi_squared_map (slim_of f) /\
  select (mask f) (fit_residual_flux_fraction_map f) = fit_residual_flux_fraction_map (slim_of f) /\
  select (mask f) (fit_signal_to_noise_map f) = fit_signal_to_noise_map (slim_of f).
Proof. exact @slim_and_native_modes_agree. Qed.

(* ---- the three chi-squared code paths of fit_util.py (fast, via the masked maps, plain on the selected
        values) coincide, for every NumOps and without any shape hypothesis *)
Theorem C08_chi_squared_paths_agree : forall (O : NumOps) (d : list (T O)) (mk : list bool) (m n : list (T O)),
  let via_maps := chi_squared_with_mask_from
                    (chi_squared_map_with_mask_from (residual_map_with_mask_from d mk m) n mk) mk in
  chi_squared_with_mask_fast_from d mk m n = via_maps /\
  chi_squared_from (chi_squared_map_from (residual_map_from (select mk d) (select mk m)) (select mk n)) = via_maps.
Proof. exact @chi_squared_paths_agree. Qed.

(* ---- element-wise maps: definition in fitted pixels, 0 in excluded (masked, native mode) pixels *)
Theorem C08_maps_follow_definitions : forall (lnf : R -> R) (f : fit (T (RL lnf))),
  fit_okb f = true -> noise_positiveb f = true ->
  fit_data f = map (s_data f) (seq 0 (length (data f))) /\
  fit_residual_map f = per_pixel f (s_residual f) /\
  fit_normalized_residual_map f = per_pixel f (s_normres f) /\
  fit_chi_squared_map f = per_pixel f (s_chi f).
Proof. exact maps_follow_definitions. Qed.

(* ---- chi-squared, noise normalization, log likelihood: sums over the fitted pixels only;
        reduced chi-squared divides by their number (Python raises when there is none) *)
Theorem C08_statistics_follow_definitions : forall (lnf : R -> R) (tp : T (RL lnf)) (f : fit (T (RL lnf))),
  fit_okb f = true -> noise_positiveb f = true ->
  fit_chi_squared f = s_chi_squared f /\
  fit_noise_normalization tp f = s_noise_normalization tp f /\
  fit_log_likelihood tp f = s_log_likelihood tp f /\
  fit_reduced_chi_squared f = (if Nat.eqb (length (fit_pixels f)) 0 then Raise OtherException
                               else Ok (s_chi_squared f / INR (length (fit_pixels f)))%R).
Proof. exact statistics_follow_definitions. Qed.

(* ---- derived maps *)
Theorem C08_residual_flux_fraction_definition : forall (lnf : R -> R) (f : fit (T (RL lnf))),
  fit_okb f = true ->
  length (fit_residual_flux_fraction_map f) = length (data f) /\
  forall i, (i < length (data f))%nat ->
    nth i (fit_residual_flux_fraction_map f) None =
    if excluded f i then Some 0%R else if Reqb (s_data f i) 0 then None else Some (s_residual f i / s_data f i)%R.
Proof. exact residual_flux_fraction_definition. Qed.
Theorem C08_signal_to_noise_definition : forall (lnf : R -> R) (f : fit (T (RL lnf))),
  fit_okb f = true ->
  length (fit_signal_to_noise_map f) = length (data f) /\
  forall i, (i < length (data f))%nat -> (0 < at_ (noise f) i)%R ->
    nth i (fit_signal_to_noise_map f) None =
    Some (if Rltb (s_data f i) 0 then 0%R else (s_data f i / at_ (noise f) i)%R).
Proof. exact signal_to_noise_definition. Qed.

(* ---- inversion side: the reduced matrices / vector are the restrictions to the regularized parameters
        (np.delete on both axes = principal submatrix), for every NumOps *)
Theorem C08_reduced_matrices_are_principal_submatrices : forall (O : NumOps) (iv : inv (T O)),
  inv_okb iv = true ->
  regularization_matrix_reduced iv = tabulate (s_H iv) (reg_indices (objs iv)) /\
  curvature_reg_matrix_reduced iv = tabulate (s_FH iv) (reg_indices (objs iv)) /\
  reconstruction_reduced iv = map (at_ (recon iv)) (reg_indices (objs iv)).
Proof. exact @reduced_matrices_are_principal_submatrices. Qed.
Theorem C08_no_regularization_index_list : forall os i,
  In i (no_regularization_index_list os) <-> (i < n_params os)%nat /\ regd_at os i = false.
Proof. exact noreg_spec. Qed.
(* both log-determinants are those of the restricted matrices (0 when nothing is regularized) *)
Theorem C08_log_det_terms_are_restricted : forall (O : NumOps) (iv : inv (T O)),
  inv_okb iv = true ->
  log_det_curvature_reg_matrix_term iv = (if has_reg (objs iv) then s_logdet_FH iv else zero) /\
  log_det_regularization_matrix_term iv = (if has_reg (objs iv) then s_logdet_H iv else zero).
Proof. exact @log_det_terms_are_restricted. Qed.
Theorem C08_regularization_term_definition : forall (lnf : R -> R) (iv : inv (T (RL lnf))),
  inv_okb iv = true -> regularization_term iv = s_regularization_term iv.
Proof. exact regularization_term_is_spec. Qed.
Theorem C08_regularization_term_ignores_unregularized : forall (lnf : R -> R) (iv iv' : inv (T (RL lnf))),
  inv_okb iv = true -> inv_okb iv' = true -> objs iv = objs iv' -> blocks iv = blocks iv' ->
  (forall i, In i (reg_indices (objs iv)) -> at_ (recon iv) i = at_ (recon iv') i) ->
  regularization_term iv = regularization_term iv'.
Proof. exact regularization_term_ignores_unregularized. Qed.

(* ---- evidence = -(chi2 + s^T H s + ln det(F+H)|reg - ln det H|reg + normalization)/2 *)
Theorem C08_evidence_composition : forall (lnf : R -> R) (tp : T (RL lnf)) (f : fit (T (RL lnf))) (iv : inv (T (RL lnf))),
  fit_okb f = true -> noise_positiveb f = true -> inversion f = Some iv -> inv_okb iv = true ->
  fit_log_evidence tp f = Some (s_log_evidence tp f iv) /\
  fit_log_likelihood_with_regularization tp f = Some (s_log_likelihood_with_regularization tp f iv).
Proof. exact evidence_composition. Qed.

(* ---- figure of merit: the evidence with an inversion, the likelihood without *)
Theorem C08_figure_of_merit_selection : forall (O : NumOps) (tp : T O) (f : fit (T O)),
  fit_figure_of_merit tp f = if inversion f then fit_log_evidence tp f else Some (fit_log_likelihood tp f).
Proof. exact @figure_of_merit_selection. Qed.
Theorem C08_evidence_present_iff_inversion : forall (O : NumOps) (tp : T O) (f : fit (T O)),
  (fit_log_evidence tp f = None <-> inversion f = None) /\
  (fit_log_likelihood_with_regularization tp f = None <-> inversion f = None).
Proof. exact @evidence_present_iff_inversion. Qed.
Theorem C08_figure_of_merit_definition : forall (lnf : R -> R) (tp : T (RL lnf)) (f : fit (T (RL lnf))),
  fit_okb f = true -> noise_positiveb f = true -> fit_inv_okb f = true ->
  fit_figure_of_merit tp f =
  Some (match inversion f with Some iv => s_log_evidence tp f iv | None => s_log_likelihood tp f end).
Proof. exact figure_of_merit_definition. Qed.

(* ================================================================== phase 3 (Model/C08x.v, Proofs/C08x.v) *)
(* [xval] = the value of a double division: XFin x | XPInf | XNInf | XNaN.  [erase] forgets which non-finite value it is. *)

(* ---- the extended-value maps refine the option-valued maps above, for EVERY NumOps: every theorem about
        fit_signal_to_noise_map / fit_residual_flux_fraction_map is a theorem about their finite entries *)
Theorem C08_extended_maps_refine : forall (O : NumOps) (f : fit (T O)) (r d : list (T O)) (mk : list bool),
  map erase (fit_signal_to_noise_map_x f) = fit_signal_to_noise_map f /\
  map erase (fit_residual_flux_fraction_map_x f) = fit_residual_flux_fraction_map f /\
  map erase (residual_flux_fraction_map_from_x r d) = residual_flux_fraction_map_from r d /\
  map erase (residual_flux_fraction_map_with_mask_from_x r d mk) = residual_flux_fraction_map_with_mask_from r d mk.
Proof. exact extended_maps_refine. Qed.
(* ---- masked values are irrelevant / native = slim on the selection, also for the non-finite entries (every NumOps) *)
Theorem C08_extended_maps_modes_agree : forall (O : NumOps) (f g : fit (T O)),
  (use_mask f = true ->
     select (mask f) (fit_signal_to_noise_map_x f) = fit_signal_to_noise_map_x (slim_of f) /\
     select (mask f) (fit_residual_flux_fraction_map_x f) = fit_residual_flux_fraction_map_x (slim_of f)) /\
  (agree_on_unmasked f g ->
     select (mask f) (fit_signal_to_noise_map_x f) = select (mask f) (fit_signal_to_noise_map_x g) /\
     select (mask f) (fit_residual_flux_fraction_map_x f) = select (mask f) (fit_residual_flux_fraction_map_x g)).
Proof. exact @x_maps_modes_agree. Qed.

(* ---- signal to noise on EVERY stored pixel -- masked or not, whatever the sign of the noise value there:
        max(0, data / noise) for a non-zero noise value; for a zero noise value +inf (positive data), 0 (negative
        data: -inf is clipped) or nan (zero data) *)
Theorem C08_signal_to_noise_every_pixel : forall (lnf : R -> R) (f : fit (T (RL lnf))),
  fit_okb f = true ->
  length (fit_signal_to_noise_map_x f) = length (data f) /\
  forall i, (i < length (data f))%nat ->
    nth i (fit_signal_to_noise_map_x f) XNaN = s_snr_x (s_data f i) (at_ (noise f) i).
Proof. exact signal_to_noise_every_pixel. Qed.
(* ---- residual flux fraction on every stored pixel: residual / data with the IEEE value for a zero denominator on
        fitted pixels, a finite 0 in excluded pixels *)
Theorem C08_residual_flux_fraction_every_pixel : forall (lnf : R -> R) (f : fit (T (RL lnf))),
  fit_okb f = true ->
  length (fit_residual_flux_fraction_map_x f) = length (data f) /\
  forall i, (i < length (data f))%nat ->
    nth i (fit_residual_flux_fraction_map_x f) XNaN =
    if excluded f i then XFin 0%R else s_quot_x (s_residual f i) (s_data f i).
Proof. exact residual_flux_fraction_every_pixel. Qed.
(* ---- the util-level functions fit_util.residual_flux_fraction_map_from / _with_mask_from *)
Theorem C08_util_residual_flux_fraction : forall (lnf : R -> R) (r d : list R) (mk : list bool),
  length d = length r -> length mk = length r ->
  length (@residual_flux_fraction_map_from_x (RL lnf) r d) = length r /\
  length (@residual_flux_fraction_map_with_mask_from_x (RL lnf) r d mk) = length r /\
  forall i, (i < length r)%nat ->
    nth i (@residual_flux_fraction_map_from_x (RL lnf) r d) XNaN = @s_quot_x (RL lnf) (nth i r 0%R) (nth i d 0%R) /\
    nth i (@residual_flux_fraction_map_with_mask_from_x (RL lnf) r d mk) XNaN =
      (if nth i mk true then XFin 0%R else @s_quot_x (RL lnf) (nth i r 0%R) (nth i d 0%R)) /\
    nth i (@residual_flux_fraction_map_from (RL lnf) r d) None =
      (if Reqb (nth i d 0%R) 0 then None else Some (nth i r 0 / nth i d 0)%R) /\
    nth i (@residual_flux_fraction_map_with_mask_from (RL lnf) r d mk) None =
      (if nth i mk true then Some 0%R else if Reqb (nth i d 0%R) 0 then None else Some (nth i r 0 / nth i d 0)%R).
Proof. exact util_residual_flux_fraction. Qed.

(* ---- noise covariance: residual_map @ C_inv @ residual_map is the quadratic form sum_ij r_i C_inv_ij r_j ... *)
Theorem C08_covariance_quadratic_form : forall (lnf : R -> R) (r : list R) (Ci : list (list R)),
  squareb (length r) Ci = true ->
  @chi_squared_with_noise_covariance_from (RL lnf) r Ci = @s_quadratic_form (RL lnf) r Ci.
Proof. exact cov_quadratic_form. Qed.
(* ... hence r^T C^-1 r: with C_inv . C = identity (the contract of np.linalg.inv, exercised by the correspondence run)
   it equals r . x for the solution x of C x = r *)
Theorem C08_covariance_is_inverse_form : forall (lnf : R -> R) (r x : list R) (C Ci : list (list R)),
  squareb (length r) Ci = true -> length x = length r ->
  (forall i k, (i < length r)%nat -> (k < length r)%nat ->
     @s_matmul_at (RL lnf) (length r) Ci C i k = if Nat.eqb i k then 1%R else 0%R) ->
  (forall j, (j < length r)%nat -> @s_matvec_at (RL lnf) C x j = @at_ (RL lnf) r j) ->
  @chi_squared_with_noise_covariance_from (RL lnf) r Ci = @s_dot (RL lnf) r x.
Proof. exact cov_is_inverse_form. Qed.
(* ... and for uncorrelated noise (C_inv = diag(1 / noise^2)) it is the ordinary chi-squared sum((r / noise)^2) *)
Theorem C08_covariance_diagonal_is_plain : forall (lnf : R -> R) (r nz : list R) (Ci : list (list R)),
  squareb (length r) Ci = true -> length nz = length r ->
  (forall i, (i < length r)%nat -> nth i nz 0%R <> 0%R) ->
  (forall i j, (i < length r)%nat -> (j < length r)%nat ->
     @mat_at (RL lnf) Ci i j = if Nat.eqb i j then (/ (nth i nz 0 * nth i nz 0))%R else 0%R) ->
  @chi_squared_with_noise_covariance_from (RL lnf) r Ci = @chi_squared_from (RL lnf) (@chi_squared_map_from (RL lnf) r nz).
Proof. exact cov_diagonal_is_plain. Qed.
(* ---- FitDataset on a dataset with a noise covariance matrix (slim arrays): chi-squared is the quadratic form of the
        per-pixel residuals data - sky - model; likelihood, regularized likelihood, evidence and figure of merit are the
        composition formulas on that chi-squared and the noise-map normalization *)
Theorem C08_covariance_fit_statistics : forall (lnf : R -> R) (tp : T (RL lnf)) (f : fit (T (RL lnf))) (Ci : list (list R)),
  @cfit_okb (RL lnf) f Ci = true -> noise_positiveb f = true -> fit_inv_okb f = true ->
  let chi := @s_chi_squared_cov (RL lnf) f Ci in
  let nn := s_noise_normalization tp f in
  @cfit_chi_squared (RL lnf) f Ci = chi /\
  @cfit_reduced_chi_squared (RL lnf) f Ci =
    (if Nat.eqb (length (data f)) 0 then Raise OtherException else Ok (chi / INR (length (data f)))%R) /\
  @cfit_log_likelihood (RL lnf) tp f Ci = @s_ll_of (RL lnf) chi nn /\
  @cfit_log_likelihood_with_regularization (RL lnf) tp f Ci = option_map (@s_llreg_of (RL lnf) chi nn) (inversion f) /\
  @cfit_log_evidence (RL lnf) tp f Ci = option_map (@s_evidence_of (RL lnf) chi nn) (inversion f) /\
  @cfit_figure_of_merit (RL lnf) tp f Ci = Some (@s_fom_of (RL lnf) chi nn (inversion f)).
Proof. exact cfit_statistics. Qed.
(* ---- the composition layer on ANY chi-squared / noise normalization (shared by the plain, covariance and
        interferometer fits): the formulas of the property text *)
Theorem C08_composition_on_any_chi_squared : forall (lnf : R -> R) (chi nn : R) (iv : inv (T (RL lnf))),
  inv_okb iv = true ->
  @ll_from (RL lnf) chi nn = (- ((chi + nn) / 2))%R /\
  @llreg_from (RL lnf) chi nn (Some iv) = Some (- ((chi + s_regularization_term iv + nn) / 2))%R /\
  @evidence_from (RL lnf) chi nn (Some iv) =
    Some (if has_reg (objs iv) then (- ((chi + s_regularization_term iv + s_logdet_FH iv - s_logdet_H iv + nn) / 2))%R
          else (- ((chi + nn) / 2))%R) /\
  @fom_from (RL lnf) chi nn (Some iv) = @evidence_from (RL lnf) chi nn (Some iv) /\
  @fom_from (RL lnf) chi nn None = Some (@ll_from (RL lnf) chi nn) /\
  @llreg_from (RL lnf) chi nn None = None /\ @evidence_from (RL lnf) chi nn None = None.
Proof. exact composition_on_any_chi_squared. Qed.

(* ---- FitInterferometer: complex residuals, per-component definitions (independent of use_mask_in_fit: the mask is
        all False), chi-squared and noise normalization summed over real and imaginary parts, reduced chi-squared
        dividing by the number of visibilities *)
Theorem C08_interferometer_definitions : forall (lnf : R -> R) (tp : T (RL lnf)) (v : vfit (T (RL lnf))),
  vfit_okb v = true ->
  length (vfit_residual_map v) = length (vdata v) /\ length (vfit_normalized_residual_map v) = length (vdata v) /\
  length (vfit_chi_squared_map v) = length (vdata v) /\ length (vfit_signal_to_noise_map v) = length (vdata v) /\
  (forall k, (k < length (vdata v))%nat ->
     nth k (vfit_residual_map v) (0, 0)%R = sv_residual v k /\
     nth k (vfit_normalized_residual_map v) (0, 0)%R = sv_normres v k /\
     nth k (vfit_chi_squared_map v) (0, 0)%R = sv_chi v k /\
     nth k (vfit_signal_to_noise_map v) (XNaN, XNaN) =
       (s_snr_x (vre (vdata v) k) (vre (vnoise v) k), s_snr_x (vim (vdata v) k) (vim (vnoise v) k))) /\
  vfit_chi_squared v = sv_chi_squared v /\
  vfit_noise_normalization tp v = sv_noise_normalization tp v /\
  vfit_log_likelihood tp v = @s_ll_of (RL lnf) (sv_chi_squared v) (sv_noise_normalization tp v) /\
  vfit_reduced_chi_squared v = (if Nat.eqb (length (vdata v)) 0 then Raise OtherException
                                else Ok (sv_chi_squared v / INR (length (vdata v)))%R).
Proof. exact vfit_definitions. Qed.
(* ---- ... and every scalar statistic is that of the REAL fit (theorems above) on the 2 n real components *)
Theorem C08_interferometer_is_real_fit_on_components : forall (lnf : R -> R) (tp : T (RL lnf)) (v : vfit (T (RL lnf))),
  vfit_okb v = true ->
  fit_okb (real_fit_of v) = true /\
  vfit_chi_squared v = fit_chi_squared (real_fit_of v) /\
  vfit_noise_normalization tp v = fit_noise_normalization tp (real_fit_of v) /\
  vfit_log_likelihood tp v = fit_log_likelihood tp (real_fit_of v) /\
  vfit_log_likelihood_with_regularization tp v = fit_log_likelihood_with_regularization tp (real_fit_of v) /\
  vfit_log_evidence tp v = fit_log_evidence tp (real_fit_of v) /\
  vfit_figure_of_merit tp v = fit_figure_of_merit tp (real_fit_of v).
Proof. exact interferometer_is_real_fit_on_components. Qed.

(* ---- preloads (inversion/abstract.py): absent, or carrying the true regularization matrix / log-determinant, they change nothing
        (every NumOps) ... *)
Theorem C08_preloads_absent_or_consistent : forall (O : NumOps) (p : pre (T O)) (iv : inv (T O)),
  (pre_H p = None \/ pre_H p = Some (regularization_matrix iv)) ->
  (pre_ldr p = None \/ pre_ldr p = Some (logdet (regularization_matrix_reduced iv))) ->
  p_regularization_matrix p iv = regularization_matrix iv /\
  p_curvature_reg_matrix p iv = curvature_reg_matrix iv /\
  p_regularization_matrix_reduced p iv = regularization_matrix_reduced iv /\
  p_curvature_reg_matrix_reduced p iv = curvature_reg_matrix_reduced iv /\
  p_regularization_term p iv = regularization_term iv /\
  p_log_det_curvature_reg_matrix_term p iv = log_det_curvature_reg_matrix_term iv /\
  p_log_det_regularization_matrix_term p iv = log_det_regularization_matrix_term iv.
Proof. exact @preloads_absent_or_consistent. Qed.
(* ... and ANY preloaded matrix H' of the right size is used consistently: both reduced matrices are the restrictions of H' and
   F + H' to the regularized parameters, the curvature log-determinant is taken of the restricted F + H', a preloaded
   log-determinant stands for ln det of the restricted H' only, and the regularization term is the quadratic form of H' *)
Theorem C08_preloaded_terms_are_restricted : forall (O : NumOps) (p : pre (T O)) (iv : inv (T O)),
  inv_okb iv = true -> pre_okb p iv = true ->
  p_regularization_matrix_reduced p iv = tabulate (s_H_eff p iv) (reg_indices (objs iv)) /\
  p_curvature_reg_matrix_reduced p iv = tabulate (s_FH_eff p iv) (reg_indices (objs iv)) /\
  p_log_det_curvature_reg_matrix_term p iv =
    (if has_reg (objs iv) then lnT O (det (tabulate (s_FH_eff p iv) (reg_indices (objs iv)))) else zero) /\
  p_log_det_regularization_matrix_term p iv =
    (if has_reg (objs iv)
     then match pre_ldr p with Some v => v | None => lnT O (det (tabulate (s_H_eff p iv) (reg_indices (objs iv)))) end
     else zero).
Proof. exact @preloaded_terms_are_restricted. Qed.
Theorem C08_preloaded_regularization_term : forall (lnf : R -> R) (p : pre (T (RL lnf))) (iv : inv (T (RL lnf))),
  inv_okb iv = true -> pre_okb p iv = true ->
  p_regularization_term p iv =
  sumR (map (fun i => sumR (map (fun j => (at_ (recon iv) i * s_H_eff p iv i j * at_ (recon iv) j)%R) (reg_indices (objs iv))))
            (reg_indices (objs iv))).
Proof. exact p_regularization_term_is_spec. Qed.

(* ---- non-vacuity of the phase-3 hypotheses *)
(* a slim 2-pixel fit with the covariance C = [[1 1] [1 2]], C^-1 = [[2 -1] [-1 1]], residual (2, -1), x = (5, -3): chi-squared 13 *)
Example C08_hyps_satisfiable_covariance :
  let f := ex_cfit (RL ln) in let r := [2; -1]%R in
  @cfit_okb (RL ln) f (ex_Cinv (RL ln)) = true /\ noise_positiveb f = true /\ fit_inv_okb f = true /\
  @fit_residual_map (RL ln) f = r /\
  squareb (length r) (ex_Cinv (RL ln)) = true /\ length (ex_x (RL ln)) = length r /\
  (forall i k, (i < length r)%nat -> (k < length r)%nat ->
     @s_matmul_at (RL ln) (length r) (ex_Cinv (RL ln)) (ex_C (RL ln)) i k = if Nat.eqb i k then 1%R else 0%R) /\
  (forall j, (j < length r)%nat -> @s_matvec_at (RL ln) (ex_C (RL ln)) (ex_x (RL ln)) j = @at_ (RL ln) r j) /\
  @s_dot (RL ln) r (ex_x (RL ln)) = 13%R.
Proof. exact ex_cov_hyps_R. Qed.
Example C08_hyps_satisfiable_diagonal_covariance :
  let r := [2; -1]%R in let nz := [1; 2]%R in
  squareb (length r) (ex_Cdiag_inv (RL ln)) = true /\ length nz = length r /\
  (forall i, (i < length r)%nat -> nth i nz 0%R <> 0%R) /\
  (forall i j, (i < length r)%nat -> (j < length r)%nat ->
     @mat_at (RL ln) (ex_Cdiag_inv (RL ln)) i j = if Nat.eqb i j then (/ (nth i nz 0 * nth i nz 0))%R else 0%R).
Proof. exact ex_cov_diag_hyps_R. Qed.
Example C08_hyps_satisfiable_interferometer :
  vfit_okb (ex_vfit (RL ln) true) = true /\ vfit_okb (ex_vfit (RL ln) false) = true /\
  length (vdata (ex_vfit (RL ln) true)) = 3%nat.
Proof. exact ex_vis_hyps_R. Qed.
(* a preloaded regularization matrix that differs from the assembled one (and a preloaded log-determinant) *)
Example C08_hyps_satisfiable_preloads :
  inv_okb (ex_inv (RL ln)) = true /\ pre_okb (ex_pre (RL ln)) (ex_inv (RL ln)) = true /\
  p_regularization_matrix (ex_pre (RL ln)) (ex_inv (RL ln)) <> regularization_matrix (ex_inv (RL ln)).
Proof. exact ex_pre_hyps. Qed.
(* the values the model computes on those inputs (rational execution): covariance chi-squared 13 (= r . x above) against the
   uncorrelated 4 + 1/4; interferometer chi-squared (1 + 1/4) + (1 + 0) + (0 + 4) = 25/4 whatever use_mask_in_fit is;
   signal to noise of the visibility (-3, 0) with noise (2, 2): (0, 0); of (0, -1) with noise (4, 1): (0, 0) *)
Example C08_example_values_phase3 :
  @cfit_chi_squared QOps (ex_cfit QOps) (ex_Cinv QOps) = (13 # 1)%Q /\
  Qeq_bool (@cfit_chi_squared QOps (ex_cfit QOps) (ex_Cdiag_inv QOps)) (17 # 4) = true /\
  Qeq_bool (@fit_chi_squared QOps (ex_cfit QOps)) (17 # 4) = true /\
  @vfit_chi_squared QOps (ex_vfit QOps true) = (25 # 4)%Q /\ @vfit_chi_squared QOps (ex_vfit QOps false) = (25 # 4)%Q /\
  @vfit_signal_to_noise_map QOps (ex_vfit QOps true) =
    [(XFin (1#1), XFin (1#1)); (XFin (0#1), XFin (0#1)); (XFin (0#1), XFin (0#1))]%Q /\
  @xclip QOps (@xdiv QOps (-3#1) (0#1))%Q = XFin (0#1)%Q /\ @xclip QOps (@xdiv QOps (3#1) (0#1))%Q = XPInf /\
  @xclip QOps (@xdiv QOps (0#1) (0#1))%Q = XNaN /\ @xclip QOps (@xdiv QOps (3#1) (-2#1))%Q = XFin (0#1)%Q.
Proof. vm_compute. repeat split. Qed.

(* ---- non-vacuity: concrete inputs meeting the hypotheses (Proofs/C08.v, section Examples) *)
(* a masked-native 2 x 2 fit with a sky offset, one masked pixel and a partially regularized inversion *)
Example C08_hyps_satisfiable_R :
  let f := ex_fit (RL ln) 99%R 0%R 1000%R in
  fit_okb f = true /\ noise_positiveb f = true /\ fit_inv_okb f = true /\
  inversion f = Some (ex_inv (RL ln)) /\ inv_okb (ex_inv (RL ln)) = true /\
  fit_pixels f = [0; 2; 3]%nat /\ excluded f 1 = true /\
  has_reg (objs (ex_inv (RL ln))) = true /\ all_have_reg (objs (ex_inv (RL ln))) = false /\
  reg_indices (objs (ex_inv (RL ln))) = [0; 2; 3]%nat.
Proof. exact ex_hyps_R. Qed.
(* two fits differing only in the masked pixel (and there in data, noise and model) *)
Example C08_hyps_satisfiable_masked :
  agree_on_unmasked (ex_fit QOps (99#1)%Q (0#1)%Q (1000#1)%Q) (ex_fit QOps (-7#1)%Q (1#2)%Q (3#1)%Q) /\
  ex_fit QOps (99#1)%Q (0#1)%Q (1000#1)%Q <> ex_fit QOps (-7#1)%Q (1#2)%Q (3#1)%Q.
Proof. exact ex_hyps_masked. Qed.
(* two inversions with the same objects and regularization, differing in the curvature matrix and in the
   reconstruction value at the unregularized parameter *)
Example C08_hyps_satisfiable_unregularized :
  inv_okb (ex_inv (RL ln)) = true /\ inv_okb (ex_inv2 (RL ln)) = true /\
  objs (ex_inv (RL ln)) = objs (ex_inv2 (RL ln)) /\ blocks (ex_inv (RL ln)) = blocks (ex_inv2 (RL ln)) /\
  (forall i, In i (reg_indices (objs (ex_inv (RL ln)))) -> at_ (recon (ex_inv (RL ln))) i = at_ (recon (ex_inv2 (RL ln))) i) /\
  recon (ex_inv (RL ln)) <> recon (ex_inv2 (RL ln)).
Proof. exact ex_hyps_inv2. Qed.
(* the values the model computes on that input (rational execution): chi2 = 1/4 + 9 + 1 = 41/4,
   s^T H s over parameters {0, 2, 3} = 2 + (8 + 12 + 18) = 40, reduced matrices 3 x 3 *)
Example C08_example_values :
  @fit_chi_squared QOps (ex_fit QOps (99#1)%Q (0#1)%Q (1000#1)%Q) = (41 # 4)%Q /\
  @regularization_term QOps (ex_inv QOps) = (40 # 1)%Q /\ @regularization_term QOps (ex_inv2 QOps) = (40 # 1)%Q /\
  @regularization_matrix_reduced QOps (ex_inv QOps) = [[2#1; 0#1; 0#1]; [0#1; 2#1; (-1)#1]; [0#1; (-1)#1; 2#1]]%Q /\
  @curvature_reg_matrix_reduced QOps (ex_inv QOps) = [[6#1; 0#1; 1#1]; [0#1; 7#1; 1#1]; [1#1; 1#1; 8#1]]%Q /\
  @fit_residual_map QOps (ex_fit QOps (99#1)%Q (0#1)%Q (1000#1)%Q) = [1#1; 0#1; (-3)#1; 4#1]%Q.
Proof. vm_compute. repeat split. Qed.

Print Assumptions C08_generated_composition_is_model. Print Assumptions C08_generated_composition_formulas.
Print Assumptions C08_masked_values_irrelevant. Print Assumptions C08_slim_and_native_modes_agree.
Print Assumptions C08_chi_squared_paths_agree. Print Assumptions C08_maps_follow_definitions. Print Assumptions C08_statistics_follow_definitions.
Print Assumptions C08_residual_flux_fraction_definition. Print Assumptions C08_signal_to_noise_definition.
Print Assumptions C08_reduced_matrices_are_principal_submatrices. Print Assumptions C08_no_regularization_index_list.
Print Assumptions C08_log_det_terms_are_restricted. Print Assumptions C08_regularization_term_definition.
Print Assumptions C08_regularization_term_ignores_unregularized. Print Assumptions C08_evidence_composition.
Print Assumptions C08_figure_of_merit_selection. Print Assumptions C08_evidence_present_iff_inversion.
Print Assumptions C08_figure_of_merit_definition.
Print Assumptions C08_extended_maps_refine. Print Assumptions C08_extended_maps_modes_agree.
Print Assumptions C08_signal_to_noise_every_pixel. Print Assumptions C08_residual_flux_fraction_every_pixel.
Print Assumptions C08_util_residual_flux_fraction. Print Assumptions C08_covariance_quadratic_form.
Print Assumptions C08_covariance_is_inverse_form. Print Assumptions C08_covariance_diagonal_is_plain.
Print Assumptions C08_covariance_fit_statistics. Print Assumptions C08_composition_on_any_chi_squared.
Print Assumptions C08_interferometer_definitions. Print Assumptions C08_interferometer_is_real_fit_on_components.
Print Assumptions C08_preloads_absent_or_consistent. Print Assumptions C08_preloaded_terms_are_restricted.
Print Assumptions C08_preloaded_regularization_term.
