(* C10 -- lemmas, part 1: arrays, the blurring mask, the buffed mask.  (Edge / border / views: C10b.v) *)
From Coq Require Import ZArith List Bool Lia FinFun.
From PAV Require Import Base.Res Base.Check Model.C10.
Import ListNotations.
Local Open Scope Z_scope.

Ltac bool_to_prop :=
  repeat rewrite ?andb_true_iff, ?orb_true_iff, ?negb_true_iff, ?andb_false_iff, ?orb_false_iff, ?negb_false_iff,
                 ?Z.leb_le, ?Z.ltb_lt, ?Z.eqb_eq, ?Z.leb_gt, ?Z.ltb_ge, ?Z.eqb_neq in *.

Lemma eq_bool_iff (a b : bool) : (a = true <-> b = true) -> a = b.
Proof. destruct a, b; intuition congruence. Qed.

(* ------------------------------------------------------------------ ranges and the scan *)
Lemma zrange_In lo hi z : In z (zrange lo hi) <-> lo <= z < hi.
Proof.
  unfold zrange. rewrite in_map_iff. split.
  - intros (i & E & Hi). apply in_seq in Hi. lia.
  - intros Hz. exists (Z.to_nat (z - lo)). split; [lia|]. apply in_seq. lia.
Qed.

Lemma zrange_length lo hi : length (zrange lo hi) = Z.to_nat (hi - lo).
Proof. unfold zrange. now rewrite map_length, seq_length. Qed.

Lemma zrange_NoDup lo hi : NoDup (zrange lo hi).
Proof.
  unfold zrange. apply FinFun.Injective_map_NoDup; [|apply seq_NoDup].
  intros a b E. lia.
Qed.

Lemma zrange_empty lo hi : hi <= lo -> zrange lo hi = [].
Proof. intros Hl. unfold zrange. replace (Z.to_nat (hi - lo)) with 0%nat by lia. reflexivity. Qed.

Lemma zrange_cons lo hi : lo < hi -> zrange lo hi = lo :: zrange (lo + 1) hi.
Proof.
  intros Hl. unfold zrange.
  replace (Z.to_nat (hi - lo)) with (S (Z.to_nat (hi - (lo + 1)))) by lia.
  cbn [seq map]. f_equal; [lia|].
  rewrite <- seq_shift, map_map. apply map_ext. intros a. lia.
Qed.

Lemma nth_map' {A B} (f : A -> B) l i d d' : (i < length l)%nat -> nth i (map f l) d = f (nth i l d').
Proof. intros Hi. rewrite nth_indep with (d' := f d') by (now rewrite map_length). apply map_nth. Qed.

Lemma nth_zrange lo hi i d : (i < Z.to_nat (hi - lo))%nat -> nth i (zrange lo hi) d = lo + Z.of_nat i.
Proof.
  intros Hi. unfold zrange. rewrite nth_map' with (d' := 0%nat) by (now rewrite seq_length).
  rewrite seq_nth by assumption. reflexivity.
Qed.

Lemma coords_In H W y x : In (y, x) (coords H W) <-> 0 <= y < H /\ 0 <= x < W.
Proof.
  unfold coords. rewrite in_flat_map. split.
  - intros (y' & Hy & Hin). apply in_map_iff in Hin. destruct Hin as (x' & E & Hx).
    inversion E; subst. apply zrange_In in Hy. apply zrange_In in Hx. lia.
  - intros (Hy & Hx). exists y. split; [apply zrange_In; lia|].
    apply in_map_iff. exists x. split; [reflexivity|apply zrange_In; lia].
Qed.

Lemma NoDup_flat_map {A B} (f : A -> list B) (l : list A) :
  NoDup l -> (forall a, In a l -> NoDup (f a)) ->
  (forall a a' b, In a l -> In a' l -> In b (f a) -> In b (f a') -> a = a') -> NoDup (flat_map f l).
Proof.
  induction l as [|a t IH]; intros Hnd Hf Hdisj; cbn; [constructor|].
  inversion Hnd as [|? ? Hna Hndt]; subst.
  assert (Hgoal : NoDup (f a) /\ NoDup (flat_map f t) /\ forall b, In b (f a) -> ~ In b (flat_map f t)).
  { split; [apply Hf; now left|]. split.
    - apply IH; auto.
      + intros a0 H0. apply Hf. now right.
      + intros a0 a' b H0 H1. apply Hdisj; now right.
    - intros b Hb Hin. apply in_flat_map in Hin. destruct Hin as (a' & Ha' & Hb').
      assert (a = a') by (apply (Hdisj a a' b); auto; [now left|now right]). subst. contradiction. }
  destruct Hgoal as (H1 & H2 & H3).
  revert H1 H3. generalize (f a). induction l as [|b l' IHl]; intros H1 H3; cbn; [assumption|].
  inversion H1; subst. constructor.
  - rewrite in_app_iff. intros [Hc|Hc]; [contradiction|]. apply (H3 b); [now left|assumption].
  - apply IHl; [assumption|]. intros b' Hb'. apply H3. now right.
Qed.

Lemma coords_NoDup H W : NoDup (coords H W).
Proof.
  unfold coords. apply NoDup_flat_map.
  - apply zrange_NoDup.
  - intros y _. apply FinFun.Injective_map_NoDup; [|apply zrange_NoDup]. intros a b E. now inversion E.
  - intros y y' b _ _ Hb Hb'. apply in_map_iff in Hb. apply in_map_iff in Hb'.
    destruct Hb as (x & E & _). destruct Hb' as (x' & E' & _). subst b. now inversion E'.
Qed.

Definition inarr (m : mask) (y x : Z) : Prop := 0 <= y < shape0 m /\ 0 <= x < shape1 m.

Lemma scan_In m p : In p (scan m) <-> inarr m (fst p) (snd p).
Proof. destruct p as [y x]. unfold scan, inarr. apply coords_In. Qed.

Lemma inb_iff m p : inb m p = true <-> inarr m (fst p) (snd p).
Proof. unfold inb, inarr. bool_to_prop. lia. Qed.

Lemma unmasked_In m p : In p (unmasked_pixels m) <-> inarr m (fst p) (snd p) /\ getp m p = false.
Proof. unfold unmasked_pixels. rewrite filter_In, scan_In, negb_true_iff. reflexivity. Qed.

(* ------------------------------------------------------------------ reads and writes *)
Lemma get_nn m y x : 0 <= y -> 0 <= x -> get m y x = nth (Z.to_nat x) (nth (Z.to_nat y) m []) true.
Proof.
  intros Hy Hx. unfold get, norm.
  destruct (y <? 0) eqn:E1; [lia|]. destruct (x <? 0) eqn:E2; [lia|].
  destruct (0 <=? y) eqn:E3; [|lia]. destruct (0 <=? x) eqn:E4; [|lia]. reflexivity.
Qed.

Lemma set_nn m y x v : 0 <= y -> 0 <= x ->
  set m y x v = upd m (Z.to_nat y) (fun r => upd r (Z.to_nat x) (fun _ => v)).
Proof.
  intros Hy Hx. unfold set, norm.
  destruct (y <? 0) eqn:E1; [lia|]. destruct (x <? 0) eqn:E2; [lia|].
  destruct (0 <=? y) eqn:E3; [|lia]. destruct (0 <=? x) eqn:E4; [|lia]. reflexivity.
Qed.

Lemma length_upd {A} (l : list A) n f : length (upd l n f) = length l.
Proof. revert n. induction l as [|a t IH]; intros [|n]; cbn; auto. Qed.

Lemma nth_upd_same {A} (l : list A) n f d : (n < length l)%nat -> nth n (upd l n f) d = f (nth n l d).
Proof. revert n. induction l as [|a t IH]; intros [|n] Hn; cbn in *; try lia; auto. apply IH. lia. Qed.

Lemma nth_upd_other {A} (l : list A) n k f d : k <> n -> nth k (upd l n f) d = nth k l d.
Proof.
  revert n k. induction l as [|a t IH]; intros [|n] [|k] Hk; cbn; auto; try congruence.
Qed.

Lemma upd_app_exact {A} (l1 l2 : list A) a f : upd (l1 ++ a :: l2) (length l1) f = l1 ++ f a :: l2.
Proof. induction l1 as [|b t IH]; cbn; [reflexivity|]. now rewrite IH. Qed.

Lemma hd_upd {A} (l : list (list A)) n f :
  (forall r, length (f r) = length r) -> length (hd [] (upd l n f)) = length (hd [] l).
Proof. intros Hf. destruct l as [|a t]; destruct n; cbn; auto. Qed.

Definition sameshape (b m : mask) : Prop := shape0 b = shape0 m /\ shape1 b = shape1 m /\ rectb b = true.

Lemma rect_row m y : rectb m = true -> (y < length m)%nat -> Z.of_nat (length (nth y m [])) = shape1 m.
Proof.
  intros Hr Hy. unfold rectb in Hr. rewrite forallb_forall in Hr.
  apply Z.eqb_eq. apply Hr. apply nth_In. assumption.
Qed.

Lemma sameshape_refl m : rectb m = true -> sameshape m m.
Proof. now repeat split. Qed.

Lemma set_sameshape b m y x v : sameshape b m -> 0 <= y -> 0 <= x -> sameshape (set b y x v) m.
Proof.
  intros (H0 & H1 & Hr) Hy Hx. rewrite set_nn by assumption.
  assert (Hlen : forall r : list bool, length (upd r (Z.to_nat x) (fun _ => v)) = length r)
    by (intros r; apply length_upd).
  assert (S1 : shape1 (upd b (Z.to_nat y) (fun r => upd r (Z.to_nat x) (fun _ => v))) = shape1 b).
  { unfold shape1. now rewrite hd_upd. }
  repeat split.
  - unfold shape0 in *. now rewrite length_upd.
  - now rewrite S1.
  - unfold rectb. rewrite S1. apply forallb_forall. intros r Hin.
    apply In_nth with (d := []) in Hin. destruct Hin as (k & Hk & Ek). rewrite length_upd in Hk.
    destruct (Nat.eq_dec k (Z.to_nat y)) as [->|Hne].
    + rewrite nth_upd_same in Ek by assumption. subst r. rewrite Hlen. apply Z.eqb_eq. now apply rect_row.
    + rewrite nth_upd_other in Ek by assumption. subst r. apply Z.eqb_eq. now apply rect_row.
Qed.

(* reading after a write, for a write inside the array *)
Lemma get_set b y x v y' x' : rectb b = true -> inarr b y x -> 0 <= y' -> 0 <= x' ->
  get (set b y x v) y' x' = if (y =? y') && (x =? x') then v else get b y' x'.
Proof.
  intros Hr (Hy & Hx) Hy' Hx'. rewrite set_nn by lia. rewrite !get_nn by lia.
  unfold shape0 in Hy.
  destruct (Z.eqb_spec y y') as [->|Hney]; cbn [andb].
  - rewrite nth_upd_same by lia.
    destruct (Z.eqb_spec x x') as [->|Hnex].
    + rewrite nth_upd_same; [reflexivity|]. pose proof (rect_row b (Z.to_nat y') Hr). lia.
    + rewrite nth_upd_other by lia. reflexivity.
  - rewrite nth_upd_other by lia. reflexivity.
Qed.

Lemma full_sameshape m v : sameshape (full (shape0 m) (shape1 m) v) m.
Proof.
  unfold sameshape. destruct m as [|r t]; [cbn; auto|].
  unfold rectb, full, shape0, shape1. cbn [length hd].
  rewrite !Nat2Z.id. cbn [repeat hd length]. rewrite !repeat_length.
  split; [reflexivity|]. split; [reflexivity|].
  apply forallb_forall. intros r' Hin. apply Z.eqb_eq. f_equal.
  destruct Hin as [<-|Hin]; [apply repeat_length|].
  apply repeat_spec in Hin. subst. apply repeat_length.
Qed.

Lemma get_full H W v y x : 0 <= y < H -> 0 <= x < W -> get (full H W v) y x = v.
Proof.
  intros Hy Hx. rewrite get_nn by lia. unfold full.
  assert (E : forall {A} (a d : A) n k, (k < n)%nat -> nth k (repeat a n) d = a).
  { intros A a d n. induction n as [|n IH]; intros [|k] Hk; cbn; try lia; auto. apply IH. lia. }
  rewrite E by lia. rewrite E by lia. reflexivity.
Qed.

Lemma build_sameshape m f : sameshape (build (shape0 m) (shape1 m) f) m.
Proof.
  unfold sameshape. destruct m as [|r t]; [cbn; auto|].
  unfold rectb, build, shape0, shape1. cbn [length hd].
  rewrite (zrange_cons 0 (Z.of_nat (S (length t)))) by lia.
  cbn [map hd length]. rewrite !map_length, !zrange_length.
  split; [lia|]. split; [lia|].
  apply forallb_forall. intros r' Hin. apply Z.eqb_eq.
  destruct Hin as [<-|Hin]; [now rewrite map_length, zrange_length|].
  apply in_map_iff in Hin. destruct Hin as (y & <- & _). now rewrite map_length, zrange_length.
Qed.

Lemma get_build H W f y x : 0 <= y < H -> 0 <= x < W -> get (build H W f) y x = f (y, x).
Proof.
  intros Hy Hx. rewrite get_nn by lia. unfold build.
  rewrite nth_map' with (d' := 0) by (rewrite zrange_length; lia). rewrite nth_zrange by lia.
  rewrite nth_map' with (d' := 0) by (rewrite zrange_length; lia). rewrite nth_zrange by lia.
  f_equal. f_equal; lia.
Qed.

(* two arrays of the same shape with the same entries are equal *)
Lemma mask_ext a b m : sameshape a m -> sameshape b m ->
  (forall y x, inarr m y x -> get a y x = get b y x) -> a = b.
Proof.
  intros (A0 & A1 & Ar) (B0 & B1 & Br) Hget.
  apply nth_ext with (d := []) (d' := []).
  - unfold shape0 in *. lia.
  - intros i Hi.
    assert (Hib : (i < length b)%nat) by (unfold shape0 in *; lia).
    pose proof (rect_row a i Ar Hi) as La. pose proof (rect_row b i Br Hib) as Lb.
    apply nth_ext with (d := true) (d' := true); [lia|].
    intros j Hj.
    specialize (Hget (Z.of_nat i) (Z.of_nat j)).
    rewrite !get_nn in Hget by lia. rewrite !Nat2Z.id in Hget. apply Hget.
    unfold inarr, shape0 in *. lia.
Qed.

(* ------------------------------------------------------------------ scattering False *)
Lemma memp_In q l : memp q l = true <-> In q l.
Proof.
  unfold memp. rewrite existsb_exists. split.
  - intros (p & Hin & E). unfold px_eqb in E. bool_to_prop. destruct E. destruct p, q; cbn in *; subst. assumption.
  - intros Hin. exists q. split; [assumption|]. unfold px_eqb. bool_to_prop. lia.
Qed.

Lemma scatter_false_spec m l : forall b, sameshape b m -> (forall p, In p l -> inarr m (fst p) (snd p)) ->
  sameshape (scatter_false b l) m /\
  forall y x, 0 <= y -> 0 <= x -> get (scatter_false b l) y x = get b y x && negb (memp (y, x) l).
Proof.
  induction l as [|p t IH]; intros b Hs Hin.
  - split; [assumption|]. intros y x _ _. cbn. now rewrite andb_true_r.
  - cbn [scatter_false fold_left].
    assert (Hp : inarr m (fst p) (snd p)) by (apply Hin; now left).
    assert (Hpb : inarr b (fst p) (snd p)) by (destruct Hs as (S0 & S1 & _); unfold inarr in *; lia).
    destruct (IH (set b (fst p) (snd p) false)) as (Hs' & Hg').
    + apply set_sameshape; [assumption| |]; unfold inarr in Hp; lia.
    + intros q Hq. apply Hin. now right.
    + split; [exact Hs'|]. intros y x Hy Hx. unfold scatter_false in Hg'. rewrite Hg' by assumption.
      rewrite get_set by (try apply Hs; auto). cbn [memp existsb]. unfold px_eqb at 1. cbn [fst snd].
      rewrite (Z.eqb_sym y), (Z.eqb_sym x).
      destruct ((fst p =? y) && (snd p =? x)); cbn; [now rewrite andb_false_r|reflexivity].
Qed.

Lemma fold_cond_scatter {T} (c : T -> bool) (tgt : T -> px) (l : list T) : forall b,
  fold_left (fun b t => if c t then set b (fst (tgt t)) (snd (tgt t)) false else b) l b
  = scatter_false b (map tgt (filter c l)).
Proof.
  induction l as [|t l IH]; intros b; [reflexivity|]. cbn [fold_left filter].
  destruct (c t); cbn [map scatter_false fold_left]; apply IH.
Qed.

Lemma fold_left_ext {A B} (f g : A -> B -> A) l : (forall a b, f a b = g a b) -> forall a, fold_left f l a = fold_left g l a.
Proof. intros E. induction l as [|b t IH]; intros a; cbn; [reflexivity|]. now rewrite E, IH. Qed.

Lemma forallb_false_exists {A} (f : A -> bool) l : forallb f l = false -> exists a, In a l /\ f a = false.
Proof.
  induction l as [|a t IH]; cbn; [discriminate|]. destruct (f a) eqn:E; cbn.
  - intros Hf. destruct (IH Hf) as (b & Hb & Eb). exists b. auto.
  - intros _. exists a. auto.
Qed.

(* ------------------------------------------------------------------ blurring *)
Definition blur_guard (m : mask) (t : Z * Z * Z * Z) : bool :=
  let '(y, x, y1, x1) := t in
  (0 <=? x + x1) && (x + x1 <=? shape1 m - 1) && (0 <=? y + y1) && (y + y1 <=? shape0 m - 1).
Definition blur_tgt (t : Z * Z * Z * Z) : px := let '(y, x, y1, x1) := t in (y + y1, x + x1).

Lemma fold_blur_raise m l e : fold_left (blur_step m) l (Raise e) = Raise e.
Proof. induction l as [|[[[y x] y1] x1] t IH]; cbn; auto. Qed.

Lemma fold_blur m l : forall b,
  fold_left (blur_step m) l (Ok b) =
  if forallb (blur_guard m) l
  then Ok (fold_left (fun b t => if getp m (blur_tgt t) then set b (fst (blur_tgt t)) (snd (blur_tgt t)) false else b) l b)
  else Raise MaskException.
Proof.
  induction l as [|[[[y x] y1] x1] t IH]; intros b; [reflexivity|].
  cbn [fold_left blur_step forallb blur_guard blur_tgt fst snd getp].
  destruct ((0 <=? x + x1) && (x + x1 <=? shape1 m - 1) && (0 <=? y + y1) && (y + y1 <=? shape0 m - 1)); cbn [andb].
  - apply IH.
  - apply fold_blur_raise.
Qed.

Lemma blur_iter_In m kh kw y x y1 x1 :
  In (y, x, y1, x1) (blur_iter m kh kw) <->
  In (y, x) (unmasked_pixels m) /\ (- kh + 1) / 2 <= y1 < (kh + 1) / 2 /\ (- kw + 1) / 2 <= x1 < (kw + 1) / 2.
Proof.
  unfold blur_iter. rewrite in_flat_map. split.
  - intros (p & Hp & Hin). destruct (getp m p) eqn:G; [contradiction|].
    apply in_flat_map in Hin. destruct Hin as (y1' & Hy1 & Hin). apply in_map_iff in Hin.
    destruct Hin as (x1' & E & Hx1). inversion E; subst. apply zrange_In in Hy1. apply zrange_In in Hx1.
    split; [|lia]. apply unmasked_In. split; [|now destruct p]. apply scan_In in Hp. now destruct p.
  - intros (Hu & Hy1 & Hx1). apply unmasked_In in Hu. destruct Hu as (Hin & G). exists (y, x). split.
    + now apply scan_In.
    + rewrite G. apply in_flat_map. exists y1. split; [now apply zrange_In|].
      apply in_map_iff. exists x1. split; [reflexivity|now apply zrange_In].
Qed.

Lemma odd_bounds k : odd_pos k = true -> (- k + 1) / 2 = - half k /\ (k + 1) / 2 = half k + 1 /\ 0 <= half k.
Proof.
  unfold odd_pos, half. rewrite andb_true_iff, Z.ltb_lt, Z.odd_spec. intros (Hk & j & ->).
  Z.div_mod_to_equations. lia.
Qed.

Lemma odd_mod2 k : odd_pos k = true -> (k mod 2 =? 0) = false.
Proof.
  unfold odd_pos. rewrite andb_true_iff, Z.odd_spec. intros (_ & j & ->). apply Z.eqb_neq.
  Z.div_mod_to_equations. lia.
Qed.

Lemma even_mod2 k : Z.even k = true -> (k mod 2 =? 0) = true.
Proof. rewrite Z.even_spec. intros (j & ->). apply Z.eqb_eq. Z.div_mod_to_equations. lia. Qed.

Lemma within_iff hy hx p q : within hy hx p q = true <-> Z.abs (fst p - fst q) <= hy /\ Z.abs (snd p - snd q) <= hx.
Proof. unfold within. bool_to_prop. reflexivity. Qed.

Lemma blurring_is_spec m kh kw : rectb m = true -> odd_pos kh = true -> odd_pos kw = true ->
  blurring_mask_2d_from m kh kw = blur_spec m kh kw.
Proof.
  intros Hr Hkh Hkw. unfold blurring_mask_2d_from, blur_spec. cbv zeta. rewrite fold_blur.
  destruct (odd_bounds kh Hkh) as (Ly & Uy & Py). destruct (odd_bounds kw Hkw) as (Lx & Ux & Px).
  set (hy := half kh) in *. set (hx := half kw) in *.
  assert (G : forallb (blur_guard m) (blur_iter m kh kw) = forallb (footprint_inside m hy hx) (unmasked_pixels m)).
  { apply eq_bool_iff. rewrite !forallb_forall. split.
    - intros Hg [y x] Hu.
      pose proof (Hg (y, x, - hy, - hx)) as G1. pose proof (Hg (y, x, hy, hx)) as G2.
      rewrite blur_iter_In in G1, G2. specialize (G1 ltac:(split; [assumption|lia])).
      specialize (G2 ltac:(split; [assumption|lia])).
      unfold blur_guard in G1, G2. unfold footprint_inside. cbn [fst snd]. bool_to_prop. lia.
    - intros Hf [[[y x] y1] x1] Hin. apply blur_iter_In in Hin. destruct Hin as (Hu & Hy1 & Hx1).
      specialize (Hf _ Hu). unfold footprint_inside in Hf. cbn [fst snd] in Hf. unfold blur_guard. bool_to_prop. lia. }
  rewrite G. destruct (forallb (footprint_inside m hy hx) (unmasked_pixels m)) eqn:Hall; [|reflexivity].
  f_equal. clear G.
  rewrite (fold_cond_scatter (fun t => getp m (blur_tgt t)) blur_tgt).
  set (L := map blur_tgt (filter (fun t => getp m (blur_tgt t)) (blur_iter m kh kw))).
  assert (HL : forall q, In q L <-> inarr m (fst q) (snd q) /\ getp m q = true /\
                                   exists p, In p (unmasked_pixels m) /\ within hy hx q p = true).
  { intros q. unfold L. rewrite in_map_iff. split.
    - intros ([[[y x] y1] x1] & E & Hin). apply filter_In in Hin. destruct Hin as (Hin & Hc).
      apply blur_iter_In in Hin. destruct Hin as (Hu & Hy1 & Hx1).
      rewrite forallb_forall in Hall. specialize (Hall _ Hu). unfold footprint_inside in Hall. cbn [fst snd] in Hall.
      cbn [blur_tgt] in E, Hc. subst q. cbn [fst snd]. split; [unfold inarr; bool_to_prop; lia|].
      split; [assumption|]. exists (y, x). split; [assumption|]. apply within_iff. cbn [fst snd]. lia.
    - intros (Hq & Hg & (p & Hu & Hw)). apply within_iff in Hw. destruct p as [py px], q as [qy qx]. cbn [fst snd] in *.
      exists (py, px, qy - py, qx - px). split; [cbn [blur_tgt]; f_equal; lia|].
      apply filter_In. split; [apply blur_iter_In; split; [assumption|lia]|].
      cbn [blur_tgt]. replace (py + (qy - py)) with qy by lia. replace (px + (qx - px)) with qx by lia. assumption. }
  destruct (scatter_false_spec m L (full (shape0 m) (shape1 m) true)) as (Hs & Hg).
  { apply full_sameshape. } { intros q Hq. now apply HL in Hq. }
  apply (mask_ext _ _ m); [exact Hs|apply build_sameshape|].
  intros y x Hin. rewrite Hg by (unfold inarr in Hin; lia). rewrite get_full, get_build by apply Hin.
  cbn [andb]. f_equal. apply eq_bool_iff. rewrite memp_In, HL, andb_true_iff, existsb_exists. cbn [fst snd].
  split; [intros (_ & H1 & H2); auto|intros (H1 & H2); auto].
Qed.

Lemma blurring_from_odd m kh kw : rectb m = true -> odd_pos kh = true -> odd_pos kw = true ->
  blurring_from m kh kw = blur_spec m kh kw.
Proof.
  intros Hr Hkh Hkw. unfold blurring_from. rewrite (odd_mod2 kh Hkh), (odd_mod2 kw Hkw). cbn [orb].
  now apply blurring_is_spec.
Qed.

Lemma blurring_from_even m kh kw : Z.even kh = true \/ Z.even kw = true -> blurring_from m kh kw = Raise MaskException.
Proof.
  intros [E|E]; unfold blurring_from; rewrite (even_mod2 _ E); [reflexivity|now rewrite orb_true_r].
Qed.

(* the specification function, read as the property's text *)
Definition footprint_in (m : mask) (kh kw y x : Z) : Prop :=
  0 <= y - half kh /\ y + half kh < shape0 m /\ 0 <= x - half kw /\ x + half kw < shape1 m.

Lemma footprint_inside_iff m kh kw p :
  footprint_inside m (half kh) (half kw) p = true <-> footprint_in m kh kw (fst p) (snd p).
Proof. unfold footprint_inside, footprint_in. bool_to_prop. lia. Qed.

Lemma blur_spec_ok_iff m kh kw :
  (exists b, blur_spec m kh kw = Ok b) <->
  (forall y x, inarr m y x -> get m y x = false -> footprint_in m kh kw y x).
Proof.
  unfold blur_spec. cbv zeta. split.
  - intros (b & E). destruct (forallb _ _) eqn:F; [|discriminate]. rewrite forallb_forall in F.
    intros y x Hin G. apply (footprint_inside_iff m kh kw (y, x)). apply F. apply unmasked_In. auto.
  - intros Hall. destruct (forallb _ _) eqn:F; [eauto|]. exfalso.
    apply forallb_false_exists in F. destruct F as (p & Hu & Hf). apply unmasked_In in Hu. destruct Hu as (Hin & G).
    apply (Hall _ _ Hin) in G. apply footprint_inside_iff in G. congruence.
Qed.

Lemma blur_spec_raise_iff m kh kw :
  blur_spec m kh kw = Raise MaskException <->
  (exists y x, inarr m y x /\ get m y x = false /\ ~ footprint_in m kh kw y x).
Proof.
  unfold blur_spec. cbv zeta. split.
  - destruct (forallb _ _) eqn:F; [discriminate|]. intros _.
    apply forallb_false_exists in F. destruct F as (p & Hu & Hf). apply unmasked_In in Hu. destruct Hu as (Hin & G).
    exists (fst p), (snd p). split; [assumption|]. split; [assumption|]. rewrite <- footprint_inside_iff. congruence.
  - intros (y & x & Hin & G & Hn). destruct (forallb _ _) eqn:F; [|reflexivity]. exfalso. apply Hn.
    rewrite forallb_forall in F. apply (footprint_inside_iff m kh kw (y, x)). apply F. apply unmasked_In. auto.
Qed.

Lemma blur_spec_total m kh kw : (exists b, blur_spec m kh kw = Ok b) \/ blur_spec m kh kw = Raise MaskException.
Proof. unfold blur_spec. cbv zeta. destruct (forallb _ _); eauto. Qed.

Lemma blur_spec_exact m kh kw b : blur_spec m kh kw = Ok b ->
  sameshape b m /\
  forall y x, inarr m y x ->
    (get b y x = false <->
     get m y x = true /\ exists y' x', inarr m y' x' /\ get m y' x' = false
                                        /\ Z.abs (y - y') <= half kh /\ Z.abs (x - x') <= half kw).
Proof.
  unfold blur_spec. cbv zeta. destruct (forallb _ _); [|discriminate]. intros E. inversion E; subst b. clear E.
  split; [apply build_sameshape|]. intros y x Hin. rewrite get_build by apply Hin.
  rewrite negb_false_iff, andb_true_iff, existsb_exists. unfold getp at 1. cbn [fst snd]. split.
  - intros (G & (p & Hu & Hw)). split; [assumption|]. apply unmasked_In in Hu. apply within_iff in Hw.
    exists (fst p), (snd p). cbn [fst snd] in Hw. tauto.
  - intros (G & (y' & x' & Hin' & G' & Hy & Hx)). split; [assumption|]. exists (y', x'). split.
    + apply unmasked_In. auto.
    + apply within_iff. auto.
Qed.

Lemma blurring_grid_is_spec m kh kw g : rectb m = true -> odd_pos kh = true -> odd_pos kw = true ->
  blurring_grid_from m kh kw g = blur_grid_spec m kh kw g.
Proof.
  intros Hr Hkh Hkw. unfold blurring_grid_from, blur_grid_spec. rewrite blurring_from_odd by assumption.
  destruct (blur_spec m kh kw) as [b|e] eqn:E; [|reflexivity]. f_equal.
  apply blur_spec_exact in E. destruct E as ((S0 & S1 & _) & _).
  unfold grid_2d_slim_via_mask_from, grid_of, unmasked_pixels. now rewrite S0, S1.
Qed.

(* ------------------------------------------------------------------ buffed mask *)
Lemma buffed_iter_In m bf q :
  In q (buffed_iter m bf) <->
  exists p, In p (unmasked_pixels m) /\ fst p - bf <= fst q < fst p + 1 + bf /\ snd p - bf <= snd q < snd p + 1 + bf.
Proof.
  unfold buffed_iter. rewrite in_flat_map. split.
  - intros (p & Hp & Hin). destruct (getp m p) eqn:G; [contradiction|].
    apply in_flat_map in Hin. destruct Hin as (y0 & Hy0 & Hin). apply in_map_iff in Hin.
    destruct Hin as (x0 & E & Hx0). subst q. apply zrange_In in Hy0. apply zrange_In in Hx0.
    exists p. split; [|cbn [fst snd]; lia]. apply unmasked_In. split; [now apply scan_In|assumption].
  - intros (p & Hu & Hy & Hx). apply unmasked_In in Hu. destruct Hu as (Hin & G). exists p. split; [now apply scan_In|].
    rewrite G. apply in_flat_map. exists (fst q). split; [now apply zrange_In|].
    apply in_map_iff. exists (snd q). split; [now destruct q|now apply zrange_In].
Qed.

Lemma buffed_is_spec m bf : rectb m = true -> 0 <= bf -> buffed_mask_2d_from m bf = buffed_spec m bf.
Proof.
  intros Hr Hbf. unfold buffed_mask_2d_from, buffed_spec. cbv zeta.
  rewrite (fold_left_ext _ (fun b t => if inb m t then set b (fst ((fun q : px => q) t)) (snd ((fun q : px => q) t)) false else b)).
  2:{ intros b [y0 x0]. unfold buffed_step, inb. cbn [fst snd].
      replace (y0 <? shape0 m) with (y0 <=? shape0 m - 1) by (apply eq_bool_iff; bool_to_prop; lia).
      replace (x0 <? shape1 m) with (x0 <=? shape1 m - 1) by (apply eq_bool_iff; bool_to_prop; lia).
      destruct (0 <=? y0), (0 <=? x0), (y0 <=? shape0 m - 1), (x0 <=? shape1 m - 1); reflexivity. }
  rewrite (fold_cond_scatter (inb m) (fun q : px => q)). rewrite map_id.
  set (L := filter (inb m) (buffed_iter m bf)).
  destruct (scatter_false_spec m L m) as (Hs & Hg).
  { now apply sameshape_refl. } { intros q Hq. apply filter_In in Hq. now apply inb_iff. }
  apply (mask_ext _ _ m); [exact Hs|apply build_sameshape|].
  intros y x Hin. rewrite Hg by (unfold inarr in Hin; lia). rewrite get_build by apply Hin.
  destruct (existsb (within bf bf (y, x)) (unmasked_pixels m)) eqn:E; cbn [negb].
  - apply existsb_exists in E. destruct E as (p & Hu & Hw). apply within_iff in Hw. cbn [fst snd] in Hw.
    assert (HinL : In (y, x) L).
    { apply filter_In. split; [|now apply inb_iff]. apply buffed_iter_In. exists p. cbn [fst snd]. split; [assumption|lia]. }
    apply memp_In in HinL. rewrite HinL. apply andb_false_r.
  - assert (Hno : forall p, In p (unmasked_pixels m) -> within bf bf (y, x) p = false).
    { intros p Hu. destruct (within bf bf (y, x) p) eqn:W; [|reflexivity].
      assert (existsb (within bf bf (y, x)) (unmasked_pixels m) = true) by (apply existsb_exists; eauto). congruence. }
    apply andb_true_iff. split.
    + destruct (get m y x) eqn:G; [reflexivity|]. exfalso.
      assert (Hu : In (y, x) (unmasked_pixels m)) by (apply unmasked_In; auto).
      apply Hno in Hu. assert (within bf bf (y, x) (y, x) = true) by (apply within_iff; cbn [fst snd]; lia). congruence.
    + apply negb_true_iff. destruct (memp (y, x) L) eqn:M; [|reflexivity]. exfalso.
      apply memp_In in M. apply filter_In in M. destruct M as (M & _). apply buffed_iter_In in M.
      destruct M as (p & Hu & Hy & Hx). cbn [fst snd] in *. apply Hno in Hu.
      assert (within bf bf (y, x) p = true) by (apply within_iff; cbn [fst snd]; lia). congruence.
Qed.

Lemma buffed_spec_exact m bf y x : inarr m y x ->
  (get (buffed_spec m bf) y x = false <->
   exists y' x', inarr m y' x' /\ get m y' x' = false /\ Z.abs (y - y') <= bf /\ Z.abs (x - x') <= bf).
Proof.
  intros Hin. unfold buffed_spec. cbv zeta. rewrite get_build by apply Hin. rewrite negb_false_iff, existsb_exists. split.
  - intros (p & Hu & Hw). apply unmasked_In in Hu. apply within_iff in Hw. exists (fst p), (snd p). cbn [fst snd] in Hw. tauto.
  - intros (y' & x' & Hin' & G & Hy & Hx). exists (y', x'). split; [apply unmasked_In; auto|apply within_iff; auto].
Qed.
