"""C01 -- slim and native forms are exact, order-preserving inverses under any mask."""
import copy
import itertools
import numpy as np
from harness.common import cz, cnat, cbool, clist, ctup, import_aa

ID = "C01"
GEN = []
PROPS = "Props/C01.v"
COQ_CHECK = ("Model.C01", "check")
COQ_FALLBACK = None
COQ_IMPORTS = ""
SHARD = 1000
RULE = ("every boolean mask (2^(H*W), all-masked excluded at class level) of every shape in the exhaustive sub-space, values "
        "1+y*W+x (any reordering / misplaced zero is visible) and signed random integers; util functions and the public classes "
        "Array2D / Grid2D / VectorYX2D / Array1D / Grid1D with input form x store_native, Mask2D.derive_indexes.*; random masks up "
        "to 12x12. Phase 2: HISTORIES -- one object (all five classes, both input forms, both storage modes) followed through "
        "arithmetic (arr + c, c - arr, arr * c, -arr, copy), with_new_array(raw with non-zero masked entries), a new object on "
        "the same Mask2D object, in-place element assignment, .native / .slim chains, reading (slim, native) after every step "
        "and twice; one Mask2D followed through in-place edits mask[y, x] = b / copy() / with_new_array / invert(), re-reading "
        "derive_indexes.native_for_slim / unmasked_slim / masked_slim and Array2D(values, mask).slim / .native after every step; "
        "values scaled by 2**-40 / 2**40 (exact), value streams containing exact zeros; the caller's arrays are re-read after "
        "the calls. Phase 3: sibling util functions (grid / complex / via-indexes / convert_*_to_slim / _to_native / 1-D variants, "
        "Fortran-ordered and negative-stride arrays), Kernel2D, classmethod constructors (no_mask / full / ones / zeros of all six "
        "classes), apply_mask of fresh and derived objects on every pair of masks, the grid argument of a vector field in its own "
        "form, Mask1D histories, several masks in a row inside ONE case (same shape + same count, same bits under another shape, "
        "the first mask again; the same ndarray objects overwritten in place), entry forms: subclass instances, masks built from "
        "masks, anisotropic pixel scales + origin, float32 / bool / non-contiguous arrays; every argument (lists, arrays, "
        "structures, masks, grids) fingerprinted before and after the call; directed masks with a dimension / flat index / slim "
        "index beyond 256. Non-trivial = mask has both masked and unmasked pixels; distinct = distinct JSON input.")
EXHAUSTIVE = {
    "quick": "util level: all masks of all shapes with H*W <= 10; class level: all masks with >=1 unmasked pixel, H*W <= 8, "
             "4 (input form, store_native) modes rotating over Array2D/Grid2D/VectorYX2D; 1-D: all masks of length <= 8; "
             "histories: one object history and one mask history per mask with >=1 unmasked pixel and H*W <= 6, for H*W in {7, 8} one "
             "third of the masks gets an object history and one third a mask history; 1-D: one object history per mask of length <= 8; "
             "phase 3: sibling util functions on all masks with H*W <= 5 (every fourth with H*W = 6); apply_mask on every pair of masks "
             "(>= 1 unmasked pixel each) with H*W <= 3 and every pair of 2x2 masks; Mask1D histories for every mask of length <= 5; "
             "no_mask / full / ones / zeros for every shape up to 3x3",
    "thorough": "util level: H*W <= 14; class level: H*W <= 12; 1-D: length <= 12; histories: two per mask, H*W <= 10 (1-D: length <= 10); "
                "phase 3: sibling util functions H*W <= 7; apply_mask on every pair with H*W <= 4; Mask1D histories length <= 8",
}
TRUSTED = ["hand-written Gallina model coq/Model/C01.v of array_2d_util / grid_2d_util / array_1d_util / mask_2d_util / mask_1d_util "
           "conversion loops, of the .slim / .native accessors (re-construction from the object's current stored array) and of the "
           "history steps (to_new_array arithmetic, with_new_array, element assignment, copy, Mask2D edits), tied to /repo by this "
           "correspondence run (comparison evaluated inside Coq by vm_compute)",
           "numpy element assignment / np.zeros / np.stack semantics (lists of lists in the model)",
           "values are modelled polymorphically: the code performs no arithmetic on them except zeroing the masked entries of a "
           "native input (assignment of 0; inf / NaN at masked entries are part of the input streams)",
           "Python-level relations (py_ok): every reading taken twice, objects re-read at the end of a history, the caller's arrays "
           "compared with copies taken before the call, `.array` of a constructed object = the form it was asked to store, "
           "fingerprints (type, dtype, contents, pixel scales, origin) of every argument before / after the call, .y / .x of a vector "
           "field = the planes of its readings, native_skip_mask of a slim-stored array = .native",
           "the real / imaginary parts of the complex util variants are judged as two real planes; 1-D util results as one-row grids "
           "(theorems C01_1d_*_is_one_row)"]
ASSUMPTIONS = ["values at UNMASKED pixels are finite reals (inf / NaN only at masked entries)",
               "complex CLASS-level inputs and over-sampled variants are not modelled (the complex util functions are covered)",
               "default configuration (general.structures.native_binned_only = false)"]

def shapes_upto(n):
    return [(h, w) for h in range(1, n + 1) for w in range(1, n + 1) if h * w <= n]

def all_masks(h, w):
    for bits in itertools.product([False, True], repeat=h * w):
        yield [list(bits[y * w:(y + 1) * w]) for y in range(h)]

def vals(h, w, k):
    if k == 0: return [[1 + y * w + x for x in range(w)] for y in range(h)]
    if k == 2: return [[(y * w + 2 * x + y) % 3 - 1 for x in range(w)] for y in range(h)]      # exact zeros and ties
    if k == 5: return [[(y * w + x + (y * w + x) // 3) % 2 for x in range(w)] for y in range(h)]   # 0 / 1 (bool-typed inputs)
    if k == 3: return [[(-1) ** (x + y) * ((3 + 2 * x + 7 * y) * 2 ** 30 + 1) for x in range(w)] for y in range(h)]   # > 24 significant bits
    return [[(-1) ** (x + y) * (3 + 2 * x + 7 * y + k) for x in range(w)] for y in range(h)]

SCALES = [0, 0, -40, 40]            # values are multiplied by 2**e (exact in binary floating point) and divided back
KINDS = ["array", "grid", "vector"]
# inf / NaN at MASKED entries of native inputs and of natively stored arrays are part of the streams for all five classes
# (zeroing is by assignment since /repo e8113b3 (arrays) and 6af65c9 (grids, vector fields, 1-D grids)).
FORMS = [0, 0, 0, 1, 2, 3]          # entry form of the mask / of the values: see make_mask / give
MFORMS = [0, 0, 1, 2, 3, 4, 5, 6, 7]
VFORMS = [0, 0, 1, 2, 3, 4, 5, 6, 7]
AFF = ["add", "radd", "sub", "rsub", "mul", "rmul", "neg", "copy", "div", "abs", "astype", "ccopy", "dcopy"]

def unmasked(m): return [(y, x) for y, r in enumerate(m) for x, b in enumerate(r) if not b]
def masked(m): return [(y, x) for y, r in enumerate(m) for x, b in enumerate(r) if b]

def gen_ops(rng, m, sn, two_planes, n_ops=None, nonfinite=True):
    """a random history of an object on mask m (list of rows); tracks which form is stored for the in-place assignments"""
    um, mk = unmasked(m), masked(m)
    is_native = sn
    ops = []
    for _ in range(n_ops or rng.choice([2, 3, 3, 4])):
        c = rng.choice(["aff"] * 7 + ["native"] * 3 + ["slim"] * 2 + ["new"] * 2 + ["build"] * 2 + ["set"] * 4 + ["nf"] * 3)
        if c == "nf" and not nonfinite: c = "aff"
        if c == "nf":
            # steps that put inf / NaN into MASKED entries of a natively stored array (never into an unmasked one)
            kind = rng.choice(["divself", "newnf", "setnf"])
            if kind == "setnf" and not (is_native and mk): kind = "divself"
            if kind == "divself": ops.append(["nf", "divself"])
            elif kind == "newnf": ops.append(["nf", "newnf", rng.randint(0, 9)]); is_native = True
            else:
                y, x = rng.choice(mk); ops.append(["nf", "setnf", y, x, rng.choice(["inf", "-inf", "nan"])])
        elif c == "aff":
            kind = rng.choice(AFF)
            cst = rng.choice([5, 5, -3, 2, 1, 7])
            if kind in ("mul", "rmul"): cst = rng.choice([2, -1, 3, 0])
            if two_planes and kind in ("add", "sub") and rng.random() < 0.4: cst = [cst, rng.choice([-2, 4, 9])]
            ops.append(["aff", kind, cst])
        elif c in ("native", "slim"):
            ops.append([c]); is_native = c == "native"
        elif c == "new":
            ni = rng.random() < 0.6
            ops.append(["new", ni, rng.randint(0, 9)]); is_native = ni
        elif c == "build":
            ni, bsn = rng.random() < 0.5, rng.random() < 0.5
            ops.append(["build", ni, rng.randint(0, 9), bsn]); is_native = bsn
        else:
            if is_native:
                y, x = rng.choice(mk) if (mk and rng.random() < 0.6) else rng.choice(um + mk)
                ops.append(["set", 0, y, x, rng.choice([77, -8, 0, 1]), rng.random() < 0.25])
            else:
                ops.append(["set", rng.randrange(len(um)), 0, 0, rng.choice([77, -8, 0, 1]), rng.random() < 0.25])
    return ops

def gen_mops(rng, m):
    h, w = len(m), len(m[0])
    cur = [list(r) for r in m]
    ops = []
    for _ in range(rng.choice([2, 3, 3, 4])):
        c = rng.choice(["set"] * 6 + ["copy"] * 2 + ["new", "invert"])
        if c == "set":
            y, x = rng.randrange(h), rng.randrange(w)
            b = not cur[y][x] if rng.random() < 0.8 else cur[y][x]
            if b and len(unmasked(cur)) == 1 and not cur[y][x]: b = False          # keep >= 1 unmasked pixel
            cur[y][x] = b; ops.append(["set", y, x, b])
        elif c == "copy":
            ops.append(["copy"])
        elif c == "new":
            new = [[rng.random() < 0.4 for _ in range(w)] for _ in range(h)]
            new[rng.randrange(h)][rng.randrange(w)] = False
            cur = new; ops.append(["new", [list(r) for r in new]])
        else:
            if not masked(cur): continue                                         # invert would mask everything
            cur = [[not b for b in r] for r in cur]; ops.append(["invert"])
    if not ops: ops.append(["copy"])
    return ops

def gen_mops1(rng, r):
    cur = list(r); n = len(r); ops = []
    for _ in range(rng.choice([2, 3, 3, 4])):
        c = rng.choice(["set"] * 6 + ["copy"] * 2 + ["new"])
        if c == "set":
            x = rng.randrange(n)
            b = not cur[x] if rng.random() < 0.8 else cur[x]
            if b and cur.count(False) == 1 and not cur[x]: b = False
            cur[x] = b; ops.append(["set", x, b])
        elif c == "copy": ops.append(["copy"])
        else:
            new = [rng.random() < 0.4 for _ in range(n)]; new[rng.randrange(n)] = False
            cur = new; ops.append(["new", list(new)])
    return ops

def reshaped(m, rng):
    """the same flat bit pattern under another shape (H x W -> W x H / 1 x HW / HW x 1 / another factorisation)"""
    flat = [b for r in m for b in r]; n = len(flat); h = len(m)
    shapes = [(a, n // a) for a in range(1, n + 1) if n % a == 0 and a != h]
    if not shapes: return [list(r) for r in m]
    a, b = rng.choice(shapes)
    return [flat[y * b:(y + 1) * b] for y in range(a)]

def shuffled(m, rng):
    """a different mask of the same shape with the same number of unmasked pixels (when there is one)"""
    flat = [b for r in m for b in r]; w = len(m[0])
    for _ in range(8):
        f2 = flat[:]; rng.shuffle(f2)
        if f2 != flat: break
    return [f2[y * w:(y + 1) * w] for y in range(len(m))]

def rand_mask(rng, h, w, p=None):
    p = rng.choice([0.1, 0.3, 0.5, 0.8]) if p is None else p
    m = [[rng.random() < p for _ in range(w)] for _ in range(h)]
    if all(all(r) for r in m): m[rng.randrange(h)][rng.randrange(w)] = False
    return m

def gen_phase3(tier, rng):
    """pre-emptive hardening streams: sibling util functions, classmethod constructors, apply_mask, sequences of calls inside
    one case, Mask1D histories, directed large masks (an index does not fit 8 bits)"""
    big = tier == "thorough"
    i = 0
    # ---- sibling util functions: every mask with H*W <= 5 and every fourth mask with H*W = 6 [every mask with H*W <= 7]
    for (h, w) in shapes_upto(7 if big else 6):
        for m in all_masks(h, w):
            i += 1
            if big or h * w <= 5 or i % 4 == 0: yield {"op": "util2", "m": m, "k": i % 4}
    for _ in range(300 if big else 25):
        h, w = rng.randint(1, 9), rng.randint(1, 9)
        yield {"op": "util2", "m": rand_mask(rng, h, w), "k": rng.randrange(4)}
    # ---- several masks in a row inside one case: same shape + same count, same bits under another shape, then the first again
    for (h, w) in shapes_upto(12 if big else 8):
        if h * w < 2: continue
        for j in range(8 if big else 3):
            i += 1
            m1 = rand_mask(rng, h, w, rng.choice([0.3, 0.5, 0.6]))
            ms = [m1, shuffled(m1, rng), reshaped(m1, rng), [list(r) for r in m1]]
            if j % 2: ms.insert(2, rand_mask(rng, h, w))
            yield {"op": "utilseq", "ms": ms, "k": i % 4}
            kind = ["array", "grid", "vector", "array"][i % 4]
            items = []
            for t, mm in enumerate(ms):
                it = {"op": kind, "m": mm, "ni": bool((i + (t if j % 3 == 0 else 0)) & 1), "sn": bool((i >> 1) & 1), "k": (i + t) % 4,
                      "mt": [0, 1, 0, 7][(i // 4) % 4], "vt": [0, 0, 1, 5][(i // 8) % 4]}
                if kind == "array" and i % 8 == 3: it["cls"] = "kernel"
                items.append(it)
            yield {"op": "seq", "items": items}
    for n in range(2, (10 if big else 7)):
        for j in range(6 if big else 3):
            i += 1
            r1 = rand_mask(rng, 1, n, 0.5)[0]; r2 = shuffled([r1], rng)[0]
            yield {"op": "seq", "items": [{"op": ["array1d", "grid1d"][i % 2], "r": r, "ni": bool(i & 2), "sn": bool(i & 4), "mt": (i // 8) % 8, "vt": 0}
                                          for r in (r1, r2, rand_mask(rng, 1, n)[0], r1)]}
    # ---- classmethod constructors (all-false mask): no_mask / full / ones / zeros
    shp = [(h, w) for h in range(1, 4) for w in range(1, 4)] + [(1, 5), (5, 1), (2, 4), (4, 2)] + ([(3, 5), (5, 3), (1, 9), (7, 2)] if big else [])
    for (h, w) in shp:
        for cls in ("array", "kernel", "grid", "vector"):
            for ni in (True, False):
                i += 1
                yield {"op": "nomask", "cls": cls, "h": h, "w": w, "ni": ni, "k": i % 4, "vt": [0, 1, 5, 4, 2][i % 5], "omit": bool(i % 3),
                       "ps": [1.0, [0.5, 2.0]][i % 2], "org": [[0.0, 0.0], [0.3, -0.7]][(i // 2) % 2]}
        for which in ("full", "ones", "zeros"):
            i += 1
            c = {"full": [3, -2, 0][i % 3], "ones": 1, "zeros": 0}[which]
            yield {"op": "nomask", "cls": "full", "which": which, "c": c, "h": h, "w": w, "ni": True, "k": i % 2, "ps": [1.0, [0.5, 2.0]][i % 2]}
            yield {"op": "nomask", "cls": "vfull", "which": which, "c": c, "h": h, "w": w, "ni": True, "ps": [[0.5, 2.0], 1.0][i % 2]}
    for w in range(1, 7):
        for cls in ("array1d", "grid1d"):
            i += 1
            yield {"op": "nomask", "cls": cls, "h": 1, "w": w, "ni": True, "k": i % 4, "vt": [0, 1, 5, 2][i % 4]}
        for which in ("full", "ones", "zeros"):
            yield {"op": "nomask", "cls": "array1d", "which": which, "c": 4, "h": 1, "w": w, "ni": True}
    # ---- apply_mask: every pair of masks (>= 1 unmasked pixel each) with H*W <= 3, every pair of 2x2 masks [H*W <= 4 / 6]
    def pairs():
        for (h, w) in shapes_upto(6 if big else 4):
            ms = [m for m in all_masks(h, w) if not all(all(r) for r in m)]
            full = h * w <= (4 if big else 3) or (h, w) == (2, 2)
            for a in ms:
                for b in (ms if full else rng.sample(ms, 3)):
                    yield a, b
        for _ in range(800 if big else 120):
            h, w = rng.randint(2, 7), rng.randint(2, 7)
            yield rand_mask(rng, h, w), rand_mask(rng, h, w)
    for a, b in pairs():
        i += 1
        yield {"op": "apply", "cls": ["array", "vector", "array", "kernel"][i % 4], "m": a, "m2": b, "ni": bool((i >> 2) & 1), "sn": bool((i >> 3) & 1),
               "k": (i >> 4) % 4, "e": SCALES[(i >> 6) % 4], "nf": (i // 5) % 3 == 0, "mt": MFORMS[i % 9], "mt2": MFORMS[(i // 9) % 9], "pre": [0, 5, -3][i % 3]}
    # ---- Mask1D histories: every mask of length <= 6 [9]
    for n in range(1, (9 if big else 6)):
        for bits in itertools.product([False, True], repeat=n):
            if all(bits): continue
            yield {"op": "maskhist1", "r": list(bits), "ops": gen_mops1(rng, list(bits))}
    # ---- directed: a dimension / a flat index / a slim index beyond 255 and 256 (an index stored in 8 bits wraps), sparse and
    #      dense, last pixel unmasked; 1-D as well
    bigshapes = [(1, 262), (259, 1), (17, 16)] + ([(2, 135), (129, 2), (1, 1030), (260, 3), (33, 32)] if big else [])
    for (h, w) in bigshapes:
        for dens in ((0.97, 0.02) if big else (0.9,)):
            i += 1
            m = [[rng.random() < dens for _ in range(w)] for _ in range(h)]
            m[h - 1][w - 1] = False; m[0][0] = bool(i & 1); m[h // 2][w // 2] = False
            yield {"op": "util", "m": m, "k": i % 4}
            yield {"op": ["array", "grid", "vector"][i % 3], "m": m, "ni": bool(i & 2), "sn": bool(i & 4), "k": 0, "mt": 0, "vt": 0}
            if h == 1:
                yield {"op": "array1d", "r": m[0], "ni": bool(i & 1), "sn": bool(i & 2), "mt": 0, "vt": 0}
                yield {"op": "grid1d", "r": m[0], "ni": not bool(i & 1), "sn": bool(i & 2), "mt": 0, "vt": 0}

def gen_inputs(tier, rng):
    yield from gen_base(tier, rng)
    yield from gen_phase3(tier, __import__("random").Random(rng.random()))

def gen_base(tier, rng):
    big = tier == "thorough"
    nu, nc, n1, nh = (14, 12, 12, 10) if big else (10, 8, 8, 8)
    i = 0
    for (h, w) in shapes_upto(nu):
        for m in all_masks(h, w):
            i += 1
            yield {"op": "util", "m": m, "k": i % 4}
    for (h, w) in shapes_upto(nc):
        for m in all_masks(h, w):
            if all(all(r) for r in m): continue
            i += 1
            yield {"op": KINDS[i % 3], "m": m, "ni": bool(i & 1), "sn": bool(i & 2), "k": (i >> 2) % 4, "e": SCALES[(i >> 4) % 4],
                   "mt": (i // 3) % 4, "vt": (i // 5) % 4, "nf": (i // 7) % 3 == 0}
            if big or i % 5 == 0:
                yield {"op": "array", "m": m, "ni": not bool(i & 1), "sn": not bool(i & 2), "k": 1}
            if i % 3 == 0:
                # phase 3: further entry forms (subclass instances, masks built from masks, anisotropic pixel scales + origin,
                # non-contiguous / float32 / bool arrays), Kernel2D, the vector field's grid in its own form
                j = i // 3
                yield {"op": KINDS[j % 3], "m": m, "ni": bool(j & 1), "sn": bool(j & 2), "k": [5, 0, 1, 5, 2, 3][j % 6], "e": SCALES[(j >> 3) % 4],
                       "mt": 4 + (j // 3) % 4, "vt": 4 + (j // 5) % 4, "nf": (j // 7) % 3 == 0, "gn": bool((j // 3) & 1), "gt": (j // 6) % 4,
                       "cls": "kernel" if j % 2 else "array"}
    for n in range(1, n1 + 1):
        for bits in itertools.product([False, True], repeat=n):
            if all(bits): continue
            i += 1
            yield {"op": "array1d" if i % 3 else "grid1d", "r": list(bits), "ni": bool(i & 1), "sn": bool(i & 2), "e": SCALES[(i >> 2) % 4],
                   "mt": (i // 3) % 4, "vt": (i // 5) % 4, "nf": (i // 7) % 3 == 0}
            yield {"op": "array1d", "r": list(bits), "ni": not bool(i & 1), "sn": bool(i & 4)}
            if i % 3 == 0:
                j = i // 3
                yield {"op": "array1d" if j % 2 else "grid1d", "r": list(bits), "ni": bool(j & 1), "sn": bool(j & 2), "k": [5, 0][j % 2],
                       "e": SCALES[(j >> 3) % 4], "mt": 4 + (j // 3) % 4, "vt": 4 + (j // 5) % 4, "nf": (j // 7) % 3 == 0}
    # ---- histories (phase 2): quick = every mask with H*W <= 6 gets an object history AND a mask history, of the masks with
    #      H*W in {7, 8} one third gets an object history and one third a mask history; thorough = two of each for every
    #      mask with H*W <= 10
    hk = ["array", "grid", "array", "vector", "kernel"]
    for (h, w) in shapes_upto(nh):
        for m in all_masks(h, w):
            if all(all(r) for r in m): continue
            for _ in range(2 if big else 1):
                i += 1
                both = big or h * w <= 6
                if both or i % 3 == 0:
                    cls = rng.choice(hk); sn = rng.random() < 0.6
                    yield {"op": "hist", "cls": cls, "m": m, "ni": rng.random() < 0.5, "sn": sn, "k": rng.randrange(4), "e": rng.choice(SCALES),
                           "mt": rng.choice(MFORMS), "vt": rng.choice(VFORMS), "ops": gen_ops(rng, m, sn, cls in ("grid", "vector"))}
                if both or i % 3 == 1:
                    yield {"op": "maskhist", "m": m, "ops": gen_mops(rng, m), "all_classes": False}
    for n in range(1, nh + 1):
        for bits in itertools.product([False, True], repeat=n):
            if all(bits): continue
            i += 1
            sn = rng.random() < 0.6; c1 = "array1d" if i % 3 else "grid1d"
            yield {"op": "hist", "cls": c1, "m": [list(bits)], "ni": rng.random() < 0.5, "sn": sn,
                   "k": rng.randrange(4), "e": rng.choice(SCALES), "mt": rng.choice(MFORMS), "vt": rng.choice(VFORMS),
                   "ops": gen_ops(rng, [list(bits)], sn, False)}
    for _ in range(1500 if big else 120):
        h, w = rng.randint(3, 12), rng.randint(3, 12)
        p = rng.choice([0.1, 0.3, 0.5, 0.8])
        m = [[rng.random() < p for _ in range(w)] for _ in range(h)]
        if all(all(r) for r in m): m[rng.randrange(h)][rng.randrange(w)] = False
        yield {"op": "util", "m": m, "k": 1}
        yield {"op": rng.choice(KINDS), "m": m, "ni": rng.random() < 0.5, "sn": rng.random() < 0.5, "k": rng.randint(0, 3),
               "e": rng.choice(SCALES), "mt": rng.choice(MFORMS), "vt": rng.choice(VFORMS)}
        if not big and _ % 3: continue
        sn = rng.random() < 0.6; cls = rng.choice(hk)
        yield {"op": "hist", "cls": cls, "m": m, "ni": rng.random() < 0.5, "sn": sn, "k": rng.randint(0, 3), "e": rng.choice(SCALES),
               "mt": rng.choice(MFORMS), "vt": rng.choice(VFORMS), "ops": gen_ops(rng, m, sn, cls in ("grid", "vector"))}
        yield {"op": "maskhist", "m": m, "ops": gen_mops(rng, m), "all_classes": False}

def cmask(m): return clist([clist([cbool(b) for b in r]) for r in m])
def cgrid(g): return clist([clist([cz(v) for v in r]) for r in g])
def cvec(v): return clist([cz(x) for x in v])
def ints(a): return [int(round(float(x))) for x in np.asarray(a).ravel()]
def ints2(a): return [[int(round(float(x))) for x in r] for r in np.asarray(a)]

def exact(a):
    a = np.asarray(a, dtype=float)
    if not np.all(np.isfinite(a)): raise AssertionError("inf / NaN in a form read from the implementation (masked entries must read 0)")
    if not np.all(a == np.round(a)): raise AssertionError("non-integer value in implementation output")

def descale(a, sc):
    """the implementation's values divided by the power-of-two scale (exact); must be integers"""
    a = np.array(a, dtype=float) / sc
    exact(a)
    return a

class Checks:
    """relations that only Python can see (the same object read twice, the caller's arrays after the call)"""
    def __init__(self): self.bad = []
    def same(self, what, a, b):
        a, b = np.asarray(a), np.asarray(b)
        if a.shape != b.shape or not np.array_equal(a, b, equal_nan=a.dtype.kind == "f" and b.dtype.kind == "f"): self.bad.append(what)
    def result(self, r):
        if self.bad:
            r["py_ok"] = False; r["detail"] = "; ".join(self.bad[:6])
        return r


_SUB = {}
def subclass(aa, name):
    """a user-defined subclass of an accepted class (dispatch has to go through isinstance / duck typing, not `type(x) is C`)"""
    if name not in _SUB: _SUB[name] = type("Sub" + name, (getattr(aa, name),), {})
    return _SUB[name]

def strided(a):
    """the same contents in a non-contiguous memory layout: 1-D = every second entry of a longer buffer, otherwise a
    negative-stride view of a Fortran-ordered copy (anything that reads the raw buffer / ravels in memory order differs)"""
    a = np.asarray(a)
    if a.ndim == 1:
        big = np.zeros(2 * a.shape[0] + 1, dtype=a.dtype); big[1::2] = a
        return big[1::2]
    if a.ndim >= 2 and a.shape[0] > 1 and a.shape[1] > 1 and a.shape[0] % 2: return np.asfortranarray(a)      # Fortran-contiguous
    return np.asfortranarray(a[::-1])[::-1]

def make_mask(aa, ma, mt, one_d=False):
    """the same mask through different entry forms: ndarray / python list / invert=True of the complement / 0-1 integers /
    an instance of a user-defined subclass / built from an existing mask object / anisotropic pixel scales and a shifted
    origin (nothing in C01 may depend on them) / a non-contiguous array"""
    M = aa.Mask1D if one_d else aa.Mask2D
    if mt == 1: return M(mask=ma.tolist(), pixel_scales=1.0)
    if mt == 2: return M(mask=np.invert(ma), pixel_scales=1.0, invert=True)
    if mt == 3: return M(mask=ma.astype(int), pixel_scales=1.0)
    if mt == 4: return subclass(aa, "Mask1D" if one_d else "Mask2D")(mask=ma, pixel_scales=1.0)
    if mt == 5: return M(mask=(M if ma.sum() % 2 else subclass(aa, "Mask1D" if one_d else "Mask2D"))(mask=ma, pixel_scales=2.0), pixel_scales=1.0)
    if mt == 6: return M(mask=ma, pixel_scales=0.25, origin=(1.5,)) if one_d else M(mask=ma, pixel_scales=(0.5, 2.0), origin=(0.3, -0.7))
    if mt == 7: return M(mask=strided(ma), pixel_scales=1.0)
    return M(mask=ma, pixel_scales=1.0)

def snap(x):
    """snapshot of an argument handed to the implementation (list / ndarray / structure), compared after the call"""
    if isinstance(x, list): return ("list", copy.deepcopy(x))
    if isinstance(x, np.ndarray): return ("ndarray:" + x.dtype.str, x.copy())
    if hasattr(x, "_array"):
        try: extra = repr((x.pixel_scales, x.origin))
        except Exception: extra = None
        return (type(x).__name__, np.array(x._array).copy(), extra)
    return ("other", repr(x))

def unchanged(chk, what, x, before):
    now = snap(x)
    ok = now[0] == before[0]
    if ok and now[0] != "other":
        a, b = np.asarray(now[1]), np.asarray(before[1])
        ok = a.shape == b.shape and a.dtype == b.dtype and np.array_equal(a, b, equal_nan=a.dtype.kind in "fc")
        if ok and len(now) > 2: ok = now[2] == before[2]
    elif ok: ok = now[1] == before[1]
    if not ok: chk.bad.append(what + " was modified by the call")

def give(values, vt, exact_scale, build_other, build_sub=None):
    """the same values through different entry forms: float ndarray / python list / integer ndarray / an existing
    structure of the other storage mode on the same mask / float32 ndarray (when exact) / non-contiguous ndarray /
    an instance of a user-defined subclass of the class / bool ndarray (when the values are 0 and 1)"""
    if vt == 1: return values.tolist()
    if vt == 2 and exact_scale: return values.astype(int)
    if vt == 3: return build_other(values)
    if vt == 4:
        f32 = values.astype(np.float32)
        if np.array_equal(f32.astype(float), values, equal_nan=True): return f32
    if vt == 5: return strided(values)
    if vt == 6 and build_sub is not None: return build_sub(values)
    if vt == 7 and exact_scale and np.all((values == 0) | (values == 1)): return values.astype(bool)
    return values

def poison(values, ma):
    """inf / NaN at the masked entries of a native input (float): the forms read from the object must not depend on them"""
    bad = [np.inf, np.nan, -np.inf]
    for j, idx in enumerate(zip(*np.nonzero(ma))): values[idx] = bad[j % 3]
    return values

def stored_ok(chk, obj, sn, slim_read, native_read, what):
    """`.array` of a freshly constructed object is the form it was asked to store"""
    a = np.asarray(obj.array)
    ref = np.asarray(native_read if sn else slim_read)
    if a.shape != ref.shape or not np.array_equal(a, ref): chk.bad.append(what + ": .array is not the stored " + ("native" if sn else "slim") + " form")

# ----------------------------------------------------------------------------- histories of one object
def raw_native(h, w, t, plane): return [[(-1) ** (x + y + plane) * (11 + 3 * x + 5 * y + t + 20 * plane) for x in range(w)] for y in range(h)]
def raw_slim(n, t, plane): return [200 + 7 * k + t + 50 * plane for k in range(n)]

def run_hist(aa, inp):
    cls = inp["cls"]; m = inp["m"]; h, w = len(m), len(m[0]); k = inp.get("k", 0); sc = 2.0 ** inp.get("e", 0)
    one_d = cls in ("array1d", "grid1d"); planes = 2 if cls in ("grid", "vector") else 1
    ma = np.array(m, dtype=bool); ma0 = ma.copy()
    um = unmasked(m); cnt = len(um)
    chk = Checks()
    mt, vt = inp.get("mt", 0), inp.get("vt", 0)
    m1 = ma[0].copy() if one_d else None
    mask = make_mask(aa, m1 if one_d else ma, mt, one_d)
    cname = {"array": "Array2D", "grid": "Grid2D", "vector": "VectorYX2D", "array1d": "Array1D", "grid1d": "Grid1D", "kernel": "Kernel2D"}[cls]
    C = getattr(aa, cname)
    vgrid = None
    if cls == "vector": vgrid = aa.Grid2D.from_mask(mask=mask)
    mask_before = snap(mask)

    def as_values(ni, nat_planes, slim_planes):
        """the array handed to the implementation: native [h, w(, 2)] or slim [n(, 2)], scaled"""
        src = nat_planes if ni else slim_planes
        a = [np.array(p, dtype=float) * sc for p in src]
        if one_d: return a[0][0] if ni else a[0]
        return np.stack(a, axis=-1) if planes == 2 else a[0]
    def build(values, sn, native_grid=None, K=None):
        K = K or C
        if cls == "vector":
            if native_grid is None: native_grid = np.ndim(values) == 3
            return K(values=values, grid=vgrid.native if native_grid else vgrid, mask=mask, store_native=sn)
        return K(values=values, mask=mask, store_native=sn)
    def read(obj, stored=None):
        s1, n1 = np.array(obj.slim), np.array(obj.native)
        s2, n2 = np.array(obj.slim), np.array(obj.native)           # the same object read twice
        if stored is not None: stored_ok(chk, obj, stored, s1, n1, "after construction")
        chk.same("second read of .slim differs", s1, s2); chk.same("second read of .native differs", n1, n2)
        s, n = descale(s1, sc), descale(n1, sc)
        if one_d:
            if s.shape != (cnt,) or n.shape != (w,): raise AssertionError(f"shape of 1-D forms {s.shape} {n.shape}")
            return [(ints(s), [ints(n)])]
        if planes == 1:
            if s.shape != (cnt,) or n.shape != (h, w): raise AssertionError(f"shape of forms {s.shape} {n.shape}")
            return [(ints(s), ints2(n))]
        if s.shape != (cnt, 2) or n.shape != (h, w, 2): raise AssertionError(f"shape of forms {s.shape} {n.shape}")
        return [(ints(s[:, q]), ints2(n[:, :, q])) for q in range(planes)]

    nat0 = [vals(h, w, k)] + ([[[7 - v for v in r] for r in vals(h, w, k)]] if planes == 2 else [])
    slim0 = [[nat0[q][y][x] + 1000 for (y, x) in um] for q in range(planes)]
    ni, sn = inp["ni"], inp["sn"]
    values = as_values(ni, nat0, slim0); values0 = values.copy()
    # the caller's array itself, not a copy (or a list / an integer array / a structure of the other storage mode)
    given = give(values, vt, inp.get("e", 0) == 0, lambda v: build(v, not sn), lambda v: build(v, sn, K=subclass(aa, cname)))
    given_before = snap(given)
    obj = build(given, sn, native_grid=ni)
    unchanged(chk, "the values argument (" + given_before[0] + ")", given, given_before)
    is_native = sn
    outs = [read(obj, stored=sn)]
    zops = [[] for _ in range(planes)]
    older = [(obj, outs[-1])]                                          # objects that no later step edits in place
    edited = False
    def caller_arrays():
        # constructors, accessors and arithmetic leave the caller's array alone (a slim 1-D input is stored as it is, so
        # the user's own in-place assignments may show through it: checked only up to the first assignment)
        chk.same("the caller's values array was modified", values, values0)
    for op in inp["ops"]:
        if op[0] == "aff":
            kind, c = op[1], op[2]
            cs = c if isinstance(c, list) else [c] * planes
            cv = (np.array(cs, dtype=float) if isinstance(c, list) else float(c))
            if kind == "add": new = obj + cv * sc; ab = [(1, x) for x in cs]
            elif kind == "radd": new = float(c) * sc + obj; ab = [(1, x) for x in cs]
            elif kind == "sub": new = obj - cv * sc; ab = [(1, -x) for x in cs]
            elif kind == "rsub": new = float(c) * sc - obj; ab = [(-1, x) for x in cs]
            elif kind == "mul": new = obj * float(c); ab = [(c, 0)] * planes
            elif kind == "rmul": new = float(c) * obj; ab = [(c, 0)] * planes
            elif kind == "neg": new = -obj; ab = [(-1, 0)] * planes
            elif kind == "div":
                a = c if c in (2, -1, 1) else 4
                new = obj / (1.0 / a); ab = [(a, 0)] * planes
            elif kind == "abs": new = abs(obj); ab = None
            elif kind == "astype": new = obj.astype(float); ab = [(1, 0)] * planes
            elif kind == "ccopy": new = copy.copy(obj); ab = [(1, 0)] * planes
            elif kind == "dcopy": new = copy.deepcopy(obj); ab = [(1, 0)] * planes
            else: new = obj.copy(); ab = [(1, 0)] * planes
            if type(new) is not type(obj): raise AssertionError(f"{kind} returned a {type(new).__name__}")
            obj = new
            for q in range(planes): zops[q].append("ZAbs" if ab is None else f"(ZAff {cz(ab[q][0])} {cz(ab[q][1])})")
        elif op[0] == "nf" and op[1] == "divself":
            # arr / arr: 1 at every unmasked pixel, 0/0 = NaN at the (zero) masked pixels of a natively stored array;
            # only when no unmasked value is zero, else a plain copy
            if all(v != 0 for o in outs[-1] for v in o[0]):
                with np.errstate(all="ignore"): obj = (obj / obj) * sc
                ab = (0, 1)
            else: obj = obj.copy(); ab = (1, 0)
            for q in range(planes): zops[q].append(f"(ZAff {cz(ab[0])} {cz(ab[1])})")
        elif op[0] == "nf" and op[1] == "newnf":
            t = op[2]
            rn = [raw_native(h, w, t, q) for q in range(planes)]; rs = [raw_slim(cnt, t, q) for q in range(planes)]
            raw = as_values(True, rn, rs)
            bad = [np.inf, np.nan, -np.inf]
            for j, (y, x) in enumerate(masked(m)):
                if one_d: raw[x] = bad[j % 3]
                else: raw[y, x] = bad[j % 3]
            obj = obj.with_new_array(raw); is_native = True
            # the masked entries of the raw array are printed as finite placeholders: the model's readings do not depend on them
            for q in range(planes): zops[q].append(f"(ZNew true {cgrid(rn[q])} {cvec(rs[q])})")
        elif op[0] == "nf" and op[1] == "setnf":
            _, _, y, x, v = op
            older = []
            if not edited: caller_arrays()
            edited = True
            fv = float(v) if np.asarray(obj.array).dtype.kind == "f" else 12345      # an integer array cannot hold inf
            if one_d: obj[x] = fv
            else: obj[y, x] = fv
            for q in range(planes): zops[q].append(f"(ZSet 0%nat {cnat(y)} {cnat(x)} 0)")
        elif op[0] in ("native", "slim"):
            obj = obj.native if op[0] == "native" else obj.slim
            is_native = op[0] == "native"
            for q in range(planes): zops[q].append("ZNative" if is_native else "ZSlim")
        elif op[0] in ("new", "build"):
            rni, t = op[1], op[2]
            rn = [raw_native(h, w, t, q) for q in range(planes)]; rs = [raw_slim(cnt, t, q) for q in range(planes)]
            raw = as_values(rni, rn, rs)
            if op[0] == "new":
                obj = obj.with_new_array(raw); is_native = rni
                for q in range(planes): zops[q].append(f"(ZNew {cbool(rni)} {cgrid(rn[q])} {cvec(rs[q])})")
            else:
                raw0 = raw.copy()
                if cls == "vector":
                    obj = C(values=raw, grid=vgrid.native if rni else vgrid, mask=obj.mask, store_native=op[3])
                else:
                    obj = C(values=raw, mask=obj.mask, store_native=op[3])     # the SAME mask object, different values
                chk.same("constructor changed the caller's values array", raw, raw0)
                is_native = op[3]
                for q in range(planes): zops[q].append(f"(ZBuild {cbool(rni)} {cgrid(rn[q])} {cvec(rs[q])} {cbool(op[3])})")
        elif op[0] == "set":
            ks, y, x, v = op[1:5]
            vs = [v, v + 3][:planes]
            val = float(v) * sc if planes == 1 else [float(u) * sc for u in vs]
            # everything read so far from other objects must not be re-read after an in-place edit (aliasing is not C01's business)
            older = []
            if not edited: caller_arrays()
            edited = True
            if planes == 1 and len(op) > 5 and op[5]:
                # obj[key] = v with a boolean key array holding one True (AbstractNDArray.__setitem__ goes through where(...))
                key = np.zeros(np.asarray(obj.array).shape, dtype=bool)
                if not is_native: key[ks] = True
                elif one_d: key[x] = True
                else: key[y, x] = True
                obj[key] = val
            elif is_native:
                if one_d: obj[x] = val
                else: obj[y, x] = val
            else: obj[ks] = val
            for q in range(planes): zops[q].append(f"(ZSet {cnat(ks)} {cnat(y)} {cnat(x)} {cz(vs[q])})")
        else: raise ValueError(op)
        with np.errstate(all="ignore"):
            outs.append(read(obj, stored=is_native if op[0] in ("native", "slim", "build") else None))
        older.append((obj, outs[-1]))
    # objects created along the way, read again at the end
    for j, (o, exp) in enumerate(older):
        again = read(o)
        if again != exp: chk.bad.append(f"object {j} of the history reads differently at the end")
    if not edited: caller_arrays()
    chk.same("the caller's mask array was modified", ma, ma0)
    chk.same("the Mask object was modified", np.array(mask), ma0[0] if one_d else ma0)
    unchanged(chk, "the Mask object", mask, mask_before)
    if one_d: chk.same("the caller's mask array was modified", m1, ma0[0])
    cases = []
    for q in range(planes):
        co = clist(["(" + cvec(o[q][0]) + ", " + (cvec(o[q][1][0]) if one_d else cgrid(o[q][1])) + ")" for o in outs])
        if one_d:
            cases.append(f"(KHist1 {clist([cbool(b) for b in m[0]])} {cbool(ni)} {cbool(sn)} {cvec(nat0[q][0])} {cvec(slim0[q])} "
                         f"{clist(zops[q])} {co})")
        else:
            cases.append(f"(KHist {cmask(m)} {cbool(ni)} {cbool(sn)} {cgrid(nat0[q])} {cvec(slim0[q])} {clist(zops[q])} {co})")
    return chk.result({"coq": cases[0], "extra_coq": cases[1:], "out": outs, "kind": "hist:" + cls,
                       "nontrivial": bool(ma.any() and not ma.all())})

# ----------------------------------------------------------------------------- histories of one Mask2D
def run_maskhist(aa, inp):
    m = inp["m"]; h, w = len(m), len(m[0])
    ma = np.array(m, dtype=bool); ma0 = ma.copy()
    native = vals(h, w, 0)
    nv = np.array(native, dtype=float)
    chk = Checks()
    mask = aa.Mask2D(mask=ma, pixel_scales=1.0)
    cur = [list(r) for r in m]                                       # what the mask holds now, tracked by the harness
    def read(mk):
        di = mk.derive_indexes
        nfs = np.asarray(di.native_for_slim).reshape(-1, 2)
        u, k_ = di.unmasked_slim, di.masked_slim
        chk.same("second read of native_for_slim differs", nfs, np.asarray(mk.derive_indexes.native_for_slim).reshape(-1, 2))
        cnt = len(unmasked(cur))
        a1 = aa.Array2D(values=nv, mask=mk)
        a2 = aa.Array2D(values=np.arange(1000.0, 1000.0 + cnt), mask=mk)
        s1, n2 = np.array(a1.slim), np.array(a2.native)
        exact(s1); exact(n2)
        # the other classes (and the other storage mode) built on the SAME, possibly edited, mask object: one per reading, rotating
        nread[0] += 1
        if nread[0] % 2 == 0 and not inp.get("all_classes"):             # every other reading (quick tier), every reading (thorough)
            if mk.pixels_in_mask != cnt: chk.bad.append("pixels_in_mask of the edited Mask2D")
            return ([[int(a), int(b)] for a, b in nfs], ints(u), ints(k_), ints(s1), ints2(n2))
        j = len(extra); ni = bool((j // 4) % 2); sn = bool((j // 8) % 2) or j % 4 == 0
        sl = slim_of(native, cur); sx = [7 - v for v in sl]; nx = [[7 - v for v in r] for r in native]
        if j % 4 in (0, 3):
            C = aa.Array2D if j % 4 == 0 else aa.Kernel2D
            o = C(values=np.array(native if ni else sl, dtype=float), mask=mk, store_native=sn)
            os_, on_ = np.array(o.slim), np.array(o.native)
            if os_.shape != (cnt,) or on_.shape != (h, w): raise AssertionError(f"shape of forms {os_.shape} {on_.shape}")
            exact(os_); exact(on_)
            extra.append(f"(KArray {cmask(cur)} {cbool(ni)} {cbool(sn)} {cgrid(native)} {cvec(sl)} {cvec(ints(os_))} {cgrid(ints2(on_))})")
        else:
            v = (np.stack([nv, np.array(nx, dtype=float)], axis=-1) if ni
                 else np.stack([np.array(sl, dtype=float), np.array(sx, dtype=float)], axis=-1).reshape(-1, 2))
            if j % 4 == 1: o = aa.Grid2D(values=v, mask=mk, store_native=sn)
            else: o = aa.VectorYX2D(values=v, grid=v.copy(), mask=mk, store_native=sn)
            os_, on_ = np.array(o.slim), np.array(o.native)
            if os_.shape != (cnt, 2) or on_.shape != (h, w, 2): raise AssertionError(f"shape of forms {os_.shape} {on_.shape}")
            exact(os_); exact(on_)
            extra.append(f"(KGrid {cmask(cur)} {cbool(ni)} {cbool(sn)} {cgrid(native)} {cgrid(nx)} {cvec(sl)} {cvec(sx)} "
                         f"{cvec(ints(os_[:, 0]))} {cvec(ints(os_[:, 1]))} {cgrid(ints2(on_[:, :, 0]))} {cgrid(ints2(on_[:, :, 1]))})")
        if mk.pixels_in_mask != cnt: chk.bad.append("pixels_in_mask of the edited Mask2D")
        return ([[int(a), int(b)] for a, b in nfs], ints(u), ints(k_), ints(s1), ints2(n2))
    extra = []; nread = [0]
    outs = [read(mask)]
    left = []                                                        # masks left behind by copy / new / invert: must keep their state
    cops = []
    for op in inp["ops"]:
        if op[0] == "set":
            _, y, x, b = op
            mask[y, x] = b; cur[y][x] = b
            cops.append(f"(MSet {cnat(y)} {cnat(x)} {cbool(b)})")
        elif op[0] == "copy":
            left.append((mask, outs[-1], [list(r) for r in cur])); mask = mask.copy(); cops.append("MCopy")
        elif op[0] == "new":
            left.append((mask, outs[-1], [list(r) for r in cur]))
            mask = mask.with_new_array(np.array(op[1], dtype=bool)); cur = [list(r) for r in op[1]]
            cops.append(f"(MNew {cmask(op[1])})")
        elif op[0] == "invert":
            left.append((mask, outs[-1], [list(r) for r in cur]))
            mask = mask.invert(); cur = [[not b for b in r] for r in cur]; cops.append("MInvert")
        else: raise ValueError(op)
        if not np.array_equal(np.array(mask), np.array(cur, dtype=bool)):
            raise AssertionError("the mask does not hold the edited contents")
        outs.append(read(mask))
    final = cur
    for j, (mk, exp, c) in enumerate(left):
        cur = c
        if read(mk) != exp: chk.bad.append(f"mask {j} left behind by copy/new/invert reads differently at the end")
    cur = final
    chk.same("the caller's mask array was modified", ma, ma0)
    def cobs(o):
        return ("(" + clist([ctup([cnat(a), cnat(b)]) for a, b in o[0]]) + ", " + clist([cnat(x) for x in o[1]]) + ", "
                + clist([cnat(x) for x in o[2]]) + ", " + cvec(o[3]) + ", " + cgrid(o[4]) + ")")
    coq = f"(KMaskHist {cmask(m)} {cgrid(native)} {clist(cops)} {clist([cobs(o) for o in outs])})"
    return chk.result({"coq": coq, "extra_coq": extra, "out": outs, "kind": "maskhist", "nontrivial": True})

# ----------------------------------------------------------------------------- util level
def util_cases(ma, an, asl, m, native, slim, chk):
    """the five anchored util functions on (mask array, native values, slim values); returns (out, coq cases)"""
    from autoarray.structures.arrays import array_2d_util
    from autoarray.mask import mask_2d_util
    ma0, an0, asl0 = ma.copy(), an.copy(), asl.copy()
    s1 = array_2d_util.array_2d_slim_from(array_2d_native=an, mask_2d=ma)
    n1 = array_2d_util.array_2d_native_from(array_2d_slim=asl, mask_2d=ma)
    idx = mask_2d_util.native_index_for_slim_index_2d_from(mask_2d=ma)
    um = mask_2d_util.mask_slim_indexes_from(mask_2d=ma, return_masked_indexes=False)
    mk = mask_2d_util.mask_slim_indexes_from(mask_2d=ma, return_masked_indexes=True)
    chk.same("a util function modified its array argument", an, an0)
    chk.same("a util function modified its array argument", asl, asl0)
    chk.same("a util function modified its mask argument", ma, ma0)
    exact(s1); exact(n1)
    if np.asarray(n1).shape != ma.shape: raise AssertionError(f"array_2d_native_from returned shape {np.asarray(n1).shape}")
    out = [ints(s1), ints2(n1), [[int(a), int(b)] for a, b in np.asarray(idx).reshape(-1, 2)], ints(um), ints(mk)]
    cm = cmask(m)
    cases = [f"(KSlimFrom {cm} {cgrid(native)} {cvec(out[0])})",
             f"(KNativeFrom {cm} {cvec(slim)} {cgrid(out[1])})",
             "(KNativeForSlim " + cm + " " + clist([ctup([cnat(a), cnat(b)]) for a, b in out[2]]) + ")",
             "(KMaskIdx " + cm + " false " + clist([cnat(x) for x in out[3]]) + ")",
             "(KMaskIdx " + cm + " true " + clist([cnat(x) for x in out[4]]) + ")"]
    return out, cases

def slim_of(native, m): return [native[y][x] + 1000 for y in range(len(m)) for x in range(len(m[0])) if not m[y][x]]

def run_utilseq(aa, inp):
    """the util functions called for several masks in a row within ONE case (a replay reproduces a result remembered from
    an earlier call); masks of the same shape re-use the SAME ndarray objects, overwritten in place"""
    chk = Checks(); outs = []; cases = []
    ma = an = asl = None
    for j, m in enumerate(inp["ms"]):
        h, w = len(m), len(m[0])
        native = vals(h, w, (inp.get("k", 0) + j) % 4); slim = slim_of(native, m)
        if ma is not None and ma.shape == (h, w): ma[...] = np.array(m, dtype=bool); an[...] = np.array(native, dtype=float)
        else: ma = np.array(m, dtype=bool); an = np.array(native, dtype=float)
        if asl is not None and asl.shape == (len(slim),): asl[...] = np.array(slim, dtype=float)
        else: asl = np.array(slim, dtype=float)
        o, c = util_cases(ma, an, asl, m, native, slim, chk)
        outs.append(o); cases += c
    return chk.result({"coq": cases[0], "extra_coq": cases[1:], "out": outs, "kind": "utilseq", "nontrivial": True})

def run_util2(aa, inp):
    """sibling util functions of the anchored ones: the grid, complex, via-indexes, convert_*_to_slim / _to_native and 1-D
    variants; every result is judged by the same model clauses (one plane / one row at a time)"""
    from autoarray.structures.arrays import array_2d_util, array_1d_util
    from autoarray.structures.grids import grid_2d_util, grid_1d_util
    from autoarray.mask import mask_2d_util, mask_1d_util
    m = inp["m"]; h, w = len(m), len(m[0]); k = inp.get("k", 0)
    ma = np.array(m, dtype=bool); ma0 = ma.copy(); cm = cmask(m); chk = Checks()
    n0 = vals(h, w, k); n1 = [[7 - v for v in r] for r in n0]
    s0 = slim_of(n0, m); s1 = [7 - v for v in s0]
    cnt = len(s0)
    a0, a1 = np.array(n0, dtype=float), np.array(n1, dtype=float)
    b0, b1 = np.array(s0, dtype=float), np.array(s1, dtype=float)
    gn = np.stack([a0, a1], axis=-1); gs = np.stack([b0, b1], axis=-1).reshape(-1, 2)
    cases = []; outs = []
    def slim_case(nat, got, what):
        got = np.asarray(got)
        if got.shape != (cnt,): raise AssertionError(f"{what}: shape {got.shape}")
        exact(got); outs.append(ints(got)); cases.append(f"(KSlimFrom {cm} {cgrid(nat)} {cvec(ints(got))})")
    def native_case(sl, got, what):
        got = np.asarray(got)
        if got.shape != (h, w): raise AssertionError(f"{what}: shape {got.shape}")
        exact(got); outs.append(ints2(got)); cases.append(f"(KNativeFrom {cm} {cvec(sl)} {cgrid(ints2(got))})")
    # grids: two planes
    g1 = grid_2d_util.grid_2d_slim_from(grid_2d_native=gn, mask=ma)
    if np.asarray(g1).shape != (cnt, 2): raise AssertionError(f"grid_2d_slim_from: shape {np.asarray(g1).shape}")
    slim_case(n0, g1[:, 0], "grid_2d_slim_from"); slim_case(n1, g1[:, 1], "grid_2d_slim_from")
    g2 = grid_2d_util.grid_2d_native_from(grid_2d_slim=gs, mask_2d=ma)
    if np.asarray(g2).shape != (h, w, 2): raise AssertionError(f"grid_2d_native_from: shape {np.asarray(g2).shape}")
    native_case(s0, g2[:, :, 0], "grid_2d_native_from"); native_case(s1, g2[:, :, 1], "grid_2d_native_from")
    g3 = grid_2d_util.convert_grid_2d_to_slim(grid_2d=gn, mask_2d=ma)
    slim_case(n0, g3[:, 0], "convert_grid_2d_to_slim"); slim_case(n1, g3[:, 1], "convert_grid_2d_to_slim")
    g4 = grid_2d_util.convert_grid_2d_to_native(grid_2d=gs, mask_2d=ma)
    native_case(s0, g4[:, :, 0], "convert_grid_2d_to_native"); native_case(s1, g4[:, :, 1], "convert_grid_2d_to_native")
    chk.same("convert_grid_2d_to_slim of a slim grid", grid_2d_util.convert_grid_2d_to_slim(grid_2d=gs, mask_2d=ma), gs)
    chk.same("convert_grid_2d_to_native of a native grid", grid_2d_util.convert_grid_2d_to_native(grid_2d=gn, mask_2d=ma), gn)
    # complex: real and imaginary parts are gathered / scattered alike
    z1 = array_2d_util.array_2d_slim_complex_from(array_2d_native=a0 + 1j * a1, mask=ma)
    if not np.iscomplexobj(z1): raise AssertionError("array_2d_slim_complex_from returned a real array")
    slim_case(n0, np.real(z1), "array_2d_slim_complex_from"); slim_case(n1, np.imag(z1), "array_2d_slim_complex_from")
    idx = mask_2d_util.native_index_for_slim_index_2d_from(mask_2d=ma).astype("int")
    z2 = array_2d_util.array_2d_native_complex_via_indexes_from(array_2d_slim=b0 + 1j * b1, shape_native=(h, w), native_index_for_slim_index_2d=idx)
    native_case(s0, np.real(z2), "array_2d_native_complex_via_indexes_from"); native_case(s1, np.imag(z2), "array_2d_native_complex_via_indexes_from")
    native_case(s0, array_2d_util.array_2d_via_indexes_from(array_2d_slim=b0, shape=(h, w), native_index_for_slim_index_2d=idx), "array_2d_via_indexes_from")
    # convert_array_2d_to_slim / _to_native
    slim_case(n0, array_2d_util.convert_array_2d_to_slim(array_2d=a0, mask_2d=ma), "convert_array_2d_to_slim")
    chk.same("convert_array_2d_to_slim of a slim array", array_2d_util.convert_array_2d_to_slim(array_2d=b0, mask_2d=ma), b0)
    mask = aa.Mask2D(mask=ma, pixel_scales=(0.5, 2.0), origin=(0.3, -0.7))
    native_case(s0, array_2d_util.convert_array_2d_to_native(array_2d=b0, mask_2d=mask), "convert_array_2d_to_native")
    c2 = np.asarray(array_2d_util.convert_array_2d_to_native(array_2d=a1, mask_2d=mask))
    if c2.shape != (h, w): raise AssertionError(f"convert_array_2d_to_native: shape {c2.shape}")
    exact(c2)
    cases.append(f"(KArray {cm} true true {cgrid(n1)} {cvec([])} {cvec(ints(c2[~ma0]))} {cgrid(ints2(c2))})")
    # the anchored functions on Fortran-ordered / negative-stride arrays (the classes copy their input into C order first, the
    # util functions are public on their own)
    for lay in (np.asfortranarray, lambda a: np.asfortranarray(a[::-1])[::-1]):
        slim_case(n1, array_2d_util.array_2d_slim_from(array_2d_native=lay(a1), mask_2d=lay(ma)), "array_2d_slim_from (memory layout)")
        native_case(s1, array_2d_util.array_2d_native_from(array_2d_slim=strided(b1), mask_2d=lay(ma)), "array_2d_native_from (memory layout)")
        i2 = np.asarray(mask_2d_util.native_index_for_slim_index_2d_from(mask_2d=lay(ma))).reshape(-1, 2)
        cases.append("(KNativeForSlim " + cm + " " + clist([ctup([cnat(int(a)), cnat(int(b))]) for a, b in i2]) + ")")
        for flag in (False, True):
            t = mask_2d_util.mask_slim_indexes_from(mask_2d=lay(ma), return_masked_indexes=flag)
            cases.append("(KMaskIdx " + cm + " " + cbool(flag) + " " + clist([cnat(x) for x in ints(t)]) + ")")
    # the mask's own counters, used by every size check
    if mask.pixels_in_mask != cnt or mask.shape_native != (h, w) or mask_2d_util.total_pixels_2d_from(mask_2d=ma) != cnt:
        chk.bad.append("pixels_in_mask / shape_native / total_pixels_2d_from")
    if h == 1:
        r = ma[0].copy(); r0 = r.copy()
        slim_case(n0, array_1d_util.array_1d_slim_from(array_1d_native=a0[0], mask_1d=r), "array_1d_slim_from")
        t = np.asarray(array_1d_util.array_1d_native_from(array_1d_slim=b0, mask_1d=r))
        if t.shape != (w,): raise AssertionError(f"array_1d_native_from: shape {t.shape}")
        native_case(s0, t[None, :], "array_1d_native_from")
        i1 = mask_1d_util.native_index_for_slim_index_1d_from(mask_1d=r).astype("int")
        t = np.asarray(array_1d_util.array_1d_via_indexes_1d_from(array_1d_slim=b1, shape=w, native_index_for_slim_index_1d=i1))
        native_case(s1, t[None, :], "array_1d_via_indexes_1d_from")
        slim_case(n1, grid_1d_util.grid_1d_slim_from(grid_1d_native=a1[0], mask_1d=r), "grid_1d_slim_from")
        t = np.asarray(grid_1d_util.grid_1d_native_from(grid_1d_slim=b1, mask_1d=r))
        native_case(s1, t[None, :], "grid_1d_native_from")
        if mask_1d_util.total_pixels_1d_from(mask_1d=r) != cnt: chk.bad.append("total_pixels_1d_from")
        chk.same("a 1-D util function modified its mask argument", r, r0)
    chk.same("a util function modified its mask argument", ma, ma0)
    chk.same("a util function modified its array argument", a0, np.array(n0, dtype=float))
    chk.same("a util function modified its array argument", a1, np.array(n1, dtype=float))
    chk.same("a util function modified its array argument", b0, np.array(s0, dtype=float))
    chk.same("a util function modified its array argument", gn, np.stack([np.array(n0, dtype=float), np.array(n1, dtype=float)], axis=-1))
    chk.same("a util function modified its array argument", gs, np.stack([np.array(s0, dtype=float), np.array(s1, dtype=float)], axis=-1).reshape(-1, 2))
    return chk.result({"coq": cases[0], "extra_coq": cases[1:], "out": outs, "kind": "util2", "nontrivial": bool(ma.any() and not ma.all())})

# ----------------------------------------------------------------------------- classmethod constructors (all-false mask)
def run_nomask(aa, inp):
    cls = inp["cls"]; h, w = inp["h"], inp["w"]; ni = inp["ni"]; k = inp.get("k", 0); vt = inp.get("vt", 0)
    chk = Checks()
    ps = inp.get("ps", 1.0); ps = tuple(ps) if isinstance(ps, list) else ps
    org = tuple(inp.get("org", [0.0, 0.0]))
    m = [[False] * w for _ in range(h)]; cm = cmask(m)
    n0 = vals(h, w, k); n1 = [[7 - v for v in r] for r in n0]
    s0 = slim_of(n0, m); s1 = [7 - v for v in s0]
    def planes2(a, b): return np.stack([np.array(a, dtype=float), np.array(b, dtype=float)], axis=-1)
    def forms(values): return give(values, vt, True, lambda v: v)
    if cls in ("array", "kernel", "full"):
        if cls == "full":
            c = float(inp.get("c", 3)); C = [aa.Array2D, aa.Kernel2D][k % 2]
            n0 = [[int(c)] * w for _ in range(h)]; s0 = [int(c)] * (h * w); ni = True
            which = inp.get("which", "full")
            if which == "full": obj = C.full(fill_value=c, shape_native=(h, w), pixel_scales=ps, origin=org)
            elif which == "ones": obj = C.ones(shape_native=(h, w), pixel_scales=ps, origin=org)
            else: obj = C.zeros(shape_native=(h, w), pixel_scales=ps, origin=org)
        else:
            C = aa.Array2D if cls == "array" else aa.Kernel2D
            values = forms(np.array(n0 if ni else s0, dtype=float)); before = snap(values)
            obj = C.no_mask(values=values, shape_native=None if (ni and inp.get("omit", True)) else (h, w), pixel_scales=ps, origin=org)
            unchanged(chk, "the values argument", values, before)
        os_, on_ = np.array(obj.slim), np.array(obj.native)
        if os_.shape != (h * w,) or on_.shape != (h, w): raise AssertionError(f"shape of forms {os_.shape} {on_.shape}")
        exact(os_); exact(on_)
        out = [ints(os_), ints2(on_)]
        coq = [f"(KArray {cm} {cbool(ni)} false {cgrid(n0)} {cvec(s0)} {cvec(out[0])} {cgrid(out[1])})"]
    elif cls in ("grid", "vector", "vfull"):
        if cls == "vfull":
            c = float(inp.get("c", 3)); n0 = n1 = [[int(c)] * w for _ in range(h)]; s0 = s1 = [int(c)] * (h * w); ni = True
            which = inp.get("which", "full")
            if which == "full": obj = aa.VectorYX2D.full(fill_value=c, shape_native=(h, w), pixel_scales=ps, origin=org)
            elif which == "ones": obj = aa.VectorYX2D.ones(shape_native=(h, w), pixel_scales=ps, origin=org)
            else: obj = aa.VectorYX2D.zeros(shape_native=(h, w), pixel_scales=ps, origin=org)
        else:
            values = forms(planes2(n0, n1) if ni else planes2(s0, s1).reshape(-1, 2)); before = snap(values)
            C = aa.Grid2D if cls == "grid" else aa.VectorYX2D
            obj = C.no_mask(values=values, shape_native=None if (ni and inp.get("omit", True)) else (h, w), pixel_scales=ps, origin=org)
            unchanged(chk, "the values argument", values, before)
        os_, on_ = np.array(obj.slim), np.array(obj.native)
        if os_.shape != (h * w, 2) or on_.shape != (h, w, 2): raise AssertionError(f"shape of forms {os_.shape} {on_.shape}")
        exact(os_); exact(on_)
        out = [ints(os_[:, 0]), ints(os_[:, 1]), ints2(on_[:, :, 0]), ints2(on_[:, :, 1])]
        coq = [f"(KGrid {cm} {cbool(ni)} false {cgrid(n0)} {cgrid(n1)} {cvec(s0)} {cvec(s1)} "
               f"{cvec(out[0])} {cvec(out[1])} {cgrid(out[2])} {cgrid(out[3])})"]
    else:
        # 1-D: h == 1
        C = aa.Array1D if cls == "array1d" else aa.Grid1D
        which = inp.get("which")
        if which:
            c = float(inp.get("c", 3)); n0 = [[{"full": int(c), "ones": 1, "zeros": 0}[which]] * w]
            if which == "full": obj = aa.Array1D.full(fill_value=c, shape_native=w, pixel_scales=0.25, origin=(1.5,))
            elif which == "ones": obj = aa.Array1D.ones(shape_native=w, pixel_scales=0.25, origin=(1.5,))
            else: obj = aa.Array1D.zeros(shape_native=w, pixel_scales=0.25, origin=(1.5,))
        else:
            values = forms(np.array(n0[0], dtype=float)); before = snap(values)
            obj = C.no_mask(values=values, pixel_scales=0.25, origin=(1.5,))
            unchanged(chk, "the values argument", values, before)
        os_, on_ = np.array(obj.slim), np.array(obj.native)
        if os_.shape != (w,) or on_.shape != (w,): raise AssertionError(f"shape of forms {os_.shape} {on_.shape}")
        exact(os_); exact(on_)
        out = [ints(os_), ints(on_)]
        coq = [f"(KArray1 {clist([cbool(False)] * w)} true false {cvec(n0[0])} {cvec(n0[0])} {cvec(out[0])} {cvec(out[1])})"]
    mk = np.array(obj.mask)
    if mk.shape != ((w,) if cls in ("array1d", "grid1d") else (h, w)) or mk.any(): chk.bad.append("the mask of a no_mask object is not all-False of the native shape")
    return chk.result({"coq": coq[0], "extra_coq": coq[1:], "out": out, "kind": "nomask:" + cls, "nontrivial": h * w > 1})

# ----------------------------------------------------------------------------- apply_mask
def run_apply(aa, inp):
    """obj = C(values, mask(m), store_native); obj.apply_mask(mask(m2)) read in both forms (and twice); the first object must
    read as before afterwards"""
    cls = inp["cls"]; m, m2 = inp["m"], inp["m2"]; h, w = len(m), len(m[0]); k = inp.get("k", 0); sc = 2.0 ** inp.get("e", 0)
    ni, sn = inp["ni"], inp["sn"]
    chk = Checks()
    ma, mb = np.array(m, dtype=bool), np.array(m2, dtype=bool)
    mask = make_mask(aa, ma, inp.get("mt", 0)); mask2 = make_mask(aa, mb, inp.get("mt2", 0))
    planes = 2 if cls == "vector" else 1
    nat = [vals(h, w, k)] + ([[[7 - v for v in r] for r in vals(h, w, k)]] if planes == 2 else [])
    sl = [slim_of(p, m) for p in nat]
    src = nat if ni else sl
    a = [np.array(p, dtype=float) * sc for p in src]
    values = np.stack(a, axis=-1) if planes == 2 else a[0]
    if inp.get("nf") and ni: poison(values, ma)
    before = snap(values); mb4, mb5 = snap(mask), snap(mask2)
    if cls == "vector":
        g = aa.Grid2D.from_mask(mask=mask)
        obj = aa.VectorYX2D(values=values, grid=g.native if ni else g, mask=mask, store_native=sn)
    else:
        obj = (aa.Array2D if cls == "array" else aa.Kernel2D)(values=values, mask=mask, store_native=sn)
    pre = inp.get("pre", 0)
    if pre:
        # a DERIVED object: after `obj + c` a natively stored array holds c, not zero, at its masked pixels
        obj = obj + float(pre) * sc
        nat = [[[v + pre for v in r] for r in p_] for p_ in nat]; sl = [[v + pre for v in p_] for p_ in sl]
    first = (np.array(obj.slim), np.array(obj.native))
    new = obj.apply_mask(mask=mask2)
    s1, n1 = np.array(new.slim), np.array(new.native)
    chk.same("second read of .slim differs", s1, np.array(new.slim)); chk.same("second read of .native differs", n1, np.array(new.native))
    if not np.array_equal(np.array(new.mask), mb): chk.bad.append("the result of apply_mask does not carry the new mask")
    chk.same("the object apply_mask was called on reads differently afterwards (slim)", first[0], np.array(obj.slim))
    chk.same("the object apply_mask was called on reads differently afterwards (native)", first[1], np.array(obj.native))
    unchanged(chk, "the values argument", values, before); unchanged(chk, "the first Mask2D", mask, mb4); unchanged(chk, "the second Mask2D", mask2, mb5)
    s, n = descale(s1, sc), descale(n1, sc)
    cnt2 = int((~mb).sum())
    if s.shape != ((cnt2,) if planes == 1 else (cnt2, 2)) or n.shape != ((h, w) if planes == 1 else (h, w, 2)):
        raise AssertionError(f"shape of forms {s.shape} {n.shape}")
    cases = []; out = []
    for q in range(planes):
        os_ = ints(s if planes == 1 else s[:, q]); on_ = ints2(n if planes == 1 else n[:, :, q])
        out.append([os_, on_])
        cases.append(f"(KApply {cmask(m)} {cmask(m2)} {cbool(ni)} {cbool(sn)} {cgrid(nat[q])} {cvec(sl[q])} {cvec(os_)} {cgrid(on_)})")
    return chk.result({"coq": cases[0], "extra_coq": cases[1:], "out": out, "kind": "apply:" + cls,
                       "nontrivial": bool((ma.any() and not ma.all()) or (mb.any() and not mb.all()))})

# ----------------------------------------------------------------------------- histories of one Mask1D
def run_maskhist1(aa, inp):
    """a Mask1D edited in place / copied / replaced; after every step Array1D / Grid1D are built on the SAME mask object from
    native and from slim values and read in both forms"""
    from autoarray.mask import mask_1d_util
    r = list(inp["r"]); n = len(r); chk = Checks()
    ra = np.array(r, dtype=bool); ra0 = ra.copy()
    mask = aa.Mask1D(mask=ra, pixel_scales=1.0)
    native = [5 + 3 * x for x in range(n)]
    cases = []; outs = []
    def read(mk, cur, j):
        cnt = cur.count(False)
        C = [aa.Array1D, aa.Grid1D][j % 2]; sn = bool((j // 2) % 2)
        slim_in = [900 + 7 * t for t in range(cnt)]
        for ni in (True, False):
            v = np.array(native if ni else slim_in, dtype=float)
            o = C(values=v, mask=mk, store_native=sn)
            os_, on_ = np.array(o.slim), np.array(o.native)
            if os_.shape != (cnt,) or on_.shape != (n,): raise AssertionError(f"shape of 1-D forms {os_.shape} {on_.shape}")
            exact(os_); exact(on_)
            outs.append([ints(os_), ints(on_)])
            cases.append(f"(KArray1 {clist([cbool(b) for b in cur])} {cbool(ni)} {cbool(sn)} {cvec(native)} {cvec(slim_in)} {cvec(ints(os_))} {cvec(ints(on_))})")
        nfs = mask_1d_util.native_index_for_slim_index_1d_from(mask_1d=np.array(mk))
        cases.append("(KNativeForSlim1 " + clist([cbool(b) for b in cur]) + " " + clist([cnat(x) for x in ints(nfs)]) + ")")
        if mk.pixels_in_mask != cnt: chk.bad.append("pixels_in_mask of the edited Mask1D")
    cur = list(r); read(mask, cur, 0); left = []
    for j, op in enumerate(inp["ops"]):
        if op[0] == "set": mask[op[1]] = op[2]; cur[op[1]] = op[2]
        elif op[0] == "copy": left.append((mask, list(cur))); mask = mask.copy()
        elif op[0] == "new": left.append((mask, list(cur))); mask = mask.with_new_array(np.array(op[1], dtype=bool)); cur = list(op[1])
        else: raise ValueError(op)
        if not np.array_equal(np.array(mask), np.array(cur, dtype=bool)): raise AssertionError("the mask does not hold the edited contents")
        read(mask, cur, j + 1)
    for j, (mk, c) in enumerate(left): read(mk, c, j)
    chk.same("the caller's mask array was modified", ra, ra0)
    return chk.result({"coq": cases[0], "extra_coq": cases[1:], "out": outs, "kind": "maskhist1", "nontrivial": True})

def run_seq(inp):
    """several cases evaluated one after the other inside ONE case, so that a replay of the case alone reproduces anything
    remembered from an earlier call (module-level / per-mask caches keyed too coarsely)"""
    rows = [run_case(it) for it in inp["items"]]
    cases = []
    for r in rows: cases += [r["coq"]] + list(r.get("extra_coq") or [])
    res = {"coq": cases[0], "extra_coq": cases[1:], "out": [r.get("out") for r in rows], "kind": "seq", "nontrivial": True}
    bad = [r.get("detail", "?") for r in rows if r.get("py_ok") is False]
    if bad: res["py_ok"] = False; res["detail"] = "; ".join(bad)
    return res

def run_case(inp):
    aa = import_aa()
    from autoarray.mask import mask_1d_util
    op = inp["op"]
    if op == "hist": return run_hist(aa, inp)
    if op == "maskhist": return run_maskhist(aa, inp)
    if op == "maskhist1": return run_maskhist1(aa, inp)
    if op == "seq": return run_seq(inp)
    if op == "utilseq": return run_utilseq(aa, inp)
    if op == "util2": return run_util2(aa, inp)
    if op == "nomask": return run_nomask(aa, inp)
    if op == "apply": return run_apply(aa, inp)
    sc = 2.0 ** inp.get("e", 0)
    chk = Checks()
    if op in ("array1d", "grid1d"):
        r = inp["r"]; n = len(r)
        native = [5 + 3 * x for x in range(n)]
        if inp.get("k") == 5: native = [(x + x // 3) % 2 for x in range(n)]
        slim = [v for v, b in zip(native, r) if not b]
        slim_in = [v + 100 for v in slim]
        if inp.get("k") == 5: slim_in = [1 - v for v in slim]
        ra = np.array(r)
        mask = make_mask(aa, ra, inp.get("mt", 0), one_d=True)
        values = np.array(native if inp["ni"] else slim_in, dtype=float) * sc
        nf = bool(inp.get("nf")) and inp["ni"]
        if nf: poison(values, ra)
        values0 = values.copy(); mask_before = snap(mask)
        cls = aa.Array1D if op == "array1d" else aa.Grid1D
        given = give(values, inp.get("vt", 0), sc == 1.0 and not nf, lambda v: cls(values=v, mask=mask, store_native=not inp["sn"]),
                     lambda v: subclass(aa, cls.__name__)(values=v, mask=mask, store_native=inp["sn"]))
        before = snap(given)
        obj = cls(values=given, mask=mask, store_native=inp["sn"])
        unchanged(chk, "the values argument (" + before[0] + ")", given, before)
        stored_ok(chk, obj, inp["sn"], obj.slim, obj.native, op)
        os_, on_ = descale(obj.slim, sc), descale(obj.native, sc)
        if os_.shape != (len(slim),) or on_.shape != (n,): raise AssertionError(f"shape of 1-D forms {os_.shape} {on_.shape}")
        chk.same("the caller's values array was modified", values, values0)
        chk.same("the caller's mask array was modified", ra, np.array(r))
        unchanged(chk, "the Mask1D", mask, mask_before)
        chk.same("second read of .native differs", on_, descale(obj.native, sc))
        chk.same("second read of .slim differs", os_, descale(obj.slim, sc))
        out = [ints(os_), ints(on_)]
        nfs = mask_1d_util.native_index_for_slim_index_1d_from(mask_1d=np.array(r))
        coq = (f"KArray1 {clist([cbool(b) for b in r])} {cbool(inp['ni'])} {cbool(inp['sn'])} {cvec(native)} {cvec(slim_in)} "
               f"{cvec(out[0])} {cvec(out[1])}")
        # the second, cheap case rides along as its own case through `extra`
        return chk.result({"coq": "(" + coq + ")", "out": out, "kind": op, "nontrivial": any(r),
                "extra_coq": ["(KNativeForSlim1 " + clist([cbool(b) for b in r]) + " " + clist([cnat(x) for x in ints(nfs)]) + ")"]})
    m = inp["m"]; h, w = len(m), len(m[0]); k = inp.get("k", 0)
    ma = np.array(m, dtype=bool); ma0 = ma.copy()
    nontrivial = bool(ma.any() and not ma.all())
    native = vals(h, w, k)
    slim = slim_of(native, m)
    if k == 5: slim = [1 - (v - 1000) for v in slim]
    if op == "util":
        an = np.array(native, dtype=float); asl = np.array(slim, dtype=float)
        out, cases = util_cases(ma, an, asl, m, native, slim, chk)
        return chk.result({"coq": cases[0], "extra_coq": cases[1:], "out": out, "kind": "util", "nontrivial": nontrivial})
    mask = make_mask(aa, ma, inp.get("mt", 0))
    mask_before = snap(mask)
    ni, sn = inp["ni"], inp["sn"]; vt = inp.get("vt", 0)
    nf = bool(inp.get("nf")) and ni
    cnt = len(slim)
    if op == "array":
        C = aa.Kernel2D if inp.get("cls") == "kernel" else aa.Array2D
        values = np.array(native if ni else slim, dtype=float) * sc
        if nf: poison(values, ma)
        values0 = values.copy()
        given = give(values, vt, sc == 1.0 and not nf, lambda v: C(values=v, mask=mask, store_native=not sn),
                     lambda v: subclass(aa, C.__name__)(values=v, mask=mask, store_native=sn))
        before = snap(given)
        obj = C(values=given, mask=mask, store_native=sn)
        unchanged(chk, "the values argument (" + before[0] + ")", given, before)
        stored_ok(chk, obj, sn, obj.slim, obj.native, op)
        os_, on_ = descale(obj.slim, sc), descale(obj.native, sc)
        if os_.shape != (cnt,) or on_.shape != (h, w): raise AssertionError(f"shape of forms {os_.shape} {on_.shape}")
        chk.same("the caller's values array was modified", values, values0)
        chk.same("the caller's mask array was modified", ma, ma0)
        chk.same("the Mask2D was modified", np.array(mask), ma0)
        unchanged(chk, "the Mask2D", mask, mask_before)
        chk.same("second read of .slim differs", os_, descale(obj.slim, sc))
        chk.same("second read of .native differs", on_, descale(obj.native, sc))
        if not sn: chk.same("native_skip_mask of a slim-stored array differs from .native", on_, descale(obj.native_skip_mask, sc))
        # index views of the mask must agree with the util functions (read through the structure and through the mask)
        di = mask.derive_indexes
        dn = np.asarray(di.native_for_slim).reshape(-1, 2)
        chk.same("obj.derive_indexes.native_for_slim differs from the mask's", dn, np.asarray(obj.derive_indexes.native_for_slim).reshape(-1, 2))
        out = [ints(os_), ints2(on_), [[int(a), int(b)] for a, b in dn], ints(di.unmasked_slim), ints(di.masked_slim)]
        cm = cmask(m)
        coq = f"(KArray {cm} {cbool(ni)} {cbool(sn)} {cgrid(native)} {cvec(slim)} {cvec(out[0])} {cgrid(out[1])})"
        extra = ["(KNativeForSlim " + cm + " " + clist([ctup([cnat(a), cnat(b)]) for a, b in out[2]]) + ")",
                 "(KMaskIdx " + cm + " false " + clist([cnat(x) for x in out[3]]) + ")",
                 "(KMaskIdx " + cm + " true " + clist([cnat(x) for x in out[4]]) + ")"]
        return chk.result({"coq": coq, "extra_coq": extra, "out": out, "kind": "kernel" if C is aa.Kernel2D else "array", "nontrivial": nontrivial})
    # grid / vector: two planes (y-plane = native values, x-plane = negated + 7)
    ny = native; nx = [[7 - v for v in r] for r in native]
    sy = slim; sx = [7 - v for v in slim]
    if k == 5: nx = [[1 - v for v in r] for r in native]; sx = [1 - v for v in slim]
    if ni: values = np.stack([np.array(ny, dtype=float), np.array(nx, dtype=float)], axis=-1) * sc
    else: values = np.stack([np.array(sy, dtype=float), np.array(sx, dtype=float)], axis=-1).reshape(-1, 2) * sc
    if nf: poison(values, ma)
    values0 = values.copy()
    extra = []
    if op == "grid":
        given = give(values, vt, sc == 1.0 and not nf, lambda v: aa.Grid2D(values=v, mask=mask, store_native=not sn),
                     lambda v: subclass(aa, "Grid2D")(values=v, mask=mask, store_native=sn))
        before = snap(given)
        obj = aa.Grid2D(values=given, mask=mask, store_native=sn)
    else:
        # the grid of a vector field: its own (integer) values, handed over in a form chosen independently of the values'
        gn = inp.get("gn", ni); gt = inp.get("gt", 0)
        gy = [[500 + 3 * (y * w + x) for x in range(w)] for y in range(h)]; gx = [[-(40 + y * w + 2 * x) for x in range(w)] for y in range(h)]
        gsy = [gy[y][x] + 1000 for y in range(h) for x in range(w) if not m[y][x]]; gsx = [9 - v for v in gsy]
        if gn: garr = np.stack([np.array(gy, dtype=float), np.array(gx, dtype=float)], axis=-1)
        else: garr = np.stack([np.array(gsy, dtype=float), np.array(gsx, dtype=float)], axis=-1).reshape(-1, 2)
        if gt == 1: gg = garr.tolist()
        elif gt == 2: gg = aa.Grid2D(values=garr, mask=mask, store_native=gn)
        elif gt == 3: gg = aa.Grid2D(values=garr, mask=mask, store_native=not gn)
        else: gg = garr
        gbefore = snap(gg)
        given = give(values, vt, sc == 1.0 and not nf, lambda v: aa.VectorYX2D(values=v, grid=gg, mask=mask, store_native=not sn),
                     lambda v: subclass(aa, "VectorYX2D")(values=v, grid=gg, mask=mask, store_native=sn))
        before = snap(given)
        obj = aa.VectorYX2D(values=given, grid=gg, mask=mask, store_native=sn)
        unchanged(chk, "the grid argument (" + gbefore[0] + ")", gg, gbefore)
        gs_, gn_ = np.array(obj.grid.slim), np.array(obj.grid.native)
        if gs_.shape != (cnt, 2) or gn_.shape != (h, w, 2): raise AssertionError(f"shape of the forms of .grid {gs_.shape} {gn_.shape}")
        exact(gs_); exact(gn_)
        extra.append(f"(KGrid {cmask(m)} {cbool(gn)} false {cgrid(gy)} {cgrid(gx)} {cvec(gsy)} {cvec(gsx)} "
                     f"{cvec(ints(gs_[:, 0]))} {cvec(ints(gs_[:, 1]))} {cgrid(ints2(gn_[:, :, 0]))} {cgrid(ints2(gn_[:, :, 1]))})")
        # the component views
        yv, xv = obj.y, obj.x
        extra_y = (descale(yv.slim, sc), descale(xv.slim, sc), descale(yv.native, sc), descale(xv.native, sc))
    unchanged(chk, "the values argument (" + before[0] + ")", given, before)
    stored_ok(chk, obj, sn, obj.slim, obj.native, op)
    os_, on_ = descale(obj.slim, sc), descale(obj.native, sc)
    if os_.shape != (cnt, 2) or on_.shape != (h, w, 2): raise AssertionError(f"shape of forms {os_.shape} {on_.shape}")
    chk.same("the caller's values array was modified", values, values0)
    chk.same("the Mask2D was modified", np.array(mask), ma0)
    unchanged(chk, "the Mask2D", mask, mask_before)
    chk.same("second read of .native differs", on_, descale(obj.native, sc))
    chk.same("second read of .slim differs", os_, descale(obj.slim, sc))
    os_ = os_.reshape(-1, 2)
    if op == "vector":
        chk.same(".y.slim differs from the first plane of .slim", extra_y[0], os_[:, 0]); chk.same(".x.slim differs from the second plane of .slim", extra_y[1], os_[:, 1])
        chk.same(".y.native differs from the first plane of .native", extra_y[2], on_[:, :, 0]); chk.same(".x.native differs from the second plane of .native", extra_y[3], on_[:, :, 1])
    out = [ints(os_[:, 0]), ints(os_[:, 1]), ints2(on_[:, :, 0]), ints2(on_[:, :, 1])]
    coq = (f"(KGrid {cmask(m)} {cbool(ni)} {cbool(sn)} {cgrid(ny)} {cgrid(nx)} {cvec(sy)} {cvec(sx)} "
           f"{cvec(out[0])} {cvec(out[1])} {cgrid(out[2])} {cgrid(out[3])})")
    return chk.result({"coq": coq, "extra_coq": extra, "out": out, "kind": op, "nontrivial": nontrivial})
