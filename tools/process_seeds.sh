#!/bin/bash
# confirm + store + run the check for every seed directory under /tmp/seed_out that is not yet under seeded/
HERE="$(cd "$(dirname "$0")/.." && pwd)"; cd $HERE
for d in /tmp/seed_out/C*_*; do
  s=$(basename $d); [ -d seeded/$s ] && continue
  [ -f $d/patch.diff ] && [ -f $d/demo.py ] && [ -f $d/meta.json ] || continue
  r=$(tools/confirm_seed.sh $d 2>&1 | tail -1)
  echo "## $s $r"
  [ "$r" == "CONFIRMED" ] || continue
  python3 tools/store_seed.py $d $s ${s%_*} pending "pending" >/dev/null
  [ -f harness/$(echo ${s%_*} | tr A-Z a-z).py ] && tools/try_seed.sh $s | grep -v "files\? changed" | cut -c1-300
done
