(* C17 -- lemmas about the model of the grid decorators. *)
From Coq Require Import ZArith List Bool Reals Lra Lia.
From PAV Require Import Base.Res Base.Check Base.NumOps Model.C17.
Import ListNotations.

Lemma transform_once {O : NumOps} {A} (tf : @grid O -> @grid O) (f : bool -> @grid O -> A) g :
  transform tf (transform tf f) false g = f true (tf g).
Proof. reflexivity. Qed.
