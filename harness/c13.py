"""C13 -- direct Fourier transform, preloaded variant, adjoint, interferometer normal equations."""
import sys, types

# pylops is not installed: TransformerDFT only needs it as a base class.  Minimal stand-in, installed BEFORE autoarray
# is imported (no change to /repo).
if "pylops" not in sys.modules:
    _m = types.ModuleType("pylops")
    class LinearOperator:          # noqa
        def __init__(self, dtype=None, shape=None, explicit=False, **kw):
            pass
    _m.LinearOperator = LinearOperator
    _m.__verif_standin__ = True
    sys.modules["pylops"] = _m

import random
import numpy as np
from fractions import Fraction
from harness.common import cz, cq, cnat, cbool, clist, ctup, cres, import_aa, frac, exn_name

ID = "C13"
GEN = []
PROPS = "Props/C13.v"
COQ_CHECK = ("Model.C13", "check")
COQ_FALLBACK = None
COQ_IMPORTS = "From PAV Require Import Base.NumOps Model.C13Lib."
SHARD = 40
RULE = ("util level (autoarray.util.transformer / inversion_interferometer_util functions called directly): grids of 0-12 "
        "(y,x) points and 0-8 (u,v) baselines, either on the half-integer lattice (every phase a multiple of a quarter turn: "
        "exact trig table) or on a 1/16 lattice (generic phases); zero and repeated baselines; images / matrix COLUMNS / visibility "
        "vectors / reconstructions = (integer or quarter) * 2^e with e in {0, -7 .. -200, +20 .. +100} per vector (entries within a "
        "vector spread over at most 2^-20), signed mapping matrices with zeros, noise maps {1/2,1,2,4} * 2^{0, +-20, +-50}, arbitrary "
        "integer preload tables incl. 0 x K tables; image_via_jit_from with n_pixels <, =, > grid rows; batches come in sibling pairs "
        "with identical shapes; every 2-D argument as C-ordered, Fortran-ordered or a strided view; every function is called twice "
        "(results must be identical) and every argument must be unchanged afterwards. All comparisons are RELATIVE to the l1 norm "
        "of the linear argument (1e-9). Budgets: quick 36 util batches (8 ops each) + 32 geometries + 28 histories; thorough 400 + 500 + 280. "
        "Class level: Mask2D of shape up to 5x5 (non-square, 0..16 unmasked pixels incl. outer ring, fully masked, single pixel), "
        "pixel scales (sy,sx) in {1/4..3} independently, origins k/4, baselines up to 2e5 wavelengths (phases of several turns), "
        "TransformerDFT(preload on/off).visibilities_from / image_from / transform_mapping_matrix with slim- and native-stored "
        "images, InversionInterferometerMapping(DatasetInterface(Visibilities, VisibilitiesNoiseMap, TransformerDFT), 1-3 linear "
        "objects with/without regularization, explicit or config-default diagonal value).data_vector / curvature_matrix / "
        "operated_mapping_matrix (read in both orders, twice, and through a second inversion), aa.Inversion factory, plus a SIBLING "
        "inversion through the same transformer object (rows of M / data / noise rotated, regularization flags flipped). "
        "Histories (one Coq case each, every step compared with the model independently): 2-4 TransformerDFT objects alive in one "
        "interpreter that differ in exactly ONE construction ingredient (mask shifted by one pixel / permuted / one pixel moved / "
        "point-reflected / reshaped with the same row-major bytes / transposed / one pixel more or fewer, pixel scales swapped, origin "
        "moved, one baseline changed / order reversed / negated, preload flipped, identical twin), the ingredient being a new object, "
        "the same Mask2D / ndarray object shared, or the caller's Mask2D / uv array EDITED IN PLACE before the next construction; "
        "then 1-3 kinds of call per live object, often doubled with a sibling argument (the same object again, the same object "
        "edited in place, values rotated / negated / scaled by 2^-k / one entry changed, equal values in a new object), arguments "
        "shared between sibling transformers, images slim / native / store_native / derived by arithmetic, matrices C / F / strided, "
        "uv as int or float arrays; calls of different objects interleaved. Python-side relations: preload on = off, native = slim "
        "storage, adjoint dot test, column-wise transform, arguments unchanged, second call identical. Non-trivial = at least 2 "
        "pixels and one non-zero baseline (histories: at least 2 objects and 2 calls); distinct = distinct JSON input.")
EXHAUSTIVE = {}
TRUSTED = ["hand-written Gallina model coq/Model/C13.v (scatter loops, sparsity test, preload tables, grid of unmasked pixel centres, "
           "normal equations), tied to /repo by this correspondence run: model and specification are evaluated inside Coq (vm_compute) "
           "on the exact rational values of the doubles the implementation received and compared with its outputs to 1e-9 "
           "RELATIVE to the l1 norm of the linear argument (image, column, visibilities, ...; all-zero argument: exact); preload "
           "tables to 1e-9 absolute, the grid to 1e-12 relative",
           "execution device QOpsT (coq/Model/C13Lib.v): cos/sin of a rational number of turns, exact at quarter turns, otherwise a "
           "10-term Taylor polynomials in 2^-60 fixed point (error < 1e-16); never used in a theorem",
           "numpy element-wise arithmetic, np.dot (Gram product), np.hstack, complex accumulation as two real accumulations; "
           "np.cos/np.sin/np.pi accurate to a few ulp",
           "minimal stand-in for the absent optional module pylops (base class only), installed by harness/c13.py"]
ASSUMPTIONS = ["real arithmetic (no rounding): theorems over R with the real cos, sin, PI; correspondence under tolerance 1e-9",
               "NUFFT transformer and the interferometer w-tilde path are out of scope (library / code absent)",
               "Array2D / Visibilities / Mask2D glue (slim/native storage, in_array) is correspondence-only"]

PI = Fraction(float(np.pi))
SCALES = [Fraction(1, 4), Fraction(1, 2), Fraction(1), Fraction(3, 2), Fraction(2), Fraction(3)]
NOISE = [Fraction(1, 2), Fraction(1), Fraction(2), Fraction(4)]

# ----------------------------------------------------------------------------- printing
def F(x): return Fraction(x)
def cqv(v): return clist([cq(x) for x in v])
def cqm(M): return clist([cqv(r) for r in M])
def cqc(p): return ctup([cq(p[0]), cq(p[1])])
def ccv(v): return clist([cqc(p) for p in v])
def ccm(M): return clist([ccv(r) for r in M])
def cmask(m): return clist([clist([cbool(b) for b in r]) for r in m])
def cgeom(g): return f"(@Build_geom QOpsT {cmask(g['m'])} {cq(F(g['sy']))} {cq(F(g['sx']))} {cq(F(g['oy']))} {cq(F(g['ox']))})"
def fl(v): return [float(x) for x in v]
def flm(M): return [[float(x) for x in r] for r in M]
def S(x): return str(Fraction(x))
def Sv(v): return [S(x) for x in v]
def Sm(M): return [Sv(r) for r in M]
def Fv(v): return [Fraction(x) for x in v]
def Fm(M): return [Fv(r) for r in M]
def arr2(M, ncols):
    a = np.array(flm(M), dtype=float)
    return a.reshape((len(M), ncols))
def cplx(v): return np.array([complex(float(a), float(b)) for a, b in v], dtype=complex).reshape((len(v),))
def cvout(a): return [(frac(z.real), frac(z.imag)) for z in np.asarray(a).ravel()]
def cmout(a): return [[(frac(z.real), frac(z.imag)) for z in r] for r in np.asarray(a)]
def rvout(a): return [frac(x) for x in np.asarray(a).ravel()]
def rmout(a): return [[frac(x) for x in r] for r in np.asarray(a)]
def short(x): return str(x)[:400]

# ----------------------------------------------------------------------------- generators
# magnitudes: a whole image / column / visibility vector is scaled by an exact power of two 2^e (tiny: below every
# plausible absolute threshold 1e-3 .. 1e-60; huge), entries inside it spread over at most 2^-20 so that no entry is
# negligible against the l1 norm at the 1e-9 relative tolerance
EXPS = [0, 0, 0, 0, 0, -7, -10, -14, -20, -24, -27, -30, -34, -40, -50, -60, -100, -200, 20, 40, 100]
def rexp(rng, on=True): return rng.choice(EXPS) if on else 0
def rval(rng, sparse=False):
    if sparse and rng.random() < 0.4: return Fraction(0)
    if rng.random() < 0.3: return Fraction(rng.randint(-20, 20), 4)
    return Fraction(rng.randint(-9, 9))
def rvals(rng, n, sparse=False, e=0):
    out = []
    for _ in range(n):
        sub = rng.choice([0, 0, 0, 0, -10, -20]) if e != 0 or rng.random() < 0.15 else 0
        out.append(rval(rng, sparse) * Fraction(2) ** (e + sub))
    return out
def rmat(rng, n, P, mag=True):
    """n x P signed matrix with zeros; every COLUMN has its own magnitude"""
    cols = [rvals(rng, n, sparse=True, e=rexp(rng, mag)) for _ in range(P)]
    return [[cols[j][i] for j in range(P)] for i in range(n)]
def rcv(rng, n, e=0): return list(zip(rvals(rng, n, e=e), rvals(rng, n, e=e)))
def rnoise(rng, n, e=0): return [(rng.choice(NOISE) * Fraction(2) ** e, rng.choice(NOISE) * Fraction(2) ** e) for _ in range(n)]
NOISE_EXPS = [0, 0, 0, -20, 20, -50, 50]

def rgrid_uv(rng, npix, K, lattice):
    """lattice 'quarter': coordinates and baselines multiples of 1/2 -> phases multiples of 1/4 turn (exact trig);
       'sixteenth': generic dyadic phases"""
    if lattice == "quarter":
        grid = [(Fraction(rng.randint(-6, 6), 2), Fraction(rng.randint(-6, 6), 2)) for _ in range(npix)]
        uv = [(Fraction(rng.randint(-6, 6), 2), Fraction(rng.randint(-6, 6), 2)) for _ in range(K)]
    else:
        grid = [(Fraction(rng.randint(-24, 24), 16), Fraction(rng.randint(-24, 24), 16)) for _ in range(npix)]
        uv = [(Fraction(rng.randint(-40, 40), 16), Fraction(rng.randint(-40, 40), 16)) for _ in range(K)]
    if K >= 2 and rng.random() < 0.35: uv[rng.randrange(K)] = (Fraction(0), Fraction(0))         # zero baseline
    if K >= 2 and rng.random() < 0.35: uv[rng.randrange(K)] = uv[rng.randrange(K)]               # repeated baseline
    return grid, uv

def rmask(rng, maxdim=5, maxpix=16):
    H, W = rng.randint(1, maxdim), rng.randint(1, maxdim)
    style = rng.choice(["random", "random", "random", "full", "single", "ring", "empty"])
    if style == "full": m = [[False] * W for _ in range(H)]
    elif style == "empty": m = [[True] * W for _ in range(H)]
    elif style == "single":
        m = [[True] * W for _ in range(H)]; m[rng.randrange(H)][rng.randrange(W)] = False
    elif style == "ring": m = [[not (y in (0, H - 1) or x in (0, W - 1)) for x in range(W)] for y in range(H)]
    else:
        p = rng.choice([0.2, 0.5, 0.8])
        m = [[rng.random() > p for _ in range(W)] for _ in range(H)]
    while sum(1 for r in m for b in r if not b) > maxpix:
        m[rng.randrange(H)][rng.randrange(W)] = True
    return m

def rgeom(rng):
    m = rmask(rng)
    sy = rng.choice(SCALES); sx = sy if rng.random() < 0.4 else rng.choice(SCALES)
    oy, ox = (Fraction(0), Fraction(0)) if rng.random() < 0.5 else (Fraction(rng.randint(-6, 6), 4), Fraction(rng.randint(-6, 6), 4))
    return {"m": m, "sy": S(sy), "sx": S(sx), "oy": S(oy), "ox": S(ox)}

def ruv_class(rng, K):
    style = rng.choice(["big", "big", "mixed", "small"])
    uv = []
    for _ in range(K):
        if style == "small": uv.append((Fraction(rng.randint(-9, 9)), Fraction(rng.randint(-9, 9))))
        elif style == "mixed" and rng.random() < 0.5: uv.append((Fraction(rng.randint(-50, 50), 4), Fraction(rng.randint(-50, 50), 4)))
        else: uv.append((Fraction(rng.randint(-200, 200) * 1000), Fraction(rng.randint(-200, 200) * 1000 + rng.randint(0, 999))))
    if K >= 2 and rng.random() < 0.35: uv[rng.randrange(K)] = (Fraction(0), Fraction(0))
    if K >= 2 and rng.random() < 0.35: uv[rng.randrange(K)] = uv[rng.randrange(K)]
    return uv

def npix_of(m): return sum(1 for r in m for b in r if not b)
LAYOUTS = ["c", "c", "f", "view"]

def gen_util(tier, rng):
    n = 400 if tier == "thorough" else 36
    util_ops = ["preload", "vispre", "vis", "image", "tmmpre", "tmm", "data", "recon"]
    first = None
    for i in range(n):
        # batches come in sibling PAIRS with identical shapes (npix, K, P); the second batch keeps all ingredients of the first
        # except ONE group (the linear arguments, or the grid / tables, or the baselines / noise): a result remembered under a
        # key that omits that ingredient (shapes only, shapes + checksum of the matrix, ...) shows in the second batch
        lattice = "quarter" if (i // 2) % 2 else "sixteenth"
        if i % 2 == 0 or first is None:
            shapes = (rng.choice([0, 1, 2, 3, 5, 8, 12]), rng.choice([0, 1, 2, 3, 5, 8]), rng.choice([0, 1, 2, 3, 4]))
            keep = set()
        else:
            shapes = first["shapes"]; keep = rng.choice([{"values"}, {"values", "uv"}, {"grid", "uv"}, {"grid", "values"}, set()])
        npix, K, P = shapes
        grid, uv = rgrid_uv(rng, npix, K, lattice)
        cur = {"shapes": shapes, "grid": [Sv(g) for g in grid], "uv": [Sv(u) for u in uv]}
        def pick(name, group, make):
            """ingredient [name] of this batch: the first batch's if its group is kept, else fresh"""
            cur[name] = first[name] if group in keep and first is not None and name in first else make()
            return cur[name]
        if "grid" in keep: cur["grid"] = first["grid"]
        if "uv" in keep: cur["uv"] = first["uv"]
        base = {"grid": cur["grid"], "uv": cur["uv"], "lattice": lattice}
        for op in util_ops:
            d = dict(base, op=op, lay=rng.choice(LAYOUTS))
            if op in ("vis",): d["img"] = pick("vis_img", "values", lambda: Sv(rvals(rng, npix, sparse=(i % 3 == 0), e=rexp(rng))))
            elif op in ("vispre", "tmmpre"):
                d.pop("grid"); d.pop("uv")
                d["K"] = K
                d["preR"] = pick(op + "R", "grid", lambda: Sm([[Fraction(rng.randint(-4, 4)) for _ in range(K)] for _ in range(npix)]))
                d["preI"] = pick(op + "I", "grid", lambda: Sm([[Fraction(rng.randint(-4, 4)) for _ in range(K)] for _ in range(npix)]))
                if op == "vispre": d["img"] = pick("vispre_img", "values", lambda: Sv(rvals(rng, npix, sparse=(i % 3 == 0), e=rexp(rng))))
                else:
                    d["P"] = P; d["M"] = pick("tmmpre_M", "values", lambda: Sm(rmat(rng, npix, P)))
            elif op == "image":
                r = rng.random()
                d["n"] = npix if r < 0.7 else (rng.randint(0, npix) if r < 0.85 else npix + rng.randint(1, 2))
                d["vis"] = pick("image_vis", "values", lambda: [Sv(v) for v in rcv(rng, K, e=rexp(rng))])
            elif op == "tmm":
                d["P"] = P; d["M"] = pick("tmm_M", "values", lambda: Sm(rmat(rng, npix, P)))
            elif op == "data":
                e1, e2, e3 = rexp(rng), rexp(rng), rng.choice(NOISE_EXPS)
                d = {"op": op, "P": P, "TM": pick("data_TM", "grid", lambda: [[Sv(c) for c in rcv(rng, P, e=e1)] for _ in range(K)]),
                     "vis": pick("data_vis", "values", lambda: [Sv(v) for v in rcv(rng, K, e=e2)]),
                     "noise": pick("data_noise", "uv", lambda: [Sv(v) for v in rnoise(rng, K, e=e3)]), "lay": d["lay"]}
            elif op == "recon":
                d = {"op": op, "P": P, "TM": pick("recon_TM", "grid", lambda: [[Sv(c) for c in rcv(rng, P, e=rexp(rng))] for _ in range(K)]),
                     "s": pick("recon_s", "values", lambda: Sv(rvals(rng, P, e=rexp(rng)))), "lay": d["lay"]}
            yield d
        if i % 2 == 0: first = cur

def gen_class(tier, rng):
    m = 500 if tier == "thorough" else 32
    for i in range(m):
        g = rgeom(rng); npix = npix_of(g["m"])
        K = rng.choice([0, 1, 2, 3, 4, 6, 8]) if i % 7 == 0 else rng.choice([1, 2, 3, 4, 6, 8])
        uv = ruv_class(rng, K)
        base = {"geom": g, "uv": [Sv(u) for u in uv]}
        if i % 9 == 0: yield dict(base, op="tgrid")
        yield dict(base, op="tvis", preload=bool(i % 2), native=bool((i // 2) % 2),
                   img=Sv(rvals(rng, npix, sparse=(i % 3 == 0), e=rexp(rng))))
        yield dict(base, op="timage", preload=bool(i % 2), vis=[Sv(v) for v in rcv(rng, K, e=rexp(rng))],
                   dot_img=Sv(rvals(rng, npix, e=rexp(rng))))
        P = rng.choice([0, 1, 2, 3, 4]) if i % 5 == 0 else rng.choice([1, 2, 3])
        if npix > 0:
            yield dict(base, op="ttmm", preload=bool((i // 2) % 2), P=P, M=Sm(rmat(rng, npix, P)), lay=rng.choice(LAYOUTS))
        if npix > 0 and K > 0 and (tier == "thorough" or i % 2 == 0):
            nobj = rng.choice([1, 1, 2, 3])
            objs = []
            for _ in range(nobj):
                Pi = rng.choice([1, 1, 2, 3])
                objs.append({"P": Pi, "M": Sm(rmat(rng, npix, Pi, mag=(i % 4 == 0))), "reg": rng.random() < 0.5})
            value = rng.choice(["default", "1/8", "1", "2", "0"])
            en = rng.choice(NOISE_EXPS)
            yield dict(base, op="inv", preload=bool(i % 2), objs=objs, data=[Sv(v) for v in rcv(rng, K, e=rexp(rng))],
                       noise=[Sv(v) for v in rnoise(rng, K, e=en)], value=value, factory=bool(i % 3 == 0),
                       sibling=rng.choice(["M", "data", "noise", "reg"]) if i % 4 in (0, 2) else None)

# ---- histories: sibling transformers (differing in exactly ONE construction ingredient) alive in one interpreter, method
# ---- calls interleaved, arguments reused / derived / edited in place
def mask_cells(m): return [(y, x) for y, r in enumerate(m) for x, b in enumerate(r) if not b]
def mask_from_cells(H, W, cells):
    cs = set(cells); return [[(y, x) not in cs for x in range(W)] for y in range(H)]
def mask_variant(rng, m, kind):
    H, W = len(m), len(m[0]); cells = mask_cells(m); allc = [(y, x) for y in range(H) for x in range(W)]
    if kind == "shift":                       # cyclic shift by one pixel: same pixel count
        dy, dx = rng.choice([(0, 1), (1, 0), (0, -1), (-1, 0), (1, 1)])
        return mask_from_cells(H, W, [((y + dy) % H, (x + dx) % W) for y, x in cells])
    if kind == "perm": return mask_from_cells(H, W, rng.sample(allc, len(cells)))
    if kind == "move1":
        free = [c for c in allc if c not in cells]
        if not free or not cells: return [r[:] for r in m]
        out = cells[:]; out[rng.randrange(len(out))] = rng.choice(free); return mask_from_cells(H, W, out)
    if kind == "flip": return [r[::-1] for r in m][::-1]        # point reflection: same count
    if kind == "reshape":                    # same row-major contents, shape (W, H)
        flat = [b for r in m for b in r]; return [flat[y * H:(y + 1) * H] for y in range(W)]
    if kind == "transpose": return [[m[y][x] for y in range(H)] for x in range(W)]
    if kind == "count":                      # one pixel more or fewer
        free = [c for c in allc if c not in cells]
        if free and (len(cells) <= 1 or rng.random() < 0.5): return mask_from_cells(H, W, cells + [rng.choice(free)])
        if len(cells) >= 2: return mask_from_cells(H, W, cells[:-1])
    return [r[:] for r in m]

SIB_KINDS = ["shift", "origin", "perm", "scales", "move1", "uv_one", "flip", "reshape", "uv_rev", "count", "transpose", "uv_neg",
             "same", "preload"]
MASK_KINDS = ("shift", "perm", "move1", "flip", "count", "reshape", "transpose")

def rot(l): return l[1:] + l[:1]
def sibling_values(rng, kind, vals):
    """an argument of the same shape that a too-coarse key (shape, sum, norm, first entry ...) cannot tell from [vals]"""
    mode = rng.choice(["rot", "rot", "edit1", "neg", "scaled", "equal", "equal"])
    if mode == "rot": return mode, rot(vals)
    if mode == "neg":
        if kind == "vis": return mode, Sv([-F(x) for x in vals])
        if kind == "tmm": return mode, Sm([[-F(x) for x in r] for r in vals])
        return mode, [Sv([-F(a), -F(b)]) for a, b in vals]
    if mode == "scaled":
        c = Fraction(2) ** rng.choice([-10, -27, -30, -40, -60, 20])
        if kind == "vis": return mode, Sv([F(x) * c for x in vals])
        if kind == "tmm": return mode, Sm([[F(x) * c for x in r] for r in vals])
        return mode, [Sv([F(a) * c, F(b) * c]) for a, b in vals]
    if mode == "edit1" and len(vals) > 0:
        k = rng.randrange(len(vals)); out = [v[:] if isinstance(v, list) else v for v in vals]
        if kind == "vis": out[k] = S(F(out[k]) * 3 + Fraction(1, 4) * (F(out[k]) == 0))
        elif kind == "tmm":
            if out[k]: out[k][0] = S(F(out[k][0]) * 3 + Fraction(1, 4) * (F(out[k][0]) == 0))
        else: out[k] = [out[k][1], S(F(out[k][0]) + 1)]
        return mode, out
    return "equal", vals

def gen_hist_one(rng, h=0):
    H, W = rng.choice([(1, 3), (2, 2), (2, 3), (3, 2), (3, 3), (2, 4), (4, 3), (3, 4)])
    if SIB_KINDS[h % len(SIB_KINDS)] in ("reshape", "transpose"): H, W = rng.choice([(2, 3), (3, 2), (2, 4), (4, 3), (3, 4)])
    n = rng.randint(1, min(H * W - 1, 5))
    m0 = mask_from_cells(H, W, rng.sample([(y, x) for y in range(H) for x in range(W)], n))
    sy = rng.choice(SCALES); sx = sy if rng.random() < 0.3 else rng.choice(SCALES)
    oy, ox = (Fraction(0), Fraction(0)) if rng.random() < 0.5 else (Fraction(rng.randint(-6, 6), 4), Fraction(rng.randint(-6, 6), 4))
    g0 = {"m": m0, "sy": S(sy), "sx": S(sx), "oy": S(oy), "ox": S(ox)}
    K = rng.choice([1, 2, 2, 3, 4])
    uv0 = [Sv(u) for u in ruv_class(rng, K)]
    steps = []
    masks, uvs, trs = [], [], []        # python-side object tables mirrored by run_hist
    def add_mask(g, edit=None):
        if edit is None:
            masks.append(g); steps.append({"s": "mask", "geom": g}); return len(masks) - 1
        masks[edit] = g; steps.append({"s": "mask", "geom": g, "edit": edit})
        for t in trs:
            if t["mask"] == edit: t["live"] = False
        return edit
    def add_uv(uv, edit=None):
        integral = all(Fraction(c).denominator == 1 for u in uv for c in u)
        if edit is None:
            uvs.append(uv); steps.append({"s": "uv", "uv": uv, "dtype": "int" if integral and rng.random() < 0.4 else "float",
                                          "lay": rng.choice(LAYOUTS)}); return len(uvs) - 1
        uvs[edit] = uv; steps.append({"s": "uv", "uv": uv, "edit": edit})
        for t in trs:
            if t["uv"] == edit: t["live"] = False
        return edit
    def add_tr(mk, uk, preload):
        trs.append({"mask": mk, "uv": uk, "live": True, "npix": npix_of(masks[mk]["m"]), "K": len(uvs[uk]), "geom": masks[mk]})
        steps.append({"s": "new", "mask": mk, "uv": uk, "preload": preload})
    nid = [0]; last = {}; e_h = rexp(rng); called = set()
    def call(i, k, vals=None, mode=None, first=None):
        t = trs[i]; npix, Kt = t["npix"], t["K"]; nid[0] += 1
        st = {"s": k, "t": i, "id": nid[0]}
        if first is not None and mode in ("equal", "edit1", "rot") and rng.random() < 0.6:
            st["reuse"] = first["id"]                  # equal: the very same object again; edit1 / rot: edited in place
        if k == "vis":
            key = ("vis", npix); e = e_h if rng.random() < 0.6 else rexp(rng)
            if vals is None:
                if key in last and rng.random() < 0.5: vals = last[key]
                else: vals = Sv(rvals(rng, npix, sparse=rng.random() < 0.3, e=e))
            st.update(img=vals, how=rng.choice(["slim", "native", "store_native", "sum", "scaled"]), own_mask=rng.random() < 0.5)
        elif k == "tmm":
            if vals is None:
                P = rng.choice([1, 2, 2, 3]); key = ("tmm", npix, P)
                if key in last and rng.random() < 0.5: vals = last[key]
                else: vals = Sm(rmat(rng, npix, P))
            else: P = first["P"]; key = ("tmm", npix, P)
            st.update(P=P, M=vals, how=rng.choice(["c", "f", "view"]))
        else:
            key = ("image", Kt)
            if vals is None:
                if key in last and rng.random() < 0.5: vals = last[key]
                else: vals = [Sv(v) for v in rcv(rng, Kt, e=e_h if rng.random() < 0.6 else rexp(rng))]
            st.update(vis=vals, how=rng.choice(["fresh", "sum"]))
        last[key] = vals
        return st
    def emit_calls():
        """calls of every live transformer not called yet.  Per transformer: 1-3 kinds of call, often DOUBLED (a second call
        through the same object with a sibling argument: the same array object again, the same object edited in place, a
        rotation / negation / rescaling of the values, equal values in a new object).  First calls often take the values a
        sibling transformer was given.  The per-transformer sequences are merged at random (interleaved)."""
        seqs = []
        for i, t in enumerate(trs):
            if not t["live"] or i in called: continue
            called.add(i); seq = []
            kinds = rng.sample(["vis", "tmm", "image"], rng.choice([1, 2, 2, 3]))
            if "image" in kinds and len(kinds) == 1: kinds.append(rng.choice(["vis", "tmm"]))    # image_from alone never reads the tables
            for k in kinds:
                first = call(i, k); seq.append(first)
                if rng.random() < 0.5:
                    v0 = first["img"] if k == "vis" else first["M"] if k == "tmm" else first["vis"]
                    mode, v1 = sibling_values(rng, k, v0)
                    seq.append(call(i, k, vals=v1, mode=mode, first=first))
            seqs.append(seq)
        while any(seqs):
            q = rng.choice([q for q in seqs if q]); steps.append(q.pop(0))
    mk, uk = add_mask(g0), add_uv(uv0)
    # first round over the sibling kinds: tables preloaded; second round: alternating
    r = h % (2 * len(SIB_KINDS))
    pre0 = (rng.random() < 0.7) if h >= 2 * len(SIB_KINDS) else True if r < len(SIB_KINDS) else ((r - len(SIB_KINDS)) % 3 != 2)
    add_tr(mk, uk, pre0)
    nsib = rng.choice([1, 2, 2, 3])
    edit_at = rng.randrange(nsib) if h % 3 == 1 else None      # at most one in-place edit of a caller's object per history
    for si in range(nsib):
        src = rng.randrange(len(trs)) if si else 0
        if not trs[src]["live"]: src = max(i for i, t in enumerate(trs) if t["live"])
        g = masks[trs[src]["mask"]]; uv = uvs[trs[src]["uv"]]
        # the first sibling's kind goes round-robin over the histories so that every ingredient is varied alone several times
        kind = SIB_KINDS[h % len(SIB_KINDS)] if si == 0 else rng.choice(SIB_KINDS)
        if si == edit_at and kind not in MASK_KINDS[:5] + ("uv_one", "uv_rev", "uv_neg"):
            if si == 0: edit_at = 1 if nsib > 1 else None          # never replace the round-robin kind
            else: kind = rng.choice(["shift", "move1", "uv_one"])
        pre = pre0 if si == 0 or rng.random() < 0.75 else (not pre0)
        mk, uk = trs[src]["mask"], trs[src]["uv"]
        if kind in MASK_KINDS:
            g2 = dict(g, m=mask_variant(rng, g["m"], kind))
            same_shape = (len(g2["m"]), len(g2["m"][0])) == (len(g["m"]), len(g["m"][0]))
            if si == edit_at and same_shape:      # the caller edits ITS Mask2D in place, then builds the next transformer from it
                emit_calls(); mk = add_mask(g2, mk)
            else: mk = add_mask(g2)
        elif kind == "scales":
            g2 = dict(g, sy=g["sx"], sx=g["sy"]) if g["sy"] != g["sx"] else dict(g, sx=S(F(g["sx"]) * 2))
            mk = add_mask(g2)
        elif kind == "origin":
            g2 = dict(g, oy=S(F(g["oy"]) + Fraction(rng.choice([-2, -1, 1, 2]), 4)), ox=S(F(g["ox"]) + Fraction(rng.choice([-1, 0, 1]), 4)))
            mk = add_mask(g2)
        elif kind in ("uv_one", "uv_rev", "uv_neg"):
            uv2 = [list(u) for u in uv]
            if kind == "uv_one":
                k = rng.randrange(len(uv2)); uv2[k] = [S(F(uv2[k][0]) + rng.choice([-3, 1, 1000])), uv2[k][1]]
            elif kind == "uv_rev": uv2 = uv2[::-1] if len(uv2) > 1 and uv2 != uv2[::-1] else [[u[1], u[0]] for u in uv2]
            else: uv2 = [[S(-F(u[0])), S(-F(u[1]))] for u in uv2]
            if si == edit_at:
                emit_calls(); uk = add_uv(uv2, uk)
            else: uk = add_uv(uv2)
        elif kind == "preload": pre = not pre0
        elif kind == "same" and rng.random() < 0.5: mk = add_mask(dict(g))     # an equal but distinct Mask2D object
        add_tr(mk, uk, pre)
    emit_calls()
    return {"op": "hist", "steps": steps}

def gen_hist(tier, rng):
    for h in range(280 if tier == "thorough" else 28):
        yield gen_hist_one(rng, h)

def gen_inputs(tier, rng):
    yield from gen_util(tier, rng)
    yield from gen_class(tier, rng)
    yield from gen_hist(tier, rng)

# ----------------------------------------------------------------------------- running
def pairs(l): return [(Fraction(a), Fraction(b)) for a, b in l]
def lay(a, mode):
    """the same values through a different memory layout: C-contiguous, Fortran-ordered, or a strided view of a larger array"""
    a = np.array(a)
    if mode == "f" and a.ndim == 2: return np.asfortranarray(a)
    if mode == "view":
        if a.ndim == 2:
            big = np.full((a.shape[0] * 2 + 1, a.shape[1] * 2 + 1), 7, dtype=a.dtype); v = big[1::2, 1::2]
        else:
            big = np.full((a.shape[0] * 2 + 1,), 7, dtype=a.dtype); v = big[1::2]
        v[...] = a
        return v
    return a
def grid_arr(g, mode="c"): return lay(np.array(flm(g), dtype=float).reshape((len(g), 2)), mode)
def same(a, b):
    a, b = np.asarray(a), np.asarray(b)
    return a.shape == b.shape and a.dtype == b.dtype and bool(np.all((a == b) | ((a != a) & (b != b))))

class Watch:
    """(d) the caller's arguments must hold the same values after the call; (a) a second identical call must return the same"""
    def __init__(self): self.items = []; self.ok = True; self.why = []
    def arg(self, name, a): self.items.append((name, a, np.array(a, copy=True))); return a
    def done(self):
        for name, a, snap in self.items:
            if not same(np.asarray(a), snap): self.ok = False; self.why.append("argument modified in place: " + name)
        self.items = []
    def twice(self, out, f):
        out2 = f()
        if not same(np.asarray(out), np.asarray(out2)): self.ok = False; self.why.append("second identical call returned a different result")
        self.done()

def mk_mask(aa, g):
    return aa.Mask2D(mask=np.array(g["m"], dtype=bool).reshape((len(g["m"]), len(g["m"][0]))),
                     pixel_scales=(float(F(g["sy"])), float(F(g["sx"]))), origin=(float(F(g["oy"])), float(F(g["ox"]))))

def run_case(inp):
    aa = import_aa()
    from autoarray.operators import transformer_util as tu
    from autoarray.inversion.inversion.interferometer import inversion_interferometer_util as iu
    op = inp["op"]; L = inp.get("lay", "c")
    w = Watch()
    if "grid" in inp:
        grid = pairs(inp["grid"]); uv = pairs(inp["uv"])
        ga, ua = w.arg("grid", grid_arr(grid, L)), w.arg("uv", grid_arr(uv, L))
        nontriv = len(grid) >= 2 and any(u != (0, 0) for u in uv)
    else:
        nontriv = True
    base = {"kind": op, "nontrivial": nontriv, "py_ok": None}
    def fin(d):
        if not w.ok: d["py_ok"] = False; d["detail"] = "; ".join(w.why)
        return d
    if op == "preload":
        R = tu.preload_real_transforms(grid_radians=ga, uv_wavelengths=ua)
        I = tu.preload_imag_transforms(ga, ua)
        w.twice(R, lambda: tu.preload_real_transforms(ga, ua))
        coq = f"(KPreload {ccv(grid)} {ccv(uv)} {cqm(rmout(R))} {cqm(rmout(I))})"
        return fin(dict(base, coq=coq, out=short([R.tolist(), I.tolist()])))
    if op == "vispre":
        K = inp["K"]; img = Fv(inp["img"]); preR = Fm(inp["preR"]); preI = Fm(inp["preI"])
        a = (w.arg("image", lay(np.array(fl(img)), L)), w.arg("preR", lay(arr2(preR, K), L)), w.arg("preI", lay(arr2(preI, K), L)))
        out = tu.visibilities_via_preload_jit_from(*a)
        w.twice(out, lambda: tu.visibilities_via_preload_jit_from(*a))
        coq = f"(KVisPre {cnat(K)} {cqv(img)} {cqm(preR)} {cqm(preI)} {ccv(cvout(out))})"
        return fin(dict(base, coq=coq, out=short(out.tolist()), nontrivial=len(img) >= 2 and K >= 1))
    if op == "vis":
        img = Fv(inp["img"]); ia = w.arg("image", lay(np.array(fl(img)), L))
        out = tu.visibilities_jit(ia, ga, ua)
        w.twice(out, lambda: tu.visibilities_jit(ia, ga, ua))
        return fin(dict(base, coq=f"(KVis {cqv(img)} {ccv(grid)} {ccv(uv)} {ccv(cvout(out))})", out=short(out.tolist())))
    if op == "image":
        vis = pairs(inp["vis"]); n = inp["n"]
        va = w.arg("visibilities", lay(np.array(flm(vis), dtype=float).reshape((len(vis), 2)), L))
        try:
            o = tu.image_via_jit_from(n, ga, ua, va); out = ("ok", rvout(o))
            w.twice(o, lambda: tu.image_via_jit_from(n, ga, ua, va))
        except Exception as e:
            out = ("raise", exn_name(e))
        return fin(dict(base, coq=f"(KImage {cnat(n)} {ccv(grid)} {ccv(uv)} {ccv(vis)} {cres(out, cqv)})", out=short(out)))
    if op == "tmmpre":
        K, P = inp["K"], inp["P"]; M = Fm(inp["M"]); preR = Fm(inp["preR"]); preI = Fm(inp["preI"])
        a = (w.arg("mapping_matrix", lay(arr2(M, P), L)), w.arg("preR", arr2(preR, K)), w.arg("preI", arr2(preI, K)))
        out = tu.transformed_mapping_matrix_via_preload_jit_from(*a)
        w.twice(out, lambda: tu.transformed_mapping_matrix_via_preload_jit_from(*a))
        coq = f"(KTmmPre {cnat(K)} {cnat(P)} {cqm(M)} {cqm(preR)} {cqm(preI)} {ccm(cmout(out))})"
        return fin(dict(base, coq=coq, out=short(out.tolist()), nontrivial=len(M) >= 2 and K >= 1 and P >= 1))
    if op == "tmm":
        P = inp["P"]; M = Fm(inp["M"]); ma = w.arg("mapping_matrix", lay(arr2(M, P), L))
        out = tu.transformed_mapping_matrix_jit(ma, ga, ua)
        w.twice(out, lambda: tu.transformed_mapping_matrix_jit(ma, ga, ua))
        return fin(dict(base, coq=f"(KTmm {cnat(P)} {cqm(M)} {ccv(grid)} {ccv(uv)} {ccm(cmout(out))})", out=short(out.tolist())))
    if op == "data":
        P = inp["P"]; TM = [pairs(r) for r in inp["TM"]]; vis = pairs(inp["vis"]); noise = pairs(inp["noise"])
        tm = w.arg("transformed_mapping_matrix", lay(np.array([[complex(float(a), float(b)) for a, b in r] for r in TM], dtype=complex).reshape((len(TM), P)), L))
        va, na = w.arg("visibilities", cplx(vis)), w.arg("noise_map", cplx(noise))
        out = iu.data_vector_via_transformed_mapping_matrix_from(tm, va, na)
        w.twice(out, lambda: iu.data_vector_via_transformed_mapping_matrix_from(tm, va, na))
        return fin(dict(base, coq=f"(KData {cnat(P)} {ccm(TM)} {ccv(vis)} {ccv(noise)} {cqv(rvout(out))})", out=short(out.tolist()),
                        nontrivial=P >= 1 and len(TM) >= 2))
    if op == "recon":
        P = inp["P"]; TM = [pairs(r) for r in inp["TM"]]; s = Fv(inp["s"])
        tm = w.arg("transformed_mapping_matrix", lay(np.array([[complex(float(a), float(b)) for a, b in r] for r in TM], dtype=complex).reshape((len(TM), P)), L))
        sa = w.arg("reconstruction", np.array(fl(s)))
        out = iu.mapped_reconstructed_visibilities_from(tm, sa)
        w.twice(out, lambda: iu.mapped_reconstructed_visibilities_from(tm, sa))
        return fin(dict(base, coq=f"(KRecon {ccm(TM)} {cqv(s)} {ccv(cvout(out))})", out=short(out.tolist()),
                        nontrivial=P >= 1 and len(TM) >= 2))
    if op == "hist": return run_hist(aa, inp, base)
    return run_class(aa, inp, base)

def close(a, b, scale, t=1e-12):
    """|a - b| <= t * scale element-wise (scale: the l1 norm of the linear argument, scalar or per column)"""
    a, b = np.asarray(a), np.asarray(b)
    return a.shape == b.shape and bool(np.all(np.abs(a - b) <= t * np.asarray(scale, dtype=float)))
def l1f(v): return float(sum(abs(Fraction(x)) for x in v))

def run_class(aa, inp, base):
    op = inp["op"]; g = inp["geom"]; uv = pairs(inp["uv"])
    mask = mk_mask(aa, g)
    npix = npix_of(g["m"])
    ua = np.array(flm(uv), dtype=float).reshape((len(uv), 2))
    base["nontrivial"] = npix >= 2 and any(u != (0, 0) for u in uv)
    G = cgeom(g); U = ccv(uv); Pi = cq(PI)
    w = Watch(); w.arg("uv_wavelengths", ua); w.arg("real_space_mask", mask)
    def tr(preload): return aa.TransformerDFT(uv_wavelengths=ua, real_space_mask=mask, preload_transform=preload)
    def fin(d):
        w.done()
        if not w.ok: d["py_ok"] = False; d["detail"] = "; ".join(w.why)
        return d
    if op == "tgrid":
        t = tr(False)
        out = [(frac(y), frac(x)) for y, x in np.array(t.grid).reshape((npix, 2))]
        ok = tuple(t.shape) == (len(uv), npix) and t.total_image_pixels == npix and t.total_visibilities == len(uv)
        return fin(dict(base, coq=f"(KTGrid {Pi} {G} {ccv(out)})", out=short(out), py_ok=ok))
    if op == "tvis":
        img = Fv(inp["img"]); sc = l1f(img)
        def image(native):
            im = aa.Array2D(values=fl(img), mask=mask)
            return im.native if native else im
        t = tr(inp["preload"]); im0 = w.arg("image", image(inp["native"]))
        out = np.array(t.visibilities_from(image=im0))
        w.twice(out, lambda: np.array(t.visibilities_from(image=im0)))       # the same object evaluated twice
        # relations: preload on = off; native storage = slim storage
        others = [np.array(tr(p).visibilities_from(image=image(nat))) for p in (True, False) for nat in (True, False)]
        ok = all(close(o, out, sc) for o in others)
        return fin(dict(base, coq=f"(KTVis {Pi} {G} {U} {cbool(inp['preload'])} {cqv(img)} {ccv(cvout(out))})", out=short(out.tolist()),
                        py_ok=ok, detail=None if ok else short([o.tolist() for o in others])))
    if op == "timage":
        vis = pairs(inp["vis"])
        t = tr(inp["preload"])
        V = w.arg("visibilities", aa.Visibilities(visibilities=cplx(vis)))
        res = t.image_from(visibilities=V)
        out = np.array(res.slim)
        w.twice(out, lambda: np.array(t.image_from(visibilities=V).slim))
        ok = res.shape_native == mask.shape_native and bool(np.all(np.array(res.native)[np.array(mask)] == 0.0))
        # adjoint (dot) test: Re <V, A I> = <image_from(V), I>
        I = Fv(inp["dot_img"])
        AI = np.array(t.visibilities_from(image=aa.Array2D(values=fl(I), mask=mask)))
        lhs = float(np.sum(np.real(np.conj(cplx(vis)) * AI))); rhs = float(np.dot(out, np.array(fl(I)))) if npix else 0.0
        ok = ok and abs(lhs - rhs) <= 1e-9 * l1f([c for v in vis for c in v]) * l1f(I)
        return fin(dict(base, coq=f"(KTImage {Pi} {G} {U} {ccv(vis)} {cqv(rvout(out))})", out=short(out.tolist()), py_ok=ok,
                        detail=None if ok else short([lhs, rhs])))
    if op == "ttmm":
        P = inp["P"]; M = Fm(inp["M"]); Ma = w.arg("mapping_matrix", lay(arr2(M, P), inp.get("lay", "c")))
        cs = [l1f([r[j] for r in M]) for j in range(P)]
        t = tr(inp["preload"])
        out = t.transform_mapping_matrix(mapping_matrix=Ma)
        w.twice(out, lambda: t.transform_mapping_matrix(mapping_matrix=Ma))
        other = tr(not inp["preload"]).transform_mapping_matrix(mapping_matrix=arr2(M, P))
        ok = out.shape == (len(uv), P) and close(other, out, np.array(cs).reshape((1, P)))
        for j in range(P):     # column-wise: the operator applied to column j
            col = np.array(t.visibilities_from(image=aa.Array2D(values=arr2(M, P)[:, j], mask=mask)))
            ok = ok and close(out[:, j], col, cs[j])
        return fin(dict(base, coq=f"(KTTmm {Pi} {G} {U} {cbool(inp['preload'])} {cnat(P)} {cqm(M)} {ccm(cmout(out))})",
                        out=short(out.tolist()), py_ok=ok))
    if op == "inv":
        data = pairs(inp["data"]); noise = pairs(inp["noise"])
        t = tr(inp["preload"])
        ds = aa.DatasetInterface(data=w.arg("data", aa.Visibilities(visibilities=cplx(data))),
                                 noise_map=w.arg("noise_map", aa.VisibilitiesNoiseMap(visibilities=cplx(noise))), transformer=t)
        objs = []
        for k, o in enumerate(inp["objs"]):
            Mk = w.arg(f"mapping_matrix[{k}]", arr2(Fm(o["M"]), o["P"]))
            objs.append(aa.m.MockLinearObj(parameters=o["P"], mapping_matrix=Mk,
                                           regularization=aa.reg.Constant(coefficient=1.0) if o["reg"] else None))
        if inp["value"] == "default":
            settings = aa.SettingsInversion(use_w_tilde=False)
        else:
            settings = aa.SettingsInversion(use_w_tilde=False, no_regularization_add_to_curvature_diag_value=float(F(inp["value"])))
        value = frac(settings.no_regularization_add_to_curvature_diag_value)
        def make():
            if inp["factory"]: return aa.Inversion(dataset=ds, linear_obj_list=objs, settings=settings)
            return aa.InversionInterferometerMapping(dataset=ds, linear_obj_list=objs, settings=settings)
        inv = make()
        ok = type(inv).__name__ == "InversionInterferometerMapping"
        # order of first access varies: F before D before T, or T, D, F
        if len(data) % 2:
            Fm_ = np.array(inv.curvature_matrix); D = np.array(inv.data_vector); T = np.array(inv.operated_mapping_matrix)
        else:
            T = np.array(inv.operated_mapping_matrix); D = np.array(inv.data_vector); Fm_ = np.array(inv.curvature_matrix)
        # read again through the same object, and through a second inversion over the same transformer / objects
        inv2 = make()
        for a, b in ((T, inv.operated_mapping_matrix), (D, inv.data_vector), (Fm_, inv.curvature_matrix),
                     (D, inv2.data_vector), (Fm_, inv2.curvature_matrix), (T, inv2.operated_mapping_matrix)):
            if not same(a, np.array(b)): ok = False
        def kinv(objs_d, data_, noise_, T_, D_, F_):
            cobjs = clist([ctup([cnat(o["P"]), cqm(Fm(o["M"])), cbool(o["reg"])]) for o in objs_d])
            return (f"(KInv {Pi} {G} {U} {cbool(inp['preload'])} {cobjs} {ccv(data_)} {ccv(noise_)} {cq(value)} "
                    f"{ccm(cmout(T_))} {cqv(rvout(D_))} {cqm(rmout(F_))})")
        coq = kinv(inp["objs"], data, noise, T, D, Fm_)
        extra = []
        sib = inp.get("sibling")
        if sib:
            # a second inversion in the same interpreter through the SAME transformer object, one ingredient replaced by a
            # sibling of the same shape (rows rotated / regularization flags flipped): compared with the model independently
            objs_d = [dict(o) for o in inp["objs"]]; data2, noise2 = data, noise
            if sib == "M": objs_d = [dict(o, M=o["M"][1:] + o["M"][:1]) for o in objs_d]
            elif sib == "reg": objs_d = [dict(o, reg=not o["reg"]) for o in objs_d]
            elif sib == "data": data2 = data[1:] + data[:1] if len(set(data)) > 1 else [(a + 1, b) for a, b in data]
            else: noise2 = noise[1:] + noise[:1] if len(set(noise)) > 1 else [(a * 2, b) for a, b in noise]
            ds2 = aa.DatasetInterface(data=aa.Visibilities(visibilities=cplx(data2)),
                                      noise_map=aa.VisibilitiesNoiseMap(visibilities=cplx(noise2)), transformer=t)
            objs2 = [aa.m.MockLinearObj(parameters=o["P"], mapping_matrix=arr2(Fm(o["M"]), o["P"]),
                                        regularization=aa.reg.Constant(coefficient=1.0) if o["reg"] else None) for o in objs_d]
            inv3 = aa.InversionInterferometerMapping(dataset=ds2, linear_obj_list=objs2, settings=settings)
            extra.append(kinv(objs_d, data2, noise2, np.array(inv3.operated_mapping_matrix), np.array(inv3.data_vector),
                              np.array(inv3.curvature_matrix)))
            # and the first inversion still reads the same
            for a, b in ((D, inv.data_vector), (Fm_, inv.curvature_matrix)):
                if not same(a, np.array(b)): ok = False
        return fin(dict(base, coq=coq, extra_coq=extra, out=short([D.tolist(), Fm_.tolist()]), py_ok=ok))
    raise ValueError(op)

def run_hist(aa, inp, base):
    """interprets the recorded steps; mirrors gen_hist_one's object tables"""
    Pi = cq(PI)
    masks, mgeom, uvarrs, uvvals, trs = [], [], [], [], []
    args = {}                     # argument objects of earlier calls: step id -> (object, values, geometry)
    csteps, couts, outs = [], [], []
    w = Watch(); ok = True; why = []
    def note(cond, msg):
        nonlocal ok
        if not cond: ok = False; why.append(msg)
    ncalls = 0
    for st in inp["steps"]:
        s = st["s"]
        if s == "mask":
            g = st["geom"]
            if st.get("edit") is None:
                masks.append(mk_mask(aa, g)); mgeom.append(g)
            else:                                        # the caller edits ITS Mask2D in place (same shape, scales, origin)
                k = st["edit"]; old = mgeom[k]["m"]
                for y, row in enumerate(g["m"]):
                    for x, b in enumerate(row):
                        if old[y][x] != b: masks[k][y, x] = b
                mgeom[k] = g
                for t in trs:
                    if t["mask"] == k: t["live"] = False
        elif s == "uv":
            vals = pairs(st["uv"])
            if st.get("edit") is None:
                a = np.array(flm(vals), dtype=float).reshape((len(vals), 2))
                if st.get("dtype") == "int": a = a.astype(int)
                uvarrs.append(lay(a, st.get("lay", "c"))); uvvals.append(vals)
            else:
                k = st["edit"]; uvarrs[k][...] = np.array(flm(vals)).astype(uvarrs[k].dtype); uvvals[k] = vals
                for t in trs:
                    if t["uv"] == k: t["live"] = False
        elif s == "new":
            mk, uk = st["mask"], st["uv"]
            w.arg("uv_wavelengths", uvarrs[uk]); w.arg("real_space_mask", masks[mk])
            t = aa.TransformerDFT(uv_wavelengths=uvarrs[uk], real_space_mask=masks[mk], preload_transform=st["preload"])
            w.done()
            g = mgeom[mk]; npix = npix_of(g["m"])
            trs.append({"t": t, "mask": mk, "uv": uk, "live": True, "geom": g, "uvv": uvvals[uk], "npix": npix})
            grid = [(frac(y), frac(x)) for y, x in np.array(t.grid).reshape((npix, 2))]
            note(tuple(t.shape) == (len(uvvals[uk]), npix), "TransformerDFT.shape")
            csteps.append(f"(@HNew QOpsT {cgeom(g)} {ccv(uvvals[uk])} {cbool(st['preload'])})")
            couts.append(f"(@ONew QOpsT {ccv(grid)})"); outs.append("new")
        else:
            T = trs[st["t"]]; t = T["t"]; g = T["geom"]; ncalls += 1
            if not T["live"]: raise ValueError("history addresses a retired transformer")
            w.arg("transformer.uv_wavelengths", t.uv_wavelengths); w.arg("transformer.real_space_mask", t.real_space_mask)
            reuse = args.get(st.get("reuse"))
            if s == "vis":
                img = Fv(st["img"]); how = st["how"]
                mobj = masks[T["mask"]] if st.get("own_mask") else mk_mask(aa, g)
                if reuse is not None and reuse[2] == g and len(reuse[1]) == len(img):
                    im = reuse[0]                                                   # the same Array2D object again ...
                    if reuse[1] != img:                                             # ... edited in place by the caller
                        if np.asarray(im).ndim == 1:
                            for j, v in enumerate(fl(img)):
                                if Fraction(reuse[1][j]) != img[j]: im[j] = v
                        else:
                            for j, (y, x) in enumerate(mask_cells(g["m"])):
                                if Fraction(reuse[1][j]) != img[j]: im[y, x] = float(img[j])
                elif how == "native": im = aa.Array2D(values=fl(img), mask=mobj).native
                elif how == "store_native": im = aa.Array2D(values=fl(img), mask=mobj, store_native=True)
                elif how == "sum":                                                  # derived by arithmetic: (-img) + (2 img), exact
                    im = aa.Array2D(values=fl([-a for a in img]), mask=mobj) + aa.Array2D(values=fl([2 * a for a in img]), mask=mobj)
                elif how == "scaled":
                    c = Fraction(1, 4096); im = aa.Array2D(values=fl([a / c for a in img]), mask=mobj).native * float(c)
                else: im = aa.Array2D(values=fl(img), mask=mobj)
                note(same(np.array(im.slim), np.array(fl(img))), "harness: derived image does not carry the intended values")
                args[st.get("id")] = (im, img, g)
                w.arg("image", im)
                out = np.array(t.visibilities_from(image=im)); w.done()
                csteps.append(f"(@HVis QOpsT {cnat(st['t'])} {cqv(img)})"); couts.append(f"(@OVis QOpsT {ccv(cvout(out))})")
                outs.append(out.tolist())
            elif s == "tmm":
                P = st["P"]; M = Fm(st["M"]); how = st["how"]; a = arr2(M, P)
                if reuse is not None and reuse[0].shape == a.shape:
                    Ma = reuse[0]
                    if reuse[1] != M: Ma[...] = a                                   # in-place edit of the caller's matrix
                elif how in ("f", "view"): Ma = lay(a, how)
                else: Ma = a
                args[st.get("id")] = (Ma, M, None)
                w.arg("mapping_matrix", Ma)
                out = t.transform_mapping_matrix(mapping_matrix=Ma); w.done()
                note(out.shape == (len(T["uvv"]), P), "transform_mapping_matrix shape")
                csteps.append(f"(@HTmm QOpsT {cnat(st['t'])} {cnat(P)} {cqm(M)})"); couts.append(f"(@OTmm QOpsT {ccm(cmout(out))})")
                outs.append(out.tolist())
            elif s == "image":
                vis = pairs(st["vis"]); how = st["how"]
                if reuse is not None and len(reuse[1]) == len(vis):
                    V = reuse[0]
                    if reuse[1] != vis:
                        for j, z in enumerate(cplx(vis)): V[j] = z                  # in-place edit of the caller's Visibilities
                elif how == "sum":
                    V = aa.Visibilities(visibilities=cplx([(-a, -b) for a, b in vis])) + aa.Visibilities(visibilities=cplx([(2 * a, 2 * b) for a, b in vis]))
                else: V = aa.Visibilities(visibilities=cplx(vis))
                note(same(np.array(V.in_array), np.array(flm(vis), dtype=float).reshape((len(vis), 2))),
                     "harness: derived visibilities do not carry the intended values")
                args[st.get("id")] = (V, vis, None)
                w.arg("visibilities", V)
                res = t.image_from(visibilities=V); w.done()
                out = np.array(res.slim)
                note(res.shape_native == t.real_space_mask.shape_native and
                     bool(np.all(np.array(res.native)[np.array(t.real_space_mask)] == 0.0)), "image_from: masked entries / shape")
                csteps.append(f"(@HImage QOpsT {cnat(st['t'])} {ccv(vis)})"); couts.append(f"(@OImage QOpsT (Ok {cqv(rvout(out))}))")
                outs.append(out.tolist())
            else: raise ValueError(s)
    ok = ok and w.ok; why += w.why
    return dict(base, kind="hist", coq=f"(KHist {Pi} {clist(csteps)} {clist(couts)})", out=short(outs), py_ok=ok,
                detail=None if ok else "; ".join(why), nontrivial=len(trs) >= 2 and ncalls >= 2)
