"""C06 -- mapping matrices conserve flux and encode the claimed interpolation."""
import itertools, random
import numpy as np
from fractions import Fraction as F
from harness.common import cz, cq, cnat, cbool, clist, ctup, cres, import_aa, frac, exn_name

ID = "C06"
GEN = []
PROPS = "Props/C06.v"
COQ_CHECK = ("Model.C06", "check")
COQ_FALLBACK = ("Model.C06", "spec_ok")
COQ_IMPORTS = ""
SHARD = 45
MARGIN = F(1, 10 ** 9)
TOL = F(1, 10 ** 9)
BUF_DEFAULT = F(1e-8)        # exact rational value of the double 1e-8 (overlay_grid's default buffer)
RULE = ("masks up to 6x6 with 1..10 unmasked pixels (densities 0.15-0.9, single pixels, full frames, last-column pixels), per-pixel "
        "sub-size maps drawn from {1,2,4} (exact streams) or {1,2,3,4} (tolerance streams), source-plane points = sub-pixel centres "
        "pushed through a random dyadic affine + quadratic distortion and 1/16 jitter; (a) rectangular meshes 3x3..6x7 (non-square "
        "included) laid over them with a dyadic buffer and power-of-two cell sizes so that every double operation is exact and points "
        "sit exactly on cell boundaries, through Mesh2DRectangular.overlay_grid + MapperGrids + aa.Mapper; (b) the public pipeline "
        "aa.mesh.Rectangular(shape).mapper_grids_from (default buffer 1e-8, arbitrary extents, tolerance 1e-9, cases with a point within "
        "1e-9 cell widths of a cell boundary are skipped and counted); (c) Delaunay meshes of 5..12 dyadic vertices in general position "
        "(collinear / cocircular draws rejected exactly) with data points inside, on edges of and outside the hull, through "
        "aa.mesh.Delaunay().mapper_grids_from + aa.Mapper; each mapper is observed at pix_sub_weights, mapping_matrix, unique_mappings and "
        "neighbors; (d) util-level mapping_matrix_from / data_slim_to_pixelization_unique_from on arbitrary index/weight arrays "
        "(repeated source pixels, signed weights, zero sizes, out-of-range indices); (e) slim_for_sub_slim for masks x sub-size maps; "
        "(f) rectangular_neighbors_from for every shape 2..9 x 2..9 (quick) / 2..16 (thorough) via the util and Mesh2DRectangular.neighbors. "
        "Non-trivial = more than one source pixel receives flux; distinct = distinct JSON input.")
EXHAUSTIVE = {"quick": "rectangular neighbour arrays: every mesh shape H, W in 2..9",
              "thorough": "rectangular neighbour arrays: every mesh shape H, W in 2..16"}
TRUSTED = ["hand-written Gallina model coq/Model/C06.v, tied to /repo by this correspondence run (comparison evaluated inside Coq by vm_compute, "
           "exact on the dyadic streams, |diff| <= 1e-9 where a division by 3/5/... or by a triangle area is involved)",
           "scipy.spatial.Delaunay (qhull) is an oracle: simplices / find_simplex / vertex_neighbor_vertices are inputs of the model; their contract "
           "(reported simplex contains the point, -1 only outside every simplex, non-degenerate simplices, neighbour lists = edges of the simplices) "
           "is re-checked in exact rational arithmetic inside Coq (oracle_ok, neighbors_spec) on every Delaunay case",
           "numpy element-wise arithmetic, np.min/np.max/np.argmin, integer indexing (negative indices wrap)",
           "python int() = truncation toward zero (NumOps.trunc)"]
ASSUMPTIONS = ["real arithmetic (no rounding): theorems over R; correspondence on exactly representable inputs or under tolerance 1e-9 with every "
               "cell-boundary decision at a margin >= 1e-9 cell widths",
               "Voronoi natural-neighbour weights are out of scope (external C library absent)",
               "the Delaunay triangulation itself (which triangles qhull builds) is not verified, only its contract on each case"]

SKIPPED = {"in_band": 0}
TALLY = {"rect_points": 0, "rect_points_exactly_on_a_cell_boundary": 0, "rect_points_in_last_row_or_column": 0,
         "del_points": 0, "del_points_outside_hull": 0, "del_points_on_an_edge_or_vertex": 0, "float_sub_size_cases": 0,
         "non_square_meshes": 0, "sub_sizes": {}}
def extra_evidence():
    return {"skipped_in_decision_band": SKIPPED["in_band"], "decision_margin": "1e-9 cell widths", "distribution": TALLY}

# ----------------------------------------------------------------------------- printing
def cnl(v): return clist([cnat(x) for x in v])
def czl(v): return clist([cz(x) for x in v])
def czm(M): return clist([czl(r) for r in M])
def cqv(v): return clist([cq(x) for x in v])
def cqm(M): return clist([cqv(r) for r in M])
def cmask(m): return clist([clist([cbool(b) for b in r]) for r in m])
def cpts(g): return clist([ctup([cq(p[0]), cq(p[1])]) for p in g])
def cuq(u): return ctup([czm(u[0]), cqm(u[1]), cnl(u[2])])
def cpsw(p): return ctup([czm(p[0]), cnl(p[1]), cqm(p[2])])
def cnb(n): return ctup([czm(n[0]), czl(n[1])])
def S(x): return str(F(x))
def fm(M): return [[frac(x) for x in r] for r in np.asarray(M)]
def im(M): return [[int(x) for x in r] for r in np.asarray(M)]

# ----------------------------------------------------------------------------- generators
def rand_mask(rng, maxn):
    for _ in range(100):
        H, W = rng.randint(1, 6), rng.randint(1, 6)
        style = rng.choice(["random", "random", "random", "single", "full", "lastcol"])
        m = [[True] * W for _ in range(H)]
        if style == "single": m[rng.randrange(H)][rng.randrange(W)] = False
        elif style == "full": m = [[False] * W for _ in range(H)]
        elif style == "lastcol":
            for y in range(H):
                if rng.random() < 0.7: m[y][W - 1] = False
            m[rng.randrange(H)][rng.randrange(W)] = False
        else:
            p = rng.choice([0.15, 0.3, 0.5, 0.7, 0.9])
            for y in range(H):
                for x in range(W):
                    if rng.random() < p: m[y][x] = False
        n = sum(1 for r in m for b in r if not b)
        if 1 <= n <= maxn: return m
    return [[False]]

def sub_centres(m, subs):
    """sub-pixel centres (y, x) of the unmasked pixels, row-major pixels, row-major sub-pixels, pixel scale 1, origin 0"""
    H, W = len(m), len(m[0]); out = []; k = 0
    for y in range(H):
        for x in range(W):
            if m[y][x]: continue
            s = subs[k]; k += 1
            yc, xc = F(H - 1, 2) - y, x - F(W - 1, 2)
            for y1 in range(s):
                for x1 in range(s):
                    out.append((yc + F(1, 2) - F(2 * y1 + 1, 2 * s), xc - F(1, 2) + F(2 * x1 + 1, 2 * s)))
    return out

def snap(v, d=16): return F(round(v * d), d)

def distort(rng, pts):
    a, b, c, d = [F(rng.randint(-8, 8), 4) for _ in range(4)]
    if a * d - b * c == 0: a += 1
    q1, q2 = F(rng.randint(-2, 2), 8), F(rng.randint(-2, 2), 8)
    ty, tx = F(rng.randint(-12, 12), 4), F(rng.randint(-12, 12), 4)
    out = []
    for (y, x) in pts:
        yy = a * y + b * x + q1 * x * x + ty + F(rng.randint(-2, 2), 16)
        xx = c * y + d * x + q2 * y * y + tx + F(rng.randint(-2, 2), 16)
        out.append((snap(yy), snap(xx)))
    return out

def fit_extent(rng, vals, n):
    """move the extreme values so that (max - min + 2 b) / n is a power of two (b dyadic): returns (vals, b)"""
    b = rng.choice([F(1, 16), F(1, 8), F(1, 4), F(1, 2)])
    lo, hi = min(vals), max(vals)
    s = F(1, 8)
    while n * s - 2 * b < hi - lo or n * s - 2 * b <= 0: s *= 2
    target = n * s - 2 * b
    i = vals.index(hi)
    vals = list(vals); vals[i] = lo + target
    if len(vals) == 1 or lo + target == lo:      # single point: the extent is 0, so (2b)/n must be dyadic
        return None
    return vals, b

def gen_rect(rng, mode, maxn):
    m = rand_mask(rng, maxn)
    n = sum(1 for r in m for b in r if not b)
    subs = [rng.choice([1, 2, 4] if mode == "exact" else [1, 2, 3, 4]) for _ in range(n)]
    if rng.random() < 0.3: subs = [rng.choice([1, 2])] * n
    while sum(s * s for s in subs) > 60: subs[subs.index(max(subs))] = 1
    pts = distort(rng, sub_centres(m, subs))
    shape = rng.choice([(3, 3), (3, 4), (4, 3), (3, 5), (5, 3), (4, 4), (4, 6), (6, 4), (5, 5), (3, 7), (6, 7)])
    if mode == "exact":
        if len(pts) < 2: return None
        ys, xs = [p[0] for p in pts], [p[1] for p in pts]
        if min(ys) == max(ys) or min(xs) == max(xs): return None
        # the same dyadic buffer on both axes (overlay_grid has one buffer): fit y with b, then x with the same b
        b = rng.choice([F(1, 16), F(1, 8), F(1, 4), F(1, 2)])
        def fit(vals, nn):
            lo, hi = min(vals), max(vals); s = F(1, 8)
            while nn * s - 2 * b < hi - lo: s *= 2
            vals = list(vals); vals[vals.index(hi)] = lo + nn * s - 2 * b
            return vals
        ys, xs = fit(ys, shape[0]), fit(xs, shape[1])
        pts = list(zip(ys, xs))
        buf = b
    else:
        # degenerate extents (a single point, all points on one line) are kept: the mesh is then 2e-8 wide on that axis
        buf = BUF_DEFAULT
    return {"op": "rect", "mode": mode, "m": m, "subs": subs, "grid": [[S(p[0]), S(p[1])] for p in pts],
            "shape": list(shape), "buffer": S(buf), "fsub": rng.random() < 0.3}

def cross(a, b, c): return (b[0] - a[0]) * (c[1] - a[1]) - (b[1] - a[1]) * (c[0] - a[0])
def incircle(a, b, c, d):
    rows = [(p[0] - d[0], p[1] - d[1], (p[0] - d[0]) ** 2 + (p[1] - d[1]) ** 2) for p in (a, b, c)]
    (a1, a2, a3), (b1, b2, b3), (c1, c2, c3) = rows
    return a1 * (b2 * c3 - b3 * c2) - a2 * (b1 * c3 - b3 * c1) + a3 * (b1 * c2 - b2 * c1)

def general_position(P):
    if len(set(P)) != len(P): return False
    for a, b, c in itertools.combinations(P, 3):
        if cross(a, b, c) == 0: return False
    for a, b, c, d in itertools.combinations(P, 4):
        if incircle(a, b, c, d) == 0: return False
    return True

def gen_del(rng, maxn):
    m = rand_mask(rng, maxn)
    n = sum(1 for r in m for b in r if not b)
    subs = [rng.choice([1, 2, 4, 3]) for _ in range(n)]
    if rng.random() < 0.3: subs = [rng.choice([1, 2])] * n
    while sum(s * s for s in subs) > 50: subs[subs.index(max(subs))] = 1
    pts = distort(rng, sub_centres(m, subs))
    ys, xs = [p[0] for p in pts], [p[1] for p in pts]
    ylo, yhi, xlo, xhi = min(ys), max(ys), min(xs), max(xs)
    k = rng.randint(5, 12)
    for _ in range(200):
        # vertices on a 1/4 lattice in a box that is sometimes smaller than the data (points outside the hull)
        sh = rng.choice([F(-1), F(0), F(1), F(2)])
        V = [(snap(F(rng.randint(int((ylo - sh) * 4), max(int((ylo - sh) * 4) + 8, int((yhi + sh) * 4))), 4), 4),
              snap(F(rng.randint(int((xlo - sh) * 4), max(int((xlo - sh) * 4) + 8, int((xhi + sh) * 4))), 4), 4)) for _ in range(k)]
        if rng.random() < 0.3 and pts: V[0] = pts[rng.randrange(len(pts))]          # a data point sitting on a vertex
        if general_position(V):
            return {"op": "del", "m": m, "subs": subs, "grid": [[S(p[0]), S(p[1])] for p in pts],
                    "points": [[S(p[0]), S(p[1])] for p in V], "fsub": rng.random() < 0.3}
    return None

def gen_matrix(rng):
    Sn, P, N = rng.randint(1, 10), rng.randint(1, 6), rng.randint(1, 5)
    width = rng.randint(1, 3)
    bad = rng.random() < 0.12
    sizes = [rng.randint(0, width) for _ in range(Sn)]
    def idx():
        if bad and rng.random() < 0.3: return rng.choice([-1, -P, P, -P - 1, P + 2])
        return rng.randrange(P)
    mp = [[idx() if k < sizes[s] else -1 for k in range(width)] for s in range(Sn)]
    wt = [[S(F(rng.randint(-8, 8), 4)) if k < sizes[s] else "0" for k in range(width)] for s in range(Sn)]
    sfs = sorted(rng.randrange(N) for _ in range(Sn)) if rng.random() < 0.7 else [rng.randrange(N) for _ in range(Sn)]
    if bad and rng.random() < 0.3: sfs[rng.randrange(Sn)] = N
    fr = [S(rng.choice([F(1), F(1, 4), F(1, 16), F(1, 2), F(3, 4)])) for _ in range(N)]
    return {"op": "matrix", "mp": mp, "sz": sizes, "wt": wt, "P": P, "N": N, "sfs": sfs, "fr": fr}

def gen_unique(rng):
    n = rng.randint(1, 4)
    subs = [rng.choice([1, 2, 2, 4]) for _ in range(n)]
    while sum(s * s for s in subs) > 24: subs[subs.index(max(subs))] = 1
    Sn = sum(s * s for s in subs); P = rng.randint(1, 6); width = rng.randint(1, 3)
    bad = rng.random() < 0.1
    sizes = [rng.randint(0, width) for _ in range(Sn)]
    def idx():
        if bad and rng.random() < 0.3: return rng.choice([-1, -P, P, -P - 1])
        return rng.randrange(P)
    mp = [[idx() if k < sizes[s] else -1 for k in range(width)] for s in range(Sn)]
    wt = [[S(F(rng.randint(-8, 8), 4)) if k < sizes[s] else "0" for k in range(width)] for s in range(Sn)]
    return {"op": "unique", "mp": mp, "sz": sizes, "wt": wt, "P": P, "subs": subs}

def gen_inputs(tier, rng):
    big = tier == "thorough"
    top = 16 if big else 9
    for H in range(2, top + 1):
        for W in range(2, top + 1):
            yield {"op": "rectnb", "H": H, "W": W, "via": "util" if (H + W) % 2 else "mesh"}
    for _ in range(300 if big else 40):
        m = rand_mask(rng, 12)
        n = sum(1 for r in m for b in r if not b)
        via = rng.choice(["util", "sampler", "sampler_float", "radial_bins"])
        if via == "radial_bins":
            ssl, rad = rng.choice([([4, 2, 1], ["3/4", "7/4", "10"]), ([3, 1], ["5/4", "10"]), ([2, 4, 1], ["1/2", "2", "10"])])
            yield {"op": "sfs", "m": m, "subs": None, "via": via, "sub_size_list": ssl, "radial": rad}
        else:
            yield {"op": "sfs", "m": m, "subs": [rng.choice([1, 2, 3, 4]) for _ in range(n)], "via": via}
    for _ in range(2500 if big else 150): yield gen_matrix(rng)
    for _ in range(2500 if big else 150): yield gen_unique(rng)
    nmap = 500 if big else 45
    maxn = 10 if big else 7
    for i in range(nmap):
        for g in (gen_rect(rng, "exact", maxn), gen_rect(rng, "public", maxn), gen_del(rng, maxn)):
            if g is not None: yield g

# ----------------------------------------------------------------------------- running
def build_common(aa, inp):
    m = inp["m"]; subs = inp["subs"]
    grid = [(F(p[0]), F(p[1])) for p in inp["grid"]]
    mask = aa.Mask2D(mask=np.array(m, dtype=bool), pixel_scales=1.0)
    # "fsub": the sub-size map is stored as floats, which is what OverSamplingUniform.from_radial_bins / from_adaptive_scheme produce
    ss = aa.Array2D(values=[float(s) if inp.get("fsub") else int(s) for s in subs], mask=mask)
    osr = aa.OverSamplerUniform(mask=mask, sub_size=ss)
    assert osr.sub_total == len(grid) and len(osr.over_sampled_grid) == len(grid)
    src = aa.Grid2DIrregular(values=[[float(p[0]), float(p[1])] for p in grid])
    return m, subs, grid, mask, osr, src

def observe(mapper):
    psw = mapper.pix_sub_weights
    psw_o = (im(psw.mappings), [int(x) for x in psw.sizes], fm(psw.weights))
    M = fm(mapper.mapping_matrix)
    um = mapper.unique_mappings
    uq = (im(um.data_to_pix_unique), fm(um.data_weights), [int(x) for x in um.pix_lengths])
    nb = mapper.neighbors
    nb_o = (im(np.asarray(nb)), [int(x) for x in nb.sizes])
    return psw_o, M, uq, nb_o

def describe(psw, M):
    return {"mappings": psw[0][:6], "sizes": psw[1][:6], "weights": [[str(x) for x in r] for r in psw[2][:6]],
            "mapping_matrix": [[str(x) for x in r] for r in M[:4]]}

def run_case(inp):
    aa = import_aa()
    op = inp["op"]
    if op == "rectnb":
        H, W = inp["H"], inp["W"]
        if inp["via"] == "util":
            arr, sizes = aa.util.mesh.rectangular_neighbors_from(shape_native=(H, W))
        else:
            mesh = aa.Mesh2DRectangular.overlay_grid(shape_native=(H, W), grid=np.array([[0.0, 0.0], [1.0, 2.0]]))
            arr, sizes = np.asarray(mesh.neighbors), mesh.neighbors.sizes
        out = (im(arr), [int(x) for x in sizes])
        return {"coq": f"(KRectNb {cz(H)} {cz(W)} {cnb(out)})", "out": {"sizes": out[1][:12]}, "py_ok": None,
                "nontrivial": True, "kind": "rectnb"}
    if op == "sfs":
        m, subs = inp["m"], inp["subs"]
        from autoarray.operators.over_sampling import over_sample_util
        if inp["via"] == "util":
            r = over_sample_util.slim_index_for_sub_slim_index_via_mask_2d_from(mask_2d=np.array(m, dtype=bool), sub_size=np.array(subs))
        elif inp["via"] == "radial_bins":
            # the library's own adaptive constructor (it yields a float-valued sub-size map); which pixel gets which sub-size is
            # C09's subject: here the map is read back and only the sub-pixel -> pixel index map is checked
            mask = aa.Mask2D(mask=np.array(m, dtype=bool), pixel_scales=1.0)
            grid = aa.Grid2D.from_mask(mask=mask)
            osg = aa.OverSamplingUniform.from_radial_bins(grid=grid, sub_size_list=inp["sub_size_list"],
                                                          radial_list=[float(F(x)) for x in inp["radial"]])
            osr = osg.over_sampler_from(mask=mask)
            subs = [int(x) for x in np.array(osr.sub_size)]
            r = osr.slim_for_sub_slim
        else:
            mask = aa.Mask2D(mask=np.array(m, dtype=bool), pixel_scales=1.0)
            vals = [float(x) for x in subs] if inp["via"] == "sampler_float" else subs
            r = aa.OverSamplerUniform(mask=mask, sub_size=aa.Array2D(values=vals, mask=mask)).slim_for_sub_slim
        out = [int(x) for x in r]
        return {"coq": f"(KSlimForSub {cmask(m)} {cnl(subs)} {cnl(out)})", "out": out[:40], "py_ok": None,
                "nontrivial": len(subs) > 1, "kind": "sfs:" + inp["via"]}
    if op == "matrix":
        mp, sz, wt = inp["mp"], inp["sz"], [[F(x) for x in r] for r in inp["wt"]]
        fr = [F(x) for x in inp["fr"]]
        try:
            r = aa.util.mapper.mapping_matrix_from(
                pix_indexes_for_sub_slim_index=np.array(mp, dtype=int), pix_size_for_sub_slim_index=np.array(sz, dtype=int),
                pix_weights_for_sub_slim_index=np.array([[float(x) for x in r] for r in wt]), pixels=inp["P"],
                total_mask_pixels=inp["N"], slim_index_for_sub_slim_index=np.array(inp["sfs"], dtype=int),
                sub_fraction=np.array([float(x) for x in fr]))
            out = ("ok", fm(r))
        except Exception as e:
            out = ("raise", exn_name(e))
        coq = (f"(KMatrix {czm(mp)} {cnl(sz)} {cqm(wt)} {cnat(inp['P'])} {cnat(inp['N'])} {cnl(inp['sfs'])} {cqv(fr)} "
               + cres(out, cqm) + ")")
        return {"coq": coq, "out": str(out)[:300], "py_ok": None, "nontrivial": out[0] == "ok" and sum(sz) > 1, "kind": "matrix:" + out[0]}
    if op == "unique":
        mp, sz, wt = inp["mp"], inp["sz"], [[F(x) for x in r] for r in inp["wt"]]
        subs = inp["subs"]
        try:
            a, b, c = aa.util.mapper.data_slim_to_pixelization_unique_from(
                data_pixels=len(subs), pix_indexes_for_sub_slim_index=np.array(mp, dtype=int),
                pix_sizes_for_sub_slim_index=np.array(sz, dtype=int),
                pix_weights_for_sub_slim_index=np.array([[float(x) for x in r] for r in wt]), pix_pixels=inp["P"],
                sub_size=np.array(subs, dtype=int))
            out = ("ok", (im(a), fm(b), [int(x) for x in c]))
        except Exception as e:
            out = ("raise", exn_name(e))
        coq = f"(KUnique {czm(mp)} {cnl(sz)} {cqm(wt)} {cnat(inp['P'])} {cnl(subs)} " + cres(out, cuq) + ")"
        return {"coq": coq, "out": str(out)[:300], "py_ok": None, "nontrivial": out[0] == "ok" and sum(sz) > 1, "kind": "unique:" + out[0]}
    if op == "rect":
        m, subs, grid, mask, osr, src = build_common(aa, inp)
        shape = tuple(inp["shape"]); buf = F(inp["buffer"])
        exact = inp["mode"] == "exact"
        if not exact:
            # every cell-boundary decision must be at a margin (exact rational computation of the position in cell units)
            ys, xs = [p[0] for p in grid], [p[1] for p in grid]
            top, left = max(ys) + buf, min(xs) - buf
            h, w = (max(ys) - min(ys) + 2 * buf) / shape[0], (max(xs) - min(xs) + 2 * buf) / shape[1]
            for (y, x) in grid:
                for u in ((top - y) / h, (x - left) / w):
                    if abs(u - round(u)) < MARGIN:
                        SKIPPED["in_band"] += 1
                        return {"coq": None, "out": "skipped: a point within the decision band of a cell boundary", "py_ok": None,
                                "nontrivial": False, "kind": "rect:skipped_in_band"}
        if exact:
            mesh = aa.Mesh2DRectangular.overlay_grid(shape_native=shape, grid=np.array(src), buffer=float(buf))
            mg = aa.MapperGrids(mask=mask, source_plane_data_grid=src, source_plane_mesh_grid=mesh)
        else:
            mg = aa.mesh.Rectangular(shape=shape).mapper_grids_from(mask=mask, source_plane_data_grid=src)
        mapper = aa.Mapper(mapper_grids=mg, over_sampler=osr, regularization=None)
        mesh = mg.source_plane_mesh_grid
        mesh_o = [frac(mesh.pixel_scales[0]), frac(mesh.pixel_scales[1]), frac(mesh.origin[0]), frac(mesh.origin[1])]
        psw, M, uq, nb = observe(mapper)
        TALLY["rect_points"] += len(grid); TALLY["non_square_meshes"] += shape[0] != shape[1]
        TALLY["float_sub_size_cases"] += bool(inp.get("fsub"))
        for sv in subs: TALLY["sub_sizes"][str(sv)] = TALLY["sub_sizes"].get(str(sv), 0) + 1
        ys, xs = [p[0] for p in grid], [p[1] for p in grid]
        h_, w_ = (max(ys) - min(ys) + 2 * buf) / shape[0], (max(xs) - min(xs) + 2 * buf) / shape[1]
        for (y, x) in grid:
            u, v = (max(ys) + buf - y) / h_, (x - min(xs) + buf) / w_
            TALLY["rect_points_exactly_on_a_cell_boundary"] += (u.denominator == 1 or v.denominator == 1)
            TALLY["rect_points_in_last_row_or_column"] += (u >= shape[0] - 1 or v >= shape[1] - 1)
        tol = F(0) if exact else TOL
        coq = (f"(KRect {cq(tol)} {cmask(m)} {cnl(subs)} {cpts(grid)} ({cz(shape[0])}, {cz(shape[1])}) {cq(buf)} "
               f"{ctup([cq(x) for x in mesh_o])} {cpsw(psw)} {cqm(M)} {cuq(uq)} {cnb(nb)})")
        used = len({r[0] for r in psw[0]})
        return {"coq": coq, "out": describe(psw, M), "py_ok": None, "nontrivial": used > 1,
                "kind": "rect:" + inp["mode"] + (":float_sub_size" if inp.get("fsub") else "")}
    if op == "del":
        m, subs, grid, mask, osr, src = build_common(aa, inp)
        V = [(F(p[0]), F(p[1])) for p in inp["points"]]
        mg = aa.mesh.Delaunay().mapper_grids_from(
            mask=mask, source_plane_data_grid=src,
            source_plane_mesh_grid=aa.Grid2DIrregular(values=[[float(p[0]), float(p[1])] for p in V]))
        mapper = aa.Mapper(mapper_grids=mg, over_sampler=osr, regularization=None)
        dl = mapper.delaunay
        simplices = im(dl.simplices)
        simplex_for = [int(x) for x in dl.find_simplex(np.array(src))]
        indptr, indices = dl.vertex_neighbor_vertices
        psw, M, uq, nb = observe(mapper)
        coq = (f"(KDel {cq(TOL)} {cmask(m)} {cnl(subs)} {cpts(grid)} {cpts(V)} {czm(simplices)} {czl(simplex_for)} "
               f"{czl([int(x) for x in indptr])} {czl([int(x) for x in indices])} {cpsw(psw)} {cqm(M)} {cuq(uq)} {cnb(nb)})")
        TALLY["del_points"] += len(grid); TALLY["del_points_outside_hull"] += sum(1 for t in simplex_for if t == -1)
        TALLY["del_points_on_an_edge_or_vertex"] += sum(1 for r, n in zip(psw[2], psw[1]) if n == 3 and any(x == 0 for x in r))
        TALLY["float_sub_size_cases"] += bool(inp.get("fsub"))
        kinds = ("outside" if -1 in simplex_for else "") + ("inside" if any(s >= 0 for s in simplex_for) else "")
        return {"coq": coq, "out": describe(psw, M), "py_ok": None, "nontrivial": len(grid) > 1,
                "kind": "del:" + kinds + (":float_sub_size" if inp.get("fsub") else "")}
    raise ValueError(op)
