From Coq Require Import ZArith List Bool.
From PAV Require Import Base.Res Model.C14 Proofs.C14.
Theorem C14_stub : True. Proof. exact I. Qed.
Print Assumptions C14_stub.
