(* C14 (part g) -- output geometry of the zoom routines, windows with an explicit origin, dataset state.
   Executable Gallina only, no proofs:
     (a) MODEL of Mask2D.mask_centre (grid_2d_util.grid_2d_centre_from of the unmasked grid), Mask2D.zoom_centre
         (geometry_util.grid_pixels_2d_slim_from, np.max / np.min), zoom_offset_pixels, zoom_offset_scaled,
         zoom_shape_native, zoom_mask_unmasked, the mask (shape, pixel scales, origin) of Array2D.zoomed_around_mask,
         and of Imaging.apply_mask's choice of the unmasked dataset (`self` when its mask is all False, else
         `self.unmasked`);
     (b) SPECIFICATION: the window of the pad-extended array with a given corner, the coordinate of the point with a
         given DOUBLED pixel index (centres of even-sized boxes fall between pixels), the unmasked bounding box. *)
From Coq Require Import ZArith QArith List Bool Lia.
From PAV Require Import Base.Res Base.Check Base.NumOps Model.C14.
Import ListNotations.
Local Open Scope Z_scope.

(* ------------------------------------------------------------------ SPEC: windows *)
(* the r0 x r1 window, top-left corner (y0, x0), of the array extended by [pad] in all directions *)
Definition window_spec {A} (pad : A) (a : list (list A)) (y0 x0 r0 r1 : Z) : list (list A) :=
  tab2 (Z.to_nat r0) (Z.to_nat r1) (fun i j => ext_get pad a (y0 + Z.of_nat i) (x0 + Z.of_nat j)).

(* ------------------------------------------------------------------ MODEL: centres, offsets (NumOps) *)
Section Geo.
  Context {O : NumOps}.
  Local Notation T := (T O).

  (* np.max / np.min of a non-empty column: running maximum / minimum *)
  Definition tmax (a b : T) : T := if leb O a b then b else a.
  Definition tmin (a b : T) : T := if leb O a b then a else b.
  Definition maxl (d : T) (l : list T) : T := fold_left tmax l d.
  Definition minl (d : T) (l : list T) : T := fold_left tmin l d.

  (* grid_2d_util.grid_2d_centre_from: ((max y + min y) / 2, (max x + min x) / 2); np.max of an empty array raises *)
  Definition grid_centre (gr : list (T * T)) : res (T * T) :=
    match gr with
    | [] => Raise OtherException
    | p :: t =>
        Ok (div O (add O (maxl (fst p) (map fst t)) (minl (fst p) (map fst t))) two,
            div O (add O (maxl (snd p) (map snd t)) (minl (snd p) (map snd t))) two)
    end.

  (* Mask2D.mask_centre *)
  Definition mask_centre (m : list (list bool)) (g : geom) : res (T * T) := grid_centre (grid_slim_via_mask m g).

  (* geometry_util.grid_pixels_2d_slim_from: ((-y / sy) + centre_y + 0.5, (x / sx) + centre_x + 0.5) *)
  Definition grid_pixels (H W : Z) (g : geom) (gr : list (T * T)) : list (T * T) :=
    let '(sy, sx, oy, ox) := g in
    let c := central_scaled H W g in
    map (fun p => (add O (add O (div O (opp O (fst p)) sy) (fst c)) half,
                   add O (add O (div O (snd p) sx) (snd c)) half)) gr.

  (* Mask2D.zoom_centre: ((max + min - 1) / 2 per axis of the pixel-value grid of the unmasked pixels *)
  Definition zoom_centre (m : list (list bool)) (g : geom) : res (T * T) :=
    match grid_pixels (nrows m) (ncols m) g (grid_slim_via_mask m g) with
    | [] => Raise OtherException
    | p :: t =>
        Ok (div O (sub O (add O (maxl (fst p) (map fst t)) (minl (fst p) (map fst t))) one) two,
            div O (sub O (add O (maxl (snd p) (map snd t)) (minl (snd p) (map snd t))) one) two)
    end.

  (* Geometry2D.central_pixel_coordinates *)
  Definition central_pixel (H W : Z) : T * T := (div O (ofZ O (H - 1)) two, div O (ofZ O (W - 1)) two).

  (* Mask2D.zoom_offset_pixels (pixel scales given) *)
  Definition zoom_offset_pixels (m : list (list bool)) (g : geom) : res (T * T) :=
    bind (zoom_centre m g) (fun zc =>
    let c := central_pixel (nrows m) (ncols m) in Ok (sub O (fst zc) (fst c), sub O (snd zc) (snd c))).

  (* Mask2D.zoom_offset_scaled *)
  Definition zoom_offset_scaled (m : list (list bool)) (g : geom) : res (T * T) :=
    let '(sy, sx, oy, ox) := g in
    bind (zoom_offset_pixels m g) (fun op => Ok (mul O (opp O sy) (fst op), mul O sx (snd op))).

  (* Mask2D.zoom_shape_native *)
  Definition zoom_shape_native (m : list (list bool)) : res (Z * Z) :=
    bind (zoom_region m) (fun '(y0, y1, x0, x1) => Ok (y1 - y0, x1 - x0)).

  (* Mask2D.zoom_mask_unmasked: (shape_native, (pixel scales, origin)) of the all-False mask *)
  Definition zoom_mask_unmasked (m : list (list bool)) (g : geom) : res ((Z * Z) * geom) :=
    let '(sy, sx, oy, ox) := g in
    bind (zoom_shape_native m) (fun sh =>
    bind (zoom_offset_scaled m g) (fun os => Ok (sh, (sy, sx, add O oy (fst os), add O ox (snd os))))).

  (* Array2D.zoomed_around_mask: (shape_native, (pixel scales, origin)) of the result's mask; the extraction comes
     first (np.zeros raises on a negative shape), then Mask2D.all_false(..., origin=self.mask.mask_centre) *)
  Definition zoomed_geometry (m : list (list bool)) (g : geom) (buffer : Z) : res ((Z * Z) * geom) :=
    let '(sy, sx, oy, ox) := g in
    bind (zoom_region m) (fun '(y0, y1, x0, x1) =>
    let h := (y1 + buffer) - (y0 - buffer) in let w := (x1 + buffer) - (x0 - buffer) in
    if (h <? 0) || (w <? 0) then Raise OtherException else
    bind (mask_centre m g) (fun c => Ok ((h, w), (sy, sx, fst c, snd c)))).

  (* SPEC: scaled coordinate of the point whose DOUBLED pixel index is (ty, tx) in an H x W frame, i.e. of the point
     (ty / 2, tx / 2): pixel centres have even doubled indices, the centre of an even-sized box an odd one *)
  Definition point_spec2 (H W : Z) (g : geom) (ty tx : Z) : T * T :=
    let '(sy, sx, oy, ox) := g in
    (add O oy (mul O (sub O (div O (ofZ O (H - 1)) two) (div O (ofZ O ty) two)) sy),
     add O ox (mul O (sub O (div O (ofZ O tx) two) (div O (ofZ O (W - 1)) two)) sx)).
End Geo.

(* ------------------------------------------------------------------ SPEC: the unmasked bounding box *)
(* (imin, imax, jmin, jmax) is the bounding box of the unmasked pixels: attained and bounding *)
Definition is_bbox (m : list (list bool)) (imin imax jmin jmax : Z) : Prop :=
  (exists x, In (imin, x) (unmasked_coords m)) /\ (exists x, In (imax, x) (unmasked_coords m)) /\
  (exists y, In (y, jmin) (unmasked_coords m)) /\ (exists y, In (y, jmax) (unmasked_coords m)) /\
  forall p, In p (unmasked_coords m) -> imin <= fst p <= imax /\ jmin <= snd p <= jmax.
(* executable form used by the correspondence check *)
Definition bbox (m : list (list bool)) : option (Z * Z * Z * Z) :=
  match unmasked_coords m with
  | [] => None
  | p :: t => Some (zmin_list (fst p) (map fst t), zmax_list (fst p) (map fst t),
                    zmin_list (snd p) (map snd t), zmax_list (snd p) (map snd t))
  end.

(* ------------------------------------------------------------------ MODEL: which data does apply_mask mask? *)
(* an Imaging dataset as far as apply_mask is concerned: (data, noise map) and the `unmasked` attribute *)
Definition dset (A : Type) := (arr2d A * arr2d A * option (list (list A) * list (list A)))%type.
(* Mask2D.is_all_false *)
Definition all_false (m : list (list bool)) : bool := forallb (fun row => forallb negb row) m.

(* Imaging(data, noise_map, psf): a dataset built by the user from unmasked arrays *)
Definition dset_new {A} (data noise : list (list A)) : dset A :=
  ((data, map (map (fun _ => false)) data), (noise, map (map (fun _ => false)) noise), None).

(* Imaging.apply_mask: `unmasked_dataset = self if self.data.mask.is_all_false else self.unmasked`, the mask is
   applied to ITS native data and noise map (Imaging.__init__ with pad_for_convolver=True), and the result remembers it *)
Definition dset_apply_mask {A} (zero : A) (s : dset A) (mask : list (list bool)) (psf : option (Z * Z)) : res (dset A) :=
  let '(d, n, unm) := s in
  let src := if all_false (snd d) then Some (fst d, fst n) else unm in
  match src with
  | None => Raise OtherException                  (* AttributeError: 'NoneType' object has no attribute 'data' *)
  | Some (dat, noi) =>
      bind (imaging_apply_mask zero dat noi mask psf) (fun '(d', n') => Ok (d', n', Some (dat, noi)))
  end.
(* AbstractDataset.trimmed_after_convolution_from keeps `unmasked` (copy.copy) *)
Definition dset_trimmed {A} (zero : A) (s : dset A) (k : Z * Z) : res (dset A) :=
  let '(d, n, unm) := s in bind (dataset_trimmed zero (d, n) k) (fun '(d', n') => Ok (d', n', unm)).

(* ------------------------------------------------------------------ MODEL: Grid2D.padded_grid_from *)
(* Mask2D.all_false(shape_native=(h, w)) *)
Definition all_false_mask (h w : Z) : list (list bool) := tab2 (Z.to_nat h) (Z.to_nat w) (fun _ _ => false).
(* Grid2D.padded_grid_from(kernel_shape_native) of a grid on an H x W frame: the grid of the all-False mask of shape
   (H + k0 - 1, W + k1 - 1) with the frame's pixel scales and origin (Grid2D.from_mask) *)
Definition padded_grid_from {O : NumOps} (H W : Z) (k : Z * Z) (g : @geom O) : list (T O * T O) :=
  grid_slim_via_mask (all_false_mask (H + fst k - 1) (W + snd k - 1)) g.
