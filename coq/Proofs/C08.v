(* C08 -- lemmas.  Part 1: list glue (any element type).  Part 2: masked-native mode reduces to
   slim mode on the selected values, for EVERY NumOps record (hence every function in the ln slot):
   values carried in masked pixels are irrelevant.  Part 3: at the reals (ln slot arbitrary), the
   model equals the index-set specification.  Part 4: inversion side. *)
From Coq Require Import ZArith QArith Reals Lra Lia List Bool Arith.
From PAV Require Import Base.NumOps Base.Res Base.Check Base.Sum Gen.Gen_fit Model.C08.
Import ListNotations.
Local Open Scope nat_scope.

(* ================================================================== 1. list glue *)
Section ListLemmas.
  Context {A B C : Type}.
  Lemma map2_nil_r (f : A -> B -> C) l : map2 f l [] = [].
  Proof. destruct l; reflexivity. Qed.
  Lemma select_nil_r (m : list bool) : select m (@nil A) = [].
  Proof. destruct m; reflexivity. Qed.
  Lemma map2_length (f : A -> B -> C) l1 : forall l2, length l2 = length l1 -> length (map2 f l1 l2) = length l1.
  Proof. induction l1 as [|a l1 IH]; intros [|b l2] H; simpl in *; try discriminate; auto. Qed.
  Lemma map2w_length (dflt : C) (f : A -> B -> C) m : forall l1 l2,
    length l1 = length m -> length l2 = length m -> length (map2w dflt f m l1 l2) = length m.
  Proof. induction m as [|b m IH]; intros [|a l1] [|c l2] H1 H2; simpl in *; try discriminate; auto. Qed.
  Lemma nth_map2 (f : A -> B -> C) d d1 d2 l1 : forall l2 i,
    i < length l1 -> length l2 = length l1 -> nth i (map2 f l1 l2) d = f (nth i l1 d1) (nth i l2 d2).
  Proof.
    induction l1 as [|a l1 IH]; intros [|b l2] i Hi HL; simpl in *; try lia; try discriminate.
    destruct i as [|i]; [reflexivity|]. apply IH; lia.
  Qed.
  Lemma nth_map2w (dflt : C) (f : A -> B -> C) d d1 d2 m : forall l1 l2 i,
    i < length m -> length l1 = length m -> length l2 = length m ->
    nth i (map2w dflt f m l1 l2) d = if nth i m true then dflt else f (nth i l1 d1) (nth i l2 d2).
  Proof.
    induction m as [|b m IH]; intros [|a l1] [|c l2] i Hi H1 H2; simpl in *; try lia; try discriminate.
    destruct i as [|i]; [reflexivity|]. apply IH; lia.
  Qed.
End ListLemmas.

Section ListLemmas2.
  Context {A B C : Type}.
  Lemma select_map (f : A -> B) m : forall l, select m (map f l) = map f (select m l).
  Proof. induction m as [|b m IH]; intros [|a l]; simpl; auto. destruct b; simpl; rewrite IH; reflexivity. Qed.
  Lemma select_map2 (f : A -> B -> C) m : forall l1 l2,
    select m (map2 f l1 l2) = map2 f (select m l1) (select m l2).
  Proof.
    induction m as [|b m IH]; intros [|a l1] [|c l2]; simpl; auto.
    - destruct b; simpl; rewrite ?select_nil_r, ?map2_nil_r; reflexivity.
    - destruct b; simpl; rewrite IH; reflexivity.
  Qed.
  Lemma select_map2w (dflt : C) (f : A -> B -> C) m : forall l1 l2,
    select m (map2w dflt f m l1 l2) = map2 f (select m l1) (select m l2).
  Proof.
    induction m as [|b m IH]; intros [|a l1] [|c l2]; simpl; auto.
    - destruct b; simpl; rewrite ?select_nil_r, ?map2_nil_r; reflexivity.
    - destruct b; simpl; rewrite IH; reflexivity.
  Qed.
  Lemma count_true_le m : count_true m <= length m.
  Proof. unfold count_true. induction m as [|[|] m IH]; simpl; lia. Qed.
  Lemma select_length_le m : forall (l : list A), length l = length m -> length (select m l) = length m - count_true m.
  Proof.
    induction m as [|b m IH]; intros [|a l] H; simpl in H; try discriminate; [reflexivity|].
    pose proof (count_true_le m) as Hc. specialize (IH l ltac:(lia)).
    destruct b; unfold count_true in *; cbn [select length filter]; lia.
  Qed.
End ListLemmas2.

Lemma filter_map_S (p : nat -> bool) l : filter p (map S l) = map S (filter (fun i => p (S i)) l).
Proof. induction l as [|a l IH]; simpl; auto. destruct (p (S a)); simpl; rewrite IH; reflexivity. Qed.
Lemma unmasked_cons b m : unmasked (b :: m) = (if b then [] else [0]) ++ map S (unmasked m).
Proof.
  unfold unmasked. simpl length. rewrite <- cons_seq, <- seq_shift. simpl filter.
  rewrite filter_map_S. destruct b; reflexivity.
Qed.
Lemma select_as_map {A} (d : A) m : forall l, length l = length m ->
  select m l = map (fun i => nth i l d) (unmasked m).
Proof.
  induction m as [|b m IH]; intros [|a l] H; simpl in H; try discriminate; [reflexivity|].
  rewrite unmasked_cons, map_app, map_map. simpl select. rewrite (IH l) by lia.
  destruct b; reflexivity.
Qed.
Lemma list_as_map {A} (d : A) : forall l, l = map (fun i => nth i l d) (seq 0 (length l)).
Proof.
  induction l as [|a l IH]; [reflexivity|]. simpl length. rewrite <- cons_seq, <- seq_shift. simpl.
  rewrite map_map. f_equal. exact IH.
Qed.
Lemma map_seq_ext {A} (d : A) (g : nat -> A) l n :
  length l = n -> (forall i, i < n -> nth i l d = g i) -> l = map g (seq 0 n).
Proof.
  intros HL H. rewrite (list_as_map d l) at 1. rewrite HL. apply map_ext_in.
  intros i Hi. apply in_seq in Hi. apply H. lia.
Qed.
Lemma unmasked_spec m i : In i (unmasked m) <-> i < length m /\ nth i m true = false.
Proof.
  unfold unmasked. rewrite filter_In, in_seq, negb_true_iff. intuition lia.
Qed.

(* ================================================================== 2. native mode = slim mode on the selection *)
Section Modes.
  Context {O : NumOps}.
  Variable tp : T O.

  (* the slim-mode fit that stores exactly the unmasked values of a masked-native fit *)
  Definition slim_of (f : fit (T O)) : fit (T O) :=
    {| mask := mask f; use_mask := false; sky := sky f; data := select (mask f) (data f);
       noise := select (mask f) (noise f); model := select (mask f) (model f); inversion := inversion f |}.

  Lemma data_slim f : select (mask f) (fit_data f) = fit_data (slim_of f).
  Proof. unfold fit_data. simpl. destruct (negb (eqb O (sky f) zero)); [apply select_map | reflexivity]. Qed.
  Lemma residual_slim f : use_mask f = true -> select (mask f) (fit_residual_map f) = fit_residual_map (slim_of f).
  Proof.
    intros U. unfold fit_residual_map. rewrite U. simpl.
    unfold residual_map_with_mask_from, residual_map_from. rewrite select_map2w, data_slim. reflexivity.
  Qed.
  Lemma normres_slim f : use_mask f = true ->
    select (mask f) (fit_normalized_residual_map f) = fit_normalized_residual_map (slim_of f).
  Proof.
    intros U. unfold fit_normalized_residual_map. rewrite U. simpl.
    unfold normalized_residual_map_with_mask_from, normalized_residual_map_from.
    rewrite select_map2w, residual_slim by exact U. reflexivity.
  Qed.
  Lemma chimap_slim f : use_mask f = true ->
    select (mask f) (fit_chi_squared_map f) = fit_chi_squared_map (slim_of f).
  Proof.
    intros U. unfold fit_chi_squared_map. rewrite U. simpl.
    unfold chi_squared_map_with_mask_from, chi_squared_map_from.
    rewrite select_map, select_map2w, residual_slim by exact U. reflexivity.
  Qed.
  Lemma chi2_slim f : use_mask f = true -> fit_chi_squared f = fit_chi_squared (slim_of f).
  Proof.
    intros U. unfold fit_chi_squared. rewrite U. simpl.
    unfold chi_squared_with_mask_from, chi_squared_from. rewrite chimap_slim by exact U. reflexivity.
  Qed.
  Lemma nn_slim f : use_mask f = true -> fit_noise_normalization tp f = fit_noise_normalization tp (slim_of f).
  Proof. intros U. unfold fit_noise_normalization. rewrite U. reflexivity. Qed.
  Lemma rff_slim f : use_mask f = true ->
    select (mask f) (fit_residual_flux_fraction_map f) = fit_residual_flux_fraction_map (slim_of f).
  Proof.
    intros U. unfold fit_residual_flux_fraction_map. rewrite U. simpl.
    unfold residual_flux_fraction_map_with_mask_from, residual_flux_fraction_map_from.
    rewrite select_map2w, residual_slim, data_slim by exact U. reflexivity.
  Qed.
  Lemma snr_slim f : select (mask f) (fit_signal_to_noise_map f) = fit_signal_to_noise_map (slim_of f).
  Proof. unfold fit_signal_to_noise_map. rewrite select_map2, data_slim. reflexivity. Qed.

  (* everything the property names, bundled: scalars coincide, maps coincide on the selection *)
  Definition same_statistics (sel : list bool) (f g : fit (T O)) : Prop :=
    fit_chi_squared f = fit_chi_squared g /\
    fit_reduced_chi_squared f = fit_reduced_chi_squared g /\
    fit_noise_normalization tp f = fit_noise_normalization tp g /\
    fit_log_likelihood tp f = fit_log_likelihood tp g /\
    fit_log_likelihood_with_regularization tp f = fit_log_likelihood_with_regularization tp g /\
    fit_log_evidence tp f = fit_log_evidence tp g /\
    fit_figure_of_merit tp f = fit_figure_of_merit tp g.

  Lemma scalars_from (f g : fit (T O)) :
    mask f = mask g -> inversion f = inversion g ->
    fit_chi_squared f = fit_chi_squared g -> fit_noise_normalization tp f = fit_noise_normalization tp g ->
    same_statistics (mask f) f g.
  Proof.
    intros HM HI HC HN. unfold same_statistics, fit_reduced_chi_squared, fit_log_likelihood,
      fit_log_likelihood_with_regularization, fit_figure_of_merit, fit_log_evidence, fit_log_likelihood.
    rewrite HM, HI, HC, HN. repeat split; reflexivity.
  Qed.

  Theorem slim_and_native_modes_agree (f : fit (T O)) :
    use_mask f = true ->
    same_statistics (mask f) f (slim_of f) /\
    select (mask f) (fit_data f) = fit_data (slim_of f) /\
    select (mask f) (fit_residual_map f) = fit_residual_map (slim_of f) /\
    select (mask f) (fit_normalized_residual_map f) = fit_normalized_residual_map (slim_of f) /\
    select (mask f) (fit_chi_squared_map f) = fit_chi_squared_map (slim_of f) /\
    select (mask f) (fit_residual_flux_fraction_map f) = fit_residual_flux_fraction_map (slim_of f) /\
    select (mask f) (fit_signal_to_noise_map f) = fit_signal_to_noise_map (slim_of f).
  Proof.
    intros U. split; [apply scalars_from; auto using chi2_slim, nn_slim|].
    auto 10 using data_slim, residual_slim, normres_slim, chimap_slim, rff_slim, snr_slim.
  Qed.

  (* two masked-native fits that agree on the unmasked pixels *)
  Definition agree_on_unmasked (f g : fit (T O)) : Prop :=
    mask f = mask g /\ use_mask f = true /\ use_mask g = true /\ sky f = sky g /\ inversion f = inversion g /\
    select (mask f) (data f) = select (mask f) (data g) /\
    select (mask f) (noise f) = select (mask f) (noise g) /\
    select (mask f) (model f) = select (mask f) (model g).

  Theorem masked_values_irrelevant (f g : fit (T O)) :
    agree_on_unmasked f g ->
    same_statistics (mask f) f g /\
    select (mask f) (fit_residual_map f) = select (mask f) (fit_residual_map g) /\
    select (mask f) (fit_normalized_residual_map f) = select (mask f) (fit_normalized_residual_map g) /\
    select (mask f) (fit_chi_squared_map f) = select (mask f) (fit_chi_squared_map g) /\
    select (mask f) (fit_residual_flux_fraction_map f) = select (mask f) (fit_residual_flux_fraction_map g) /\
    select (mask f) (fit_signal_to_noise_map f) = select (mask f) (fit_signal_to_noise_map g).
  Proof.
    intros (HM & Uf & Ug & HS & HI & HD & HN & HMo).
    assert (E : slim_of f = slim_of g).
    { unfold slim_of. rewrite <- HM, HS, HI, HD, HN, HMo. reflexivity. }
    split.
    - apply scalars_from; auto.
      + rewrite (chi2_slim f Uf), (chi2_slim g Ug), E. reflexivity.
      + rewrite (nn_slim f Uf), (nn_slim g Ug), E. reflexivity.
    - rewrite HM at 2 4 6 8 10.
      rewrite (residual_slim f Uf), (residual_slim g Ug), (normres_slim f Uf), (normres_slim g Ug),
        (chimap_slim f Uf), (chimap_slim g Ug), (rff_slim f Uf), (rff_slim g Ug), (snr_slim f), (snr_slim g), E.
      repeat split; reflexivity.
  Qed.
End Modes.

(* the three chi-squared code paths of fit_util.py coincide (every NumOps, no shape hypothesis) *)
Theorem chi_squared_paths_agree {O : NumOps} (d : list (T O)) (mk : list bool) (m n : list (T O)) :
  let via_maps := chi_squared_with_mask_from
                    (chi_squared_map_with_mask_from (residual_map_with_mask_from d mk m) n mk) mk in
  chi_squared_with_mask_fast_from d mk m n = via_maps /\
  chi_squared_from (chi_squared_map_from (residual_map_from (select mk d) (select mk m)) (select mk n)) = via_maps.
Proof.
  cbv zeta. unfold chi_squared_with_mask_fast_from, chi_squared_with_mask_from, chi_squared_map_with_mask_from,
    residual_map_with_mask_from, chi_squared_from, chi_squared_map_from, residual_map_from.
  rewrite select_map, !select_map2w, select_map2. split; reflexivity.
Qed.

(* ================================================================== 3. model = specification at the reals *)
(* the reals with an ARBITRARY function in the ln slot *)
Definition RL (lnf : R -> R) : NumOps := with_ln ROps lnf.

Ltac rops :=
  unfold half, sq, ofNat in *; unfold zero, one, two in *; unfold RL, with_ln in *;
  cbn [T add sub mul div opp ofZ leb ltb eqb lnT ROps] in *.

Ltac tR := cbn [T RL with_ln ROps] in *.
Ltac rlia := tR; lia.
(* rewrite with a lemma after normalising the carrier [T (RL lnf)] to [R] on both sides *)
Tactic Notation "rw" uconstr(L) := let X := fresh "X" in epose proof L as X; tR; rewrite X; clear X.

Lemma nth_map_in {A B} (g : A -> B) d d' l i : i < length l -> nth i (map g l) d' = g (nth i l d).
Proof. intros H. rewrite (nth_indep _ d' (g d)) by (rewrite map_length; exact H). apply map_nth. Qed.

Lemma unmasked_length m : length (unmasked m) = length m - count_true m.
Proof.
  rewrite <- (select_length_le m m eq_refl), (select_as_map true m m eq_refl). symmetry. apply map_length.
Qed.

Local Open Scope R_scope.
Section AtR.
  Variable lnf : R -> R.
  Notation O := (RL lnf).
  Variable tp : T O.
  Implicit Types f : fit (T O).

  Lemma sumT_RL (l : list R) : @sumT O l = sumR l.
  Proof. exact (sumT_sumR l). Qed.

  Lemma okb_lengths f : fit_okb f = true ->
    length (noise f) = length (data f) /\ length (model f) = length (data f) /\
    (use_mask f = true -> length (mask f) = length (data f)) /\
    (use_mask f = false -> (length (mask f) - count_true (mask f))%nat = length (data f)).
  Proof.
    unfold fit_okb. intros H. apply andb_prop in H as [H H3]. apply andb_prop in H as [H1 H2].
    apply Nat.eqb_eq in H1, H2. repeat split; auto; intros U; rewrite U in H3; apply Nat.eqb_eq in H3; exact H3.
  Qed.

  Lemma fit_data_length f : length (fit_data f) = length (data f).
  Proof. unfold fit_data. destruct (negb _); [apply map_length | reflexivity]. Qed.
  Lemma fit_data_nth f i : (i < length (data f))%nat -> nth i (fit_data f) 0 = s_data f i.
  Proof.
    intros Hi. unfold fit_data, s_data, at_. destruct (eqb O (sky f) zero) eqn:E; cbn [negb].
    - rops. rbool. rewrite E. lra.
    - rewrite (nth_map_in _ 0) by exact Hi. reflexivity.
  Qed.

  Lemma residual_length f : fit_okb f = true -> length (fit_residual_map f) = length (data f).
  Proof.
    intros H. destruct (okb_lengths f H) as (HN & HM & HK & _). unfold fit_residual_map.
    destruct (use_mask f).
    - unfold residual_map_with_mask_from. rewrite map2w_length; rewrite ?fit_data_length; auto; rewrite HK; auto.
    - unfold residual_map_from. rewrite map2_length; rewrite fit_data_length; auto.
  Qed.
  Lemma residual_nth f i : fit_okb f = true -> (i < length (data f))%nat ->
    nth i (fit_residual_map f) 0 = if excluded f i then 0 else s_residual f i.
  Proof.
    intros H Hi. destruct (okb_lengths f H) as (HN & HM & HK & _). unfold fit_residual_map, excluded, s_residual. tR.
    destruct (use_mask f); cbn [andb].
    - unfold residual_map_with_mask_from. specialize (HK eq_refl).
      rewrite (nth_map2w _ _ 0 0 0); rewrite ?fit_data_length; try rlia.
      rewrite fit_data_nth by exact Hi. reflexivity.
    - unfold residual_map_from. rewrite (nth_map2 _ 0 0 0); rewrite ?fit_data_length; try rlia.
      rewrite fit_data_nth by exact Hi. reflexivity.
  Qed.

  Lemma normres_length f : fit_okb f = true -> length (fit_normalized_residual_map f) = length (data f).
  Proof.
    intros H. destruct (okb_lengths f H) as (HN & HM & HK & _). pose proof (residual_length f H) as HR.
    unfold fit_normalized_residual_map. destruct (use_mask f) eqn:U.
    - unfold normalized_residual_map_with_mask_from. rewrite map2w_length; specialize (HK eq_refl); rlia.
    - unfold normalized_residual_map_from. rewrite map2_length; rlia.
  Qed.
  Lemma normres_nth f i : fit_okb f = true -> (i < length (data f))%nat ->
    nth i (fit_normalized_residual_map f) 0 = if excluded f i then 0 else s_normres f i.
  Proof.
    intros H Hi. destruct (okb_lengths f H) as (HN & HM & HK & _). pose proof (residual_length f H) as HR.
    pose proof (residual_nth f i H Hi) as RN. unfold fit_normalized_residual_map, s_normres, at_.
    unfold excluded in *. destruct (use_mask f) eqn:U; cbn [andb] in *.
    - unfold normalized_residual_map_with_mask_from. specialize (HK eq_refl).
      rewrite (nth_map2w _ _ 0 0 0); try rlia. tR. rewrite RN.
      destruct (nth i (mask f) true); reflexivity.
    - unfold normalized_residual_map_from. rewrite (nth_map2 _ 0 0 0); try rlia. tR. rewrite RN. reflexivity.
  Qed.
  Lemma chimap_length f : fit_okb f = true -> length (fit_chi_squared_map f) = length (data f).
  Proof.
    intros H. destruct (okb_lengths f H) as (HN & HM & HK & _). pose proof (residual_length f H) as HR.
    unfold fit_chi_squared_map. destruct (use_mask f) eqn:U.
    - unfold chi_squared_map_with_mask_from. rewrite map_length, map2w_length; specialize (HK eq_refl); rlia.
    - unfold chi_squared_map_from. rewrite map_length, map2_length; rlia.
  Qed.
  Lemma chimap_nth f i : fit_okb f = true -> (i < length (data f))%nat ->
    nth i (fit_chi_squared_map f) 0 = if excluded f i then 0 else s_chi f i.
  Proof.
    intros H Hi. destruct (okb_lengths f H) as (HN & HM & HK & _). pose proof (residual_length f H) as HR.
    pose proof (residual_nth f i H Hi) as RN. unfold fit_chi_squared_map, s_chi, s_normres, at_.
    unfold excluded in *. destruct (use_mask f) eqn:U; cbn [andb] in *.
    - unfold chi_squared_map_with_mask_from. specialize (HK eq_refl).
      rewrite (nth_map_in _ 0); [|rewrite map2w_length; rlia].
      rewrite (nth_map2w _ _ 0 0 0); try rlia. tR. rewrite RN.
      destruct (nth i (mask f) true); [rops; lra | reflexivity].
    - unfold chi_squared_map_from. rewrite (nth_map_in _ 0); [|rewrite map2_length; rlia].
      rewrite (nth_map2 _ 0 0 0); try rlia. tR. rewrite RN. reflexivity.
  Qed.

  (* the pixels of [fit_pixels] are in range and not excluded *)
  Lemma fit_pixels_in f i : fit_okb f = true -> In i (fit_pixels f) ->
    (i < length (data f))%nat /\ excluded f i = false.
  Proof.
    intros H Hin. destruct (okb_lengths f H) as (_ & _ & HK & _). unfold fit_pixels, excluded in *.
    destruct (use_mask f); cbn [andb].
    - apply unmasked_spec in Hin. destruct Hin as [Hl Hm]. rewrite Hm. specialize (HK eq_refl). split; [lia | reflexivity].
    - apply in_seq in Hin. split; [lia | reflexivity].
  Qed.
  (* summing a full-length map over the fit pixels: by selection (native) or entirely (slim) *)
  Lemma over_pixels f (l : list R) : fit_okb f = true -> length l = length (data f) ->
    (if use_mask f then select (mask f) l else l) = map (fun i => nth i l 0) (fit_pixels f).
  Proof.
    intros H HL. destruct (okb_lengths f H) as (_ & _ & HK & _). unfold fit_pixels. destruct (use_mask f).
    - apply select_as_map. rewrite HL. symmetry. apply HK. reflexivity.
    - rewrite <- HL. apply list_as_map.
  Qed.

  Lemma chi_squared_is_spec f : fit_okb f = true -> fit_chi_squared f = s_chi_squared f.
  Proof.
    intros H. unfold fit_chi_squared, s_chi_squared, chi_squared_with_mask_from, chi_squared_from.
    pose proof (over_pixels f _ H (chimap_length f H)) as E. tR.
    transitivity (sumR (if use_mask f then select (mask f) (@fit_chi_squared_map O f) else @fit_chi_squared_map O f)).
    { destruct (use_mask f); apply sumT_RL. }
    tR. rewrite E, sumT_RL. f_equal. apply map_ext_in. intros i Hin.
    destruct (fit_pixels_in f i H Hin) as [Hi Hx]. rw (chimap_nth f i H Hi). rewrite Hx. reflexivity.
  Qed.
  Lemma noise_normalization_is_spec f : fit_okb f = true -> fit_noise_normalization tp f = s_noise_normalization tp f.
  Proof.
    intros H. destruct (okb_lengths f H) as (HN & _). unfold fit_noise_normalization, s_noise_normalization,
      noise_normalization_with_mask_from, noise_normalization_from.
    pose proof (over_pixels f _ H HN) as E. tR.
    transitivity (sumR (map (@lognorm O tp) (if use_mask f then select (mask f) (noise f) else noise f))).
    { destruct (use_mask f); apply sumT_RL. }
    tR. rewrite E, sumT_RL, map_map. reflexivity.
  Qed.
  Lemma log_likelihood_is_spec f : fit_okb f = true -> fit_log_likelihood tp f = s_log_likelihood tp f.
  Proof.
    intros H. unfold fit_log_likelihood, s_log_likelihood, log_likelihood_from.
    rewrite chi_squared_is_spec, noise_normalization_is_spec by exact H. rops. lra.
  Qed.

  (* ---- derived maps *)
  Lemma rff_length f : fit_okb f = true -> length (fit_residual_flux_fraction_map f) = length (data f).
  Proof.
    intros H. destruct (okb_lengths f H) as (HN & HM & HK & _). pose proof (residual_length f H) as HR.
    pose proof (fit_data_length f) as HD.
    unfold fit_residual_flux_fraction_map. destruct (use_mask f) eqn:U.
    - unfold residual_flux_fraction_map_with_mask_from. rewrite map2w_length; specialize (HK eq_refl); rlia.
    - unfold residual_flux_fraction_map_from. rewrite map2_length; rlia.
  Qed.
  (* residual flux fraction = residual / data; a zero denominator gives no number; masked pixels give 0 *)
  Lemma rff_nth f i : fit_okb f = true -> (i < length (data f))%nat ->
    nth i (fit_residual_flux_fraction_map f) None =
    if excluded f i then Some 0 else if Reqb (s_data f i) 0 then None else Some (s_residual_flux_fraction f i).
  Proof.
    intros H Hi. destruct (okb_lengths f H) as (HN & HM & HK & _). pose proof (residual_length f H) as HR.
    pose proof (fit_data_length f) as HD. pose proof (fit_data_nth f i Hi) as DN.
    pose proof (residual_nth f i H Hi) as RN. unfold fit_residual_flux_fraction_map, s_residual_flux_fraction.
    unfold excluded in *. destruct (use_mask f) eqn:U; cbn [andb] in *.
    - unfold residual_flux_fraction_map_with_mask_from. specialize (HK eq_refl).
      rw (nth_map2w (Some (@zero O)) (@divopt O) None 0 0); try rlia. tR. rewrite RN, DN.
      destruct (nth i (mask f) true); [reflexivity|]. unfold divopt. rops. reflexivity.
    - unfold residual_flux_fraction_map_from. rw (nth_map2 (@divopt O) None 0 0); try rlia. tR. rewrite RN, DN.
      unfold divopt. rops. reflexivity.
  Qed.
  Lemma snr_length f : fit_okb f = true -> length (fit_signal_to_noise_map f) = length (data f).
  Proof.
    intros H. destruct (okb_lengths f H) as (HN & _). pose proof (fit_data_length f) as HD.
    unfold fit_signal_to_noise_map. rewrite map2_length; rlia.
  Qed.
  (* signal to noise = data / noise with negative values clipped to zero, wherever the noise is positive
     (the code does not mask this map) *)
  Lemma snr_nth f i : fit_okb f = true -> (i < length (data f))%nat -> 0 < at_ (noise f) i ->
    nth i (fit_signal_to_noise_map f) None = Some (s_signal_to_noise f i).
  Proof.
    intros H Hi Hp. destruct (okb_lengths f H) as (HN & _). pose proof (fit_data_length f) as HD.
    pose proof (fit_data_nth f i Hi) as DN. unfold fit_signal_to_noise_map, s_signal_to_noise, at_ in *.
    rw (nth_map2 (@snr_elem O) None 0 0); try rlia. tR. rewrite DN. unfold snr_elem. rops.
    set (n := nth i (noise f) 0) in *.
    assert (Hi' : 0 < / n) by (apply Rinv_0_lt_compat; exact Hp).
    destruct (Reqb n 0) eqn:E1; rbool; [lra|].
    unfold Rdiv. match goal with |- context [Rltb (?d * / n) 0] =>
      destruct (Rltb (d * / n) 0) eqn:E2, (Rltb d 0) eqn:E3; rbool; try reflexivity; exfalso; nra end.
  Qed.

  (* ---- reduced chi-squared: the divisor is the number of fitted pixels *)
  Lemma fit_pixels_length f : fit_okb f = true ->
    length (fit_pixels f) = (length (mask f) - count_true (mask f))%nat.
  Proof.
    intros H. destruct (okb_lengths f H) as (_ & _ & _ & HS). unfold fit_pixels. destruct (use_mask f).
    - apply unmasked_length.
    - rewrite seq_length. symmetry. apply HS. reflexivity.
  Qed.
  Lemma reduced_chi_squared_is_spec f : fit_okb f = true ->
    fit_reduced_chi_squared f =
    if Nat.eqb (length (fit_pixels f)) 0 then Raise OtherException
    else Ok (s_chi_squared f / INR (length (fit_pixels f))).
  Proof.
    intros H. unfold fit_reduced_chi_squared. rewrite <- (fit_pixels_length f H), (chi_squared_is_spec f H).
    destruct (Nat.eqb _ 0); [reflexivity|]. rops. rewrite <- INR_IZR_INZ. reflexivity.
  Qed.
End AtR.

(* ================================================================== 4. inversion side *)
Local Open Scope nat_scope.

Lemma filter_all {A} (p : A -> bool) l : (forall x, In x l -> p x = true) -> filter p l = l.
Proof.
  induction l as [|a l IH]; intros H; [reflexivity|]. simpl. rewrite (H a (or_introl eq_refl)).
  f_equal. apply IH. intros x Hx. apply H. right. exact Hx.
Qed.
Lemma filter_none {A} (p : A -> bool) l : (forall x, In x l -> p x = false) -> filter p l = [].
Proof.
  induction l as [|a l IH]; intros H; [reflexivity|]. simpl. rewrite (H a (or_introl eq_refl)).
  apply IH. intros x Hx. apply H. right. exact Hx.
Qed.

(* ---- the running pixel_count loop lists exactly the parameters of unregularized objects *)
Lemma total_params_from os : forall a, fold_left (fun a o => a + fst o) os a = a + n_params os.
Proof.
  unfold n_params. induction os as [|o os IH]; intros a; simpl; [lia|]. rewrite IH. lia.
Qed.
Lemma total_params_is os : total_params os = n_params os.
Proof. unfold total_params. rewrite total_params_from. reflexivity. Qed.

Definition noreg_at (c : nat) (os : list (nat * bool)) : list nat :=
  flat_map (fun p : (nat * bool) * (nat * nat) =>
              if snd (fst p) then [] else seq (fst (snd p)) (snd (snd p) - fst (snd p)))
           (combine os (param_ranges c os)).
Lemma noreg_at_spec os : forall c i,
  In i (noreg_at c os) <-> (c <= i < c + n_params os /\ regd_at os (i - c) = false).
Proof.
  unfold noreg_at, n_params. induction os as [|[p r] os IH]; intros c i.
  - simpl. split; [tauto | intros [H _]; lia].
  - cbn [param_ranges combine flat_map fst snd map list_sum fold_right regd_at].
    change (fold_right Init.Nat.add 0 (map fst os)) with (list_sum (map fst os)). rewrite in_app_iff, IH.
    replace (c + p - c) with p by lia.
    destruct (Nat.ltb_spec (i - c) p) as [L|L].
    + destruct r.
      * split; [intros [[]|[H1 H2]]; lia | intros [_ H]; discriminate].
      * rewrite in_seq. split; [intros [H|[H _]]; [split; [lia|reflexivity] | lia] | intros [H _]; left; lia].
    + replace (i - c - p) with (i - (c + p)) by lia.
      destruct r.
      * split; [intros [[]|[H1 H2]]; split; [lia|exact H2] | intros [H1 H2]; right; split; [lia|exact H2]].
      * rewrite in_seq. split; [intros [H|[H1 H2]]; [lia | split; [lia|exact H2]] | intros [H1 H2]; right; split; [lia|exact H2]].
Qed.
Lemma noreg_spec os i : In i (no_regularization_index_list os) <-> (i < n_params os /\ regd_at os i = false).
Proof.
  change (no_regularization_index_list os) with (noreg_at 0 os). rewrite noreg_at_spec, Nat.sub_0_r.
  split; intros [H1 H2]; (split; [lia | exact H2]).
Qed.
Lemma regd_all os i : all_have_reg os = true -> i < n_params os -> regd_at os i = true.
Proof.
  unfold all_have_reg, n_params. revert i. induction os as [|[p r] os IH]; intros i H Hi; simpl in *; [lia|].
  apply andb_prop in H as [Hr H]. destruct (Nat.ltb_spec i p); [exact Hr|]. apply IH; [exact H | lia].
Qed.
Lemma regd_none os i : has_reg os = false -> regd_at os i = false.
Proof.
  unfold has_reg. revert i. induction os as [|[p r] os IH]; intros i H; simpl in *; [reflexivity|].
  apply orb_false_elim in H as [Hr H]. destruct (i <? p); [exact Hr | apply IH; exact H].
Qed.
Lemma reg_indices_all os : all_have_reg os = true -> reg_indices os = seq 0 (n_params os).
Proof. intros H. apply filter_all. intros i Hi. apply in_seq in Hi. apply regd_all; [exact H | lia]. Qed.
Lemma reg_indices_none os : has_reg os = false -> reg_indices os = [].
Proof. intros H. apply filter_none. intros i _. apply regd_none. exact H. Qed.
Lemma reg_indices_lt os i : In i (reg_indices os) -> i < n_params os.
Proof. unfold reg_indices. rewrite filter_In, in_seq. lia. Qed.

(* ---- np.delete keeps, in order, the entries whose position is not listed *)
Lemma delete_from_spec {A} (d : A) idxs l : forall k,
  delete_from k idxs l =
  map (fun i => nth (i - k) l d) (filter (fun i => negb (existsb (Nat.eqb i) idxs)) (seq k (length l))).
Proof.
  induction l as [|a l IH]; intros k; [reflexivity|].
  cbn [delete_from length seq filter]. rewrite IH.
  assert (E : forall L, (forall i, In i L -> S k <= i) ->
            map (fun i => nth (i - S k) l d) L = map (fun i => nth (i - k) (a :: l) d) L).
  { intros L HL. apply map_ext_in. intros i Hi. specialize (HL i Hi).
    replace (i - k) with (S (i - S k)) by lia. reflexivity. }
  rewrite E by (intros i Hi; apply filter_In in Hi as [Hi _]; apply in_seq in Hi; lia).
  destruct (existsb (Nat.eqb k) idxs); cbn [negb map]; [reflexivity|].
  rewrite Nat.sub_diag. reflexivity.
Qed.
Lemma np_delete_noreg {A} (d : A) os l : length l = n_params os ->
  np_delete (no_regularization_index_list os) l = map (fun i => nth i l d) (reg_indices os).
Proof.
  intros HL. unfold np_delete. rewrite (delete_from_spec d), HL. unfold reg_indices.
  rewrite (filter_ext_in (fun i => negb (existsb (Nat.eqb i) (no_regularization_index_list os))) (regd_at os)).
  - apply map_ext. intros i. rewrite Nat.sub_0_r. reflexivity.
  - intros i Hi. apply in_seq in Hi.
    destruct (existsb (Nat.eqb i) (no_regularization_index_list os)) eqn:E; cbn [negb].
    + apply existsb_exists in E as (j & Hj & Ej). apply Nat.eqb_eq in Ej. subst j.
      apply noreg_spec in Hj as [_ Hj]. symmetry. exact Hj.
    + destruct (regd_at os i) eqn:G; [reflexivity|]. exfalso.
      assert (Hin : In i (no_regularization_index_list os)) by (apply noreg_spec; split; [lia | exact G]).
      assert (X : existsb (Nat.eqb i) (no_regularization_index_list os) = true)
        by (apply existsb_exists; exists i; split; [exact Hin | apply Nat.eqb_refl]).
      congruence.
Qed.

Section InvAny.
  Context {O : NumOps}.
  Lemma squareb_spec n (M : list (list (T O))) : squareb n M = true ->
    length M = n /\ forall i, i < n -> length (nth i M []) = n.
  Proof.
    unfold squareb. intros H. apply andb_prop in H as [H1 H2]. apply Nat.eqb_eq in H1. split; [exact H1|].
    intros i Hi. rewrite forallb_forall in H2. apply Nat.eqb_eq. apply H2. apply nth_In. lia.
  Qed.
  (* np.delete on both axes = the principal submatrix on the regularized indices *)
  Lemma reduce_matrix_is_principal os (M : list (list (T O))) : squareb (n_params os) M = true ->
    reduce_matrix os M = principal_sub M (reg_indices os).
  Proof.
    intros HS. destruct (squareb_spec _ M HS) as [HL HR]. unfold reduce_matrix, principal_sub, mat_at.
    destruct (all_have_reg os) eqn:A.
    - rewrite (reg_indices_all os A). rewrite (list_as_map [] M) at 1. rewrite HL. apply map_ext_in.
      intros i Hi. apply in_seq in Hi. rewrite (list_as_map zero (nth i M [])) at 1. rewrite HR by lia. reflexivity.
    - rewrite (np_delete_noreg [] os M HL), map_map. apply map_ext_in. intros i Hi.
      apply np_delete_noreg. apply HR. apply reg_indices_lt. exact Hi.
  Qed.

  (* ---- scipy block_diag of the per-object matrices: entry (i, j) is [s_H_at] *)
  Lemma nth_repeat_any {A} (z : A) n j : nth j (repeat z n) z = z.
  Proof. revert j. induction n as [|n IH]; intros [|j]; simpl; auto. Qed.
  Lemma nth_padded {A} (z : A) a c row j :
    nth j (repeat z a ++ row ++ repeat z c) z = if (a <=? j) && (j <? a + length row) then nth (j - a) row z else z.
  Proof.
    destruct (Nat.leb_spec a j) as [L|L]; cbn [andb].
    - rewrite app_nth2 by (rewrite repeat_length; lia). rewrite repeat_length.
      destruct (Nat.ltb_spec j (a + length row)) as [L2|L2].
      + rewrite app_nth1 by lia. reflexivity.
      + rewrite app_nth2 by lia. apply nth_repeat_any.
    - rewrite app_nth1 by (rewrite repeat_length; lia). apply nth_repeat_any.
  Qed.
  Definition blocks_okb (os : list (nat * bool)) (bs : list (list (list (T O)))) : bool :=
    Nat.eqb (length bs) (length os) &&
    forallb (fun p => squareb (fst (fst p)) (snd p) || negb (snd (fst p))) (combine os bs).
  Definition bds (os : list (nat * bool)) (bs : list (list (list (T O)))) :=
    map2 (fun o b => (fst o, obj_block o b)) os bs.
  Lemma obj_block_ok o (b : list (list (T O))) : squareb (fst o) b || negb (snd o) = true ->
    squareb (fst o) (obj_block o b) = true /\
    forall i j, mat_at (obj_block o b) i j = if snd o then mat_at b i j else zero.
  Proof.
    intros H. unfold obj_block, mat_at. destruct (snd o); cbn [negb] in H.
    - rewrite orb_false_r in H. split; [exact H | reflexivity].
    - split.
      + unfold squareb. rewrite repeat_length, Nat.eqb_refl. cbn [andb]. apply forallb_forall.
        intros r Hr. apply repeat_spec in Hr. subst r. rewrite repeat_length. apply Nat.eqb_refl.
      + intros i j. destruct (Nat.ltb_spec i (fst o)) as [L|L].
        * rewrite (nth_indep _ [] (repeat zero (fst o))) by (rewrite repeat_length; exact L).
          rewrite nth_repeat_any. apply nth_repeat_any.
        * rewrite (nth_overflow (repeat (repeat zero (fst o)) (fst o)) []) by (rewrite repeat_length; exact L).
          destruct j; reflexivity.
  Qed.
  Lemma block_diag_entries os : forall bs left total,
    blocks_okb os bs = true -> left + n_params os <= total ->
    length (block_diag_from left total (bds os bs)) = n_params os /\
    (forall i, i < n_params os -> length (nth i (block_diag_from left total (bds os bs)) []) = total) /\
    (forall i j, i < n_params os -> j < total ->
       mat_at (block_diag_from left total (bds os bs)) i j =
       if (left <=? j) && (j <? left + n_params os) then s_H_at os bs i (j - left) else zero).
  Proof.
    unfold blocks_okb, n_params.
    induction os as [|[p r] os IH]; intros [|b bs] left total H HT; cbn [length] in H;
      try (apply andb_prop in H as [H _]; apply Nat.eqb_eq in H; discriminate).
    - cbn. split; [reflexivity|]. split; intros; lia.
    - cbn [combine forallb map list_sum fold_right fst snd] in H, HT |- *.
      change (fold_right Init.Nat.add 0 (map fst os)) with (list_sum (map fst os)) in *.
      apply andb_prop in H as [HL H]. apply andb_prop in H as [HB H]. cbn [Nat.eqb] in HL.
      destruct (obj_block_ok (p, r) b HB) as [HSq HE]. cbn [fst snd] in HSq, HE.
      destruct (squareb_spec _ _ HSq) as [BL BR].
      specialize (IH bs (left + p) total). rewrite HL, H in IH. specialize (IH eq_refl ltac:(lia)).
      destruct IH as (IL & IR & IE).
      unfold bds in *. cbn [map2 block_diag_from fst snd].
      set (g := fun row => repeat zero left ++ row ++ repeat zero (total - left - p)).
      set (B := obj_block (p, r) b) in *. set (rest := block_diag_from (left + p) total _) in *.
      assert (GL : length (map g B) = p) by (rewrite map_length; exact BL).
      split; [rewrite app_length, GL, IL; reflexivity|]. split.
      + intros i Hi. destruct (Nat.ltb_spec i p) as [L|L].
        * rewrite app_nth1 by lia. rewrite (nth_map_in g []) by lia. unfold g.
          rewrite !app_length, !repeat_length, BR by exact L. lia.
        * rewrite app_nth2 by lia. rewrite GL. apply IR. lia.
      + intros i j Hi Hj. unfold mat_at in *. cbn [s_H_at fst snd]. destruct (Nat.ltb_spec i p) as [L|L].
        * rewrite app_nth1 by lia. rewrite (nth_map_in g []) by lia. unfold g. rewrite nth_padded, BR by exact L.
          rewrite HE.
          destruct (Nat.leb_spec left j), (Nat.ltb_spec j (left + p)), (Nat.ltb_spec j (left + (p + list_sum (map fst os)))),
            (Nat.ltb_spec (j - left) p); cbn [andb]; try reflexivity; lia.
        * rewrite app_nth2 by lia. rewrite GL, IE by lia.
          replace (j - (left + p)) with (j - left - p) by lia.
          destruct (Nat.leb_spec left j), (Nat.leb_spec (left + p) j), (Nat.ltb_spec j (left + p + list_sum (map fst os))),
            (Nat.ltb_spec j (left + (p + list_sum (map fst os)))), (Nat.ltb_spec (j - left) p);
            cbn [andb]; try reflexivity; lia.
  Qed.

  Lemma squareb_intro n (M : list (list (T O))) :
    length M = n -> (forall i, i < n -> length (nth i M []) = n) -> squareb n M = true.
  Proof.
    intros HL HR. unfold squareb. rewrite HL, Nat.eqb_refl. cbn [andb]. apply forallb_forall.
    intros r Hr. apply (In_nth _ _ []) in Hr as (i & Hi & <-). apply Nat.eqb_eq. apply HR. lia.
  Qed.
  Lemma inv_okb_parts (iv : inv (T O)) : inv_okb iv = true ->
    blocks_okb (objs iv) (blocks iv) = true /\ squareb (n_params (objs iv)) (curv iv) = true /\
    length (recon iv) = n_params (objs iv).
  Proof.
    unfold inv_okb, blocks_okb. intros H. apply andb_prop in H as [H H4]. apply andb_prop in H as [H H3].
    apply Nat.eqb_eq in H4. auto.
  Qed.
  (* H: square, entries given by the owner-object rule *)
  Lemma regularization_matrix_ok (iv : inv (T O)) : inv_okb iv = true ->
    squareb (n_params (objs iv)) (regularization_matrix iv) = true /\
    forall i j, i < n_params (objs iv) -> j < n_params (objs iv) -> mat_at (regularization_matrix iv) i j = s_H iv i j.
  Proof.
    intros H. destruct (inv_okb_parts iv H) as (HB & _ & _). unfold regularization_matrix, s_H.
    rewrite total_params_is.
    destruct (block_diag_entries (objs iv) (blocks iv) 0 (n_params (objs iv)) HB (le_n _)) as (L & RW & E).
    split; [apply squareb_intro; assumption|]. intros i j Hi Hj. unfold bds in E. rewrite (E i j Hi Hj).
    cbn [Nat.leb andb Nat.add]. rewrite Nat.sub_0_r. destruct (Nat.ltb_spec j (n_params (objs iv))); [reflexivity | lia].
  Qed.
  (* F + H (when something is regularized): square, entries F[i][j] + H[i][j] *)
  Lemma curvature_reg_matrix_ok (iv : inv (T O)) : inv_okb iv = true ->
    squareb (n_params (objs iv)) (curvature_reg_matrix iv) = true /\
    (has_reg (objs iv) = true -> forall i j, i < n_params (objs iv) -> j < n_params (objs iv) ->
       mat_at (curvature_reg_matrix iv) i j = s_FH iv i j).
  Proof.
    intros H. destruct (inv_okb_parts iv H) as (_ & HF & _). destruct (regularization_matrix_ok iv H) as (HH & HE).
    destruct (squareb_spec _ _ HF) as [FL FR]. destruct (squareb_spec _ _ HH) as [HL HR].
    unfold curvature_reg_matrix, s_FH. destruct (has_reg (objs iv)); cbn [negb]; [|split; [exact HF | discriminate]].
    assert (RowI : forall i, i < n_params (objs iv) ->
              nth i (map2 (map2 (add O)) (curv iv) (regularization_matrix iv)) [] =
              map2 (add O) (nth i (curv iv) []) (nth i (regularization_matrix iv) [])).
    { intros i Hi. apply nth_map2; lia. }
    split.
    - apply squareb_intro; [rewrite map2_length; lia|]. intros i Hi. rewrite RowI by exact Hi.
      rewrite map2_length; rewrite ?FR, ?HR; auto.
    - intros _ i j Hi Hj. unfold mat_at in *. rewrite RowI by exact Hi.
      rewrite (nth_map2 _ zero zero zero); rewrite ?FR, ?HR; auto. rewrite HE by assumption. reflexivity.
  Qed.

  Definition Rset (iv : inv (T O)) : list nat := reg_indices (objs iv).
  (* the reduced matrices / vector are the restrictions to the regularized parameters *)
  Theorem regularization_matrix_reduced_is_principal (iv : inv (T O)) : inv_okb iv = true ->
    regularization_matrix_reduced iv = tabulate (s_H iv) (Rset iv).
  Proof.
    intros H. destruct (regularization_matrix_ok iv H) as (HH & HE). unfold regularization_matrix_reduced.
    rewrite reduce_matrix_is_principal by exact HH. unfold principal_sub, tabulate, Rset.
    apply map_ext_in. intros i Hi. apply map_ext_in. intros j Hj. apply HE; apply reg_indices_lt; assumption.
  Qed.
  Theorem curvature_reg_matrix_reduced_is_principal (iv : inv (T O)) : inv_okb iv = true ->
    curvature_reg_matrix_reduced iv = tabulate (s_FH iv) (Rset iv).
  Proof.
    intros H. destruct (curvature_reg_matrix_ok iv H) as (HH & HE). unfold curvature_reg_matrix_reduced.
    rewrite reduce_matrix_is_principal by exact HH. unfold principal_sub, tabulate, Rset.
    destruct (has_reg (objs iv)) eqn:G.
    - apply map_ext_in. intros i Hi. apply map_ext_in. intros j Hj. apply HE; auto; apply reg_indices_lt; assumption.
    - rewrite (reg_indices_none _ G). reflexivity.
  Qed.
  Theorem reconstruction_reduced_is_restriction (iv : inv (T O)) : inv_okb iv = true ->
    reconstruction_reduced iv = map (at_ (recon iv)) (Rset iv).
  Proof.
    intros H. destruct (inv_okb_parts iv H) as (_ & _ & HL). unfold reconstruction_reduced, Rset, at_.
    destruct (all_have_reg (objs iv)) eqn:A.
    - rewrite (reg_indices_all _ A), <- HL. apply list_as_map.
    - apply np_delete_noreg. exact HL.
  Qed.
  (* both log-determinants are taken of the matrices restricted to the regularized parameters *)
  Theorem log_det_terms_are_restricted (iv : inv (T O)) : inv_okb iv = true ->
    log_det_curvature_reg_matrix_term iv = (if has_reg (objs iv) then s_logdet_FH iv else zero) /\
    log_det_regularization_matrix_term iv = (if has_reg (objs iv) then s_logdet_H iv else zero).
  Proof.
    intros H. unfold log_det_curvature_reg_matrix_term, log_det_regularization_matrix_term, logdet, s_logdet_FH, s_logdet_H.
    rewrite curvature_reg_matrix_reduced_is_principal, regularization_matrix_reduced_is_principal by exact H.
    destruct (has_reg (objs iv)); split; reflexivity.
  Qed.
End InvAny.

Lemma map2_map_map {A B C D} (f : B -> C -> D) (g : A -> B) (h : A -> C) l :
  map2 f (map g l) (map h l) = map (fun x => f (g x) (h x)) l.
Proof. induction l as [|a l IH]; simpl; [reflexivity|]. rewrite IH. reflexivity. Qed.

Local Open Scope R_scope.
Section InvR.
  Variable lnf : R -> R.
  Notation O := (RL lnf).
  Variable tp : T O.
  Implicit Types (f : fit (T O)) (iv : inv (T O)).

  (* s_r^T (H_r s_r) = sum over regularized i, j of s_i H_ij s_j *)
  Lemma regularization_term_is_spec iv : inv_okb iv = true -> regularization_term iv = s_regularization_term iv.
  Proof.
    intros H. unfold regularization_term, s_regularization_term.
    destruct (has_reg (objs iv)) eqn:G; cbn [negb].
    2:{ rewrite (reg_indices_none _ G). reflexivity. }
    rewrite reconstruction_reduced_is_restriction, regularization_matrix_reduced_is_principal by exact H.
    unfold dotT, matvec, tabulate, Rset. rewrite map_map, map2_map_map. tR. rewrite !(sumT_RL lnf).
    apply sumR_map_ext. intros i _. unfold dotT. rewrite map2_map_map. tR. rewrite !(sumT_RL lnf). rops.
    rewrite <- sumR_map_scal. apply sumR_map_ext. intros j _. ring.
  Qed.
  (* values of the reconstruction at unregularized parameters (and the curvature matrix) play no role *)
  Lemma regularization_term_ignores_unregularized iv iv' : inv_okb iv = true -> inv_okb iv' = true ->
    objs iv = objs iv' -> blocks iv = blocks iv' ->
    (forall i, In i (reg_indices (objs iv)) -> at_ (recon iv) i = at_ (recon iv') i) ->
    regularization_term iv = regularization_term iv'.
  Proof.
    intros H H' EO EB ER. rewrite !regularization_term_is_spec by assumption.
    unfold s_regularization_term, s_H. rewrite <- EO, <- EB. tR. rewrite !(sumT_RL lnf).
    apply sumR_map_ext. intros i Hi. tR. rewrite !(sumT_RL lnf). apply sumR_map_ext. intros j Hj.
    rewrite (ER i Hi), (ER j Hj). reflexivity.
  Qed.

  Lemma log_evidence_is_spec f iv : fit_okb f = true -> inversion f = Some iv -> inv_okb iv = true ->
    fit_log_evidence tp f = Some (s_log_evidence tp f iv).
  Proof.
    intros H HI HV. unfold fit_log_evidence, s_log_evidence, log_evidence_from. rewrite HI. f_equal.
    destruct (log_det_terms_are_restricted iv HV) as [E1 E2]. rewrite E1, E2.
    rewrite (chi_squared_is_spec lnf f H), (noise_normalization_is_spec lnf tp f H).
    destruct (has_reg (objs iv)) eqn:G.
    - rewrite (regularization_term_is_spec iv HV). rops. lra.
    - unfold regularization_term, s_log_likelihood. rewrite G. cbn [negb]. rops. lra.
  Qed.
  Lemma log_likelihood_with_regularization_is_spec f iv :
    fit_okb f = true -> inversion f = Some iv -> inv_okb iv = true ->
    fit_log_likelihood_with_regularization tp f = Some (s_log_likelihood_with_regularization tp f iv).
  Proof.
    intros H HI HV. unfold fit_log_likelihood_with_regularization, s_log_likelihood_with_regularization,
      log_likelihood_with_regularization_from. rewrite HI. f_equal.
    rewrite (chi_squared_is_spec lnf f H), (noise_normalization_is_spec lnf tp f H), (regularization_term_is_spec iv HV).
    rops. lra.
  Qed.
  Lemma figure_of_merit_is_spec f : fit_okb f = true -> fit_inv_okb f = true ->
    fit_figure_of_merit tp f = Some (s_figure_of_merit tp f).
  Proof.
    intros H HV. unfold fit_figure_of_merit, s_figure_of_merit, fit_inv_okb in *.
    destruct (inversion f) as [iv|] eqn:HI.
    - apply log_evidence_is_spec; assumption.
    - rewrite (log_likelihood_is_spec lnf tp f H). reflexivity.
  Qed.
End InvR.

(* the figure of merit is the evidence when an inversion is present and the likelihood otherwise (any NumOps) *)
Lemma figure_of_merit_selection {O : NumOps} (tp : T O) (f : fit (T O)) :
  fit_figure_of_merit tp f = if inversion f then fit_log_evidence tp f else Some (fit_log_likelihood tp f).
Proof. unfold fit_figure_of_merit. destruct (inversion f); reflexivity. Qed.
Lemma evidence_present_iff_inversion {O : NumOps} (tp : T O) (f : fit (T O)) :
  (fit_log_evidence tp f = None <-> inversion f = None) /\
  (fit_log_likelihood_with_regularization tp f = None <-> inversion f = None).
Proof.
  unfold fit_log_evidence, fit_log_likelihood_with_regularization.
  destruct (inversion f); split; split; intros; try discriminate; reflexivity.
Qed.

(* ================================================================== 5. the statements exported by Props/C08.v *)
Section Final.
  Variable lnf : R -> R.
  Notation O := (RL lnf).
  Variable tp : T O.
  Implicit Types (f : fit (T O)) (iv : inv (T O)).

  Theorem maps_follow_definitions f : fit_okb f = true -> noise_positiveb f = true ->
    fit_data f = map (s_data f) (seq 0 (length (data f))) /\
    fit_residual_map f = per_pixel f (s_residual f) /\
    fit_normalized_residual_map f = per_pixel f (s_normres f) /\
    fit_chi_squared_map f = per_pixel f (s_chi f).
  Proof.
    intros H _. unfold per_pixel. repeat split; apply (map_seq_ext 0).
    - apply fit_data_length. - intros i Hi. apply fit_data_nth. exact Hi.
    - apply residual_length. exact H. - intros i Hi. apply residual_nth; assumption.
    - apply normres_length. exact H. - intros i Hi. apply normres_nth; assumption.
    - apply chimap_length. exact H. - intros i Hi. apply chimap_nth; assumption.
  Qed.
  Theorem statistics_follow_definitions f : fit_okb f = true -> noise_positiveb f = true ->
    fit_chi_squared f = s_chi_squared f /\
    fit_noise_normalization tp f = s_noise_normalization tp f /\
    fit_log_likelihood tp f = s_log_likelihood tp f /\
    fit_reduced_chi_squared f = (if Nat.eqb (length (fit_pixels f)) 0 then Raise OtherException
                                 else Ok (s_chi_squared f / INR (length (fit_pixels f)))).
  Proof.
    intros H _. auto using chi_squared_is_spec, noise_normalization_is_spec, log_likelihood_is_spec,
      reduced_chi_squared_is_spec.
  Qed.
  Theorem residual_flux_fraction_definition f : fit_okb f = true ->
    length (fit_residual_flux_fraction_map f) = length (data f) /\
    forall i, (i < length (data f))%nat ->
      nth i (fit_residual_flux_fraction_map f) None =
      if excluded f i then Some 0 else if Reqb (s_data f i) 0 then None else Some (s_residual f i / s_data f i).
  Proof. intros H. split; [apply rff_length; exact H | intros i Hi; apply rff_nth; assumption]. Qed.
  Theorem signal_to_noise_definition f : fit_okb f = true ->
    length (fit_signal_to_noise_map f) = length (data f) /\
    forall i, (i < length (data f))%nat -> 0 < at_ (noise f) i ->
      nth i (fit_signal_to_noise_map f) None =
      Some (if Rltb (s_data f i) 0 then 0 else s_data f i / at_ (noise f) i).
  Proof. intros H. split; [apply snr_length; exact H | intros i Hi Hp; apply snr_nth; assumption]. Qed.

  Theorem evidence_composition f iv :
    fit_okb f = true -> noise_positiveb f = true -> inversion f = Some iv -> inv_okb iv = true ->
    fit_log_evidence tp f = Some (s_log_evidence tp f iv) /\
    fit_log_likelihood_with_regularization tp f = Some (s_log_likelihood_with_regularization tp f iv).
  Proof. intros H _ HI HV. split; [apply log_evidence_is_spec | apply log_likelihood_with_regularization_is_spec]; assumption. Qed.
  Theorem figure_of_merit_definition f : fit_okb f = true -> noise_positiveb f = true -> fit_inv_okb f = true ->
    fit_figure_of_merit tp f = Some (match inversion f with Some iv => s_log_evidence tp f iv | None => s_log_likelihood tp f end).
  Proof. intros H _ HV. apply figure_of_merit_is_spec; assumption. Qed.
End Final.

Theorem reduced_matrices_are_principal_submatrices {O : NumOps} (iv : inv (T O)) : inv_okb iv = true ->
  regularization_matrix_reduced iv = tabulate (s_H iv) (reg_indices (objs iv)) /\
  curvature_reg_matrix_reduced iv = tabulate (s_FH iv) (reg_indices (objs iv)) /\
  reconstruction_reduced iv = map (at_ (recon iv)) (reg_indices (objs iv)).
Proof.
  intros H. split; [exact (regularization_matrix_reduced_is_principal iv H)|].
  split; [exact (curvature_reg_matrix_reduced_is_principal iv H) | exact (reconstruction_reduced_is_restriction iv H)].
Qed.

(* ================================================================== 6. concrete inputs for the non-vacuity examples *)
Section Examples.
  Variable O : NumOps.
  Let z := ofZ O.
  (* three linear objects: 1 regularized parameter, 1 unregularized, 2 regularized *)
  Definition ex_inv : inv (T O) :=
    {| objs := [(1, true); (1, false); (2, true)]%nat;
       blocks := [ [[z 2]]; []; [[z 2; z (-1)]; [z (-1); z 2]] ];
       curv := [ [z 4; z 1; z 0; z 1]; [z 1; z 3; z 1; z 0]; [z 0; z 1; z 5; z 2]; [z 1; z 0; z 2; z 6] ];
       recon := [z 1; z 5; z (-2); z 3] |}.
  (* the same objects and regularization, another curvature matrix and another value at the unregularized parameter *)
  Definition ex_inv2 : inv (T O) :=
    {| objs := objs ex_inv; blocks := blocks ex_inv;
       curv := [ [z 9; z 0; z 0; z 0]; [z 0; z 9; z 0; z 0]; [z 0; z 0; z 9; z 0]; [z 0; z 0; z 0; z 9] ];
       recon := [z 1; z 77; z (-2); z 3] |}.
  (* 2 x 2 native arrays, second pixel masked and carrying garbage [g1 g2 g3] *)
  Definition ex_fit (g1 g2 g3 : T O) : fit (T O) :=
    {| mask := [false; true; false; false]; use_mask := true; sky := z 1;
       data := [z 3; g1; z (-1); z 5]; noise := [z 2; g2; z 1; z 4]; model := [z 1; g3; z 1; z 0];
       inversion := Some ex_inv |}.
End Examples.

Lemma ex_hyps_R :
  let f := ex_fit (RL ln) 99%R 0%R 1000%R in
  fit_okb f = true /\ noise_positiveb f = true /\ fit_inv_okb f = true /\
  inversion f = Some (ex_inv (RL ln)) /\ inv_okb (ex_inv (RL ln)) = true /\
  fit_pixels f = [0; 2; 3]%nat /\ excluded f 1 = true /\
  has_reg (objs (ex_inv (RL ln))) = true /\ all_have_reg (objs (ex_inv (RL ln))) = false /\
  reg_indices (objs (ex_inv (RL ln))) = [0; 2; 3]%nat.
Proof.
  cbv zeta. repeat split; try (lazy; reflexivity).
  unfold noise_positiveb. change (fit_pixels (ex_fit (RL ln) 99 0 1000)) with [0; 2; 3]%nat.
  unfold at_, ex_fit. cbn [forallb noise nth]. rops.
  rewrite !(proj2 (Rltb_true _ _)) by lra. reflexivity.
Qed.
Lemma ex_hyps_masked :
  agree_on_unmasked (ex_fit QOps (99#1)%Q (0#1)%Q (1000#1)%Q) (ex_fit QOps (-7#1)%Q (1#2)%Q (3#1)%Q) /\
  ex_fit QOps (99#1)%Q (0#1)%Q (1000#1)%Q <> ex_fit QOps (-7#1)%Q (1#2)%Q (3#1)%Q.
Proof.
  split; [unfold agree_on_unmasked; cbn; repeat split|].
  intros E. apply (f_equal (fun f => nth 1 (data f) (0#1)%Q)) in E. cbn in E. discriminate E.
Qed.

(* ================================================================== 7. the composition formulas generated from fit_util.py *)
(* Gen/Gen_fit.v is regenerated from autoarray/fit/fit_util.py on every run (py2v/gen_fit.py, fail-closed): these
   statements are re-checked against what the code says now.  The proofs are by [lra], so that any arithmetic
   re-arrangement of the source that keeps the value keeps them. *)
Theorem generated_composition_formulas (lnf : R -> R) (chi reg ldc ldr nn : R) :
  @g_log_likelihood_from (RL lnf) chi nn = (- ((chi + nn) / 2))%R /\
  @g_log_likelihood_with_regularization_from (RL lnf) chi reg nn = (- ((chi + reg + nn) / 2))%R /\
  @g_log_evidence_from (RL lnf) chi reg ldc ldr nn = (- ((chi + reg + ldc - ldr + nn) / 2))%R.
Proof.
  unfold g_log_likelihood_from, g_log_likelihood_with_regularization_from, g_log_evidence_from. rops.
  repeat split; lra.
Qed.
(* ... and they are the model's composition layer (over the reals) *)
Theorem generated_composition_is_model (lnf : R -> R) (chi reg ldc ldr nn : R) :
  @g_log_likelihood_from (RL lnf) chi nn = @log_likelihood_from (RL lnf) chi nn /\
  @g_log_likelihood_with_regularization_from (RL lnf) chi reg nn = @log_likelihood_with_regularization_from (RL lnf) chi reg nn /\
  @g_log_evidence_from (RL lnf) chi reg ldc ldr nn = @log_evidence_from (RL lnf) chi reg ldc ldr nn.
Proof.
  unfold g_log_likelihood_from, g_log_likelihood_with_regularization_from, g_log_evidence_from,
    log_likelihood_from, log_likelihood_with_regularization_from, log_evidence_from. rops.
  repeat split; lra.
Qed.

Lemma ex_hyps_inv2 :
  inv_okb (ex_inv (RL ln)) = true /\ inv_okb (ex_inv2 (RL ln)) = true /\
  objs (ex_inv (RL ln)) = objs (ex_inv2 (RL ln)) /\ blocks (ex_inv (RL ln)) = blocks (ex_inv2 (RL ln)) /\
  (forall i, In i (reg_indices (objs (ex_inv (RL ln)))) -> at_ (recon (ex_inv (RL ln))) i = at_ (recon (ex_inv2 (RL ln))) i) /\
  recon (ex_inv (RL ln)) <> recon (ex_inv2 (RL ln)).
Proof.
  repeat split; try (lazy; reflexivity).
  - change (reg_indices (objs (ex_inv (RL ln)))) with [0; 2; 3]%nat. intros i [<-|[<-|[<-|[]]]]; reflexivity.
  - intros E. apply (f_equal (fun l => nth 1 l 0%R)) in E. cbn in E. apply eq_IZR in E. discriminate E.
Qed.
