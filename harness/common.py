"""Shared machinery of the /verif checks (runs under /venv/bin/python with PYTHONPATH=<repo>).

A property module harness/cNN.py provides
    ID            "C19"
    GEN           list of py2v targets to regenerate (may be empty)
    PROPS         "Props/C19.v"      theorem file (statements only)
    COQ_CHECK     ("Model.C19x", "check")     case -> nat verdict (see coq/Base/Check.v)
    COQ_FALLBACK  ("Model.C19", "spec_ok") or None: spec-only checker that still builds when the
                  generated model / a proof is broken
    COQ_IMPORTS   extra `From ... Require Import ...` lines for the generated case files
    gen_inputs(tier, rng) -> iterable of JSON-able inputs
    run_case(inp) -> dict(coq=<Coq term of type case>, out=<JSON-able impl output>,
                          py_ok=<True|False|None>, nontrivial=<bool>, kind=<str>, [finding=<key>])
    TRUSTED, ASSUMPTIONS, RULE   strings for the evidence
"""
import os, sys, json, re, subprocess, tempfile, shutil, time, hashlib, random, fcntl, glob
from fractions import Fraction

VERIF = os.path.dirname(os.path.dirname(os.path.abspath(__file__)))
COQ = os.path.join(VERIF, "coq")
REPO = os.environ.get("VERIF_REPO", "/repo")
FORBIDDEN = r"\b(Admitted|admit|Axiom|Axioms|Parameter|Parameters|Conjecture|Hypothesis|Variable|Variables|Hypotheses)\b|Unset\s+Guard|bypass_check|type-in-type|impredicative-set|Admit\s+Obligations"

_AA = None
def import_aa():
    """import autoarray once, swallowing its start-up banner and SyntaxWarnings"""
    global _AA
    if _AA is None:
        import io, contextlib, warnings
        warnings.filterwarnings("ignore")
        with contextlib.redirect_stdout(io.StringIO()), contextlib.redirect_stderr(io.StringIO()):
            import autoarray
        _AA = autoarray
    return _AA

# ----------------------------------------------------------------------------- Coq printing
def cz(n):
    n = int(n)
    return f"({n})" if n < 0 else str(n)
def cnat(n): return f"{int(n)}%nat"
def cbool(b): return "true" if b else "false"
def cq(x):
    f = Fraction(x)
    return f"(Qmake {cz(f.numerator)} {f.denominator})"
def clist(items): return "[" + "; ".join(items) + "]"
def ctup(items): return "(" + ", ".join(items) + ")"
def copt(x, f): return "None" if x is None else f"(Some {f(x)})"
def cres(x, f):
    """x = ('ok', v) | ('raise', name)"""
    return f"(Ok {f(x[1])})" if x[0] == "ok" else f"(Raise {x[1]})"

EXN_ENUM = {"RegionException", "UnboundLocalError", "TypeError", "MaskException", "KernelException",
            "ArrayException", "InversionException", "IndexError"}
def exn_name(e):
    n = type(e).__name__
    return n if n in EXN_ENUM else "OtherException"
def call_res(f, *a, **k):
    try:
        return ("ok", f(*a, **k))
    except Exception as e:   # noqa
        return ("raise", exn_name(e))

def frac(x):
    """exact rational value of a float / int / numpy scalar"""
    return Fraction(float(x)) if not isinstance(x, (int, Fraction)) else Fraction(x)

# ----------------------------------------------------------------------------- Coq build
class Lock:
    def __enter__(self):
        self.f = open(os.path.join(COQ, ".lock"), "w"); fcntl.flock(self.f, fcntl.LOCK_EX); return self
    def __exit__(self, *a):
        fcntl.flock(self.f, fcntl.LOCK_UN); self.f.close()

def sh(cmd, cwd=None, timeout=3600, env=None):
    p = subprocess.run(cmd, cwd=cwd, shell=isinstance(cmd, str), stdout=subprocess.PIPE, stderr=subprocess.STDOUT,
                       text=True, timeout=timeout, env=env)
    return p.returncode, p.stdout

def all_v_files():
    out = []
    for d in ("Base", "Gen", "Model", "Proofs", "Props"):
        out += sorted(glob.glob(os.path.join(COQ, d, "*.v")))
    return [os.path.relpath(f, COQ) for f in out]

def ensure_makefile():
    files = all_v_files()
    stamp = os.path.join(COQ, ".files")
    txt = "\n".join(files)
    if not os.path.exists(os.path.join(COQ, "Makefile")) or not os.path.exists(stamp) or open(stamp).read() != txt:
        rc, out = sh(["coq_makefile", "-f", "_CoqProject", "-o", "Makefile"] + files, cwd=COQ)
        if rc != 0: raise RuntimeError("coq_makefile failed:\n" + out)
        open(stamp, "w").write(txt)

def run_py2v(targets, repo=None):
    if not targets: return 0, ""
    return sh([sys.executable, os.path.join(VERIF, "py2v", "py2v.py"), "--repo", repo or REPO] + list(targets))

def make_targets(targets, jobs=None, timeout=3000):
    jobs = jobs or int(os.environ.get("VERIF_JOBS", "16"))
    ensure_makefile()
    return sh(["timeout", str(timeout), "make", "-k", f"-j{jobs}"] + targets, cwd=COQ, timeout=timeout + 60)

def forbidden_scan():
    bad = []
    for f in all_v_files():
        txt = open(os.path.join(COQ, f)).read()
        txt = re.sub(r"\(\*.*?\*\)", "", txt, flags=re.S)   # comments may mention the words
        for m in re.finditer(FORBIDDEN, txt):
            # `Variable`/`Hypothesis`/`Context` inside a Section are allowed; flag only outside sections
            w = m.group(0)
            if w in ("Variable", "Variables", "Hypothesis", "Hypotheses"):
                before = txt[:m.start()]
                if len(re.findall(r"^\s*Section\s", before, flags=re.M)) > len(re.findall(r"^\s*End\s", before, flags=re.M)):
                    continue
            bad.append(f"{f}: {w}")
    return bad

def count_theorems(props_file):
    txt = open(os.path.join(COQ, props_file)).read()
    txt = re.sub(r"\(\*.*?\*\)", "", txt, flags=re.S)
    return re.findall(r"^\s*Theorem\s+(\w+)", txt, flags=re.M)

def parse_assumptions(out):
    """split the output of a Props file into the per-theorem Print Assumptions blocks"""
    axioms = set()
    # an axiom is printed as `Qualified.name : type`; the ` : type` part may start on the next line
    for m in re.finditer(r"^([A-Za-z_][\w.']*)[ \t]*(?:\n[ \t]+)?:", out, flags=re.M):
        if "." in m.group(1): axioms.add(m.group(1))
    closed = len(re.findall(r"Closed under the global context", out))
    return sorted(axioms), closed

# ----------------------------------------------------------------------------- running cases in Coq
CASE_HDR = """From Coq Require Import ZArith QArith List Bool.
From PAV Require Import Base.Res Base.Check {mod}.
{imports}
Import ListNotations.
Local Open Scope Z_scope.
Definition cases : list case := [
{cases}
].
Set Printing Width 1000000.
Eval vm_compute in (run_cases {fun} cases).
"""

def run_coq_cases(mod, fun, imports, coq_terms, shard=300, jobs=None, timeout=1800):
    """returns dict index -> verdict code (only non-zero), or raises RuntimeError with coqc output"""
    jobs = jobs or int(os.environ.get("VERIF_JOBS", "16"))
    tmp = tempfile.mkdtemp(prefix="verif_cases_")
    try:
        files = []
        for si, start in enumerate(range(0, len(coq_terms), shard)):
            chunk = coq_terms[start:start + shard]
            path = os.path.join(tmp, f"cases_{si}.v")
            with open(path, "w") as f:
                f.write(CASE_HDR.format(mod=mod, imports=imports, fun=fun, cases=";\n".join(chunk)))
            files.append((start, path))
        procs = []
        results = {}
        pending = list(files)
        running = []
        errors = []
        def reap(block):
            for it in list(running):
                start, path, p = it
                if block: p.wait()
                if p.poll() is None: continue
                running.remove(it)
                out = open(path + ".out").read()
                if p.returncode != 0:
                    errors.append(out[-3000:]); continue
                m = re.search(r"=\s*(\[.*?\])\s*:\s*list", out, flags=re.S)
                if not m:
                    errors.append("unparsable coqc output: " + out[-2000:]); continue
                for a, b in re.findall(r"\((\d+)(?:%nat)?,\s*(\d+)(?:%nat)?\)", m.group(1)):
                    results[start + int(a)] = int(b)
        while pending or running:
            while pending and len(running) < jobs:
                start, path = pending.pop(0)
                # output goes to a file, not a pipe: a shard printing more than the pipe buffer would block for ever
                p = subprocess.Popen(["timeout", str(timeout), "coqc", "-R", COQ, "PAV", "-w", "none", path],
                                     stdout=open(path + ".out", "w"), stderr=subprocess.STDOUT, cwd=tmp)
                running.append((start, path, p))
            reap(block=False)
            if running: time.sleep(0.05)
        if errors: raise RuntimeError("coqc failed on generated cases:\n" + errors[0])
        return results
    finally:
        shutil.rmtree(tmp, ignore_errors=True)

# ----------------------------------------------------------------------------- known findings
def load_known():
    p = os.path.join(VERIF, "known_findings.json")
    if not os.path.exists(p): return []
    return json.load(open(p))["findings"]

def jdump(x):
    return json.dumps(x, sort_keys=True, default=lambda o: str(o))
