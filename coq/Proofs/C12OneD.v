(* C12 -- proofs for the 1-D variants (Mask1D, Grid1D, Geometry1D and the 1d functions of geometry_util).  At [ROps]. *)
From Coq Require Import ZArith QArith List Bool Reals Lra Lia.
From PAV Require Import Base.Res Base.Check Base.NumOps Model.C12.
Import ListNotations.
Local Open Scope R_scope.

Ltac rs1 := cbn [fst snd T add sub mul div opp ofZ ROps] in *.
Ltac unf1 := unfold central_scaled_1d, half, two, one, zero in *; rs1.

Lemma grid_1d_translates (r : list bool) (ps o d : R) : ps <> 0 ->
  @grid_1d_via_mask ROps r ps (o + d) = @shift1 ROps d (@grid_1d_via_mask ROps r ps o).
Proof.
  intros A. unfold grid_1d_via_mask, shift1. rewrite map_map. apply map_ext. intros x. unf1. field. exact A.
Qed.
Lemma grid_1d_all_false_translates (r : list bool) (ps o d : R) : ps <> 0 ->
  @grid_1d_all_false ROps r ps (o + d) = @shift1 ROps d (@grid_1d_all_false ROps r ps o).
Proof. intros A. unfold grid_1d_all_false. apply grid_1d_translates. exact A. Qed.
Lemma grid_1d_spec (r : list bool) (ps o : R) : ps <> 0 ->
  @grid_1d_via_mask ROps r ps o = @shift1 ROps o (@rel_grid_1d ROps r ps).
Proof.
  intros A. unfold grid_1d_via_mask, rel_grid_1d, shift1. rewrite map_map. apply map_ext. intros x. unf1. field. exact A.
Qed.
Lemma extent_1d_translates (n : Z) (ps o d : R) :
  @extent_1d ROps n ps (o + d) = (fst (@extent_1d ROps n ps o) + d, snd (@extent_1d ROps n ps o) + d).
Proof. unfold extent_1d; unf1. f_equal; unfold Rdiv; ring. Qed.
Lemma extent_1d_spec (n : Z) (ps o : R) :
  @extent_1d ROps n ps o = (fst (@rel_extent_1d ROps n ps) + o, snd (@rel_extent_1d ROps n ps) + o).
Proof. unfold extent_1d, rel_extent_1d; unf1. f_equal; unfold Rdiv; ring. Qed.
Lemma pixel_coordinates_1d_invariant (n : Z) (ps o d x : R) :
  @pixel_coordinates_1d ROps n ps (o + d) (x + d) = @pixel_coordinates_1d ROps n ps o x.
Proof. unfold pixel_coordinates_1d; unf1. f_equal. unfold Rdiv; ring. Qed.
Lemma pixel_coordinates_1d_spec (n : Z) (ps o x : R) :
  @pixel_coordinates_1d ROps n ps o x = @rel_pixel_1d ROps n ps (x - o).
Proof. reflexivity. Qed.
Lemma scaled_coordinates_1d_translates (n : Z) (ps o d q : R) : ps <> 0 ->
  @scaled_coordinates_1d ROps n ps (o + d) q = @scaled_coordinates_1d ROps n ps o q + d.
Proof. intros A. unfold scaled_coordinates_1d; unf1. field. exact A. Qed.
Lemma scaled_coordinates_1d_spec (n : Z) (ps o q : R) : ps <> 0 ->
  @scaled_coordinates_1d ROps n ps o q = @rel_scaled_1d ROps n ps q + o.
Proof. intros A. unfold scaled_coordinates_1d, rel_scaled_1d; unf1. field. exact A. Qed.

Lemma one_dimensional_variants :
  (forall (r : list bool) (ps o d : R), ps <> 0 ->
     @grid_1d_via_mask ROps r ps (o + d) = @shift1 ROps d (@grid_1d_via_mask ROps r ps o) /\
     @grid_1d_all_false ROps r ps (o + d) = @shift1 ROps d (@grid_1d_all_false ROps r ps o) /\
     @grid_1d_via_mask ROps r ps o = @shift1 ROps o (@rel_grid_1d ROps r ps)) /\
  (forall (n : Z) (ps o d : R),
     @extent_1d ROps n ps (o + d) = (fst (@extent_1d ROps n ps o) + d, snd (@extent_1d ROps n ps o) + d) /\
     @extent_1d ROps n ps o = (fst (@rel_extent_1d ROps n ps) + o, snd (@rel_extent_1d ROps n ps) + o)) /\
  (forall (n : Z) (ps o d x : R),
     @pixel_coordinates_1d ROps n ps (o + d) (x + d) = @pixel_coordinates_1d ROps n ps o x /\
     @pixel_coordinates_1d ROps n ps o x = @rel_pixel_1d ROps n ps (x - o)) /\
  (forall (n : Z) (ps o d q : R), ps <> 0 ->
     @scaled_coordinates_1d ROps n ps (o + d) q = @scaled_coordinates_1d ROps n ps o q + d /\
     @scaled_coordinates_1d ROps n ps o q = @rel_scaled_1d ROps n ps q + o).
Proof.
  split; [| split; [| split]].
  - intros r ps o d A. split; [| split].
    + apply grid_1d_translates; assumption.
    + apply grid_1d_all_false_translates; assumption.
    + apply grid_1d_spec; assumption.
  - intros n ps o d. split.
    + apply extent_1d_translates.
    + apply extent_1d_spec.
  - intros n ps o d x. split.
    + apply pixel_coordinates_1d_invariant.
    + apply pixel_coordinates_1d_spec.
  - intros n ps o d q A. split.
    + apply scaled_coordinates_1d_translates; assumption.
    + apply scaled_coordinates_1d_spec; assumption.
Qed.
