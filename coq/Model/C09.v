(* C09 -- over-sampling: uniform partition, exact per-pixel means, decorator dispatch, iterative rule.

   (a) MODEL of the anchored code (autoarray/operators/over_sampling/{over_sample_util,uniform,iterate,
       decorator}.py, plus the two helpers they call: geometry_util.central_scaled_coordinate_2d_from and
       grid_2d_util.grid_2d_slim_via_mask_from), written once over [NumOps]: proved at [ROps], executed at
       [QOps].  The double loop `for y: for x: if not mask[y,x]: ...; index += 1` is [pixel_loop] (loop-carried
       counter [index], incremented at unmasked pixels only); `for y1 in range(sub): for x1 in range(sub)` is
       two nested [for_range]; `out[index] += v` is [upd_add] on a zero array.  Arrays that the code fills by
       SEQUENTIAL writes `a[k] = v; k += 1` from k = 0 into np.zeros(total) are modelled by the list of written
       values in write order (equal whenever total = number of writes, i.e. len(sub_size) = pixels_in_mask,
       which the public class guarantees and every theorem assumes).
   (b) independent SPECIFICATION (closed formulas over the list of unmasked pixels).
   (c) correspondence [case], [agree], [spec_ok], [check].          No proofs in this file. *)
From Coq Require Import ZArith QArith Qabs List Bool Arith.
From PAV Require Import Base.NumOps Base.Res Base.Check Base.Sum.
Import ListNotations.

Definition mask := list (list bool).          (* true = masked, as in autoarray *)

(* ------------------------------------------------------------------ generic loop skeletons *)
Definition for_range {St} (n : nat) (body : nat -> St -> St) (s : St) : St :=
  fold_left (fun st i => body i st) (seq 0 n) s.

(* for x in range(W): if not row[x]: st = body y x index st; index += 1 *)
Fixpoint row_loop {St} (body : nat -> nat -> nat -> St -> St) (y : nat) (row : list bool) (x : nat)
         (st : nat * St) : nat * St :=
  match row with
  | [] => st
  | b :: r => row_loop body y r (S x) (if b then st else (S (fst st), body y x (fst st) (snd st)))
  end.
Fixpoint rows_loop {St} (body : nat -> nat -> nat -> St -> St) (m : mask) (y : nat) (st : nat * St) : nat * St :=
  match m with
  | [] => st
  | row :: t => rows_loop body t (S y) (row_loop body y row 0%nat st)
  end.
Definition pixel_loop {St} (body : nat -> nat -> nat -> St -> St) (m : mask) (s0 : St) : St :=
  snd (rows_loop body m 0%nat (0%nat, s0)).

(* unmasked pixels (y, x) in slim (row-major) order; used by the specification AND as the iteration domain
   of theorems; the model only uses it through [pixels_in_mask] *)
Fixpoint unmasked_row (y : nat) (row : list bool) (x : nat) : list (nat * nat) :=
  match row with
  | [] => []
  | b :: r => if b then unmasked_row y r (S x) else (y, x) :: unmasked_row y r (S x)
  end.
Fixpoint unmasked_from (m : mask) (y : nat) : list (nat * nat) :=
  match m with
  | [] => []
  | row :: t => unmasked_row y row 0%nat ++ unmasked_from t (S y)
  end.
Definition unmasked (m : mask) : list (nat * nat) := unmasked_from m 0%nat.
Definition pixels_in_mask (m : mask) : nat :=       (* np.size(mask) - np.sum(mask) *)
  fold_left (fun n row => fold_left (fun k (b : bool) => if b then k else S k) row n) m 0%nat.
Definition shape0 (m : mask) : nat := length m.
Definition shape1 (m : mask) : nat := length (hd [] m).
Definition rectb (m : mask) : bool := forallb (fun row => Nat.eqb (length row) (shape1 m)) m.

(* Array2D(values=slim, mask).native : zeros(shape), then native[y,x] = slim[i] for the i-th unmasked pixel.
   Array2D(values=native, mask).slim : the values at the unmasked pixels in row-major order.  (Subject of
   property C01; here structural glue.) *)
Section Glue.
  Context {A : Type} (z : A).
  Fixpoint native_row (row : list bool) (sl : list A) : list A * list A :=
    match row with
    | [] => ([], sl)
    | true :: r => let '(vs, rest) := native_row r sl in (z :: vs, rest)
    | false :: r => let '(vs, rest) := native_row r (tl sl) in (hd z sl :: vs, rest)
    end.
  Fixpoint to_native (m : mask) (sl : list A) : list (list A) :=
    match m with
    | [] => []
    | row :: t => let '(vs, rest) := native_row row sl in vs :: to_native t rest
    end.
  Fixpoint slim_row (row : list bool) (vs : list A) : list A :=
    match row, vs with
    | b :: r, v :: t => if b then slim_row r t else v :: slim_row r t
    | _, _ => []
    end.
  Fixpoint to_slim (m : mask) (a : list (list A)) : list A :=
    match m, a with
    | row :: t, vs :: u => slim_row row vs ++ to_slim t u
    | _, _ => []
    end.
End Glue.

Fixpoint map2 {A B C} (f : A -> B -> C) (a : list A) (b : list B) : list C :=
  match a, b with
  | x :: s, y :: t => f x y :: map2 f s t
  | _, _ => []
  end.
Definition map2d {A B C} (f : A -> B -> C) (a : list (list A)) (b : list (list B)) : list (list C) :=
  map2 (map2 f) a b.

(* ------------------------------------------------------------------ user functions of the correspondence run *)
(* what the user function does with the value p of its polynomial: integer- / bool-valued functions (indicator, step,
   count, sign, floor) are what users write with comparisons; the dtype of the returned array is NOT part of the function *)
Inductive upost (A : Type) :=
| PId                                  (* p *)
| PCount (off : Z) (cuts : list A)     (* off + #{c in cuts : c < p}   ([0]: the indicator p > 0) *)
| PSign                                (* 1 / 0 / -1 *)
| PFloor.                              (* floor p *)
Arguments PId {A}. Arguments PCount {A}. Arguments PSign {A}. Arguments PFloor {A}.
Record ufun (A : Type) := { absy : bool; absx : bool; terms : list (nat * nat * A); post : upost A }.
Arguments absy {A}. Arguments absx {A}. Arguments terms {A}. Arguments post {A}.

Section Model.
  Context {O : NumOps}.
  Local Notation Num := (T O).
  Local Infix "+." := (add O) (at level 50, left associativity).
  Local Infix "-." := (sub O) (at level 50, left associativity).
  Local Infix "*." := (mul O) (at level 40, left associativity).
  Local Infix "/." := (div O) (at level 40, left associativity).

  Fixpoint powN (x : Num) (n : nat) : Num := match n with 0%nat => one | S k => x *. powN x k end.
  (* f(y,x) = sum c * u^i * v^j, u = y or |y|, v = x or |x| *)
  Definition eval_upoly (f : ufun Num) (p : Num * Num) : Num :=
    let u := if absy f then absT (fst p) else fst p in
    let v := if absx f then absT (snd p) else snd p in
    fold_left (fun acc t => let '(i, j, c) := t in acc +. c *. powN u i *. powN v j) (terms f) zero.
  Definition eval_upost (g : upost Num) (v : Num) : Num :=
    match g with
    | PId => v
    | PCount off cuts => ofZ O (off + Z.of_nat (length (filter (fun c => ltb O c v) cuts)))
    | PSign => if ltb O zero v then one else if ltb O v zero then opp O one else zero
    | PFloor => ofZ O (floorZ O v)
    end.
  Definition eval_ufun (f : ufun Num) (p : Num * Num) : Num := eval_upost (post f) (eval_upoly f p).

  (* ---------------------------------------------------------------- geometry helpers *)
  (* geometry_util.central_pixel_coordinates_2d_from + central_scaled_coordinate_2d_from *)
  Definition central_scaled (H W : nat) (ps origin : Num * Num) : Num * Num :=
    let cy := ofZ O (Z.of_nat H - 1) /. two in
    let cx := ofZ O (Z.of_nat W - 1) /. two in
    (cy +. (fst origin /. fst ps), cx -. (snd origin /. snd ps)).

  (* grid_2d_util.grid_2d_slim_via_mask_from (mask.derive_grid.unmasked, Grid2D.from_mask) *)
  Definition grid_slim_via_mask (m : mask) (ps origin : Num * Num) : list (Num * Num) :=
    let c := central_scaled (shape0 m) (shape1 m) ps origin in
    pixel_loop (fun y x _index acc =>
        acc ++ [ (opp O (ofNat y -. fst c) *. fst ps, (ofNat x -. snd c) *. snd ps) ]) m [].

  (* ---------------------------------------------------------------- over_sample_util.py *)
  (* grid_2d_slim_over_sampled_via_mask_from *)
  Definition over_sampled_grid (m : mask) (ps origin : Num * Num) (ss : list nat) : list (Num * Num) :=
    let c := central_scaled (shape0 m) (shape1 m) ps origin in
    pixel_loop (fun y x index acc =>
        let s := nth index ss 0%nat in
        let y_sub_half := fst ps /. two in
        let y_sub_step := fst ps /. ofNat s in
        let x_sub_half := snd ps /. two in
        let x_sub_step := snd ps /. ofNat s in
        let y_scaled := (ofNat y -. fst c) *. fst ps in
        let x_scaled := (ofNat x -. snd c) *. snd ps in
        for_range s (fun y1 acc =>
          for_range s (fun x1 acc =>
            acc ++ [ (opp O (y_scaled -. y_sub_half +. ofNat y1 *. y_sub_step +. (y_sub_step /. two)),
                      x_scaled -. x_sub_half +. ofNat x1 *. x_sub_step +. (x_sub_step /. two)) ]) acc) acc) m [].

  (* binned_array_2d_from : state = (sub_index, binned_array_2d_slim) *)
  Definition binned (arr : list Num) (m : mask) (ss : list nat) : list Num :=
    let total_pixels := pixels_in_mask m in
    let sub_fraction := map (fun s => one /. ofNat (s ^ 2)) ss in
    snd (pixel_loop (fun _y _x index st =>
        let s := nth index ss 0%nat in
        for_range s (fun _y1 st =>
          for_range s (fun _x1 st =>
            (S (fst st), upd_add (snd st) index (nthT arr (fst st) *. nthT sub_fraction index))) st) st)
      m (0%nat, zeros total_pixels)).

  (* slim_index_for_sub_slim_index_via_mask_2d_from *)
  Definition slim_for_sub_slim (m : mask) (ss : list nat) : list nat :=
    pixel_loop (fun _y _x index acc =>
        let s := nth index ss 0%nat in
        for_range s (fun _ acc => for_range s (fun _ acc => acc ++ [index]) acc) acc) m [].

  (* native_sub_index_for_slim_sub_index_2d_from *)
  Definition native_for_sub_slim (m : mask) (ss : list nat) : list (nat * nat) :=
    pixel_loop (fun y x index acc =>
        let s := nth index ss 0%nat in
        for_range s (fun y1 acc => for_range s (fun x1 acc => acc ++ [((y * s) + y1, (x * s) + x1)%nat]) acc) acc) m [].

  (* ---------------------------------------------------------------- uniform.py : OverSamplerUniform *)
  (* __init__ with an int sub_size: np.full(fill_value=sub_size, shape=mask.shape_slim) *)
  Definition full_sub_size (m : mask) (s : nat) : list nat := repeat s (pixels_in_mask m).

  (* sub_pixel_areas *)
  Definition sub_pixel_areas (ps : Num * Num) (ss : list nat) : list Num :=
    let pixel_area := fst ps *. snd ps in
    for_range (length ss) (fun i acc =>
      let s := nth i ss 0%nat in
      for_range (s ^ 2) (fun _j acc => acc ++ [pixel_area /. ofNat (s ^ 2)]) acc) [].

  (* array_via_func_from: func evaluated on over_sampled_grid (pointwise user function), then binned *)
  Definition array_via_func (f : Num * Num -> Num) (m : mask) (ps origin : Num * Num) (ss : list nat) : list Num :=
    binned (map f (over_sampled_grid m ps origin ss)) m ss.

  (* ---------------------------------------------------------------- iterate.py *)
  (* one pixel of threshold_mask_via_arrays_jit_from.  numba is absent, the operands are numpy float64:
     lower / 0.0 = inf (no exception), inf > 1.0, 1.0 / inf = 0.0 -- modelled by the explicit [eqb] branch *)
  Definition fractional_accuracy_of (lower higher : Num) : Num :=
    if ltb O zero lower then
      if eqb O higher zero then zero
      else let fa := lower /. higher in if ltb O one fa then one /. fa else fa
    else zero.
  Definition threshold_pixel (thr rel : option Num) (higher_masked : bool) (lower higher : Num) : bool :=
    let tm := true in                       (* Mask2D.all_false(..., invert=True) *)
    let tm := match thr with
              | Some t => if negb higher_masked && ltb O (fractional_accuracy_of lower higher) t then false else tm
              | None => tm end in
    match rel with
    | Some r => if negb higher_masked && ltb O r (absT (lower -. higher)) then false else tm
    | None => tm
    end.
  Definition threshold_mask_from (thr rel : option Num) (lower higher : list (list Num)) (higher_mask : mask) : mask :=
    map2d (fun (mk : bool) lh => threshold_pixel thr rel mk (fst lh) (snd lh)) higher_mask (map2d pair lower higher).
  (* iterated_array_jit_from *)
  Definition iterated_array_from (iterated : list (list Num)) (tm_higher tm_lower : mask) (higher : list (list Num))
    : list (list Num) :=
    map2d (fun it (x : bool * bool * Num) => let '(h, l, v) := x in if h && negb l then v else it)
          iterated (map2d pair (map2d pair tm_higher tm_lower) higher).
  (* array_at_sub_size_from: OverSamplerUniform(mask=mk, sub_size=int), func on its grid, binned, .native *)
  Definition array_at_sub_size (f : Num * Num -> Num) (ps origin : Num * Num) (mk : mask) (s : nat) : list (list Num) :=
    to_native zero mk (array_via_func f mk ps origin (full_sub_size mk s)).

  Definition is_all_true (mk : mask) : bool := Nat.eqb (pixels_in_mask mk) 0.
  Definition any_nonzero (a : list (list Num)) : bool := existsb (existsb (fun v => negb (eqb O v zero))) a.

  (* the `for sub_size in self.sub_steps[:-1]` loop; inl = early `return Array2D(values=iterated_array, ...)` *)
  Fixpoint iterate_loop (f : Num * Num -> Num) (ps origin : Num * Num) (thr rel : option Num) (steps : list nat)
           (array_sub_1 iterated : list (list Num)) (tm_lower : mask)
    : list (list Num) + (list (list Num) * mask) :=
    match steps with
    | [] => inr (iterated, tm_lower)
    | s :: rest =>
        let higher := array_at_sub_size f ps origin tm_lower s in
        let tm_higher := threshold_mask_from thr rel array_sub_1 higher tm_lower in
        let iterated' := iterated_array_from iterated tm_higher tm_lower higher in
        if is_all_true tm_higher then inl iterated'
        else iterate_loop f ps origin thr rel rest higher iterated' tm_higher
    end.

  (* OverSamplerIterate.array_via_func_from *)
  Definition iterate_via_func (f : Num * Num -> Num) (m : mask) (ps origin : Num * Num) (thr rel : option Num)
             (sub_steps : list nat) : res (list Num) :=
    let array_sub_1 := to_native zero m (map f (grid_slim_via_mask m ps origin)) in
    if negb (any_nonzero array_sub_1) then Ok (to_slim m array_sub_1)          (* `if not np.any(array_sub_1)` *)
    else
      let iterated0 := map (fun row => map (fun _ : bool => zero) row) m in      (* np.zeros(shape_native) *)
      match iterate_loop f ps origin thr rel (removelast sub_steps) array_sub_1 iterated0 m with
      | inl iterated => Ok (to_slim m iterated)
      | inr (iterated, tm_lower) =>
          match sub_steps with
          | [] => Raise IndexError                                                (* self.sub_steps[-1] *)
          | _ => let higher := array_at_sub_size f ps origin tm_lower (last sub_steps 0%nat) in
                 Ok (to_slim m (map2d (add O) iterated higher))
          end
      end.

  (* ---------------------------------------------------------------- decorator.py *)
  Inductive over_sampling :=
  | OSUniformInt (s : nat)                       (* OverSamplingUniform(sub_size=int) *)
  | OSUniformMap (ss : list nat)                 (* OverSamplingUniform(sub_size=Array2D) *)
  | OSIterate (thr rel : option Num) (steps : list nat).

  (* perform_over_sampling_from, for a Grid2D whose over_sampling is not None *)
  Definition perform_over_sampling (m : mask) (os : over_sampling) : bool :=
    match os with
    | OSUniformInt s => negb (Nat.eqb s 1)
    | OSUniformMap ss =>
        match ss with
        | [s] => negb (Nat.eqb s 1)                               (* `array == 1` has a truth value *)
        | _ => negb (Nat.eqb (list_sum ss) (pixels_in_mask m))    (* ValueError branch *)
        end
    | OSIterate _ _ _ => true
    end.
  (* @over_sample wrapper applied to Grid2D(values=grid_values, mask=m, over_sampling=os) *)
  Definition decorated (f : Num * Num -> Num) (m : mask) (ps origin : Num * Num) (grid_values : list (Num * Num))
             (os : over_sampling) : res (list Num) :=
    if negb (perform_over_sampling m os) then Ok (map f grid_values)
    else match os with
         | OSUniformInt s => Ok (array_via_func f m ps origin (full_sub_size m s))
         | OSUniformMap ss => Ok (array_via_func f m ps origin ss)
         | OSIterate thr rel steps => iterate_via_func f m ps origin thr rel steps
         end.

  (* @over_sample wrapper applied to Grid2DOverSampled(grid=held, over_sampler=OverSamplerUniform(m, ss)): the FIRST branch
     of the wrapper, `result = func(obj, grid.grid); return grid.over_sampler.binned_array_2d_from(array=result)`: the user
     function is evaluated on the points the object HOLDS (shifted / ray-traced / deflected sub-points), whatever the
     sampler's own uniform sub-pixel centres are; the sampler only says which points belong to which pixel *)
  Definition decorated_oversampled (f : Num * Num -> Num) (m : mask) (ss : list nat) (held : list (Num * Num)) : list Num :=
    binned (map f held) m ss.

  (* ================================================================ SPECIFICATION (independent) *)
  (* centre of pixel (y, x): origin + offset from the array centre, y upwards *)
  Definition pixel_centre (H W : nat) (ps origin : Num * Num) (p : nat * nat) : Num * Num :=
    (fst origin +. ((ofZ O (Z.of_nat H - 1) /. two) -. ofNat (fst p)) *. fst ps,
     snd origin +. (ofNat (snd p) -. (ofZ O (Z.of_nat W - 1) /. two)) *. snd ps).
  (* centre of cell (a, b) of the uniform s x s partition of the pixel centred at c: rows top to bottom *)
  Definition sub_centre (ps c : Num * Num) (s a b : nat) : Num * Num :=
    (fst c +. (fst ps /. two) -. ((ofNat a +. half) *. fst ps /. ofNat s),
     snd c -. (snd ps /. two) +. ((ofNat b +. half) *. snd ps /. ofNat s)).
  Definition block (ps c : Num * Num) (s : nat) : list (Num * Num) :=
    flat_map (fun a => map (fun b => sub_centre ps c s a b) (seq 0 s)) (seq 0 s).
  Definition spec_centres (m : mask) (ps origin : Num * Num) : list (Num * Num) :=
    map (pixel_centre (shape0 m) (shape1 m) ps origin) (unmasked m).
  Definition spec_grid (m : mask) (ps origin : Num * Num) (ss : list nat) : list (Num * Num) :=
    flat_map (fun cs => block ps (fst cs) (snd cs)) (combine (spec_centres m ps origin) ss).
  Definition mean (l : list Num) : Num := sumT l /. ofNat (length l).
  (* chop a flat list into consecutive blocks of the given lengths *)
  Fixpoint chop {A} (lens : list nat) (l : list A) : list (list A) :=
    match lens with
    | [] => []
    | n :: t => firstn n l :: chop t (skipn n l)
    end.
  Definition spec_binned (arr : list Num) (ss : list nat) : list Num := map mean (chop (map (fun s => (s * s)%nat) ss) arr).
  Definition spec_via_func (f : Num * Num -> Num) (m : mask) (ps origin : Num * Num) (ss : list nat) : list Num :=
    map (fun cs => mean (map f (block ps (fst cs) (snd cs)))) (combine (spec_centres m ps origin) ss).

  (* per-pixel mean of f over the pixel's own s_i^2 HELD points (consecutive blocks of the held list) *)
  Definition spec_held (f : Num * Num -> Num) (ss : list nat) (held : list (Num * Num)) : list Num :=
    map (fun pts => mean (map f pts)) (chop (map (fun s => (s * s)%nat) ss) held).

  (* the iterative rule, per pixel, over the list of level values *)
  Definition agrees (thr rel : option Num) (prev cur : Num) : bool :=
    match thr with
    | Some t => ltb O zero prev && leb O t (minT prev cur /. maxT prev cur)
    | None => true
    end &&
    match rel with Some r => leb O (absT (prev -. cur)) r | None => true end.
  Fixpoint rule (thr rel : option Num) (prev : Num) (levels : list Num) : Num :=
    match levels with
    | [] => prev
    | [v] => v
    | v :: rest => if agrees thr rel prev v then v else rule thr rel v rest
    end.
  Definition spec_iterate (f : Num * Num -> Num) (m : mask) (ps origin : Num * Num) (thr rel : option Num) (steps : list nat)
    : list Num :=
    map (fun c => rule thr rel (f c) (map (fun s => mean (map f (block ps c s))) steps)) (spec_centres m ps origin).
End Model.

(* ==================================================================== correspondence (at QOps) *)
Local Open Scope Q_scope.
Definition tolQ : Q := 1 # 1000000000.
(* exact = true: every double operation of the implementation is exact on this input, compare with Qeq;
   exact = false (sub-size 3,5,6,7 / non-dyadic scales): |a - b| <= 1e-9 *)
Definition qeq (exact : bool) (a b : Q) : bool := if exact then Qeq_bool a b else Qabs_le_tol tolQ a b.
Definition qlist_eq (exact : bool) := list_eqb (qeq exact).
Definition qq_eq (exact : bool) := prod_eqb (qeq exact) (qeq exact).
Definition qqlist_eq (exact : bool) := list_eqb (qq_eq exact).
Definition natlist_eq := list_eqb Nat.eqb.

Inductive os_case :=
| CUniformInt (s : nat) | CUniformMap (ss : list nat) | CIterate (thr rel : option Q) (steps : list nat).
Definition os_of (c : os_case) : @over_sampling QOps :=
  match c with
  | CUniformInt s => @OSUniformInt QOps s | CUniformMap ss => @OSUniformMap QOps ss
  | CIterate t r st => @OSIterate QOps t r st
  end.

Inductive case :=
  (* OverSamplerUniform(mask, sub_size).over_sampled_grid / util function *)
| KGrid (exact : bool) (m : mask) (ps origin : Q * Q) (ss : list nat) (out : list (Q * Q))
  (* mask.derive_grid.unmasked / Grid2D.from_mask *)
| KCentres (exact : bool) (m : mask) (ps origin : Q * Q) (out : list (Q * Q))
  (* OverSamplerUniform.binned_array_2d_from / util function, arbitrary sub-values *)
| KBin (exact : bool) (m : mask) (ss : list nat) (arr : list Q) (out : list Q)
| KSlimForSub (m : mask) (ss : list nat) (out : list nat)
| KNativeForSub (m : mask) (ss : list nat) (out : list (nat * nat))
| KAreas (exact : bool) (ps : Q * Q) (ss : list nat) (out : list Q)
  (* OverSamplerUniform.array_via_func_from *)
| KViaFunc (exact : bool) (m : mask) (ps origin : Q * Q) (ss : list nat) (f : ufun Q) (out : list Q)
  (* @over_sample-decorated method on Grid2D.from_mask(mask, over_sampling=...) *)
| KDecor (exact : bool) (m : mask) (ps origin : Q * Q) (os : os_case) (f : ufun Q) (out : res (list Q))
  (* @over_sample-decorated method on a Grid2D whose VALUES are not the pixel centres of its mask (a shifted / deflected /
     derived grid carrying over_sampling=...) *)
| KDecorVals (exact : bool) (m : mask) (ps origin : Q * Q) (vals : list (Q * Q)) (os : os_case) (f : ufun Q) (out : res (list Q))
  (* @over_sample-decorated method on Grid2DOverSampled(grid=held, over_sampler=OverSamplerUniform(mask, sub_size)) *)
| KHeld (exact : bool) (m : mask) (ss : list nat) (held : list (Q * Q)) (f : ufun Q) (out : list Q)
  (* OverSamplerIterate(mask, ...).array_via_func_from *)
| KIter (m : mask) (ps origin : Q * Q) (thr rel : option Q) (steps : list nat) (f : ufun Q) (out : res (list Q)).

Definition rq_eq (exact : bool) := res_eqb (qlist_eq exact).

Definition agree (k : case) : bool :=
  match k with
  | KGrid e m ps og ss out => qqlist_eq e (@over_sampled_grid QOps m ps og ss) out
  | KCentres e m ps og out => qqlist_eq e (@grid_slim_via_mask QOps m ps og) out
  | KBin e m ss arr out => qlist_eq e (@binned QOps arr m ss) out
  | KSlimForSub m ss out => natlist_eq (slim_for_sub_slim m ss) out
  | KNativeForSub m ss out => list_eqb (prod_eqb Nat.eqb Nat.eqb) (native_for_sub_slim m ss) out
  | KAreas e ps ss out => qlist_eq e (@sub_pixel_areas QOps ps ss) out
  | KViaFunc e m ps og ss f out => qlist_eq e (@array_via_func QOps (@eval_ufun QOps f) m ps og ss) out
  | KDecor e m ps og os f out =>
      rq_eq e (@decorated QOps (@eval_ufun QOps f) m ps og (@grid_slim_via_mask QOps m ps og) (os_of os)) out
  | KDecorVals e m ps og vals os f out => rq_eq e (@decorated QOps (@eval_ufun QOps f) m ps og vals (os_of os)) out
  | KHeld e m ss held f out => qlist_eq e (@decorated_oversampled QOps (@eval_ufun QOps f) m ss held) out
  | KIter m ps og thr rel steps f out => rq_eq true (@iterate_via_func QOps (@eval_ufun QOps f) m ps og thr rel steps) out
  end.

(* ---- verdict of the SPECIFICATION on the implementation's output (never calls the model functions) ---- *)
Definition shape_ok (m : mask) (ss : list nat) : bool :=
  rectb m && Nat.eqb (length ss) (length (unmasked m)) && forallb (fun s => Nat.leb 1 s) ss.
Definition ps_ok (ps : Q * Q) : bool := negb (Qeq_bool (fst ps) 0) && negb (Qeq_bool (snd ps) 0).
Definition spec_slim_for_sub (ss : list nat) : list nat :=
  flat_map (fun is => repeat (fst is) (snd is * snd is)) (combine (seq 0 (length ss)) ss).
Definition spec_native_for_sub (m : mask) (ss : list nat) : list (nat * nat) :=
  flat_map (fun ps => let '(y, x, s) := ps in
              flat_map (fun a => map (fun b => (y * s + a, x * s + b)%nat) (seq 0 s)) (seq 0 s)) (combine (unmasked m) ss).
Definition spec_areas (ps : Q * Q) (ss : list nat) : list Q :=
  flat_map (fun s => repeat (@div QOps (@mul QOps (fst ps) (snd ps)) (@ofNat QOps (s * s))) (s * s)) ss.
Definition all_ones (ss : list nat) : bool := forallb (Nat.eqb 1) ss.
Definition thr_ok (thr : option Q) : bool := match thr with Some t => negb (Qle_bool t 0) | None => true end.
Definition spec_iter_ok (e : bool) (f : Q * Q -> Q) m ps og thr rel steps (out : res (list Q)) : bool :=
  match steps with
  | [] => true        (* empty schedule: outside the property *)
  | _ => negb (thr_ok thr) || rq_eq e (Ok (@spec_iterate QOps f m ps og thr rel steps)) out
  end.

Definition spec_ok (k : case) : bool :=
  match k with
  | KGrid e m ps og ss out => negb (shape_ok m ss && ps_ok ps) || qqlist_eq e (@spec_grid QOps m ps og ss) out
  | KCentres e m ps og out => negb (rectb m && ps_ok ps) || qqlist_eq e (@spec_centres QOps m ps og) out
  | KBin e m ss arr out =>
      negb (shape_ok m ss && Nat.eqb (length arr) (list_sum (map (fun s => s * s)%nat ss)))
      || qlist_eq e (@spec_binned QOps arr ss) out
  | KSlimForSub m ss out => negb (shape_ok m ss) || natlist_eq (spec_slim_for_sub ss) out
  | KNativeForSub m ss out => negb (shape_ok m ss) || list_eqb (prod_eqb Nat.eqb Nat.eqb) (spec_native_for_sub m ss) out
  | KAreas e ps ss out => negb (forallb (fun s => Nat.leb 1 s) ss) || qlist_eq e (spec_areas ps ss) out
  | KViaFunc e m ps og ss f out =>
      negb (shape_ok m ss && ps_ok ps) || qlist_eq e (@spec_via_func QOps (@eval_ufun QOps f) m ps og ss) out
  | KDecor e m ps og os f out =>
      negb (rectb m && ps_ok ps) ||
      match os with
      | CUniformInt s =>
          negb (Nat.leb 1 s) || rq_eq e (Ok (@spec_via_func QOps (@eval_ufun QOps f) m ps og (repeat s (length (unmasked m))))) out
      | CUniformMap ss => negb (shape_ok m ss) || rq_eq e (Ok (@spec_via_func QOps (@eval_ufun QOps f) m ps og ss)) out
      | CIterate thr rel steps => spec_iter_ok e (@eval_ufun QOps f) m ps og thr rel steps out
      end
  | KDecorVals e m ps og vals os f out =>       (* sub-size one: the plain evaluation on the HELD values; else as KDecor *)
      negb (rectb m && ps_ok ps) ||
      match os with
      | CUniformInt s =>
          negb (Nat.leb 1 s) ||
          rq_eq e (Ok (if Nat.eqb s 1 then map (@eval_ufun QOps f) vals
                       else @spec_via_func QOps (@eval_ufun QOps f) m ps og (repeat s (length (unmasked m))))) out
      | CUniformMap ss =>
          negb (shape_ok m ss) ||
          rq_eq e (Ok (if all_ones ss then map (@eval_ufun QOps f) vals else @spec_via_func QOps (@eval_ufun QOps f) m ps og ss)) out
      | CIterate thr rel steps => spec_iter_ok e (@eval_ufun QOps f) m ps og thr rel steps out
      end
  | KHeld e m ss held f out =>
      negb (shape_ok m ss && Nat.eqb (length held) (list_sum (map (fun s => s * s)%nat ss)))
      || qlist_eq e (@spec_held QOps (@eval_ufun QOps f) ss held) out
  | KIter m ps og thr rel steps f out =>
      negb (rectb m && ps_ok ps) || spec_iter_ok true (@eval_ufun QOps f) m ps og thr rel steps out
  end.

Definition check (k : case) : nat := verdict (agree k) (spec_ok k).
