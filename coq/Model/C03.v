(* C03 -- masked PSF convolution.  Executable model of autoarray/operators/convolver.py
   (mask_index_array, frame_at_coordinates_jit, the image / blurring frame tables, convolve_jit,
   convolve_no_blurring_jit, convolve_matrix_jit with its sparsity test, the odd-kernel check),
   of mask_2d_util.blurring_mask_2d_from (as its input/output contract incl. the MaskException) and of
   Kernel2D.convolved_array_from (scipy.signal.convolve2d(mode="same") is the oracle [conv_full]).
   Pixels are (row, column) pairs over Z; masks are lists of rows, true = masked.  No proofs here. *)
From Coq Require Import ZArith List Bool QArith.
From PAV Require Import Base.Res Base.Check Base.NumOps Base.Sum.
Import ListNotations.
Local Open Scope Z_scope.

Definition mask := list (list bool).
Definition px := (Z * Z)%type.
Definition rows {B} (g : list (list B)) : Z := Z.of_nat (length g).
Definition cols {B} (g : list (list B)) : Z := Z.of_nat (length (hd [] g)).
Definition seqZ (lo n : Z) : list Z := map (fun i => lo + Z.of_nat i) (seq 0 (Z.to_nat n)).
Definition inframe {B} (g : list (list B)) (p : px) : bool :=
  (0 <=? fst p) && (fst p <? rows g) && (0 <=? snd p) && (snd p <? cols g).
Definition getZ {B} (d : B) (g : list (list B)) (p : px) : B :=
  nth (Z.to_nat (snd p)) (nth (Z.to_nat (fst p)) g []) d.
(* masked, or outside the frame *)
Definition mz (m : mask) (p : px) : bool := if inframe m p then getZ true m p else true.
Definition all_px {B} (g : list (list B)) : list px :=
  flat_map (fun y => map (fun x => (y, x)) (seqZ 0 (cols g))) (seqZ 0 (rows g)).
Definition unmasked (m : mask) : list px := filter (fun p => negb (mz m p)) (all_px m).
Definition px_eqb (p q : px) : bool := (fst p =? fst q) && (snd p =? snd q).
Definition rectb {B} (g : list (list B)) : bool :=
  forallb (fun r => Nat.eqb (length r) (length (hd [] g))) g.

(* ---------------- mask_index_array: running count over the row-major double loop -------- *)
Fixpoint midx_row (r : list bool) (c : Z) : list Z * Z :=
  match r with
  | [] => ([], c)
  | b :: t => if b then let '(l, c') := midx_row t c in (-1 :: l, c')
              else let '(l, c') := midx_row t (c + 1) in (c :: l, c')
  end.
Fixpoint midx_rows (m : mask) (c : Z) : list (list Z) :=
  match m with
  | [] => []
  | r :: t => let '(l, c') := midx_row r c in l :: midx_rows t c'
  end.
Definition mask_index_array (m : mask) : list (list Z) := midx_rows m 0.

(* ---------------- blurring_mask_2d_from: contract (offset ranges as in the code) -------- *)
Definition offs (k : Z) : list Z := seqZ ((- k + 1) / 2) ((k + 1) / 2 - (- k + 1) / 2).
Definition footprint (kh kw : Z) (p : px) : list px :=
  flat_map (fun dy => map (fun dx => (fst p + dy, snd p + dx)) (offs kw)) (offs kh).
Definition blurring_mask (m : mask) (kh kw : Z) : res mask :=
  let U := unmasked m in
  if forallb (fun p => forallb (inframe m) (footprint kh kw p)) U then
    Ok (map (fun y => map (fun x =>
          negb (mz m (y, x) && existsb (fun p => existsb (px_eqb (y, x)) (footprint kh kw p)) U))
        (seqZ 0 (cols m))) (seqZ 0 (rows m)))
  else Raise MaskException.

Section Model.
  Context {O : NumOps}.
  Notation T := (T O).
  Definition kernel := list (list T).

  (* ---------------- frame_at_coordinates_jit ---------------- *)
  Definition frame_at (m : mask) (mi : list (list Z)) (K : kernel) (p : px) : list (nat * T) :=
    let half_x := rows K / 2 in          (* int(kernel_shape[0] / 2) *)
    let half_y := cols K / 2 in
    flat_map (fun i => flat_map (fun j =>
        let q := (fst p - half_x + i, snd p - half_y + j) in
        if inframe mi q then
          let value := getZ (-1) mi q in
          if (value >=? 0) && negb (getZ true m q) then [(Z.to_nat value, getZ zero K (i, j))] else []
        else []) (seqZ 0 (cols K))) (seqZ 0 (rows K)).

  Record convolver := { n_image : nat; image_frames : list (list (nat * T)); blurring_frames : list (list (nat * T));
                        bmask : mask }.

  (* Convolver.__init__ *)
  Definition convolver_init (m : mask) (K : kernel) : res convolver :=
    if (rows K mod 2 =? 0) || (cols K mod 2 =? 0) then Raise KernelException else
    let mi := mask_index_array m in
    let imf := map (frame_at m mi K) (unmasked m) in
    match blurring_mask m (rows K) (cols K) with
    | Raise e => Raise e
    | Ok bm =>
        (* loop over pixels with mask[x][y] and not blurring_mask[x, y] *)
        let bl := filter (fun p => mz m p && negb (mz bm p)) (all_px m) in
        Ok {| n_image := length (unmasked m); image_frames := imf;
              blurring_frames := map (frame_at m mi K) bl; bmask := bm |}
    end.

  (* ---------------- convolve_jit / convolve_no_blurring_jit: scatter loops ---------------- *)
  Definition entries (v : list T) (frames : list (list (nat * T))) : list (nat * T) :=
    flat_map (fun vf => map (fun tk => (fst tk, mul O (fst vf) (snd tk))) (snd vf)) (combine v frames).
  Definition convolve (c : convolver) (img bimg : list T) : list T :=
    scatter (entries img (image_frames c) ++ entries bimg (blurring_frames c)) (zeros (length img)).
  Definition convolve_no_blurring (c : convolver) (img : list T) : list T :=
    scatter (entries img (image_frames c)) (zeros (length img)).

  (* ---------------- convolve_matrix_jit: column by column, skipping entries equal to zero ---- *)
  Definition entries_nz (v : list T) (frames : list (list (nat * T))) : list (nat * T) :=
    flat_map (fun vf => if eqb O (fst vf) zero then []
                        else map (fun tk => (fst tk, mul O (fst vf) (snd tk))) (snd vf)) (combine v frames).
  Definition column (M : list (list T)) (j : nat) : list T := map (fun row => nth j row zero) M.
  Definition convolve_matrix (c : convolver) (M : list (list T)) : list (list T) :=
    let P := length (hd [] M) in
    let out_cols := map (fun j => scatter (entries_nz (column M j) (image_frames c)) (zeros (length M))) (seq 0 P) in
    map (fun r => map (fun col => nth r col zero) out_cols) (seq 0 (length M)).

  (* ---------------- specification: true 2-D convolution, zero outside the frame ---------------- *)
  Definition conv_full (N : px -> T) (K : kernel) (t : px) : T :=
    let hy := rows K / 2 in let hx := cols K / 2 in
    sumT (flat_map (fun a => map (fun b =>
            mul O (getZ zero K (a, b)) (N (fst t + hy - a, snd t + hx - b))) (seqZ 0 (cols K))) (seqZ 0 (rows K))).
  (* a native image as a function, zero outside the frame *)
  Definition img_fun (g : list (list T)) (p : px) : T := if inframe g p then getZ zero g p else zero.
  (* the native image that holds slim values [v] on the pixel list [ps] and zero elsewhere *)
  Fixpoint lookup (ps : list px) (v : list T) (q : px) : T :=
    match ps, v with
    | p :: ps', a :: v' => if px_eqb p q then a else lookup ps' v' q
    | _, _ => zero
    end.
  Definition combined (m bm : mask) (img bimg : list T) (q : px) : T :=
    if negb (mz m q) then lookup (unmasked m) img q else lookup (unmasked bm) bimg q.

  (* Kernel2D.convolved_array_from: scipy.signal.convolve2d(native, kernel, mode="same") then slim *)
  Definition convolved_array (m : mask) (native : list (list T)) (K : kernel) : list T :=
    map (conv_full (img_fun native) K) (unmasked m).
  (* with the method's own odd-kernel check (kernel_2d.py: `if shape[0] % 2 == 0 or shape[1] % 2 == 0: raise`) *)
  Definition convolved_array_checked (m : mask) (native : list (list T)) (K : kernel) : res (list T) :=
    if (rows K mod 2 =? 0) || (cols K mod 2 =? 0) then Raise KernelException else Ok (convolved_array m native K).

  (* ---------------- SimulatorImaging (noise-free path) ----------------
     __init__: `psf = psf.normalized` when normalize_psf (Kernel2D(normalize=True): array / np.sum(array));
     via_image_from with add_poisson_noise_to_data=False: image = psf.convolved_array_from(image) (the input is an
     unmasked Array2D: slim order = all pixels row-major); image = image + background_sky_map; [the Poisson draw is
     computed but not used]; `if subtract_background_sky: image = image - background_sky_map`. *)
  Definition ksum (K : kernel) : T := sumT (concat K).
  Definition normalized (K : kernel) : kernel := map (map (fun v => div O v (ksum K))) K.
  Definition sim_psf (normalize : bool) (K : kernel) : kernel := if normalize then normalized K else K.
  Definition allfalse {B} (g : list (list B)) : mask := map (map (fun _ => false)) g.
  Definition simulate (sky : T) (subtract normalize : bool) (image : list (list T)) (K : kernel) : res (list T) :=
    match convolved_array_checked (allfalse image) image (sim_psf normalize K) with
    | Raise e => Raise e
    | Ok conv => Ok (map (fun v => let w := add O v sky in if subtract then sub O w sky else w) conv)
    end.
  (* Imaging.apply_mask: Array2D(values=data.native, mask=m) -- the slim data of the masked dataset, read from the
     simulated data (slim over the whole frame [g]) *)
  Definition masked_data {B} (g : list (list B)) (data : list T) (m : mask) : list T :=
    map (lookup (all_px g) data) (unmasked m).
End Model.

(* ---------------- correspondence cases (values are exact rationals) ---------------- *)
Definition qv := list Q.
Definition qm := list (list Q).
Definition qv_eqb := list_eqb Qeq_bool.
Definition qm_eqb := list_eqb qv_eqb.
Definition mask_eqb := list_eqb (list_eqb Bool.eqb).

Inductive case :=
| KInit (m : mask) (K : qm) (out : res (nat * nat * mask))            (* pixels in mask, in blurring mask, blurring mask *)
| KConvolve (m : mask) (K : qm) (img bimg : qv) (out : qv)
| KNoBlur (m : mask) (K : qm) (img : qv) (out : qv)
| KMatrix (m : mask) (K : qm) (M : qm) (out : qm)
| KWhole (m : mask) (native : qm) (K : qm) (out : res qv)             (* Kernel2D.convolved_array(_with_mask)_from *)
(* SimulatorImaging(background_sky_level=sky, subtract_background_sky, normalize_psf, noise off).via_image_from(image):
   out = (dataset.psf native, dataset.data slim) *)
| KSim (sky : Q) (subtract normalize : bool) (image : qm) (K : qm) (out : res (qm * qv))
(* Imaging.apply_mask(m) of a simulated dataset whose data (slim, whole frame of [image]) is [data]: out = masked data slim *)
| KMasked (image : qm) (data : qv) (m : mask) (out : qv).

Definition with_conv {B} (m : mask) (K : qm) (d : B) (f : @convolver QOps -> B) : B :=
  match @convolver_init QOps m K with Ok c => f c | Raise _ => d end.

Definition agree (k : case) : bool :=
  match k with
  | KInit m K out =>
      res_eqb (prod_eqb (prod_eqb Nat.eqb Nat.eqb) mask_eqb)
        (match @convolver_init QOps m K with
         | Ok c => Ok (n_image c, length (blurring_frames c), bmask c)
         | Raise e => Raise e end) out
  | KConvolve m K img bimg out => with_conv m K false (fun c => qv_eqb (convolve c img bimg) out)
  | KNoBlur m K img out => with_conv m K false (fun c => qv_eqb (convolve_no_blurring c img) out)
  | KMatrix m K M out => with_conv m K false (fun c => qm_eqb (convolve_matrix c M) out)
  | KWhole m native K out => res_eqb qv_eqb (@convolved_array_checked QOps m native K) out
  | KSim sky subtract normalize image K out =>
      res_eqb (prod_eqb qm_eqb qv_eqb)
        (match @simulate QOps sky subtract normalize image K with
         | Ok d => Ok (@sim_psf QOps normalize K, d)
         | Raise e => Raise e end) out
  | KMasked image data m out => qv_eqb (@masked_data QOps _ image data m) out
  end.

(* spec verdict on the implementation's output; uses conv_full / footprints only, never the frames *)
Definition footprints_inside (m : mask) (K : qm) : bool :=
  forallb (fun p => forallb (inframe m) (footprint (rows K) (cols K) p)) (unmasked m).
Definition odd_kernel (K : qm) : bool := negb ((rows K mod 2 =? 0) || (cols K mod 2 =? 0)).
Definition spec_bmask (m : mask) (K : qm) : mask :=
  map (fun y => map (fun x =>
      negb (mz m (y, x) && existsb (fun p => (Z.abs (fst p - y) <=? rows K / 2) && (Z.abs (snd p - x) <=? cols K / 2)) (unmasked m)))
    (seqZ 0 (cols m))) (seqZ 0 (rows m)).

Definition spec_ok (k : case) : bool :=
  match k with
  | KInit m K out =>
      if negb (odd_kernel K) then res_eqb (fun _ _ => true) out (Raise KernelException)
      else if negb (footprints_inside m K) then res_eqb (fun _ _ => true) out (Raise MaskException)
      else match out with
           | Ok (n, nb, bm) => Nat.eqb n (length (unmasked m)) && mask_eqb bm (spec_bmask m K)
                               && Nat.eqb nb (length (unmasked bm))
           | Raise _ => false
           end
  | KConvolve m K img bimg out =>
      negb (odd_kernel K && footprints_inside m K) ||
      qv_eqb out (map (@conv_full QOps (@combined QOps m (spec_bmask m K) img bimg) K) (unmasked m))
  | KNoBlur m K img out =>
      negb (odd_kernel K && footprints_inside m K) ||
      qv_eqb out (map (@conv_full QOps (@combined QOps m (spec_bmask m K) img []) K) (unmasked m))
  | KMatrix m K M out =>
      negb (odd_kernel K && footprints_inside m K) ||
      (Nat.eqb (length out) (length M)) &&
      forallb (fun j => qv_eqb (@column QOps out j)
                 (map (@conv_full QOps (@combined QOps m (spec_bmask m K) (@column QOps M j) []) K) (unmasked m)))
              (seq 0 (length (hd [] M)))
  | KWhole m native K out =>
      if negb (odd_kernel K) then res_eqb (fun _ _ => true) out (Raise KernelException)
      else match out with
           | Ok o => qv_eqb o (map (@conv_full QOps (@img_fun QOps native) K) (unmasked m))
           | Raise _ => false
           end
  | KSim sky subtract normalize image K out =>
      if negb (odd_kernel K) then res_eqb (fun _ _ => true) out (Raise KernelException)
      else match out with
           | Ok (psf, d) =>
               let s := fold_right Qplus 0%Q (concat K) in
               let P := if normalize then map (map (fun v => (v / s)%Q)) K else K in
               qm_eqb psf P &&
               qv_eqb d (map (fun p => (@conv_full QOps (@img_fun QOps image) P p + (if subtract then 0 else sky))%Q)
                             (all_px image))
           | Raise _ => false
           end
  | KMasked image data m out =>
      (* the value of the whole-frame data at the k-th unmasked pixel (row-major position y*W + x) *)
      qv_eqb out (map (fun p => nth (Z.to_nat (fst p * cols image + snd p)) data 0%Q) (unmasked m))
  end.

Definition check (k : case) : nat := verdict (agree k) (spec_ok k).
