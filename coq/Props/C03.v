From PAV Require Import Model.C03.
