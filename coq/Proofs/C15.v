(* C15 -- proofs.  Part A: positional array writes are idempotent.  Part B: a Hoare logic for the
   store/cache state monad of Model/C15.v.  Part C: every getter returns the specification value and keeps
   the invariant.  Part D: histories, the factory, refutations of the two mutants. *)
From Coq Require Import List Arith Bool Lia.
From PAV Require Import Base.Res Base.Check Model.C15.
Import ListNotations.
Local Open Scope nat_scope.

(* ================================================================================================ *)
(* Part A                                                                                            *)
Section Imap.
  Context {A : Type}.
  Lemma imap_ext (f g : nat -> A -> A) l i :
    (forall k x, f k x = g k x) -> imap f i l = imap g i l.
  Proof. intro H. revert i. induction l as [|a l IH]; intro i; simpl; [reflexivity|]. now rewrite H, IH. Qed.
  Lemma imap_imap (f g : nat -> A -> A) l i :
    imap f i (imap g i l) = imap (fun k x => f k (g k x)) i l.
  Proof. revert i. induction l as [|a l IH]; intro i; simpl; [reflexivity|]. now rewrite IH. Qed.
  Lemma imap_id l i : imap (fun _ (x : A) => x) i l = l.
  Proof. revert i. induction l as [|a l IH]; intro i; simpl; [reflexivity|]. now rewrite IH. Qed.
End Imap.

Section Writes.
  Variable T : Type.
  Variable K : kernels T.
  Notation z := (t0 K).

  (* vectors: a write is an overlay nat -> option T *)
  Definition vov := nat -> option T.
  Definition app_vov (o : vov) (v : vec T) : vec T :=
    imap (fun i x => match o i with Some y => y | None => x end) 0 v.
  Definition vov_of (w : vwrite T) : vov :=
    fun i => if in_rng (vw_lo w) (vw_hi w) i then Some (nth (i - vw_lo w) (vw_b w) z) else None.
  Definition vseq (o1 o2 : vov) : vov := fun i => match o2 i with Some y => Some y | None => o1 i end.
  Fixpoint vovl (ws : list (vwrite T)) : vov :=
    match ws with [] => fun _ => None | w :: t => vseq (vov_of w) (vovl t) end.

  Lemma apply_vw_ov v w : apply_vw K v w = app_vov (vov_of w) v.
  Proof.
    unfold apply_vw, app_vov, vov_of. apply imap_ext. intros k x.
    destruct (in_rng (vw_lo w) (vw_hi w) k); reflexivity.
  Qed.
  Lemma app_vov_seq o1 o2 v : app_vov o2 (app_vov o1 v) = app_vov (vseq o1 o2) v.
  Proof.
    unfold app_vov. rewrite imap_imap. apply imap_ext. intros k x. unfold vseq.
    destruct (o2 k); [reflexivity|]. destruct (o1 k); reflexivity.
  Qed.
  Lemma apply_vws_ov ws : forall v, apply_vws K v ws = app_vov (vovl ws) v.
  Proof.
    induction ws as [|w ws IH]; intro v; simpl.
    - unfold app_vov. now rewrite imap_id.
    - unfold apply_vws in *. simpl. rewrite IH, apply_vw_ov, app_vov_seq. reflexivity.
  Qed.
  Lemma apply_vws_idem v ws : apply_vws K (apply_vws K v ws) ws = apply_vws K v ws.
  Proof.
    rewrite !apply_vws_ov, app_vov_seq. unfold app_vov. apply imap_ext. intros k x. unfold vseq.
    destruct (vovl ws k); reflexivity.
  Qed.
  Lemma apply_vws_app v a b : apply_vws K v (a ++ b) = apply_vws K (apply_vws K v a) b.
  Proof. unfold apply_vws. now rewrite fold_left_app. Qed.

  (* matrices *)
  Definition mov := nat -> nat -> option T.
  Definition app_mov (o : mov) (m : mat T) : mat T :=
    imap (fun i row => imap (fun j x => match o i j with Some y => y | None => x end) 0 row) 0 m.
  Definition mov_of (w : mwrite T) : mov :=
    fun i j => if in_rng (mw_r0 w) (mw_r1 w) i && in_rng (mw_c0 w) (mw_c1 w) j
               then Some (nth (j - mw_c0 w) (nth (i - mw_r0 w) (mw_b w) []) z) else None.
  Definition mseq (o1 o2 : mov) : mov := fun i j => match o2 i j with Some y => Some y | None => o1 i j end.
  Fixpoint movl (ws : list (mwrite T)) : mov :=
    match ws with [] => fun _ _ => None | w :: t => mseq (mov_of w) (movl t) end.

  Lemma apply_mw_ov m w : apply_mw K m w = app_mov (mov_of w) m.
  Proof.
    unfold apply_mw, app_mov, mov_of. apply imap_ext. intros i row.
    destruct (in_rng (mw_r0 w) (mw_r1 w) i); simpl.
    - apply imap_ext. intros j x. destruct (in_rng (mw_c0 w) (mw_c1 w) j); reflexivity.
    - now rewrite imap_id.
  Qed.
  Lemma app_mov_seq o1 o2 m : app_mov o2 (app_mov o1 m) = app_mov (mseq o1 o2) m.
  Proof.
    unfold app_mov. rewrite imap_imap. apply imap_ext. intros i row. rewrite imap_imap.
    apply imap_ext. intros j x. unfold mseq. destruct (o2 i j); [reflexivity|]. destruct (o1 i j); reflexivity.
  Qed.
  Lemma apply_mws_ov ws : forall m, apply_mws K m ws = app_mov (movl ws) m.
  Proof.
    induction ws as [|w ws IH]; intro m; simpl.
    - unfold app_mov. rewrite <- (imap_id m 0) at 1. apply imap_ext. intros i row. now rewrite imap_id.
    - unfold apply_mws in *. simpl. rewrite IH, apply_mw_ov, app_mov_seq. reflexivity.
  Qed.
  Lemma apply_mws_idem m ws : apply_mws K (apply_mws K m ws) ws = apply_mws K m ws.
  Proof.
    rewrite !apply_mws_ov, app_mov_seq. unfold app_mov. apply imap_ext. intros i row.
    apply imap_ext. intros j x. unfold mseq. destruct (movl ws i j); reflexivity.
  Qed.
  Lemma apply_mws_app m a b : apply_mws K m (a ++ b) = apply_mws K (apply_mws K m a) b.
  Proof. unfold apply_mws. now rewrite fold_left_app. Qed.
  Lemma movl_app a b i j : movl (a ++ b) i j = mseq (movl a) (movl b) i j.
  Proof.
    induction a as [|w a IH]; simpl.
    - unfold mseq. destruct (movl b i j); reflexivity.
    - unfold mseq in *. rewrite IH. destruct (movl b i j); reflexivity.
  Qed.
  (* ... and so is re-running a suffix *)
  Lemma apply_mws_absorb2 m a b : apply_mws K (apply_mws K m b) (a ++ b) = apply_mws K m (a ++ b).
  Proof.
    rewrite !apply_mws_ov, app_mov_seq. unfold app_mov. apply imap_ext. intros i row.
    apply imap_ext. intros j x. unfold mseq. rewrite movl_app. unfold mseq. destruct (movl b i j); [reflexivity|].
    destruct (movl a i j); reflexivity.
  Qed.
  (* re-running a prefix of a block-assignment program is absorbed by the whole program *)
  Lemma apply_mws_absorb m a b : apply_mws K (apply_mws K m a) (a ++ b) = apply_mws K m (a ++ b).
  Proof. now rewrite !apply_mws_app, apply_mws_idem. Qed.
End Writes.

(* ================================================================================================ *)
(* Part B: invariant and Hoare triples                                                               *)
Section Logic.
  Variable T : Type.
  Variable K : kernels T.
  Variable inp : input T.
  Variable mode : option (wtilde T).
  Notation P := (pure K inp mode).
  Notation M := (M T).

  (* the two kernel identities (C04) on which the two presence-switched dictionaries rely *)
  (* both range over the mappers and the operated function matrices OF THIS INPUT only (so that they can be discharged
     from the well-formedness of the input for concrete kernels: Proofs/C15k.v does it for the C04 kernels) *)
  Definition law_dlf : Prop := forall (x : lobj T) (l : mat T),
    In x (objs inp) -> lo_mapper x = true -> In l (lf_fresh K inp) ->
    k_off_dlfm K (k_dlfm K (k_cw K l (n inp))) (lo_mm x) (lo_p x) = k_off_mf K (lo_mm x) (lo_p x) (k_cw K l (n inp)).
  Definition law_momm : Prop := forall (x : lobj T) (l : mat T),
    In x (objs inp) -> lo_mapper x = true -> In l (lf_fresh K inp) ->
    k_dotT K (conv_mm K (lo_mm x)) (k_cw K l (n inp)) = k_off_mf K (lo_mm x) (lo_p x) (k_cw K l (n inp)).

  (* the block assignments the w-tilde class performs on top of _data_vector_mapper / _curvature_matrix_mapper_diag *)
  Definition dvW : list (vwrite T) :=
    if has_func inp then dv_func_writes K inp (lf_fresh K inp) else [].
  Definition cmdW (w : wtilde T) : list (mwrite T) :=
    if has_func inp then multi_writes K inp (wt_w w) ++ flm_writes K inp (OffFresh T) (lf_fresh K inp)
    else if Nat.eqb (length (mappers inp)) 1 then [] else multi_writes K inp (wt_w w).

  (* what a Preloads object must satisfy (semantic form; [fresh_store] below is the user-facing form) *)
  Definition consistent (p : pstore T) : Prop :=
    (forall m, s_omm p = Some m -> m = p_omm K inp) /\
    (forall m, s_curv p = Some m -> m = p_curv K inp mode) /\
    (forall m, s_reg p = Some m -> m = p_reg K inp) /\
    (forall x, s_ldr p = Some x -> has_reg inp = true -> p_ldr K inp = Ok x) /\
    (forall l, s_lf p = Some l -> l = lf_fresh K inp) /\
    (forall l, s_dlf p = Some l -> l = dlf_of K inp (lf_fresh K inp) /\ law_dlf) /\
    (forall l, s_momm p = Some l -> l = momm_fresh K inp /\ law_momm) /\
    (forall v, s_dvm p = Some v ->
       (mode = None -> has_func inp = false -> v = p_dv K inp mode) /\
       (forall w, mode = Some w -> apply_vws K v dvW = p_dv K inp mode)) /\
    (forall m w, s_cmd p = Some m -> mode = Some w -> apply_mws K m (cmdW w) = p_pre K inp w).

  (* how the Preloads object may change: not at all (the last clause is kept for the proofs' convenience) *)
  Definition evolves (p p' : pstore T) : Prop :=
    s_use_wt p' = s_use_wt p /\ s_wt p' = s_wt p /\ s_omm p' = s_omm p /\ s_curv p' = s_curv p /\
    s_reg p' = s_reg p /\ s_lf p' = s_lf p /\ s_dlf p' = s_dlf p /\ s_momm p' = s_momm p /\ s_ldr p' = s_ldr p /\
    s_dvm p' = s_dvm p /\ s_cmd p' = s_cmd p /\
    (s_dvm p = Some (p_dv K inp mode) -> s_dvm p' = Some (p_dv K inp mode)).
  Lemma evolves_refl p : evolves p p.
  Proof. unfold evolves. tauto. Qed.
  Lemma evolves_trans p1 p2 p3 : evolves p1 p2 -> evolves p2 p3 -> evolves p1 p3.
  Proof.
    unfold evolves. intros (a1&a2&a3&a4&a5&a6&a7&a8&a9&a10&a11&a12) (b1&b2&b3&b4&b5&b6&b7&b8&b9&b10&b11&b12).
    repeat split; try congruence; auto.
  Qed.

  Definition sound (q : qty) (c : cval T) (p : pstore T) : Prop :=
    match c with
    | CM (MOwn m) => P q = PM m
    | CM (MAlias SOmm) => q = QOmm /\ is_some (s_omm p) = true
    | CM (MAlias SReg) => (q = QReg \/ (q = QRegRed /\ all_reg inp = true)) /\ is_some (s_reg p) = true
    | CM (MAlias _) => False
    | CV (VOwn v) => P q = PV v
    | CV VAlias => q = QDv /\ s_dvm p = Some (p_dv K inp mode)
    | CL l => P q = PL l
    | CRV x => P q = PRV x
    | CRT x => P q = PRT x
    end.
  Lemma sound_read q c p : consistent p -> sound q c p -> readc c p = P q.
  Proof.
    intros (Ho & _ & Hr & _) Hs. destruct c as [[m|[]]|[v|]|l|x|x]; simpl in *; try congruence; try contradiction.
    - destruct Hs as [-> Hs]. destruct (s_omm p) eqn:E; [|discriminate]. now rewrite (Ho _ eq_refl).
    - destruct Hs as [Hq Hs]. destruct (s_reg p) eqn:E; [|discriminate]. rewrite (Hr _ eq_refl).
      destruct Hq as [->|[-> Ha]]; simpl; [reflexivity|]. unfold p_regred. now rewrite Ha.
    - destruct Hs as [-> Hs]. now rewrite Hs.
  Qed.
  Lemma sound_mono q c p p' : evolves p p' -> sound q c p -> sound q c p'.
  Proof.
    intros (a1&a2&a3&a4&a5&a6&a7&a8&a9&a10&a11&a12) Hs.
    destruct c as [[m|[]]|[v|]|l|x|x]; simpl in *; try assumption.
    - now rewrite a3.
    - now rewrite a5.
    - destruct Hs; split; auto.
  Qed.

  Definition Inv (st : state T) : Prop :=
    consistent (store st) /\ forall q c, cache st q = Some c -> sound q c (store st).

  Definition triple {A} (Pre : pstore T -> Prop) (m : M A) (Q : A -> pstore T -> Prop) : Prop :=
    forall st, Inv st -> Pre (store st) ->
      Inv (snd (m st)) /\ evolves (store st) (store (snd (m st))) /\ Q (fst (m st)) (store (snd (m st))).
  Definition TT : pstore T -> Prop := fun _ => True.

  Lemma triple_ret A (a : A) (Pre : pstore T -> Prop) : triple Pre (ret a) (fun x p => x = a /\ Pre p).
  Proof. intros st HI HP. simpl. auto using evolves_refl. Qed.
  Lemma triple_bind A B Pre (m : M A) Q (f : A -> M B) R :
    triple Pre m Q -> (forall a, triple (Q a) (f a) R) -> triple Pre (bind m f) R.
  Proof.
    intros Hm Hf st HI HP. unfold bind. specialize (Hm st HI HP). destruct (m st) as [a st1]. simpl in Hm.
    destruct Hm as (HI1 & Hev & HQ). specialize (Hf a st1 HI1 HQ). destruct (f a st1) as [b st2]. simpl in *.
    destruct Hf as (HI2 & Hev2 & HR). eauto using evolves_trans.
  Qed.
  Lemma triple_conseq A (Pre Pre' : pstore T -> Prop) (m : M A) (Q Q' : A -> pstore T -> Prop) :
    triple Pre' m Q' -> (forall p, consistent p -> Pre p -> Pre' p) -> (forall a p, consistent p -> Q' a p -> Q a p) ->
    triple Pre m Q.
  Proof.
    intros H H1 H2 st HI HP. destruct (H st HI (H1 _ (proj1 HI) HP)) as (a & b & c). split; [assumption|]. split; [assumption|].
    apply H2; [apply a | assumption].
  Qed.
  (* a state-independent fact is carried across a computation *)
  Lemma triple_frame A (F : Prop) (Pre : pstore T -> Prop) (m : M A) (Q : A -> pstore T -> Prop) :
    (F -> triple Pre m Q) -> triple (fun p => F /\ Pre p) m (fun a p => F /\ Q a p).
  Proof. intros H st HI [HF HP]. destruct (H HF st HI HP) as (a & b & c). auto. Qed.
  Lemma triple_gets A (f : pstore T -> A) Pre : triple Pre (gets f) (fun a p => a = f p /\ Pre p).
  Proof. intros st HI HP. simpl. auto using evolves_refl. Qed.

  Lemma cached_triple q (compute : M (cval T)) :
    triple TT compute (sound q) -> triple TT (cached q compute) (sound q).
  Proof.
    intros H st HI _. unfold cached. destruct (cache st q) as [c|] eqn:E.
    - simpl. split; [assumption|]. split; [apply evolves_refl|]. apply (proj2 HI _ _ E).
    - specialize (H st HI I). destruct (compute st) as [c st1]. simpl in *. destruct H as ((Hc & Hs) & Hev & Hq).
      split; [|split; assumption]. split; [assumption|]. intros q' c'. simpl.
      destruct (qty_eqb q' q) eqn:Eq.
      + intro Hx. injection Hx as <-. destruct q', q; try discriminate; assumption.
      + apply Hs.
  Qed.
  Lemma val_triple q (g : M (cval T)) :
    triple TT g (sound q) -> triple TT (val g) (fun v _ => v = P q).
  Proof.
    intros H st HI _. unfold val, bind, gets. specialize (H st HI I). destruct (g st) as [c st1]. simpl in *.
    destruct H as (HI1 & Hev & Hs). split; [assumption|]. split; [assumption|].
    apply sound_read; [apply HI1 | assumption].
  Qed.
  (* plain value post-conditions compose without bookkeeping *)
  Definition vtriple {A} (m : M A) (Q : A -> Prop) : Prop := triple TT m (fun a _ => Q a).
  Lemma vbind A B (m : M A) (Q : A -> Prop) (f : A -> M B) (R : B -> pstore T -> Prop) :
    vtriple m Q -> (forall a, Q a -> triple TT (f a) R) -> triple TT (bind m f) R.
  Proof.
    intros Hm Hf. eapply triple_bind; [apply Hm|]. intros a st HI HQ. apply (Hf a HQ st HI I).
  Qed.
  Lemma vret (c : cval T) q : (forall p, consistent p -> sound q c p) -> triple TT (ret c) (sound q).
  Proof. intros H st HI _. simpl. split; [assumption|]. split; [apply evolves_refl|]. apply H, HI. Qed.

  (* ---------------------------------------------------------------------------------------------- *)
  (* more rules                                                                                      *)
  Definition store_pres {A} (m : M A) : Prop := forall st, store (snd (m st)) = store st.
  Lemma triple_frame_pres A (F : pstore T -> Prop) (m : M A) Q :
    store_pres m -> triple TT m Q -> triple F m (fun a p => F p /\ Q a p).
  Proof.
    intros Hp H st HI HF. destruct (H st HI I) as (a & b & c). split; [assumption|]. split; [assumption|].
    split; [|assumption]. now rewrite Hp.
  Qed.
  Lemma triple_frame_st A (F : pstore T -> Prop) (m : M A) Q :
    (forall p p', evolves p p' -> F p -> F p') -> triple TT m Q -> triple F m (fun a p => F p /\ Q a p).
  Proof.
    intros Hst H st HI HF. destruct (H st HI I) as (a & b & c). split; [assumption|]. split; [assumption|].
    split; [|assumption]. eapply Hst; eassumption.
  Qed.
  Lemma triple_weaken_pre A (Pre : pstore T -> Prop) (m : M A) Q : triple TT m Q -> triple Pre m Q.
  Proof. intros H st HI _. apply (H st HI I). Qed.
  Lemma triple_gets_case A B (f : pstore T -> A) (k : A -> M B) Q :
    (forall a, triple (fun p => f p = a) (k a) Q) -> triple TT (bind (gets f) k) Q.
  Proof. intros H st HI _. unfold bind, gets. apply (H (f (store st)) st HI eq_refl). Qed.
  Lemma triple_post A (Pre : pstore T -> Prop) (m : M A) (Q Q' : A -> pstore T -> Prop) :
    triple Pre m Q' -> (forall a p, consistent p -> Q' a p -> Q a p) -> triple Pre m Q.
  Proof. intros H H2. eapply triple_conseq; [apply H| auto | assumption]. Qed.

  Lemma firstn_len {A} (l : list A) : firstn (length l) l = l.
  Proof. apply firstn_all. Qed.

  (* ---------------------------------------------------------------------------------------------- *)
  (* Part C: the getters (the code: copy kept, guard present)                                          *)
  Lemma lf_ok : triple TT (get_lf K inp) (sound QLf).
  Proof.
    apply cached_triple. apply triple_gets_case. intros [l|] st HI E; simpl.
    - split; [assumption|]. split; [apply evolves_refl|].
      destruct HI as ((_&_&_&_&Hl&_) & _). rewrite (Hl _ E). unfold rekey.
      replace (length (funcs inp)) with (length (lf_fresh K inp)) by (unfold lf_fresh; now rewrite map_length).
      now rewrite firstn_len.
    - split; [assumption|]. split; [apply evolves_refl|]. reflexivity.
  Qed.
  Lemma momm_ok : triple TT (get_momm K inp) (sound QMomm).
  Proof.
    apply cached_triple. apply triple_gets_case. intros [l|] st HI E; simpl.
    - split; [assumption|]. split; [apply evolves_refl|].
      destruct HI as ((_&_&_&_&_&_&Hl&_) & _). rewrite (proj1 (Hl _ E)). unfold rekey.
      replace (length (mappers inp)) with (length (momm_fresh K inp)) by (unfold momm_fresh; now rewrite map_length).
      now rewrite firstn_len.
    - split; [assumption|]. split; [apply evolves_refl|]. reflexivity.
  Qed.
  Lemma lf_val : vtriple (val (get_lf K inp)) (fun v => v = PL (lf_fresh K inp)).
  Proof. exact (val_triple QLf _ lf_ok). Qed.
  Lemma omm_list_ok : vtriple (omm_list K inp) (fun l => l = omm_list_of K inp (lf_fresh K inp)).
  Proof.
    unfold omm_list. eapply vbind; [apply lf_val|]. intros a ->. intros st HI _. simpl. auto using evolves_refl.
  Qed.
  Lemma omm_ok : triple TT (get_omm K inp) (sound QOmm).
  Proof.
    apply cached_triple. apply triple_gets_case. intros [m|].
    - intros st HI E. simpl. split; [assumption|]. split; [apply evolves_refl|]. split; [reflexivity|]. now rewrite E.
    - apply triple_weaken_pre. eapply vbind; [apply omm_list_ok|]. intros l ->. intros st HI _. simpl.
      split; [assumption|]. split; [apply evolves_refl|]. reflexivity.
  Qed.
  Lemma wtd_ok : triple TT (get_wtd K inp) (sound QWtd).
  Proof. apply cached_triple. intros st HI _. simpl. split; [assumption|]. split; [apply evolves_refl|]. reflexivity. Qed.
  Lemma reg_ok : triple TT (get_reg K inp) (sound QReg).
  Proof.
    apply cached_triple. apply triple_gets_case. intros [m|] st HI E; simpl.
    - split; [assumption|]. split; [apply evolves_refl|]. split; [now left|]. now rewrite E.
    - split; [assumption|]. split; [apply evolves_refl|]. reflexivity.
  Qed.

  Lemma omm_val : vtriple (val (get_omm K inp)) (fun v => v = PM (p_omm K inp)).
  Proof. exact (val_triple QOmm _ omm_ok). Qed.
  Lemma wtd_val : vtriple (val (get_wtd K inp)) (fun v => v = PV (p_wtd K inp)).
  Proof. exact (val_triple QWtd _ wtd_ok). Qed.
  Lemma reg_val : vtriple (val (get_reg K inp)) (fun v => v = PM (p_reg K inp)).
  Proof. exact (val_triple QReg _ reg_ok). Qed.

  Lemma regred_ok : triple TT (get_regred K inp) (sound QRegRed).
  Proof.
    apply cached_triple. eapply triple_bind; [apply reg_ok|]. intros c.
    destruct (all_reg inp) eqn:Ea.
    - intros st HI Hs. simpl. split; [assumption|]. split; [apply evolves_refl|].
      destruct c as [[m|[]]|[v|]|l|x|x]; simpl in *; try discriminate; try contradiction.
      + unfold p_regred. now rewrite Ea.
      + destruct Hs; discriminate.
      + destruct Hs as [_ Hs]. split; [right; now split | assumption].
      + destruct Hs; discriminate.
    - intros st HI Hs. simpl. split; [assumption|]. split; [apply evolves_refl|].
      rewrite (sound_read _ _ _ (proj1 HI) Hs). simpl. unfold p_regred. now rewrite Ea.
  Qed.
  Lemma regred_val : vtriple (val (get_regred K inp)) (fun v => v = PM (p_regred K inp)).
  Proof. exact (val_triple QRegRed _ regred_ok). Qed.

  Lemma vret_val A (a : A) (Q : A -> Prop) : Q a -> vtriple (ret a) Q.
  Proof. intros H st HI _. simpl. auto using evolves_refl. Qed.

  (* ---- data_vector ---- *)
  Lemma triple_gets_bind A B (f : pstore T -> A) (Pre : pstore T -> Prop) (k : A -> M B) Q :
    (forall a, triple (fun p => Pre p /\ f p = a) (k a) Q) -> triple Pre (bind (gets f) k) Q.
  Proof. intros H st HI HP. unfold bind, gets. apply (H (f (store st)) st HI (conj HP eq_refl)). Qed.

  Lemma dvm_ref_wt_ok w : mode = Some w ->
    triple TT (dvm_ref_wt K inp)
           (fun r p => r = VOwn (p_dvm K inp mode) \/ (r = VAlias /\ is_some (s_dvm p) = true)).
  Proof.
    intro Em. apply triple_gets_case. intros [v|].
    - intros st HI E. simpl. split; [assumption|]. split; [apply evolves_refl|]. right. now rewrite E.
    - apply triple_weaken_pre. eapply vbind; [apply wtd_val|]. intros a ->. intros st HI _. simpl.
      split; [assumption|]. split; [apply evolves_refl|]. left. unfold p_dvm. now rewrite Em.
  Qed.

  Lemma dv_ok_aux mode' : mode' = mode -> triple TT (get_dv K code inp mode') (sound QDv).
  Proof.
    intro Em. apply cached_triple. unfold get_dv. destruct mode' as [w|]; symmetry in Em.
    - (* w-tilde class *)
      destruct (has_func inp) eqn:Ef.
      + eapply triple_bind; [apply (dvm_ref_wt_ok w Em)|]. intros r.
        apply triple_gets_bind. intros v.
        eapply triple_bind.
        { apply triple_frame_st; [|apply lf_val].
          intros p p' (_&_&_&_&_&_&_&_&_&Hd&_) [H Hv]. split.
          - destruct H as [H|[H H2]]; [now left|right; split; [assumption|now rewrite Hd]].
          - rewrite <- Hv. destruct r; simpl; [reflexivity|now rewrite Hd]. }
        intros lf st HI [[Hr Hv] ->]. simpl.
        assert (Hpdv : p_dv K inp mode = apply_vws K (p_dvm K inp mode) (dv_func_writes K inp (lf_fresh K inp))).
        { unfold p_dv. now rewrite Em, Ef. }
        assert (HdvW : dvW = dv_func_writes K inp (lf_fresh K inp)) by (unfold dvW; now rewrite Ef).
        split; [assumption|]. split; [apply evolves_refl|].
        destruct Hr as [->|[-> Hp]]; simpl in Hv; subst v.
        * now rewrite Hpdv.
        * destruct (s_dvm (store st)) as [cur|] eqn:Ec; [|discriminate].
          pose proof (proj1 HI) as (_&_&_&_&_&_&_&Hcd&_). specialize (proj2 (Hcd _ Ec) w Em) as Hcd'.
          rewrite <- HdvW. now rewrite Hcd'.
      + apply triple_gets_case. intros [v|].
        * intros st HI E. simpl. split; [assumption|]. split; [apply evolves_refl|]. split; [reflexivity|].
          pose proof (proj1 HI) as (_&_&_&_&_&_&_&Hcd&_). specialize (proj2 (Hcd _ E) w Em) as Hcd'.
          unfold dvW in Hcd'. rewrite Ef in Hcd'. simpl in Hcd'. now rewrite E, Hcd'.
        * apply triple_weaken_pre. eapply vbind; [apply wtd_val|]. intros a ->.
          assert (Hpdv : p_dv K inp mode =
                         if Nat.eqb (length (mappers inp)) 1
                         then match objs inp with o :: _ => k_dv_wt K (p_wtd K inp) (lo_mm o) (lo_p o) | [] => [] end
                         else concat (map (fun o => k_dv_wt K (p_wtd K inp) (lo_mm o) (lo_p o)) (objs inp))).
          { unfold p_dv. now rewrite Em, Ef. }
          destruct (Nat.eqb (length (mappers inp)) 1); intros st HI _; simpl;
            (split; [assumption|]); (split; [apply evolves_refl|]); now rewrite Hpdv.
    - (* mapping class *)
      apply triple_gets_case. intros s. simpl.
      destruct (is_some s && negb (has_func inp)) eqn:Eg.
      + intros st HI E. simpl. split; [assumption|]. split; [apply evolves_refl|]. split; [reflexivity|].
        apply andb_prop in Eg. destruct Eg as [E1 E2]. destruct s as [v|]; [|discriminate].
        pose proof (proj1 HI) as (_&_&_&_&_&_&_&Hcd&_). specialize (proj1 (Hcd _ E) Em) as Hcd'.
        rewrite E, Hcd'; [reflexivity|]. now destruct (has_func inp).
      + apply triple_weaken_pre. apply triple_gets_case. intros [b|].
        * intros st HI E. simpl. split; [assumption|]. split; [apply evolves_refl|].
          pose proof (proj1 HI) as (Ho&_). rewrite (Ho _ E). unfold p_dv. now rewrite Em.
        * apply triple_weaken_pre. eapply vbind with (Q := fun B => B = p_omm K inp).
          { eapply vbind; [apply omm_val|]. intros a ->. now apply vret_val. }
          intros B ->. intros st HI _. simpl. split; [assumption|]. split; [apply evolves_refl|].
          unfold p_dv. now rewrite Em.
  Qed.
  Lemma dv_ok : triple TT (get_dv K code inp mode) (sound QDv).
  Proof. now apply dv_ok_aux. Qed.

  (* ---- curvature_matrix ---- *)
  Lemma p_pre_eq w : p_pre K inp w = apply_mws K (p_cmd K inp w) (cmdW w).
  Proof.
    unfold p_pre, cmdW. destruct (has_func inp); [now rewrite apply_mws_app|].
    destruct (Nat.eqb (length (mappers inp)) 1); reflexivity.
  Qed.
  (* every reference the w-tilde curvature code writes through is an array the inversion owns *)
  Definition ref_ok (r : mref T) (p : pstore T) : Prop := exists m, r = MOwn m.
  Lemma write_m_ok w r ws X :
    mode = Some w ->
    apply_mws K (apply_mws K X ws) (cmdW w) = p_pre K inp w ->
    triple (fun p => ref_ok r p /\ rdm r p = X) (write_m K r ws)
           (fun r' p => ref_ok r' p /\ rdm r' p = apply_mws K X ws).
  Proof.
    intros Em Hfix st HI [Hr HX]. destruct r as [m|s].
    - simpl in *. subst X. split; [assumption|]. split; [apply evolves_refl|]. split; [eexists; reflexivity | reflexivity].
    - destruct Hr as [m Hm]. discriminate.
  Qed.
  Lemma cmd_ref_ok w : mode = Some w ->
    triple TT (cmd_ref K inp w) (fun r p => ref_ok r p /\ apply_mws K (rdm r p) (cmdW w) = p_pre K inp w).
  Proof.
    intro Em. apply triple_gets_case. intros [m|] st HI E; simpl.
    - split; [assumption|]. split; [apply evolves_refl|]. split; [eexists; reflexivity|].
      pose proof (proj1 HI) as (_&_&_&_&_&_&_&_&Hc). now apply Hc.
    - split; [assumption|]. split; [apply evolves_refl|]. split; [eexists; reflexivity|]. symmetry. apply p_pre_eq.
  Qed.

  Lemma lf_pres : store_pres (val (get_lf K inp)).
  Proof.
    intro st. unfold val, get_lf, cached, bind, gets, ret. destruct (cache st QLf); simpl; [reflexivity|].
    destruct (s_lf (store st)); reflexivity.
  Qed.
  Lemma momm_pres : store_pres (val (get_momm K inp)).
  Proof.
    intro st. unfold val, get_momm, cached, bind, gets, ret. destruct (cache st QMomm); simpl; [reflexivity|].
    destruct (s_momm (store st)); reflexivity.
  Qed.
  Lemma momm_val : vtriple (val (get_momm K inp)) (fun v => v = PL (momm_fresh K inp)).
  Proof. exact (val_triple QMomm _ momm_ok). Qed.

  Lemma combine_seq_in {A} (l : list A) s i x d :
    In (i, x) (combine (seq s (length l)) l) -> s <= i /\ i < s + length l /\ nth (i - s) l d = x.
  Proof.
    revert s. induction l as [|a l IH]; intros s H; simpl in *; [contradiction|].
    destruct H as [H|H].
    - injection H as <- <-. rewrite Nat.sub_diag. repeat split; lia.
    - apply IH in H. destruct H as (h1 & h2 & h3). repeat split; try lia.
      replace (i - s) with (S (i - S s)) by lia. exact h3.
  Qed.
  Lemma enum_in {A} (l : list A) i x d : In (i, x) (enum l) -> i < length l /\ nth i l d = x.
  Proof.
    intro H. apply (combine_seq_in l 0 i x d) in H. destruct H as (_ & h2 & h3). rewrite Nat.sub_0_r in h3. auto.
  Qed.
  Lemma nth_map_lt {A B} (g : A -> B) (l : list A) i d d' : i < length l -> nth i (map g l) d' = g (nth i l d).
  Proof. intro H. rewrite (nth_indep _ d' (g d)) by (now rewrite map_length). apply map_nth. Qed.

  Lemma mapper_in x : In x (mappers inp) -> In (fst x) (objs inp) /\ lo_mapper (fst x) = true.
  Proof.
    unfold mappers. intro H. apply filter_In in H. destruct H as [H1 H2]. split; [|exact H2].
    unfold orng in H1. destruct x as [o r]. apply in_combine_l in H1. exact H1.
  Qed.
  Lemma flm_md_eq md :
    (md = OffDlf (dlf_of K inp (lf_fresh K inp)) /\ law_dlf) \/ (md = OffMomm (momm_fresh K inp) /\ law_momm) \/ md = OffFresh T ->
    flm_writes K inp md (lf_fresh K inp) = flm_writes K inp (OffFresh T) (lf_fresh K inp).
  Proof.
    intro H. unfold flm_writes. f_equal. rewrite !flat_map_concat_map. f_equal.
    apply map_ext_in. intros [i x] Hix. apply map_ext_in. intros [f y] Hfy. f_equal.
    destruct H as [ [-> L] | [ [-> L] | -> ] ]; simpl; [| |reflexivity].
    - destruct (enum_in _ _ _ y Hfy) as [Hlt _]. destruct (enum_in _ _ _ x Hix) as [Hlti Hn]. unfold dlf_of.
      assert (Hlf : f < length (lf_fresh K inp)) by (unfold lf_fresh; now rewrite map_length).
      rewrite (nth_map_lt (fun l : mat T => k_dlfm K (k_cw K l (n inp))) (lf_fresh K inp) f [] []) by exact Hlf.
      assert (Hx : In x (mappers inp)) by (rewrite <- Hn; now apply nth_In).
      destruct (mapper_in x Hx) as [Hx1 Hx2]. apply L; [assumption|assumption|now apply nth_In].
    - destruct (enum_in _ _ _ y Hfy) as [Hltf _]. destruct (enum_in _ _ _ x Hix) as [Hlt Hn]. unfold momm_fresh.
      assert (Hlf : f < length (lf_fresh K inp)) by (unfold lf_fresh; now rewrite map_length).
      rewrite (nth_map_lt (fun x : lobj T * (nat * nat) => conv_mm K (lo_mm (fst x))) (mappers inp) i x []) by assumption. rewrite Hn.
      assert (Hx : In x (mappers inp)) by (rewrite <- Hn; now apply nth_In).
      destruct (mapper_in x Hx) as [Hx1 Hx2]. apply L; [assumption|assumption|now apply nth_In].
  Qed.

  Lemma write_m_ok' w r ws :
    mode = Some w ->
    (forall X, apply_mws K X (cmdW w) = p_pre K inp w -> apply_mws K (apply_mws K X ws) (cmdW w) = p_pre K inp w) ->
    triple (fun p => ref_ok r p /\ apply_mws K (rdm r p) (cmdW w) = p_pre K inp w) (write_m K r ws)
           (fun r' p => ref_ok r' p /\ exists X, rdm r' p = apply_mws K X ws /\ apply_mws K X (cmdW w) = p_pre K inp w).
  Proof.
    intros Em Hfix st HI [Hr HX].
    destruct (write_m_ok w r ws (rdm r (store st)) Em (Hfix _ HX) st HI (conj Hr eq_refl)) as (a & b & c & e).
    split; [assumption|]. split; [assumption|]. split; [assumption|]. eauto.
  Qed.
  Lemma multi_ref_ok w B :
    mode = Some w -> cmdW w = multi_writes K inp (wt_w w) ++ B ->
    triple TT (multi_ref K inp w)
           (fun r p => ref_ok r p /\ exists X, rdm r p = apply_mws K X (multi_writes K inp (wt_w w))
                                              /\ apply_mws K X (cmdW w) = p_pre K inp w).
  Proof.
    intros Em HW. unfold multi_ref. eapply triple_bind; [apply (cmd_ref_ok w Em)|]. intros r.
    apply write_m_ok'; [assumption|]. intros X HX. rewrite HW in *. now rewrite apply_mws_absorb.
  Qed.

  Lemma flm_tail w r X :
    mode = Some w -> has_func inp = true ->
    triple (fun p => ref_ok r p /\ rdm r p = apply_mws K X (multi_writes K inp (wt_w w))
                     /\ apply_mws K X (cmdW w) = p_pre K inp w)
      (sd <- gets (@s_dlf T);; sm <- gets (@s_momm T);;
       md <- match sd, sm with
             | Some l, _ => ret (OffDlf (rekey (funcs inp) l))
             | None, Some _ => l <- val (get_momm K inp);; ret (OffMomm (as_l l))
             | None, None => ret (OffFresh T)
             end;;
       write_m K r (flm_writes K inp md (lf_fresh K inp)))
      (fun r' p => rdm r' p = p_pre K inp w).
  Proof.
    intros Em Ef.
    set (A := multi_writes K inp (wt_w w)). set (B := flm_writes K inp (OffFresh T) (lf_fresh K inp)).
    assert (HW : cmdW w = A ++ B) by (unfold cmdW; now rewrite Ef).
    set (Pre0 := fun p : pstore T => ref_ok r p /\ rdm r p = apply_mws K X A /\ apply_mws K X (cmdW w) = p_pre K inp w).
    eapply triple_bind; [apply triple_gets|]. intros sd.
    eapply triple_bind; [apply triple_gets|]. intros sm.
    eapply triple_bind with (Q := fun md p => flm_writes K inp md (lf_fresh K inp) = B /\ Pre0 p).
    - destruct sd as [l|]; [|destruct sm as [l|]].
      + eapply triple_post; [apply triple_ret|]. intros md p Hc [-> [_ [Hsd HP]]]. split; [|exact HP].
        destruct Hc as (_&_&_&_&_&Hdl&_). destruct (Hdl l (eq_sym Hsd)) as [-> L].
        replace (rekey (funcs inp) (dlf_of K inp (lf_fresh K inp))) with (dlf_of K inp (lf_fresh K inp)).
        * apply flm_md_eq. left. auto.
        * unfold rekey. replace (length (funcs inp)) with (length (dlf_of K inp (lf_fresh K inp)))
            by (unfold dlf_of, lf_fresh; now rewrite !map_length). now rewrite firstn_len.
      + eapply triple_bind; [apply triple_frame_pres; [apply momm_pres | apply momm_val]|].
        intros a. eapply triple_post; [apply triple_ret|]. intros md p Hc [-> [[Hsm [_ HP]] ->]]. split; [|exact HP].
        destruct Hc as (_&_&_&_&_&_&Hmo&_). destruct (Hmo l (eq_sym Hsm)) as [_ L]. simpl.
        apply flm_md_eq. right. left. auto.
      + eapply triple_post; [apply triple_ret|]. intros md p _ [-> [_ [_ HP]]]. split; [reflexivity|exact HP].
    - intros md st HI [Hmd (Hr & HX1 & HX2)]. rewrite Hmd.
      assert (Hfix : apply_mws K (apply_mws K (apply_mws K X A) B) (cmdW w) = p_pre K inp w).
      { rewrite <- (apply_mws_app T K X A B), <- HW, HX2. rewrite <- HX2 at 1. rewrite apply_mws_idem. exact HX2. }
      destruct (write_m_ok w r B (apply_mws K X A) Em Hfix st HI (conj Hr HX1)) as (a & b & _ & e).
      split; [assumption|]. split; [assumption|]. rewrite e, <- (apply_mws_app T K X A B), <- HW. exact HX2.
  Qed.

  Lemma pre_ref_ok w : mode = Some w ->
    triple TT (if has_func inp then flm_ref K inp w
               else if Nat.eqb (length (mappers inp)) 1 then cmd_ref K inp w else multi_ref K inp w)
           (fun r p => rdm r p = p_pre K inp w).
  Proof.
    intro Em. destruct (has_func inp) eqn:Ef; [|destruct (Nat.eqb (length (mappers inp)) 1) eqn:En].
    - (* _curvature_matrix_func_list_and_mapper *)
      assert (HW : cmdW w = multi_writes K inp (wt_w w) ++ flm_writes K inp (OffFresh T) (lf_fresh K inp))
        by (unfold cmdW; now rewrite Ef).
      unfold flm_ref. eapply triple_bind; [apply (multi_ref_ok w _ Em HW)|]. intros r.
      eapply triple_bind; [apply triple_frame_pres; [apply lf_pres | apply lf_val]|].
      intros lf st HI [[Hr (X & HX1 & HX2)] ->].
      apply (flm_tail w r X Em Ef st HI (conj Hr (conj HX1 HX2))).
    - (* one mapper, no function object: _curvature_matrix_mapper_diag itself *)
      eapply triple_post; [apply (cmd_ref_ok w Em)|]. intros r p _ [_ H]. unfold cmdW in H. now rewrite Ef, En in H.
    - (* several mappers *)
      assert (HW : cmdW w = multi_writes K inp (wt_w w) ++ []) by (unfold cmdW; now rewrite Ef, En, app_nil_r).
      eapply triple_post; [apply (multi_ref_ok w [] Em HW)|]. intros r p _ [_ (X & H1 & H2)].
      rewrite H1. rewrite HW, app_nil_r in H2. exact H2.
  Qed.

  Lemma curv_ok_aux mode' : mode' = mode -> triple TT (get_curv K code inp mode') (sound QCurv).
  Proof.
    intro Em. apply cached_triple. unfold get_curv. apply triple_gets_case. intros [c|].
    - intros st HI E. simpl. split; [assumption|]. split; [apply evolves_refl|].
      pose proof (proj1 HI) as (_&Hc&_). now rewrite (Hc _ E).
    - apply triple_weaken_pre. destruct mode' as [w|]; symmetry in Em.
      + eapply triple_bind; [apply (pre_ref_ok w Em)|]. intros r st HI Hr. simpl.
        split; [assumption|]. split; [apply evolves_refl|]. rewrite Hr. unfold p_curv. now rewrite Em.
      + eapply vbind; [apply omm_val|]. intros a ->. intros st HI _. simpl.
        split; [assumption|]. split; [apply evolves_refl|]. unfold p_curv. now rewrite Em.
  Qed.
  Lemma curv_ok : triple TT (get_curv K code inp mode) (sound QCurv).
  Proof. now apply curv_ok_aux. Qed.
  Lemma curv_val : vtriple (val (get_curv K code inp mode)) (fun v => v = PM (p_curv K inp mode)).
  Proof. exact (val_triple QCurv _ curv_ok). Qed.
  Lemma dv_val : vtriple (val (get_dv K code inp mode)) (fun v => v = PV (p_dv K inp mode)).
  Proof. exact (val_triple QDv _ dv_ok). Qed.

  (* a cached value of a quantity that never aliases the Preloads object is an owned array *)
  Definition noalias (q : qty) : bool :=
    match q with QOmm | QReg | QRegRed | QDv => false | _ => true end.
  Lemma sound_transfer q q' c p : noalias q = true -> P q' = P q -> sound q c p -> sound q' c p.
  Proof.
    intros Hn He Hs. destruct c as [[m|[]]|[v|]|l|x|x]; simpl in *; try congruence; try contradiction.
    - destruct Hs as [-> _]. discriminate.
    - destruct Hs as [[->|[-> _]] _]; discriminate.
    - destruct Hs as [-> _]. discriminate.
  Qed.
  Lemma sound_curv_own c p : sound QCurv c p -> c = CM (MOwn (p_curv K inp mode)).
  Proof.
    intro Hs. destruct c as [[m|[]]|[v|]|l|x|x]; simpl in *; try discriminate; try contradiction.
    - now injection Hs as <-.
    - destruct Hs; discriminate.
    - destruct Hs as [[H|[H _]] _]; discriminate.
    - destruct Hs; discriminate.
  Qed.

  Lemma crm_ok : triple TT (get_crm K code inp mode) (sound QCrm).
  Proof.
    apply cached_triple. unfold get_crm. destruct (has_reg inp) eqn:Er; simpl.
    - destruct (Nat.eqb (length (objs inp)) 1).
      + (* `curvature_matrix += regularization_matrix` on the cached array, then the cache entry is dropped *)
        eapply triple_bind; [apply curv_ok|]. intros c.
        eapply triple_bind with (Q := fun H p => H = PM (p_reg K inp) /\ c = CM (MOwn (p_curv K inp mode))).
        { intros st HI Hs. pose proof (sound_curv_own _ _ Hs) as Hc. destruct (reg_val st HI I) as (a & b & e). auto. }
        intros H st HI [-> ->]. simpl. split; [|split; [apply evolves_refl|]].
        * destruct HI as [Hc Hs]. split; [assumption|]. intros q c. simpl. destruct (qty_eqb q QCurv); [discriminate|apply Hs].
        * unfold p_crm. now rewrite Er.
      + eapply vbind; [apply curv_val|]. intros F ->. eapply vbind; [apply reg_val|]. intros H ->.
        intros st HI _. simpl. split; [assumption|]. split; [apply evolves_refl|]. unfold p_crm. now rewrite Er.
    - eapply triple_post; [apply curv_ok|]. intros c p _ Hs. eapply sound_transfer; [| |exact Hs]; [reflexivity|].
      simpl. unfold p_crm. now rewrite Er.
  Qed.
  Lemma crm_val : vtriple (val (get_crm K code inp mode)) (fun v => v = PM (p_crm K inp mode)).
  Proof. exact (val_triple QCrm _ crm_ok). Qed.
  Lemma crmred_ok : triple TT (get_crmred K code inp mode) (sound QCrmRed).
  Proof.
    apply cached_triple. unfold get_crmred. destruct (all_reg inp) eqn:Ea.
    - eapply triple_post; [apply crm_ok|]. intros c p _ Hs. eapply sound_transfer; [| |exact Hs]; [reflexivity|].
      simpl. unfold p_crmred. now rewrite Ea.
    - eapply vbind; [apply crm_val|]. intros m ->. intros st HI _. simpl.
      split; [assumption|]. split; [apply evolves_refl|]. unfold p_crmred. now rewrite Ea.
  Qed.
  Lemma crmred_val : vtriple (val (get_crmred K code inp mode)) (fun v => v = PM (p_crmred K inp mode)).
  Proof. exact (val_triple QCrmRed _ crmred_ok). Qed.

  Lemma rec_ok : triple TT (get_rec K code inp mode) (sound QRec).
  Proof.
    apply cached_triple. unfold get_rec. eapply vbind; [apply dv_val|]. intros dv ->.
    eapply vbind; [apply crm_val|]. intros m ->. intros st HI _. simpl.
    split; [assumption|]. split; [apply evolves_refl|]. reflexivity.
  Qed.
  Lemma rec_val : vtriple (val (get_rec K code inp mode)) (fun v => v = PRV (p_rec K inp mode)).
  Proof. exact (val_triple QRec _ rec_ok). Qed.
  Lemma recred_ok : triple TT (get_recred K code inp mode) (sound QRecRed).
  Proof.
    apply cached_triple. unfold get_recred. eapply vbind; [apply rec_val|]. intros r ->.
    destruct (all_reg inp) eqn:Ea; intros st HI _; simpl;
      (split; [assumption|]); (split; [apply evolves_refl|]); unfold p_recred; now rewrite Ea.
  Qed.
  Lemma recred_val : vtriple (val (get_recred K code inp mode)) (fun v => v = PRV (p_recred K inp mode)).
  Proof. exact (val_triple QRecRed _ recred_ok). Qed.
  Lemma mapped_ok_aux mode' : mode' = mode -> triple TT (get_mapped K code inp mode') (sound QMapped).
  Proof.
    intro Em. apply cached_triple. unfold get_mapped. rewrite Em at 1. eapply vbind; [apply rec_val|]. intros r ->.
    destruct mode' as [w|]; symmetry in Em.
    - eapply vbind; [apply lf_val|]. intros lf ->. intros st HI _. simpl.
      split; [assumption|]. split; [apply evolves_refl|]. unfold p_mapped. now rewrite Em.
    - eapply vbind; [apply omm_list_ok|]. intros l ->. intros st HI _. simpl.
      split; [assumption|]. split; [apply evolves_refl|]. unfold p_mapped. now rewrite Em.
  Qed.
  Lemma mapped_ok : triple TT (get_mapped K code inp mode) (sound QMapped).
  Proof. now apply mapped_ok_aux. Qed.
  Lemma regterm_ok : triple TT (get_regterm K code inp mode) (sound QRegTerm).
  Proof.
    apply cached_triple. unfold get_regterm. destruct (has_reg inp) eqn:Er; simpl.
    - eapply vbind; [apply recred_val|]. intros r ->. eapply vbind; [apply regred_val|]. intros H ->.
      intros st HI _. simpl. split; [assumption|]. split; [apply evolves_refl|]. unfold p_regterm. now rewrite Er.
    - intros st HI _. simpl. split; [assumption|]. split; [apply evolves_refl|]. unfold p_regterm. now rewrite Er.
  Qed.
  Lemma ldc_ok : triple TT (get_ldc K code inp mode) (sound QLdc).
  Proof.
    apply cached_triple. unfold get_ldc. destruct (has_reg inp) eqn:Er; simpl.
    - eapply vbind; [apply crmred_val|]. intros m ->.
      intros st HI _. simpl. split; [assumption|]. split; [apply evolves_refl|]. unfold p_ldc. now rewrite Er.
    - intros st HI _. simpl. split; [assumption|]. split; [apply evolves_refl|]. unfold p_ldc. now rewrite Er.
  Qed.
  Lemma ldr_ok : triple TT (get_ldr K inp) (sound QLdr).
  Proof.
    apply cached_triple. unfold get_ldr. destruct (has_reg inp) eqn:Er; simpl.
    - apply triple_gets_case. intros [x|].
      + intros st HI E. simpl. split; [assumption|]. split; [apply evolves_refl|].
        pose proof (proj1 HI) as (_&_&_&Hl&_). now rewrite (Hl _ E Er).
      + apply triple_weaken_pre. eapply vbind; [apply regred_val|]. intros m ->.
        intros st HI _. simpl. split; [assumption|]. split; [apply evolves_refl|]. unfold p_ldr. now rewrite Er.
    - intros st HI _. simpl. split; [assumption|]. split; [apply evolves_refl|]. unfold p_ldr. now rewrite Er.
  Qed.

  Lemma get_ok q : triple TT (get K code inp mode q) (sound q).
  Proof.
    destruct q; simpl.
    - apply lf_ok. - apply momm_ok. - apply omm_ok. - apply wtd_ok. - apply dv_ok. - apply curv_ok.
    - apply reg_ok. - apply regred_ok. - apply crm_ok. - apply crmred_ok. - apply rec_ok. - apply recred_ok.
    - apply mapped_ok. - apply regterm_ok. - apply ldc_ok. - apply ldr_ok.
  Qed.
  (* reading any attribute of the inversion returns the specification value *)
  Lemma observe_ok q : vtriple (observe K code inp mode q) (fun v => v = P q).
  Proof. exact (val_triple q _ (get_ok q)). Qed.
  Lemma observe_all_ok qs : vtriple (observe_all K code inp mode qs) (fun vs => vs = map P qs).
  Proof.
    induction qs as [|q qs IH]; simpl.
    - now apply vret_val.
    - eapply vbind; [apply observe_ok|]. intros v ->. eapply vbind; [apply IH|]. intros vs ->. now apply vret_val.
  Qed.
End Logic.

Arguments consistent {T} K inp mode p.
Arguments evolves {T} K inp mode p p'.
Arguments law_dlf {T} K inp.
Arguments law_momm {T} K inp.
Arguments Inv {T} K inp mode st.
Arguments dvW {T} K inp.
Arguments cmdW {T} K inp w.

(* ================================================================================================ *)
(* Part D: inversions, histories, the factory                                                        *)
Section Top.
  Variable T : Type.
  Variable K : kernels T.
  Variable inp : input T.

  (* user-facing hypothesis: every filled slot holds the value the corresponding attribute of a fresh inversion of
     the same class has (data_vector_mapper -> _data_vector_mapper, curvature_matrix_mapper_diag ->
     _curvature_matrix_mapper_diag, the dictionaries in cls_list order) *)
  Definition fresh_store (mode : option (wtilde T)) (p : pstore T) : Prop :=
    (forall m, s_omm p = Some m -> m = p_omm K inp) /\
    (forall m, s_curv p = Some m -> m = p_curv K inp mode) /\
    (forall m, s_reg p = Some m -> m = p_reg K inp) /\
    (forall x, s_ldr p = Some x -> has_reg inp = true -> p_ldr K inp = Ok x) /\
    (forall l, s_lf p = Some l -> l = lf_fresh K inp) /\
    (forall l, s_dlf p = Some l -> l = dlf_of K inp (lf_fresh K inp)) /\
    (forall l, s_momm p = Some l -> l = momm_fresh K inp) /\
    (forall v, s_dvm p = Some v -> v = p_dvm K inp mode) /\
    (forall m w, s_cmd p = Some m -> mode = Some w -> m = p_cmd K inp w).
  (* kernel identities needed only when the corresponding slot is filled:
     - the two dictionaries whose mere presence switches the off-diagonal kernel (C04 identities);
     - data_vector_mapper is returned as THE data vector when there is no function object: the block-assembled
       vector must be the directly computed one (a shape / linearity law of the kernels, C04) *)
  Definition laws_for (mode : option (wtilde T)) (p : pstore T) : Prop :=
    (s_dlf p <> None -> law_dlf K inp) /\
    (s_momm p <> None -> law_momm K inp) /\
    (s_dvm p <> None -> has_func inp = false -> p_dvm K inp mode = p_dv K inp mode).

  Lemma fresh_consistent mode p : fresh_store mode p -> laws_for mode p -> consistent K inp mode p.
  Proof.
    intros (c1&c2&c3&c4&c5&c6&c7&c8&c9) (l1&l2&l3).
    refine (conj c1 (conj c2 (conj c3 (conj c4 (conj c5 (conj _ (conj _ (conj _ _)))))))).
    - intros l H. split; [now apply c6|]. apply l1. congruence.
    - intros l H. split; [now apply c7|]. apply l2. congruence.
    - intros v H. rewrite (c8 _ H). split.
      + intros _ Hf. apply l3; [congruence|assumption].
      + intros w Em. unfold dvW. destruct (has_func inp) eqn:Ef.
        * unfold p_dv. now rewrite Em, Ef.
        * simpl. apply l3; [congruence|reflexivity].
    - intros m w H Em. rewrite (c9 _ _ H Em). symmetry. apply p_pre_eq.
  Qed.
  Lemma empty_consistent mode : consistent K inp mode empty_store.
  Proof. unfold consistent. simpl. repeat split; intros; discriminate. Qed.

  (* one inversion object, any sequence of attribute reads *)
  Lemma observe_all_run mode p qs :
    consistent K inp mode p ->
    let r := observe_all K code inp mode qs {| cache := empty_cache T; store := p |} in
    fst r = map (pure K inp mode) qs /\ consistent K inp mode (store (snd r)) /\ evolves K inp mode p (store (snd r)).
  Proof.
    intros Hc.
    assert (HI : Inv K inp mode {| cache := empty_cache T; store := p |}).
    { split; [assumption|]. intros q c H. discriminate. }
    destruct (observe_all_ok T K inp mode qs _ HI I) as ((a & _) & b & c). auto.
  Qed.

  (* the factory looks only at slots that never change *)
  Lemma make_inversion_evolves mode p p' : evolves K inp mode p p' -> make_inversion K inp p' = make_inversion K inp p.
  Proof.
    intros (a1&a2&_). unfold make_inversion, choose_wt. now rewrite a1, a2.
  Qed.

  Lemma run_inversion_ok mode p qs :
    make_inversion K inp p = Ok mode -> consistent K inp mode p ->
    fst (run_inversion K inp code p qs) = Ok (map (pure K inp mode) qs) /\
    consistent K inp mode (snd (run_inversion K inp code p qs)) /\
    evolves K inp mode p (snd (run_inversion K inp code p qs)).
  Proof.
    intros Hm Hc. unfold run_inversion. rewrite Hm.
    pose proof (observe_all_run mode p qs Hc) as (a & b & c).
    destruct (observe_all K code inp mode qs {| cache := empty_cache T; store := p |}) as [vs st]. simpl in *.
    now rewrite a.
  Qed.
  Lemma run_inversion_raise e p qs :
    make_inversion K inp p = Raise e -> run_inversion K inp code p qs = (Raise e, p).
  Proof. intro H. unfold run_inversion. now rewrite H. Qed.

  (* any number of successive inversions sharing the Preloads object *)
  Lemma run_history_ok mode h : forall p,
    make_inversion K inp p = Ok mode -> consistent K inp mode p ->
    fst (run_history K inp code p h) = map (fun qs => Ok (map (pure K inp mode) qs)) h /\
    consistent K inp mode (snd (run_history K inp code p h)) /\
    evolves K inp mode p (snd (run_history K inp code p h)).
  Proof.
    induction h as [|qs h IH]; intros p Hm Hc; simpl.
    - split; [reflexivity|]. split; [assumption|apply evolves_refl].
    - pose proof (run_inversion_ok mode p qs Hm Hc) as (a & b & c).
      destruct (run_inversion K inp code p qs) as [r p1]. simpl in *.
      assert (Hm1 : make_inversion K inp p1 = Ok mode) by (rewrite (make_inversion_evolves mode p p1 c); exact Hm).
      pose proof (IH p1 Hm1 b) as (a2 & b2 & c2).
      destruct (run_history K inp code p1 h) as [rs p2]. simpl in *.
      split; [now rewrite a, a2|]. split; [assumption|]. eapply evolves_trans; eassumption.
  Qed.
  Lemma run_history_raise e h : forall p,
    make_inversion K inp p = Raise e ->
    run_history K inp code p h = (map (fun _ => Raise e) h, p).
  Proof.
    induction h as [|qs h IH]; intros p Hm; simpl; [reflexivity|].
    rewrite (run_inversion_raise e p qs Hm). now rewrite (IH p Hm).
  Qed.

  (* when do the factory's two inputs from the Preloads object leave its decision unchanged *)
  Definition factory_slots_neutral (p : pstore T) : Prop :=
    (forall b, s_use_wt p = Some b -> all_func inp = false -> b = in_use_wt inp) /\
    (forall w, s_wt p = Some w -> w = ds_wt (in_ds inp)).
  Lemma make_inversion_neutral p : factory_slots_neutral p -> make_inversion K inp p = make_inversion K inp empty_store.
  Proof.
    intros [H1 H2]. unfold make_inversion, choose_wt. simpl.
    assert (Hu : (if all_func inp then false else match s_use_wt p with Some b => b | None => in_use_wt inp end)
                 = (if all_func inp then false else in_use_wt inp)).
    { destruct (all_func inp) eqn:Ea; [reflexivity|]. destruct (s_use_wt p) as [b|] eqn:Eb; [|reflexivity]. now apply H1. }
    rewrite Hu. destruct (s_wt p) as [w|] eqn:Ew; [|reflexivity]. now rewrite (H2 _ eq_refl).
  Qed.

  (* ---- the statements exported to Props/C15.v ---- *)
  Theorem preload_transparent p qs :
    factory_slots_neutral p ->
    (forall mode, make_inversion K inp p = Ok mode -> fresh_store mode p /\ laws_for mode p) ->
    fst (run_inversion K inp code p qs) = fst (run_inversion K inp code empty_store qs).
  Proof.
    intros Hn Hf. pose proof (make_inversion_neutral p Hn) as Hm.
    destruct (make_inversion K inp p) as [mode|e] eqn:E.
    - destruct (Hf mode eq_refl) as [F L].
      rewrite (proj1 (run_inversion_ok mode p qs E (fresh_consistent mode p F L))).
      now rewrite (proj1 (run_inversion_ok mode empty_store qs (eq_sym Hm) (empty_consistent mode))).
    - rewrite (run_inversion_raise e p qs E). now rewrite (run_inversion_raise e empty_store qs (eq_sym Hm)).
  Qed.

  Definition frozen_eq (p p' : pstore T) : Prop :=
    s_use_wt p' = s_use_wt p /\ s_wt p' = s_wt p /\ s_omm p' = s_omm p /\ s_curv p' = s_curv p /\
    s_reg p' = s_reg p /\ s_lf p' = s_lf p /\ s_dlf p' = s_dlf p /\ s_momm p' = s_momm p /\ s_ldr p' = s_ldr p /\
    s_cmd p' = s_cmd p /\ s_dvm p' = s_dvm p.
  Lemma evolves_frozen mode p p' : evolves K inp mode p p' -> frozen_eq p p'.
  Proof. unfold evolves, frozen_eq. tauto. Qed.

  Theorem reuse_any_history p h :
    factory_slots_neutral p ->
    (forall mode, make_inversion K inp p = Ok mode -> fresh_store mode p /\ laws_for mode p) ->
    fst (run_history K inp code p h) = map (fun qs => fst (run_inversion K inp code empty_store qs)) h /\
    frozen_eq p (snd (run_history K inp code p h)).
  Proof.
    intros Hn Hf. pose proof (make_inversion_neutral p Hn) as Hm.
    destruct (make_inversion K inp p) as [mode|e] eqn:E.
    - destruct (Hf mode eq_refl) as [F L].
      pose proof (run_history_ok mode h p E (fresh_consistent mode p F L)) as (a & b & c).
      split; [|apply (evolves_frozen mode), c]. rewrite a. apply map_ext. intro qs.
      now rewrite (proj1 (run_inversion_ok mode empty_store qs (eq_sym Hm) (empty_consistent mode))).
    - rewrite (run_history_raise e h p E). simpl. split; [|unfold frozen_eq; tauto].
      apply map_ext. intro qs. now rewrite (run_inversion_raise e empty_store qs (eq_sym Hm)).
  Qed.

  Theorem curvature_preload_unchanged p h :
    factory_slots_neutral p ->
    (forall mode, make_inversion K inp p = Ok mode -> fresh_store mode p /\ laws_for mode p) ->
    s_curv (snd (run_history K inp code p h)) = s_curv p.
  Proof. intros Hn Hf. destruct (reuse_any_history p h Hn Hf) as [_ (_&_&_&H&_)]. exact H. Qed.

  (* NO slot is ever modified: the Preloads object after any history is the Preloads object before it *)
  Theorem preloads_never_modified p h :
    factory_slots_neutral p ->
    (forall mode, make_inversion K inp p = Ok mode -> fresh_store mode p /\ laws_for mode p) ->
    snd (run_history K inp code p h) = p.
  Proof.
    intros Hn Hf. destruct (reuse_any_history p h Hn Hf) as [_ H]. unfold frozen_eq in H.
    destruct (snd (run_history K inp code p h)), p. simpl in H.
    destruct H as (a1&a2&a3&a4&a5&a6&a7&a8&a9&a10&a11). congruence.
  Qed.

  (* the store stays consistent for ever *)
  Theorem store_stays_consistent p h mode :
    make_inversion K inp p = Ok mode -> fresh_store mode p -> laws_for mode p ->
    consistent K inp mode (snd (run_history K inp code p h)).
  Proof. intros E F L. apply (run_history_ok mode h p E (fresh_consistent mode p F L)). Qed.

  Theorem every_read_is_specified mode h p :
    make_inversion K inp p = Ok mode -> fresh_store mode p -> laws_for mode p ->
    fst (run_history K inp code p h) = map (fun qs => Ok (map (pure K inp mode) qs)) h.
  Proof. intros E F L. exact (proj1 (run_history_ok mode h p E (fresh_consistent mode p F L))). Qed.

  (* check_noise_map *)
  Theorem noise_check_raises p w :
    choose_wt inp p = true -> s_wt p = Some w ->
    make_inversion K inp p = if teqb K (hd (t0 K) (ds_n (in_ds inp))) (wt_nv w) then Ok (Some w) else Raise InversionException.
  Proof. intros Hc Hw. unfold make_inversion, check_noise_map. now rewrite Hc, Hw. Qed.

  (* the choice of formalism: values are those of C04's identities, nothing else *)
  Theorem formalism_choice_value_free w :
    p_dv K inp (Some w) = p_dv K inp None ->
    p_curv K inp (Some w) = p_curv K inp None ->
    (forall s, p_rec K inp None = Ok s ->
               mapped_wt K inp (lf_fresh K inp) s = mapped_map K inp (omm_list_of K inp (lf_fresh K inp)) s) ->
    forall q, pure K inp (Some w) q = pure K inp None q.
  Proof.
    intros Hd Hc Hmp.
    assert (Hcrm : p_crm K inp (Some w) = p_crm K inp None) by (unfold p_crm; now rewrite Hc).
    assert (Hcrr : p_crmred K inp (Some w) = p_crmred K inp None) by (unfold p_crmred; now rewrite Hcrm).
    assert (Hrec : p_rec K inp (Some w) = p_rec K inp None) by (unfold p_rec; now rewrite Hcrm, Hd).
    assert (Hrr : p_recred K inp (Some w) = p_recred K inp None) by (unfold p_recred; now rewrite Hrec).
    intros []; cbn [pure]; try reflexivity; try congruence.
    - unfold p_mapped. rewrite Hrec. destruct (p_rec K inp None) as [sv|e] eqn:Er; simpl; [now rewrite (Hmp sv eq_refl) | reflexivity].
    - unfold p_regterm. now rewrite Hrr.
    - unfold p_ldc. now rewrite Hcrr.
  Qed.
End Top.

Arguments fresh_store {T} K inp mode p.
Arguments laws_for {T} K inp mode p.
Arguments factory_slots_neutral {T} inp p.
Arguments frozen_eq {T} p p'.

(* ================================================================================================ *)
(* Part E: a concrete instance (T = Z, toy kernels): non-vacuity of the hypotheses, and the two mutants *)
From Coq Require Import ZArith.
Section Toy.
  Local Open Scope Z_scope.
  Definition cols (m : mat Z) : nat := length (hd [] m).
  Definition zk : kernels Z := {|
    t0 := 0; tadd := Z.add; tnz := fun x => negb (Z.eqb x 0); teqb := Z.eqb;
    conv_mm := fun m => m; conv_img := fun v => v;
    k_dv_bmm := fun B _ _ => repeat 1 (cols B);
    k_curv_mm := fun B _ => repeat (repeat 1 (cols B)) (cols B);
    k_wtd := fun d _ => d;
    k_dv_wt := fun _ _ p => repeat 2 p;
    k_curv_wt := fun _ _ p => repeat (repeat 4 p) p;
    k_off_wt := fun _ _ p0 _ p1 => repeat (repeat 3 p1) p0;
    k_cw := fun L _ => L; k_wv := fun L _ => L;
    k_dotT := fun A B => repeat (repeat 5 (cols B)) (cols A);
    k_dlfm := fun cw => cw;
    k_off_dlfm := fun dl M _ => repeat (repeat 5 (cols dl)) (cols M);
    k_off_mf := fun M _ cw => repeat (repeat 5 (cols cw)) (cols M);
    k_mapped_mm := fun B _ => map (fun _ => 0) B; k_mapped_um := fun M _ => map (fun _ => 0) M;
    k_rowsum := fun _ L => map (fun _ => 0) L;
    k_quad := fun _ _ => 0;
    k_solve := fun _ b => Ok b; k_ldc := fun A => Ok (hd 0 (hd [] A)); k_ldr := fun _ => Ok 9 |}.
  Lemma zk_law_dlf inp : law_dlf zk inp.
  Proof. intros x l _ _ _. reflexivity. Qed.
  Lemma zk_law_momm inp : law_momm zk inp.
  Proof. intros x l _ _ _. reflexivity. Qed.

  Definition zmapper (p : nat) (mm : mat Z) (reg : option (mat Z)) : lobj Z :=
    {| lo_mapper := true; lo_mm := mm; lo_ovr := None; lo_p := p; lo_reg := reg |}.
  Definition zfunc (p : nat) (mm : mat Z) : lobj Z :=
    {| lo_mapper := false; lo_mm := mm; lo_ovr := None; lo_p := p; lo_reg := None |}.
  Definition zds : dataset Z := {| ds_d := [1; 2]; ds_n := [1; 1]; ds_wt := {| wt_w := [[1]]; wt_nv := 1 |} |}.
  (* a 2-parameter regularized mapper followed by a 1-parameter function object, w-tilde formalism *)
  Definition inpA : input Z :=
    {| in_ds := zds; in_objs := [zmapper 2 [[1; 0]; [0; 1]] (Some [[1; 0]; [0; 1]]); zfunc 1 [[1]; [1]]];
       in_use_wt := true; in_eps := 7 |}.
  Definition modeA : option (wtilde Z) := Some (ds_wt zds).
  (* every slot filled with the fresh value *)
  Definition pA : pstore Z :=
    {| s_use_wt := Some true; s_wt := Some (ds_wt zds);
       s_omm := Some (p_omm zk inpA); s_curv := Some (p_curv zk inpA modeA); s_cmd := Some (p_cmd zk inpA (ds_wt zds));
       s_reg := Some (p_reg zk inpA); s_dvm := Some (p_dvm zk inpA modeA);
       s_lf := Some (lf_fresh zk inpA); s_dlf := Some (dlf_of zk inpA (lf_fresh zk inpA));
       s_momm := Some (momm_fresh zk inpA); s_ldr := Some 9 |}.
  Lemma pA_mode : make_inversion zk inpA pA = Ok modeA.
  Proof. reflexivity. Qed.
  Lemma pA_neutral : factory_slots_neutral inpA pA.
  Proof. split; simpl; intros x H; injection H as <-; reflexivity. Qed.
  Lemma pA_fresh : forall mode, make_inversion zk inpA pA = Ok mode -> fresh_store zk inpA mode pA /\ laws_for zk inpA mode pA.
  Proof.
    intros mode H. rewrite pA_mode in H. injection H as <-. split.
    - unfold fresh_store. simpl. repeat split; intros; injection H as <-; reflexivity.
    - split; [intros _; apply zk_law_dlf|]. split; [intros _; apply zk_law_momm|]. intros _ H. discriminate.
  Qed.
  (* the outputs of this instance are not trivial *)
  Lemma pA_outputs :
    fst (run_inversion zk inpA code pA [QDv; QCurv; QCrm; QRec; QLdc])
    = Ok [PV [2; 2; 1]; PM [[4; 4; 5]; [4; 4; 5]; [5; 5; 12]]; PM [[5; 4; 5]; [4; 5; 5]; [5; 5; 12]];
          PRV (Ok [2; 2; 1]); PRT (Ok 5)].
  Proof. vm_compute. reflexivity. Qed.
  (* the w-tilde class completes a COPY of the preloaded data_vector_mapper (/repo 95fc1c6): the cell does not change *)
  Lemma pA_not_completed_in_place :
    s_dvm pA = Some [2; 2; 0] /\ fst (run_inversion zk inpA code pA [QDv]) = Ok [PV [2; 2; 1]]
    /\ s_dvm (snd (run_inversion zk inpA code pA [QDv])) = Some [2; 2; 0].
  Proof. repeat split; vm_compute; reflexivity. Qed.

  (* mutant 1: no copy.copy of the preloaded curvature matrix.  One regularized mapper, mapping formalism. *)
  Definition inpB : input Z :=
    {| in_ds := zds; in_objs := [zmapper 1 [[1]; [1]] (Some [[1]])]; in_use_wt := false; in_eps := 7 |}.
  Definition pB : pstore Z :=
    {| s_use_wt := None; s_wt := None; s_omm := None; s_curv := Some (p_curv zk inpB None); s_cmd := None; s_reg := None;
       s_dvm := None; s_lf := None; s_dlf := None; s_momm := None; s_ldr := None |}.
  Definition no_copy : variant := {| v_copy := false; v_guard := true |}.
  Lemma pB_fresh : fresh_store zk inpB None pB /\ laws_for zk inpB None pB /\ factory_slots_neutral inpB pB
                   /\ make_inversion zk inpB pB = Ok None.
  Proof.
    split; [|split; [|split]].
    - unfold fresh_store. simpl. repeat split; intros; try discriminate. injection H as <-. reflexivity.
    - unfold laws_for. simpl. repeat split; intros H; exfalso; now apply H.
    - split; simpl; intros; discriminate.
    - reflexivity.
  Qed.
  Lemma no_copy_refuted :
    fst (run_history zk inpB no_copy pB [[QCrm]; [QCrm]]) = [Ok [PM [[2]]]; Ok [PM [[3]]]]
    /\ s_curv pB = Some [[1]] /\ s_curv (snd (run_history zk inpB no_copy pB [[QCrm]; [QCrm]])) = Some [[3]]
    /\ fst (run_history zk inpB code pB [[QCrm]; [QCrm]]) = [Ok [PM [[2]]]; Ok [PM [[2]]]].
  Proof. repeat split; vm_compute; reflexivity. Qed.

  (* mutant 2: InversionImagingMapping.data_vector before the repair (no guard on function objects) *)
  Definition inpC : input Z :=
    {| in_ds := zds; in_objs := [zmapper 1 [[1]; [1]] (Some [[1]]); zfunc 1 [[1]; [1]]]; in_use_wt := false; in_eps := 7 |}.
  Definition pC : pstore Z :=
    {| s_use_wt := None; s_wt := None; s_omm := None; s_curv := None; s_cmd := None; s_reg := None;
       s_dvm := Some (p_dvm zk inpC None); s_lf := None; s_dlf := None; s_momm := None; s_ldr := None |}.
  Definition unguarded : variant := {| v_copy := true; v_guard := false |}.
  Lemma pC_fresh : fresh_store zk inpC None pC /\ laws_for zk inpC None pC /\ factory_slots_neutral inpC pC.
  Proof.
    split; [|split].
    - unfold fresh_store. simpl. repeat split; intros; try discriminate. injection H as <-. reflexivity.
    - unfold laws_for. simpl. split; [intros H; exfalso; now apply H|]. split; [intros H; exfalso; now apply H|].
      intros _ H. discriminate.
    - split; simpl; intros; discriminate.
  Qed.
  Lemma unguarded_refuted :
    fst (run_inversion zk inpC unguarded pC [QDv]) = Ok [PV [1; 0]]
    /\ fst (run_inversion zk inpC unguarded empty_store [QDv]) = Ok [PV [1; 1]]
    /\ fst (run_inversion zk inpC code pC [QDv]) = Ok [PV [1; 1]].
  Proof. repeat split; vm_compute; reflexivity. Qed.

  (* the two formalisms of the toy instance agree on an input for which the hypotheses of
     formalism_choice_value_free hold (one mapper, kernels chosen so that D and F coincide) *)
  Definition zk2 : kernels Z :=
    {| t0 := 0; tadd := Z.add; tnz := fun x => negb (Z.eqb x 0); teqb := Z.eqb;
       conv_mm := fun m => m; conv_img := fun v => v;
       k_dv_bmm := fun B _ _ => repeat 2 (cols B); k_curv_mm := fun B _ => repeat (repeat 4 (cols B)) (cols B);
       k_wtd := fun d _ => d; k_dv_wt := fun _ _ p => repeat 2 p; k_curv_wt := fun _ _ p => repeat (repeat 4 p) p;
       k_off_wt := fun _ _ p0 _ p1 => repeat (repeat 3 p1) p0; k_cw := fun L _ => L; k_wv := fun L _ => L;
       k_dotT := fun A B => repeat (repeat 5 (cols B)) (cols A); k_dlfm := fun cw => cw;
       k_off_dlfm := fun dl M _ => repeat (repeat 5 (cols dl)) (cols M);
       k_off_mf := fun M _ cw => repeat (repeat 5 (cols cw)) (cols M);
       k_mapped_mm := fun B _ => map (fun _ => 0) B; k_mapped_um := fun M _ => map (fun _ => 0) M;
       k_rowsum := fun _ L => map (fun _ => 0) L; k_quad := fun _ _ => 0;
       k_solve := fun _ b => Ok b; k_ldc := fun A => Ok (hd 0 (hd [] A)); k_ldr := fun _ => Ok 9 |}.
  Definition inpD : input Z :=
    {| in_ds := zds; in_objs := [zmapper 2 [[1; 0]; [0; 1]] (Some [[1; 0]; [0; 1]])]; in_use_wt := true; in_eps := 7 |}.
  Lemma formalism_hyps_hold :
    p_dv zk2 inpD (Some (ds_wt zds)) = p_dv zk2 inpD None /\ p_curv zk2 inpD (Some (ds_wt zds)) = p_curv zk2 inpD None
    /\ (forall s, p_rec zk2 inpD None = Ok s ->
                  mapped_wt zk2 inpD (lf_fresh zk2 inpD) s = mapped_map zk2 inpD (omm_list_of zk2 inpD (lf_fresh zk2 inpD)) s).
  Proof. repeat split. Qed.
End Toy.

(* ================================================================================================ *)
(* Part F: the w-tilde class may return a preloaded _data_vector_mapper as THE data vector when there is no
   function object: assigning consecutive blocks of the right lengths into zeros is concatenation.  So the third
   law of [laws_for] follows, for that class, from the shape law of one kernel. *)
Section Concat.
  Variable T : Type.
  Variable K : kernels T.
  Notation z := (t0 K).

  Lemma imap_app {A} (f : nat -> A -> A) l1 : forall i l2,
    imap f i (l1 ++ l2) = imap f i l1 ++ imap f (i + length l1) l2.
  Proof.
    induction l1 as [|a l1 IH]; intros i l2; simpl.
    - now rewrite Nat.add_0_r.
    - rewrite IH. now replace (S i + length l1) with (i + S (length l1)) by lia.
  Qed.
  Lemma imap_ext_idx {A} (f g : nat -> A -> A) l : forall i,
    (forall k x, i <= k < i + length l -> f k x = g k x) -> imap f i l = imap g i l.
  Proof.
    induction l as [|a l IH]; intros i H; simpl; [reflexivity|].
    rewrite H by (simpl; lia). rewrite IH; [reflexivity|]. intros k x Hk. apply H. simpl. lia.
  Qed.
  Lemma imap_fill (b : vec T) : forall lo (mid : vec T),
    length mid = length b -> imap (fun k _ => nth (k - lo) b z) lo mid = b.
  Proof.
    induction b as [|b0 b IH]; intros lo mid H; destruct mid as [|m0 mid]; simpl in *; try discriminate; [reflexivity|].
    rewrite Nat.sub_diag. f_equal.
    transitivity (imap (fun k (_ : T) => nth (k - S lo) b z) (S lo) mid); [|apply IH; lia].
    apply imap_ext_idx. intros k x Hk. replace (k - lo) with (S (k - S lo)) by lia. reflexivity.
  Qed.
  Lemma apply_vw_block pre mid suf b :
    length mid = length b ->
    apply_vw K (pre ++ mid ++ suf) {| vw_lo := length pre; vw_hi := length pre + length b; vw_b := b |} = pre ++ b ++ suf.
  Proof.
    intro H. unfold apply_vw. simpl. rewrite !imap_app. simpl. f_equal; [|f_equal].
    - transitivity (imap (fun _ (x : T) => x) 0 pre); [|apply imap_id]. apply imap_ext_idx. intros k x Hk. unfold in_rng.
      replace (length pre <=? k) with false by (symmetry; apply Nat.leb_gt; lia). reflexivity.
    - transitivity (imap (fun k (_ : T) => nth (k - length pre) b z) (0 + length pre) mid); [|apply imap_fill; exact H].
      apply imap_ext_idx. intros k x Hk. unfold in_rng.
      replace (length pre <=? k) with true by (symmetry; apply Nat.leb_le; lia).
      replace (k <? length pre + length b) with true by (symmetry; apply Nat.ltb_lt; lia). reflexivity.
    - transitivity (imap (fun _ (x : T) => x) (0 + length pre + length mid) suf); [|apply imap_id].
      apply imap_ext_idx. intros k x Hk. unfold in_rng.
      replace (k <? length pre + length b) with false by (symmetry; apply Nat.ltb_ge; lia).
      now rewrite andb_false_r.
  Qed.
  Fixpoint cwrites (off : nat) (bs : list (vec T)) : list (vwrite T) :=
    match bs with
    | [] => []
    | b :: t => {| vw_lo := off; vw_hi := off + length b; vw_b := b |} :: cwrites (off + length b) t
    end.
  Lemma apply_cwrites bs : forall pre suf,
    apply_vws K (pre ++ repeat z (length (concat bs)) ++ suf) (cwrites (length pre) bs) = pre ++ concat bs ++ suf.
  Proof.
    induction bs as [|b bs IH]; intros pre suf; simpl; [reflexivity|].
    unfold apply_vws. simpl. fold (apply_vws K). rewrite app_length, repeat_app, <- app_assoc.
    rewrite apply_vw_block by apply repeat_length.
    replace (pre ++ b ++ repeat z (length (concat bs)) ++ suf) with ((pre ++ b) ++ repeat z (length (concat bs)) ++ suf)
      by now rewrite <- app_assoc.
    replace (length pre + length b) with (length (pre ++ b)) by apply app_length.
    unfold apply_vws in IH. rewrite IH. now rewrite <- !app_assoc.
  Qed.
End Concat.

Section DvmLaw.
  Variable T : Type.
  Variable K : kernels T.
  Variable inp : input T.
  Definition shape_dv_wt : Prop := forall wtd M p, length (k_dv_wt K wtd M p) = p.

  Lemma filter_neg_nil {A} (f : A -> bool) l : filter (fun x => negb (f x)) l = [] -> filter f l = l.
  Proof.
    induction l as [|a l IH]; simpl; [reflexivity|]. destruct (f a); simpl; [intro H; now rewrite IH | discriminate].
  Qed.
  Lemma ranges_from_length (l : list (lobj T)) : forall off, length (ranges_from off l) = length l.
  Proof. induction l as [|o l IH]; intro off; simpl; [reflexivity|now rewrite IH]. Qed.
  Lemma writes_are_cwrites (blk : lobj T -> vec T) l : (forall o, In o l -> length (blk o) = lo_p o) -> forall off,
    map (fun x : lobj T * (nat * nat) => {| vw_lo := fst (snd x); vw_hi := snd (snd x); vw_b := blk (fst x) |})
        (combine l (ranges_from off l)) = cwrites T off (map blk l).
  Proof.
    induction l as [|o l IH]; intros Hs off; simpl; [reflexivity|]. rewrite Hs by (now left).
    rewrite IH by (intros o' Ho'; apply Hs; now right). reflexivity.
  Qed.
  Lemma total_sum (blk : lobj T -> vec T) l : (forall o, In o l -> length (blk o) = lo_p o) -> forall a,
    fold_left (fun a o => a + lo_p o) l a = a + length (concat (map blk l)).
  Proof.
    induction l as [|o l IH]; intros Hs a; simpl; [lia|]. rewrite IH by (intros o' Ho'; apply Hs; now right).
    rewrite app_length, Hs by (now left). lia.
  Qed.
  Lemma no_func_mappers : has_func inp = false -> mappers inp = orng inp.
  Proof.
    intro Ef. unfold mappers. apply filter_neg_nil. unfold has_func in Ef. fold (funcs inp).
    destruct (funcs inp); [reflexivity|discriminate].
  Qed.
  (* without function objects, assigning every object's block at its parameter range into zeros is concatenation *)
  Lemma assembled_is_concat (blk : lobj T -> vec T) :
    (forall o, In o (objs inp) -> length (blk o) = lo_p o) -> has_func inp = false ->
    apply_vws K (zeros_v K (total inp))
      (map (fun x : lobj T * (nat * nat) => {| vw_lo := fst (snd x); vw_hi := snd (snd x); vw_b := blk (fst x) |}) (mappers inp))
    = concat (map blk (objs inp)).
  Proof.
    intros Hb Ef. rewrite (no_func_mappers Ef). unfold orng. rewrite (writes_are_cwrites blk (objs inp) Hb 0).
    unfold zeros_v, total. rewrite (total_sum blk (objs inp) Hb 0). simpl.
    pose proof (apply_cwrites T K (map blk (objs inp)) [] []) as H. simpl in H. rewrite !app_nil_r in H. exact H.
  Qed.

  Theorem dvm_law_wt w : shape_dv_wt -> has_func inp = false -> p_dvm K inp (Some w) = p_dv K inp (Some w).
  Proof.
    intros Hs Ef. unfold p_dvm, p_dv. rewrite Ef.
    pose (blk := fun o : lobj T => k_dv_wt K (p_wtd K inp) (lo_mm o) (lo_p o)).
    assert (Hb : forall o, In o (objs inp) -> length (blk o) = lo_p o) by (intros o _; apply Hs).
    pose proof (assembled_is_concat blk Hb Ef) as Hd. unfold blk in Hd. cbv beta in Hd. unfold dvm_writes_wt. rewrite Hd.
    destruct (Nat.eqb (length (mappers inp)) 1) eqn:En; [|reflexivity].
    apply Nat.eqb_eq in En. rewrite (no_func_mappers Ef) in En. unfold orng in En.
    rewrite combine_length, ranges_from_length, Nat.min_id in En.
    unfold objs in *. destruct (in_objs inp) as [|o [|o2 l]]; try discriminate. simpl. now rewrite app_nil_r.
  Qed.

  (* the same for the MAPPING class: `if preloads.data_vector_mapper is not None and not has(func): return it`.
     Two laws of the kernels are needed: every mapper's block has as many entries as the mapper has parameters, and the
     data vector of horizontally stacked matrices is the concatenation of the data vectors (C04: D(hstack B_i)) *)
  Definition blk_map (o : lobj T) : vec T := k_dv_bmm K (conv_mm K (lo_mm o)) (d inp) (n inp).
  Definition shape_dv_map : Prop := forall o, In o (objs inp) -> length (blk_map o) = lo_p o.
  Definition hcat_dv_map : Prop :=
    k_dv_bmm K (hstack (map (fun o => conv_mm K (lo_mm o)) (objs inp))) (d inp) (n inp) = concat (map blk_map (objs inp)).
  Definition mappers_plain : Prop := forall o, In o (objs inp) -> lo_ovr o = None.
  Lemma func_index_length (l : list (lobj T)) : forall k, length (func_index_from k l) = length l.
  Proof. induction l as [|o l IH]; intro k; simpl; [reflexivity|now rewrite IH]. Qed.
  Lemma omm_list_plain (lf : list (mat T)) (l : list (lobj T)) : (forall o, In o l -> lo_ovr o = None) -> forall k,
    map2 (fun o k => match lo_ovr o with None => conv_mm K (lo_mm o) | Some _ => nth k lf [] end) l (func_index_from k l)
    = map (fun o => conv_mm K (lo_mm o)) l.
  Proof.
    induction l as [|o l IH]; intros H k; simpl; [reflexivity|]. rewrite (H o) by (now left).
    rewrite IH by (intros o' Ho'; apply H; now right). reflexivity.
  Qed.
  Theorem dvm_law_map : shape_dv_map -> hcat_dv_map -> mappers_plain -> has_func inp = false ->
    p_dvm K inp None = p_dv K inp None.
  Proof.
    intros Hs Hc Hp Ef. unfold p_dvm, p_dv, p_omm, dvm_writes_map.
    pose proof (assembled_is_concat blk_map Hs Ef) as Hd. unfold blk_map in Hd at 1. cbv beta in Hd. rewrite Hd.
    unfold omm_list_of. rewrite (omm_list_plain (lf_fresh K inp) (objs inp) Hp 0). symmetry. exact Hc.
  Qed.
End DvmLaw.

Arguments shape_dv_wt {T} K.
Arguments shape_dv_map {T} K inp.
Arguments hcat_dv_map {T} K inp.
Arguments mappers_plain {T} inp.
Arguments blk_map {T} K inp o.
(* the toy kernels satisfy the shape law, and inpD (one mapper, no function object) is in its scope *)
Lemma zk_shape : shape_dv_wt zk.
Proof. intros wtd M p. apply repeat_length. Qed.
Lemma inpD_no_func : has_func inpD = false.
Proof. reflexivity. Qed.
