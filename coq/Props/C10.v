(* C10 -- Blurring, edge and border pixel sets match their definitions for every mask.
   Statements only; every proof is [exact <lemma of Proofs/C10.v, C10b.v, C10c.v, C10d.v or C10e.v>].
   The statements are about the executable model of Model/C10.v Part 2 (blurring_mask_2d_from, blurring_from,
   check_if_edge_pixel, edge_1d_indexes_from = edge_slim, border_slim_indexes_from = border_slim, edge_native,
   border_native, mask_edge, mask_border, mask_edge_buffed, grid_edge, grid_border, blurring_grid_from), which the
   correspondence run ties to /repo, and the independent specification of Part 3.
   A mask is a list of rows, [true] = masked; [get m y x] reads m[y, x]; slim index k denotes
   [pixel_of_slim m k], the k-th unmasked pixel in row-major order. *)
From Coq Require Import ZArith List Bool.
From PAV Require Import Base.Res Base.Check Model.C10 Proofs.C10 Proofs.C10b Proofs.C10c Proofs.C10d Proofs.C10e.
Import ListNotations.
Local Open Scope Z_scope.

(* ---------------------------------------------------------------------------------------------- blurring *)
(* the four nested loops with the bounds test compute the specification function, for every rectangular mask
   and every odd kernel shape (non-square included) *)
Theorem C10_blurring_util_is_spec : forall m kh kw, rectb m = true -> odd_pos kh = true -> odd_pos kw = true ->
  blurring_mask_2d_from m kh kw = blur_spec m kh kw.
Proof. exact blurring_is_spec. Qed.
Theorem C10_blurring_from_is_spec : forall m kh kw, rectb m = true -> odd_pos kh = true -> odd_pos kw = true ->
  blurring_from m kh kw = blur_spec m kh kw.
Proof. exact blurring_from_odd. Qed.
(* ... and the specification read as the property text: a result [b] has the shape of [m] and unmasks exactly
   the masked pixels within the kernel half-widths of at least one unmasked pixel *)
Theorem C10_blurring_exact : forall m kh kw b, rectb m = true -> odd_pos kh = true -> odd_pos kw = true ->
  blurring_from m kh kw = Ok b ->
  (shape0 b = shape0 m /\ shape1 b = shape1 m /\ rectb b = true) /\
  forall y x, 0 <= y < shape0 m /\ 0 <= x < shape1 m ->
    (get b y x = false <->
     get m y x = true /\ exists y' x', (0 <= y' < shape0 m /\ 0 <= x' < shape1 m) /\ get m y' x' = false
                                        /\ Z.abs (y - y') <= half kh /\ Z.abs (x - x') <= half kw).
Proof. exact blurring_exact. Qed.
(* an error is raised instead of a result exactly when the footprint of some unmasked pixel leaves the array *)
Theorem C10_blurring_error_iff_footprint_leaves : forall m kh kw,
  rectb m = true -> odd_pos kh = true -> odd_pos kw = true ->
  (blurring_from m kh kw = Raise MaskException <->
   exists y x, (0 <= y < shape0 m /\ 0 <= x < shape1 m) /\ get m y x = false /\
               ~ (0 <= y - half kh /\ y + half kh < shape0 m /\ 0 <= x - half kw /\ x + half kw < shape1 m)).
Proof. exact blurring_error_iff_footprint_leaves. Qed.
Theorem C10_blurring_ok_iff_footprints_inside : forall m kh kw,
  rectb m = true -> odd_pos kh = true -> odd_pos kw = true ->
  ((exists b, blurring_from m kh kw = Ok b) <->
   forall y x, 0 <= y < shape0 m /\ 0 <= x < shape1 m -> get m y x = false ->
               0 <= y - half kh /\ y + half kh < shape0 m /\ 0 <= x - half kw /\ x + half kw < shape1 m).
Proof. exact blurring_ok_iff_footprints_inside. Qed.
Theorem C10_blurring_result_or_mask_exception : forall m kh kw,
  rectb m = true -> odd_pos kh = true -> odd_pos kw = true ->
  (exists b, blurring_from m kh kw = Ok b) \/ blurring_from m kh kw = Raise MaskException.
Proof. exact blurring_result_or_mask_exception. Qed.
(* an even kernel side is rejected by the public entry point *)
Theorem C10_blurring_from_even_raises : forall m kh kw,
  Z.even kh = true \/ Z.even kw = true -> blurring_from m kh kw = Raise MaskException.
Proof. exact blurring_from_even. Qed.
(* Grid2D.blurring_grid_from: the coordinates of the blurring mask's unmasked pixels, in slim order *)
Theorem C10_blurring_grid_is_spec : forall m kh kw g, rectb m = true -> odd_pos kh = true -> odd_pos kw = true ->
  blurring_grid_from m kh kw g =
  match blur_spec m kh kw with Ok b => Ok (grid_of m g (unmasked_pixels b)) | Raise e => Raise e end.
Proof. exact blurring_grid_is_spec. Qed.

(* ---------------------------------------------------------------------------------------------- edge *)
(* the meaning of the specification predicates: the eight neighbours, "has a masked in-array neighbour",
   "all eight neighbours exist and are unmasked" *)
Theorem C10_nbrs_meaning : forall p q, In q (nbrs p) <-> q <> p /\ Z.abs (fst q - fst p) <= 1 /\ Z.abs (snd q - snd p) <= 1.
Proof. exact nbrs_In. Qed.
Theorem C10_must_edge_meaning : forall m p, must_edge m p = true <->
  exists q, In q (nbrs p) /\ (0 <= fst q < shape0 m /\ 0 <= snd q < shape1 m) /\ getp m q = true.
Proof. exact must_edge_iff. Qed.
Theorem C10_interior_meaning : forall m p, interior m p = true <->
  forall q, In q (nbrs p) -> (0 <= fst q < shape0 m /\ 0 <= snd q < shape1 m) /\ getp m q = false.
Proof. exact interior_iff. Qed.

(* the preallocate-and-write scan with two running counters returns exactly the slim indices of the unmasked
   pixels that are not interior (a neighbour outside the array counts as masked) ... *)
Theorem C10_edge_slim_exact : forall m k, In k (edge_slim m) <->
  0 <= k < Z.of_nat (length (unmasked_pixels m)) /\ interior m (pixel_of_slim m k) = false.
Proof. exact edge_slim_exact. Qed.
(* ... hence no pixel whose eight neighbours all exist and are unmasked (and only valid slim indices of
   unmasked pixels) ... *)
Theorem C10_edge_sound : forall m k, In k (edge_slim m) ->
  0 <= k < Z.of_nat (length (unmasked_pixels m)) /\ In (pixel_of_slim m k) (unmasked_pixels m)
  /\ interior m (pixel_of_slim m k) = false.
Proof. exact edge_sound. Qed.
(* ... and every unmasked pixel that has a masked pixel among its in-array neighbours *)
Theorem C10_edge_complete : forall m k, 0 <= k < Z.of_nat (length (unmasked_pixels m)) ->
  must_edge m (pixel_of_slim m k) = true -> In k (edge_slim m).
Proof. exact edge_complete. Qed.
Theorem C10_edge_complete_px : forall m p, In p (unmasked_pixels m) -> must_edge m p = true ->
  exists k, In k (edge_slim m) /\ pixel_of_slim m k = p.
Proof. exact edge_complete_px. Qed.
(* in slim order, without repetition; the separately computed total is the length *)
Theorem C10_edge_slim_order : forall m, increasing (edge_slim m) = true.
Proof. exact edge_slim_order. Qed.
Theorem C10_edge_total : forall m, Z.of_nat (total_edge_pixels_from m) = Z.of_nat (length (edge_1d_indexes_from m)).
Proof. exact edge_total. Qed.
(* the code's neighbour test, pixel by pixel *)
Theorem C10_check_if_edge_pixel : forall m y x, 0 <= y < shape0 m /\ 0 <= x < shape1 m ->
  check_if_edge_pixel m y x = negb (interior m (y, x)).
Proof. exact check_if_edge_pixel_is. Qed.
(* the two-sided test applied to the implementation's output in the correspondence run accepts the model's *)
Theorem C10_edge_spec_accepts_model : forall m, edge_spec_ok m (edge_slim m) = true.
Proof. exact edge_slim_accepted. Qed.
(* slim indices and pixels correspond one to one *)
Theorem C10_slim_index_bijection : forall m,
  (forall k, 0 <= k < Z.of_nat (length (unmasked_pixels m)) -> In (pixel_of_slim m k) (unmasked_pixels m)) /\
  (forall p, In p (unmasked_pixels m) -> exists k, 0 <= k < Z.of_nat (length (unmasked_pixels m)) /\ pixel_of_slim m k = p) /\
  (forall j k, 0 <= j < Z.of_nat (length (unmasked_pixels m)) -> 0 <= k < Z.of_nat (length (unmasked_pixels m)) ->
               pixel_of_slim m j = pixel_of_slim m k -> j = k) /\
  (forall p, In p (unmasked_pixels m) <-> (0 <= fst p < shape0 m /\ 0 <= snd p < shape1 m) /\ getp m p = false).
Proof. exact slim_index_bijection. Qed.

(* ---------------------------------------------------------------------------------------------- border *)
Theorem C10_walk_clear_meaning : forall m p, walk_clear m p = true <->
  (forall y', 0 <= y' < fst p -> get m y' (snd p) = true) \/ (forall x', snd p < x' < shape1 m -> get m (fst p) x' = true) \/
  (forall y', fst p < y' < shape0 m -> get m y' (snd p) = true) \/ (forall x', 0 <= x' < snd p -> get m (fst p) x' = true).
Proof. exact walk_clear_iff. Qed.
(* the four directional sums select exactly the edge pixels with a clear walk, in the same order *)
Theorem C10_border_exact : forall m, border_slim m = filter (fun k => walk_clear m (pixel_of_slim m k)) (edge_slim m).
Proof. exact border_exact. Qed.
Theorem C10_border_membership : forall m k, In k (border_slim m) <-> In k (edge_slim m) /\ walk_clear m (pixel_of_slim m k) = true.
Proof. exact border_In. Qed.
Theorem C10_border_slim_order : forall m, increasing (border_slim m) = true.
Proof. exact border_slim_order. Qed.

(* ---------------------------------------------------------------------------------------------- views *)
(* native index = pixel of the slim index; mask view = unmasked exactly at the native pixels; the mask view's
   own slim order lists the native pixels in the same order; grid view = coordinates of the native pixels *)
Theorem C10_views_agree_edge : forall m g,
  edge_native m = map (pixel_of_slim m) (edge_slim m)
  /\ mask_edge m = build (shape0 m) (shape1 m) (fun q => negb (memp q (edge_native m)))
  /\ unmasked_pixels (mask_edge m) = edge_native m
  /\ grid_edge m g = map (coord2 (shape0 m) (shape1 m) g) (edge_native m).
Proof. exact views_agree_edge. Qed.
Theorem C10_views_agree_border : forall m g,
  border_native m = map (pixel_of_slim m) (border_slim m)
  /\ mask_border m = build (shape0 m) (shape1 m) (fun q => negb (memp q (border_native m)))
  /\ unmasked_pixels (mask_border m) = border_native m
  /\ grid_border m g = map (coord2 (shape0 m) (shape1 m) g) (border_native m).
Proof. exact views_agree_border. Qed.
Theorem C10_mask_edge_entries : forall m y x, 0 <= y < shape0 m /\ 0 <= x < shape1 m ->
  get (mask_edge m) y x = negb (negb (get m y x) && negb (interior m (y, x))).
Proof. exact mask_edge_get. Qed.
Theorem C10_mask_border_entries : forall m y x, 0 <= y < shape0 m /\ 0 <= x < shape1 m ->
  get (mask_border m) y x = negb (negb (get m y x) && negb (interior m (y, x)) && walk_clear m (y, x)).
Proof. exact mask_border_get. Qed.
(* build / memp mean what they say *)
Theorem C10_build_entries : forall H W f y x, 0 <= y < H -> 0 <= x < W -> get (build H W f) y x = f (y, x).
Proof. exact get_build. Qed.
Theorem C10_memp_meaning : forall q l, memp q l = true <-> In q l.
Proof. exact memp_In. Qed.

(* derive_mask.edge_buffed: unmasked iff within Chebyshev distance 1 of an unmasked pixel *)
Theorem C10_edge_buffed_is_spec : forall m, rectb m = true -> mask_edge_buffed m = buffed_spec m 1.
Proof. exact edge_buffed_is_spec. Qed.
Theorem C10_buffed_util_is_spec : forall m bf, rectb m = true -> 0 <= bf -> buffed_mask_2d_from m bf = buffed_spec m bf.
Proof. exact buffed_is_spec. Qed.
Theorem C10_buffed_spec_meaning : forall m bf y x, 0 <= y < shape0 m /\ 0 <= x < shape1 m ->
  (get (buffed_spec m bf) y x = false <->
   exists y' x', (0 <= y' < shape0 m /\ 0 <= x' < shape1 m) /\ get m y' x' = false /\ Z.abs (y - y') <= bf /\ Z.abs (x - x') <= bf).
Proof. exact buffed_spec_exact. Qed.

(* ---------------------------------------------------------------------------------------------- histories *)
(* Objects that are edited in place (obj[y, x] = v), copied, derived from one another and read again (Model/C10.v
   Part 5).  The state of a history is the list of the objects' contents; [state_after steps i] is the state reached by
   the first i steps; reads change nothing.  A history agrees with the implementation iff EVERY read shows the contents
   the object has at that moment and returns the single-operation model function of those contents, and every derived
   Mask2D is the model function of its source's current contents: nothing is remembered from an earlier read. *)
Theorem C10_hist_agree_iff : forall steps,
  agree (KHist steps) = true <->
  forall i, match nth_error steps i with
            | Some (HRead o k) => case_mask k = contents (state_after steps i) o /\ agree1 k = true
            | Some (HDerive o d out) => derive (contents (state_after steps i) o) d = Ok out
            | _ => True
            end.
Proof. exact hist_agree_iff. Qed.
(* hence every read of an agreeing history is accepted by the specification on the CURRENT contents ... *)
Theorem C10_hist_reads_accepted : forall steps, agree (KHist steps) = true ->
  forall i o k, nth_error steps i = Some (HRead o k) ->
  case_mask k = contents (state_after steps i) o /\ agree1 k = true /\ spec_ok1 k = true.
Proof. exact hist_reads_accepted. Qed.
(* ... and a full read of the views returns the views of the current contents c (to which C10_views_agree_edge /
   C10_views_agree_border, C10_edge_slim_exact, C10_border_exact apply: all views denote the same pixels of c) *)
Theorem C10_hist_views_current : forall steps, agree (KHist steps) = true ->
  forall i o m g v, nth_error steps i = Some (HRead o (KViews m g v)) ->
  let c := contents (state_after steps i) o in
  m = c /\ v_edge_slim v = edge_slim c /\ v_edge_native v = edge_native c /\ v_border_slim v = border_slim c
  /\ v_border_native v = border_native c /\ v_mask_edge v = mask_edge c /\ v_mask_border v = mask_border c
  /\ v_mask_buffed v = mask_edge_buffed c /\ v_grid_edge v = grid_edge c g /\ v_grid_edge_mask v = mask_edge c
  /\ v_grid_border v = grid_border c g /\ v_grid_border_mask v = mask_border c.
Proof. exact hist_views_current. Qed.
(* the general form: a history is accepted iff every step is accepted on the state reached by the steps before it *)
Theorem C10_hist_ok_stepwise : forall P D steps st,
  hist_ok P D st steps = true <->
  forall i s, nth_error steps i = Some s -> step_ok P D (fold_left step_state (firstn i steps) st) s = true.
Proof. exact hist_ok_iff. Qed.
(* reading changes nothing: partial reads can be removed from a history without changing its verdict *)
Theorem C10_hist_reads_change_nothing : forall P D steps st,
  hist_ok P D st (filter (fun s => negb (is_touch s)) steps) = hist_ok P D st steps.
Proof. exact hist_ok_drop_touch. Qed.
Theorem C10_hist_read_keeps_state : forall st o k, step_state st (HRead o k) = st.
Proof. exact read_keeps_state. Qed.
(* an edit changes the edited object only, and there exactly one entry (numpy's negative indices included) *)
Theorem C10_hist_edit_contents : forall st o y x v o', (o < length st)%nat ->
  contents (step_state st (HEdit o y x v)) o' = if Nat.eqb o' o then set (contents st o) y x v else contents st o'.
Proof. exact edit_contents. Qed.
Theorem C10_edit_entries : forall b y x v y' x', rectb b = true ->
  - shape0 b <= y < shape0 b -> - shape1 b <= x < shape1 b -> (0 <= y' < shape0 b /\ 0 <= x' < shape1 b) ->
  get (set b y x v) y' x' = if (norm (shape0 b) y =? y') && (norm (shape1 b) x =? x') then v else get b y' x'.
Proof. exact get_set_wrap. Qed.
Theorem C10_edit_keeps_shape : forall b y x v, rectb b = true -> - shape0 b <= y < shape0 b -> - shape1 b <= x < shape1 b ->
  shape0 (set b y x v) = shape0 b /\ shape1 (set b y x v) = shape1 b /\ rectb (set b y x v) = true.
Proof. exact set_keeps_shape. Qed.
(* a copy is independent of its original, in both directions *)
Theorem C10_hist_copy_then_edit_copy : forall st o y x v, (o < length st)%nat ->
  let st2 := step_state (step_state st (HCopy o)) (HEdit (length st) y x v) in
  contents st2 o = contents st o /\ contents st2 (length st) = set (contents st o) y x v.
Proof. exact copy_then_edit_copy. Qed.
Theorem C10_hist_copy_then_edit_original : forall st o y x v, (o < length st)%nat ->
  let st2 := step_state (step_state st (HCopy o)) (HEdit o y x v) in
  contents st2 (length st) = contents st o /\ contents st2 o = set (contents st o) y x v.
Proof. exact copy_then_edit_original. Qed.
(* the Mask2D objects derived through the public API (edge, border, edge_buffed, blurring, invert) are the
   specification's masks of the source contents *)
Theorem C10_derived_masks_are_spec : forall c d out, derive_agree c d out = true -> derive_spec_ok c d out = true.
Proof. exact derive_agree_spec. Qed.

(* ---------------------------------------------------------------------------------------------- the correspondence test *)
(* the specification's acceptance test accepts every output of the model, for every operation of the correspondence
   run and along every history: whenever the implementation's output equals the model's, the specification accepts it;
   so a non-zero verdict always means "implementation <> model" and verdict 0 means exactly "implementation = model" *)
Theorem C10_spec_accepts_model_op : forall k : case1, agree1 k = true -> spec_ok1 k = true.
Proof. exact agree1_implies_spec_ok1. Qed.
Theorem C10_spec_accepts_model : forall k : case, agree k = true -> spec_ok k = true.
Proof. exact agree_implies_spec_ok. Qed.
Theorem C10_check_zero_iff_agree : forall k : case, check k = 0%nat <-> agree k = true.
Proof. exact check_zero_iff_agree. Qed.

(* ---------------------------------------------------------------------------------------------- non-vacuity *)
(* Proofs.C10b.ex_mask: 6x6, 20 unmasked pixels, a hole at (3,3), an interior pixel (1,2) = slim 4, a pixel whose only
   masked neighbour is diagonal (2,2) = slim 9, unmasked pixels on the outer row and columns ((0,2) = slim 1 has no
   masked in-array neighbour and is an edge pixel because a neighbour outside the array counts as masked);
   ex_padded: 6x7 with three unmasked pixels away from the boundary *)
Example C10_hyps_satisfiable :
  rectb ex_mask = true /\ rectb ex_padded = true /\ odd_pos 3 = true /\ odd_pos 5 = true /\ odd_pos 7 = true
  /\ Z.even 4 = true
  /\ blurring_from ex_padded 3 5 = Ok [[true;  true;  true;  true;  true;  true;  true];
                                       [false; false; false; false; false; false; true];
                                       [false; false; true;  true;  false; false; true];
                                       [false; false; false; true;  false; false; true];
                                       [true;  false; false; false; false; false; true];
                                       [true;  true;  true;  true;  true;  true;  true]]
  /\ blurring_from ex_padded 7 3 = Raise MaskException
  /\ blurring_from ex_mask 3 3 = Raise MaskException
  /\ length (unmasked_pixels ex_mask) = 20%nat
  /\ edge_slim ex_mask = [0; 1; 2; 3; 5; 6; 7; 8; 9; 10; 11; 12; 13; 14; 15; 16; 17; 18; 19]
  /\ border_slim ex_mask = [0; 1; 2; 3; 6; 7; 11; 12; 15; 16; 17; 18; 19]
  /\ interior ex_mask (pixel_of_slim ex_mask 4) = true
  /\ must_edge ex_mask (pixel_of_slim ex_mask 9) = true /\ walk_clear ex_mask (pixel_of_slim ex_mask 9) = false
  /\ must_edge ex_mask (pixel_of_slim ex_mask 1) = false /\ interior ex_mask (pixel_of_slim ex_mask 1) = false
  /\ border_native ex_mask = [(0, 1); (0, 2); (0, 3); (1, 1); (1, 4); (2, 0); (2, 4); (3, 1); (3, 5); (4, 1); (4, 2); (4, 3); (4, 4)]
  /\ grid_border ex_mask (2, 1, 0, 3) = [(10, 3); (10, 5); (10, 7); (6, 3); (6, 9); (2, 1); (2, 9); (-2, 3); (-2, 11);
                                         (-6, 3); (-6, 5); (-6, 7); (-6, 9)].
Proof. vm_compute. repeat split. Qed.

(* a history: object 0 is read, edited in place, read again; then copied, the copy edited (negative indices) and both
   read.  The recorded values are what /repo returned.  A stale second read (the old views on the new contents) and an
   aliased copy (the copy's edit visible in the original) are both rejected, by the model and by the specification. *)
Example C10_hist_example :
  agree (KHist ex_hist) = true /\ spec_ok (KHist ex_hist) = true
  /\ contents (state_after ex_hist 3) 0%nat = ex_m1 /\ contents (state_after ex_hist 6) 0%nat = ex_m1
  /\ contents (state_after ex_hist 6) 1%nat = ex_m2
  /\ edge_slim ex_m0 = [0] /\ edge_slim ex_m1 = [0; 1] /\ edge_native ex_m2 = [(1, 0)]
  /\ check (KHist ex_hist_stale) = 2%nat /\ check (KHist ex_hist_alias) = 2%nat.
Proof. vm_compute. repeat split. Qed.

(* ------------------------------------------------------------------ hardening pass: devices of the correspondence harness *)
(* Geometry scaling.  The harness also builds masks whose pixel scales and origin are g * 2^e (tiny / huge magnitudes) and
   divides the observed coordinates by 2^e; every coordinate view of the model is homogeneous of degree one in the geometry
   (scale_geom c g = (c*sy, c*sx, c*oy, c*ox), scale_pt c (y, x) = (c*y, c*x)), and scaling loses nothing (c <> 0). *)
Theorem C10_grid_views_scale : forall m c g,
  grid_edge m (scale_geom c g) = map (scale_pt c) (grid_edge m g)
  /\ grid_border m (scale_geom c g) = map (scale_pt c) (grid_border m g)
  /\ (forall kh kw, blurring_grid_from m kh kw (scale_geom c g)
                    = match blurring_grid_from m kh kw g with Ok l => Ok (map (scale_pt c) l) | Raise e => Raise e end)
  /\ (forall l, grid_of m (scale_geom c g) l = map (scale_pt c) (grid_of m g l)).
Proof. exact grid_views_scale. Qed.
Theorem C10_scale_injective : forall c p q, c <> 0 -> scale_pt c p = scale_pt c q -> p = q.
Proof. exact scale_pt_inj. Qed.
Example C10_scale_example :
  grid_edge ex_m1 (scale_geom 1024 (2, 1, 1, -2)) = map (scale_pt 1024) (grid_edge ex_m1 (2, 1, 1, -2))
  /\ grid_edge ex_m1 (2, 1, 1, -2) <> [].
Proof. vm_compute. split; [reflexivity|discriminate]. Qed.
(* The same operation observed twice on an unchanged object is one judgement (every case of the input-kind streams is
   evaluated twice on the same objects). *)
Theorem C10_hist_repeated_read : forall P D st o k t,
  hist_ok P D st (HRead o k :: HRead o k :: t) = hist_ok P D st (HRead o k :: t).
Proof. exact hist_repeat_read. Qed.

Print Assumptions C10_blurring_util_is_spec. Print Assumptions C10_blurring_from_is_spec.
Print Assumptions C10_blurring_exact. Print Assumptions C10_blurring_error_iff_footprint_leaves.
Print Assumptions C10_blurring_ok_iff_footprints_inside. Print Assumptions C10_blurring_result_or_mask_exception.
Print Assumptions C10_blurring_from_even_raises. Print Assumptions C10_blurring_grid_is_spec.
Print Assumptions C10_nbrs_meaning. Print Assumptions C10_must_edge_meaning. Print Assumptions C10_interior_meaning.
Print Assumptions C10_edge_slim_exact. Print Assumptions C10_edge_sound. Print Assumptions C10_edge_complete.
Print Assumptions C10_edge_complete_px. Print Assumptions C10_edge_slim_order. Print Assumptions C10_edge_total.
Print Assumptions C10_check_if_edge_pixel. Print Assumptions C10_edge_spec_accepts_model.
Print Assumptions C10_slim_index_bijection.
Print Assumptions C10_walk_clear_meaning. Print Assumptions C10_border_exact. Print Assumptions C10_border_membership.
Print Assumptions C10_border_slim_order.
Print Assumptions C10_views_agree_edge. Print Assumptions C10_views_agree_border.
Print Assumptions C10_mask_edge_entries. Print Assumptions C10_mask_border_entries.
Print Assumptions C10_build_entries. Print Assumptions C10_memp_meaning.
Print Assumptions C10_edge_buffed_is_spec. Print Assumptions C10_buffed_util_is_spec. Print Assumptions C10_buffed_spec_meaning.
Print Assumptions C10_spec_accepts_model. Print Assumptions C10_check_zero_iff_agree.
Print Assumptions C10_hist_agree_iff. Print Assumptions C10_hist_reads_accepted. Print Assumptions C10_hist_views_current.
Print Assumptions C10_hist_ok_stepwise. Print Assumptions C10_hist_reads_change_nothing. Print Assumptions C10_hist_read_keeps_state.
Print Assumptions C10_hist_edit_contents. Print Assumptions C10_edit_entries. Print Assumptions C10_edit_keeps_shape.
Print Assumptions C10_hist_copy_then_edit_copy. Print Assumptions C10_hist_copy_then_edit_original.
Print Assumptions C10_derived_masks_are_spec. Print Assumptions C10_spec_accepts_model_op.
Print Assumptions C10_grid_views_scale. Print Assumptions C10_scale_injective. Print Assumptions C10_hist_repeated_read.
